"""C14 -- imports bind the same objects to the same names."""
import json, os, sys
from common import Check, fresh_oneliner, load_known_findings, StepLimit
import gen_prog, lower_common

VEND = os.path.join(os.path.dirname(os.path.abspath(__file__)), "vend")
FORMS = ["import pk", "import pk.sub", "import pk.sub as s", "import pk.sub.deep", "import pk.sub.deep as d", "import pk, pk2", "import pk.mod, pk2 as q",
         "import pk2 as a, pk.sub.leaf as b, pk.mod", "import pk.sub, pk.sub.deep", "import pk.sub.leaf",
         "from pk import sub", "from pk import attr", "from pk import mod", "from pk import mod as m, attr as a", "from pk.sub import leaf",
         "from pk.sub.leaf import val as v", "from pk import sub, mod", "from pk.sub import deep, attr as at", "from pk.sub.deep import attr",
         "from . import mod", "from .sub import leaf", "from .mod import val", "from . import mod as mm, sub", "from .sub.deep import attr as da",
         "from .. import sub as up", "from ..sub import leaf as ul", "from ..mod import val as uv"]
# imports next to the constructs that need the OTHER helper module (while -> itertools, for + break -> the iterator wrapper preset)
WITH_LOOPS = ["n = 2\nwhile n:\n    n -= 1\nimport pk.sub as s\nL(s.__name__)", "import pk2 as q\nn = 1\nwhile n:\n    n -= 1\n    import pk.mod as m\nL(q.__name__, m.__name__)",
              "for i in [1, 2]:\n    if i == 2:\n        break\n    import pk.sub.leaf as lf\nL(lf.__name__)",
              "from pk import mod\nn = 1\nwhile n:\n    n -= 1\nfor j in [1]:\n    break\nimport pk2\nL(mod.__name__, pk2.__name__)"]
SEQUENCES = ["import pk.sub\nimport pk.sub\nfrom pk import sub as again", "from pk import mod\nimport pk.mod as m2\nimport pk",
             "import pk2\nimport pk.sub.deep as d\nfrom pk.sub import deep"]


def clean():
    import olv_log
    for k in list(sys.modules):
        if k == 'pk' or k.startswith('pk.') or k == 'pk2' or k == 'pk3' or k.startswith('pk3.'):
            del sys.modules[k]
    olv_log.LOG.clear()


def run(code, mode, pkg):
    import olv_log
    clean()
    out = []
    g = {'L': lambda *a: out.append(repr(a))}
    if pkg:
        g['__package__'] = pkg
        g['__name__'] = pkg + '.client'
        # the enclosing packages of a relative import must be importable: they are, and importing them is part of both runs
    try:
        with StepLimit():
            if mode == 'exec':
                exec(compile(code, '<s>', 'exec'), g)
            else:
                eval(compile(code, '<o>', 'eval'), g)
    except BaseException as e:
        out.append('EXC ' + type(e).__name__ + ' ' + str(e)[:60])
    names = {}
    for k, v in g.items():
        if k in ('L', '__builtins__', '__package__', '__name__', 'importlib', 'itertools') or k.startswith('__ol_'):
            continue
        names[k] = ("module:" + v.__name__) if hasattr(v, '__spec__') else ("callable" if callable(v) else repr(v))
    # identity of bound module objects: the object bound must be the one in sys.modules
    ident = sorted((k, sys.modules.get(v.__name__) is v) for k, v in g.items() if hasattr(v, '__spec__') and not k.startswith('__ol_') and k not in ('importlib', 'itertools'))
    return out, list(olv_log.LOG), sorted(names.items()), ident, sorted(k for k in sys.modules if k.startswith('pk'))


def program(form, place):
    lines = form.split("\n")
    if place == 'module':
        return form + "\n"
    if place == 'function':
        return "def fn():\n" + "".join("    " + l + "\n" for l in lines) + \
               "    L(sorted((k, getattr(v, '__name__', v)) for k, v in locals().items() if not k.startswith('__ol_')))\nfn()\n"
    if place == 'class':
        return "class C:\n" + "".join("    " + l + "\n" for l in lines) + \
               "L(sorted((k, getattr(v, '__name__', v)) for k, v in vars(C).items() if not k.startswith('__')))\n"
    if place == 'conditional':
        return "if True:\n" + "".join("    " + l + "\n" for l in lines) + "for _i in range(2):\n" + "".join("    " + l + "\n" for l in lines)
    if place == 'captured':
        # the name bound by the import is read by a nested function (a cell variable)
        bound = []
        for l in lines:
            for part in l.replace("import", ",").replace("from", ",").split(","):
                pass
        return "def outer():\n" + "".join("    " + l + "\n" for l in lines) + \
               "    def inner():\n        return sorted((k, getattr(v, '__name__', v)) for k, v in CAP().items())\n" + \
               "    CAP = lambda: {k: v for k, v in locals().items() if k not in ('inner', 'CAP') and not k.startswith('__ol_')}\n    return inner()\nL(outer())\n"
    if place in ('captured-def', 'captured-twice'):
        # the names bound by the import are read by a nested def (real cell variables); 'captured-twice': a function
        # further out binds the same names too, so a wrong owner would be visible
        import ast as _ast
        bound = []
        try:
            for st in _ast.parse(form).body:
                if isinstance(st, (_ast.Import, _ast.ImportFrom)):
                    for a in st.names:
                        if a.name != "*":
                            bound.append(a.asname or a.name.split(".")[0])
        except SyntaxError:
            pass
        refs = ", ".join(f"('{b}', getattr({b}, '__name__', {b}))" for b in bound)
        inner = "".join("    " + l + "\n" for l in lines) + f"    def inner():\n        return [{refs}]\n    return inner()\n"
        if place == 'captured-def':
            return "def outer():\n" + inner + "L(outer())\n"
        pre = "".join(f"    {b} = 'outermost'\n" for b in bound)
        return "def outermost():\n" + pre + "    def outer():\n" + "".join("    " + l for l in inner.splitlines(True)) + \
               "    return outer(), [" + ", ".join(bound) + "]\nL(outermost())\n"
    if place == 'nested-function':
        return "def outer():\n    def fn():\n" + "".join("        " + l + "\n" for l in lines) + \
               "        return sorted((k, getattr(v, '__name__', v)) for k, v in locals().items() if not k.startswith('__ol_'))\n    return fn()\nL(outer())\n"


def main(argv):
    ck = Check("C14", argv)
    ol = fresh_oneliner()
    if VEND not in sys.path:
        sys.path.insert(0, VEND)
    if ck.replay_file:
        return replay(ck, ol)
    b = ck.build(["OlVerif.Props.C14"])
    if not b["built"].get("OlVerif.Props.C14", False):
        ck.broken.append("lean: OlVerif.Props.C14 does not build: " + b["log"][-1200:])
    else:
        ck.audit("OlVerif/Audit/C14.lean")
    failing = []
    pairs = []
    for f in FORMS + SEQUENCES + WITH_LOOPS:
        level = 0
        if f.startswith('from ..'):
            level = 2
        elif f.startswith('from .'):
            level = 1
        pkg = {0: None, 1: 'pk', 2: 'pk.sub'}[level]
        for place in ('module', 'function', 'class', 'conditional', 'nested-function', 'captured', 'captured-def', 'captured-twice'):
            src = program(f, place)
            o = run(src, 'exec', pkg)
            if any(x.startswith('EXC') for x in o[0]):
                ck.count("skipped_original_raises"); continue
            cfgs = gen_prog.CONFIGS if ck.tier == "thorough" else [gen_prog.CONFIGS[(len(f) + len(place)) % 8], gen_prog.CONFIGS[(len(f) * 3 + 1) % 8]]
            for cfg in cfgs:
                ck.case(f"{cfg}|{pkg}|{src}")
                ck.count("placement:" + place)
                ck.count("level:%d" % level)
                try:
                    conv = ol.convert_code_string(src, configs=gen_prog.mk_configs(ol, cfg))
                    compile(conv, '<o>', 'eval')
                    c = run(conv, 'eval', pkg)
                except BaseException as e:
                    c = ('CONVERT/COMPILE ' + type(e).__name__ + ' ' + str(e)[:80],)
                    conv = None
                if o != c:
                    failing.append((src, cfg, pkg, f"original (output, import log, bindings, identity, sys.modules) = {o}; converted = {c}", conv))
            pairs.append((src, (cfgs[0][1], cfgs[0][2])))
            if len(ck.samples) < 4 and place == 'function' and f in ("import pk.sub.deep", "from .sub import leaf"):
                ck.sample({"form": f, "placement": place, "package": pkg, "import_log": o[1], "bindings": o[2]})
    # a package that rebinds the attribute named like its submodule (known finding KF-D76: CPython binds getattr(pkg, name))
    kfs = {k["kf"]: k for k in load_known_findings("C14") if k.get("status") == "open"}
    kf_seen = set()
    for place in ('module', 'function'):
        src = program("import pk3.shadow as sh", place)
        o = run(src, 'exec', None)
        cfg = gen_prog.CONFIGS[0]
        ck.case(f"{cfg}|None|{src}")
        ck.count("placement:" + place)
        try:
            conv = ol.convert_code_string(src, configs=gen_prog.mk_configs(ol, cfg))
            c = run(conv, 'eval', None)
        except BaseException as e:
            c = ('CONVERT/COMPILE ' + type(e).__name__ + ' ' + str(e)[:80],)
            conv = None
        if o != c:
            if "KF-D76" in kfs and o[1] == c[1] and o[4] == c[4]:
                # same modules imported in the same order, same sys.modules delta: only the object bound differs
                kf_seen.add("KF-D76")
            else:
                failing.append((src, cfg, None, f"original = {o}; converted = {c}", conv))
    for kf in sorted(kf_seen):
        ck.known(kf, kfs[kf]["what"])
    clean()
    k_bad = []
    if b["driver_ok"]:
        for src, cfg, ok, detail in lower_common.compare(ol, pairs):
            if ok:
                ck.count("K_agree")
            else:
                k_bad.append((src, cfg, detail))
    # bridge M-LOWER -> M-IMPORT: the hypothesis of C14.plan_is_model, evaluated by the model on every alias of every program
    if b["driver_ok"]:
        import leandrv
        hyp_bad = []
        for (src, cfg), r in zip(pairs, leandrv.run_batch(lower_common.model_requests(pairs))):
            if r.get("imp_ok") is True:
                ck.count("bridge_hypothesis_holds")
            else:
                hyp_bad.append(src)
        if hyp_bad:
            ck.broken.append(f"hypothesis of C14.plan_is_model (text-level = path-level view of a dotted name) fails on {len(hyp_bad)} programs, first: {hyp_bad[0]!r}")
    if k_bad:
        ck.broken.append(f"correspondence K(lowerFull = convert): {len(k_bad)} import programs differ, first: {k_bad[0][2][:300]} on {k_bad[0][0]!r}")
    failing.sort(key=lambda f: len(f[0]))
    for src, cfg, pkg, why, conv in failing[:3]:
        ck.violation({"kind": "import", "source": src, "config": list(cfg), "package": pkg, "observed": why, "converted": conv,
                      "expected": "same import log of the vendored package, same names bound to the same objects, same sys.modules delta", "broken_obligations": ck.broken})
    if ck.broken and not failing:
        ck.violation({"kind": "obligation", "broken_obligations": ck.broken, "searched": "all import forms x placements on the real converter: same modules, order and bindings"}, no_input=True)
    return ck.finish(
        rule="every statement form (import a / a.b / a.b.c, with and without alias, several modules in one statement, from-import of attributes and of "
             "not-yet-imported submodules with and without alias, relative level 1 and 2, repeated imports) x {module, function, class, conditional + loop, "
             "nested function, enclosing function with the bound names captured by a nested function} placement x 2 (quick) / 8 (thorough) option combinations, against a vendored package tree whose modules log their own import; "
             "observed: import log, names bound, identity of bound module objects with sys.modules, sys.modules delta; exhaustive over the form list",
        extra={"R_failures": len(failing), "K_disagreements": len(k_bad), "forms": len(FORMS) + len(SEQUENCES)},
        assumptions=["__import__ and importlib.import_module behave as documented (M-IMPORT states their contracts); validated here against CPython on every form"])


def replay(ck, ol):
    r = json.load(open(ck.replay_file))
    if "source" not in r:
        print("replay file names a broken obligation, no input:", r.get("broken_obligations")); return 0
    o = run(r["source"], 'exec', r.get("package"))
    conv = ol.convert_code_string(r["source"], configs=gen_prog.mk_configs(ol, tuple(r["config"])))
    c = run(conv, 'eval', r.get("package"))
    print(r["source"]); print("original:", o); print("converted:", c)
    return 0 if o == c else 1


if __name__ == "__main__":
    sys.exit(main(sys.argv[1:]))
