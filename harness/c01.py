"""C01 -- the converted one-liner behaves exactly like the source script."""
import ast, json, sys
from common import Check, fresh_oneliner
import gen_prog, lower_common, inject, par

OL = None


SK_PRELUDE = """_n = [0]
def m(i):
    _n[0] += 1
    print('m', i)
    return [None, 0, 1, 'v'][(i + _n[0]) % 4]
def c(i):
    _n[0] += 1
    v = (i * 7 + _n[0] * 3) % 5 < 3 and _n[0] < 60
    print('c', i, v)
    return v
def r(i):
    print('r', i)
    return ('rv', i)
def it(i):
    _n[0] += 1
    print('it', i)
    return range((i + _n[0]) % 4)
RESULT = []
"""


def work(item):
    name, src, cfgs = item
    out = []
    for cfg in cfgs:
        v, text = gen_prog.behaviour_check(OL, src, cfg)
        out.append((cfg, v, text if v.startswith("fail") else None))
    return out


def main(argv):
    global OL
    ck = Check("C01", argv)
    ol = OL = fresh_oneliner()
    if ck.replay_file:
        return replay(ck, ol)
    b = ck.build(["OlVerif.Props.C01"])
    if not b["extract_ok"]:
        ck.broken.append("translator: " + b["log"][-300:])
    if not b["built"].get("OlVerif.Props.C01", False):
        ck.broken.append("lean: OlVerif.Props.C01 does not build: " + b["log"][-1500:])
    else:
        ck.audit("OlVerif/Audit/C01.lean")
    n = 160 if ck.tier == "quick" else 4000
    items = []
    feats_all = {}
    for i in range(n):
        src, feats = gen_prog.gen_program(ck.rng)
        cfgs = gen_prog.CONFIGS if (ck.tier == "thorough" or i % 4 == 0) else [gen_prog.CONFIGS[(i + 3 * j) % 8] for j in range(3)]
        items.append((f"gen#{i}", src, cfgs))
        for f in feats:
            ck.count("feature:" + f)
    for name, src in inject.CURATED:
        items.append(("curated:" + name, src, gen_prog.CONFIGS))
    known = inject.known_shapes()
    failing = []
    results = par.pmap(work, items)
    for (name, src, cfgs), res in zip(items, results):
        for cfg, v, text in res:
            ck.case(f"{cfg}|{src}", nontrivial=not v.startswith("skip"))
            ck.count("verdict:" + v.split(":")[0])
            if v.startswith("fail"):
                kf = inject.match_known(known, src, v.replace("fail:converted nocompile", "fail:output does not compile"), "C01")
                if kf:
                    ck.count("attributed_to_" + kf)
                else:
                    failing.append((name, src, cfg, v, text))
        if len(ck.samples) < 4 and name.endswith("7"):
            ck.sample({"case": name, "source": src[:700], "verdicts": [v for _, v, _ in res]})
    # simple statements of every target shape at every kind of position, with effectful probes as subexpressions:
    # the ordered log of effects and the names bound must be the script's (harness/order_probe.py)
    import order_probe, forms
    n_probe = 200 if ck.tier == "quick" else 4000
    fixed = [(src, u) for src in order_probe.index_programs("PROBE_") for u in (0, 4)]      # both unparsers
    for i in range(n_probe + len(fixed)):
        if i < len(fixed):
            pl, src = "index-shapes", fixed[i][0]
            cfg = gen_prog.CONFIGS[fixed[i][1] + (i + ck.seed) % 4]
        else:
            pl = order_probe.PLACEMENTS[i % len(order_probe.PLACEMENTS)]
            src = order_probe.Gen(ck.rng, ).program_at(pl).replace("__probe", "PROBE_").replace("__dump", "DUMP_")
            cfg = gen_prog.CONFIGS[(i * 3 + ck.seed) % 8]
        try:
            conv = ol.convert_code_string(src, configs=gen_prog.mk_configs(ol, cfg))
        except BaseException as e:
            failing.append(("probe@" + pl, src, cfg, f"fail:conversion raised {type(e).__name__}: {e}", None)); continue
        for inplace in (True, False):
            l0, e0 = order_probe.run(src, "exec", inplace, probe="PROBE_", dump="DUMP_")
            if e0 is not None:
                ck.count("probe_skipped_original_raises"); continue
            l1, e1 = order_probe.run(conv, "eval", inplace, probe="PROBE_", dump="DUMP_")
            ck.case(f"probe|{inplace}|{cfg}|{src}")
            ck.count("probe_placement:" + pl)
            if (l0, e0) != (l1, e1):
                failing.append(("probe@" + pl, src, cfg, f"fail:effects differ (in-place operators {inplace}): original {l0} converted {l1} {e1 or ''}", conv))
                break
    # control-flow skeletons (C05's targeted families and random ones) as ordinary programs: deterministic probes that print
    import gen_skel
    sk = []
    for pl in ("module", "function", "class", "method"):
        fam = gen_skel.families(pl in ("function", "method"))
        sk += [(pl, b_) for b_ in (fam if ck.tier == "thorough" else ck.rng.sample(fam, 14))]
        sk += [(pl, gen_skel.random_skeleton(ck.rng, ck.rng.randrange(4, 10), 4, pl in ("function", "method"))) for _ in range(12 if ck.tier == "quick" else 300)]
    for i, (pl, blk) in enumerate(sk):
        src = SK_PRELUDE + gen_skel.source(blk, pl) + "print(RESULT)\n"
        cfg = gen_prog.CONFIGS[(i + ck.seed) % 8]
        v, text = gen_prog.behaviour_check(ol, src, cfg)
        ck.case(f"skeleton|{cfg}|{src}", nontrivial=not v.startswith("skip"))
        ck.count("skeleton:" + v.split(":")[0])
        if v.startswith("fail"):
            failing.append(("control-skeleton@" + pl, src, cfg, v, text))
    # straight-line module programs inside the fragment of C01.module_straightline_semantics (M-EVAL): the theorem's
    # hypothesis (simpleModuleB, proved sound) is evaluated by the model on each; behaviour is compared as for every program
    import straight, leandrv
    sl = straight.programs(ck.rng, 150 if ck.tier == "quick" else 3000)
    sl_items = [(src, gen_prog.CONFIGS[(i + ck.seed) % 8]) for i, src in enumerate(sl)]
    sl_simple = [None] * len(sl_items)
    if b["driver_ok"]:
        sl_replies = list(leandrv.run_batch(lower_common.model_requests([(s_, (c_[1], c_[2])) for s_, c_ in sl_items])))
        sl_simple = [r.get("simple") or r.get("simple_w") for r in sl_replies]
        ck.count("theorem_module_with_while_covers", sum(1 for r in sl_replies if r.get("simple_w") and not r.get("simple")))
    covered = 0
    from common import load_known_findings
    known_all = load_known_findings("C01")
    for (src, cfg), simple in zip(sl_items, sl_simple):
        v, text = gen_prog.behaviour_check(ol, src, cfg)
        ck.case(f"{cfg}|{src}", nontrivial=not v.startswith("skip"))
        ck.count("straight_line:" + v.split(":")[0])
        if simple and not v.startswith("skip"):
            covered += 1
        if v.startswith("fail") and cfg[2] == "short_circuit" and "log.append('bool:%r' % (s.v,))" in src:
            # KF-D61b: does the difference vanish when the truth test of the condition objects has no visible effect?
            v2, _ = gen_prog.behaviour_check(ol, src.replace("log.append('bool:%r' % (s.v,))", "None"), cfg)
            if v2 == "ok" and any(k["kf"] == "KF-D61b" and k.get("status") == "open" for k in known_all):
                ck.count("attributed_to_KF-D61b")
                continue
        if v.startswith("fail"):
            failing.append(("straight-line" + (" (inside the hypothesis of C01.module_straightline_semantics)" if simple else ""), src, cfg, v, text))
    ck.count("theorem_module_straightline_covers", covered)
    if b["driver_ok"] and covered == 0:
        ck.broken.append("coverage: no generated straight-line program satisfies the hypothesis of C01.module_straightline_semantics")
    k_bad = []
    if b["driver_ok"]:
        pairs = [(s_, (c_[1], c_[2])) for s_, c_ in sl_items]
        pairs += [(src, (cfgs[0][1], cfgs[0][2])) for _, src, cfgs in items] + [(src, (cfgs[-1][1], cfgs[-1][2])) for _, src, cfgs in items[::3]]
        # every statement form x placement of the catalogue (structure only: the emitted tree is the model's)
        fps = [s_ for n_, s_ in forms.programs() if forms.compilable(s_)]
        step = 2 if ck.tier == "quick" else 1
        pairs += [(s_, (gen_prog.CONFIGS[(i + ck.seed) % 8][1], gen_prog.CONFIGS[(i + ck.seed) % 8][2])) for i, s_ in enumerate(fps) if (i + ck.seed) % step == 0]
        for src, cfg, ok, detail in lower_common.compare(ol, pairs):
            if ok:
                ck.count("K_agree")
            else:
                k_bad.append((src, cfg, detail))
    else:
        ck.broken.append("lean: the driver (model) does not build")
    if k_bad and not failing:
        # failing-input search: the programs on which model and code disagree, under all 8 configurations
        for src, cfg, detail in k_bad[:80]:
            for c8 in gen_prog.CONFIGS:
                v, text = gen_prog.behaviour_check(ol, src, c8)
                ck.count("search_runs")
                if v.startswith("fail") and not inject.match_known(known, src, v, "C01"):
                    failing.append(("k-disagreement", src, c8, v, text))
                    break
            if len(failing) >= 3:
                break
    if k_bad:
        ck.broken.append(f"correspondence K(lowerFull = convert): {len(k_bad)} programs differ, first: {k_bad[0][2][:300]} on {k_bad[0][0][:300]!r}")
    for k in known:
        if "C01" in k.get("properties", []) and "source" in k.get("witness", {}):
            v, _ = gen_prog.behaviour_check(ol, k["witness"]["source"], tuple(k["witness"].get("config", gen_prog.CONFIGS[0])))
            if v.startswith("fail"):
                ck.known(k["kf"], k["what"])
    # regression corpus: the witnesses of the repaired defects (a `fixed` record suppresses nothing)
    for k in load_known_findings():
        w = k.get("witness", {})
        behavioural = set(k.get("properties", [])) & {"C01", "C05", "C06", "C07", "C09", "C11", "C12", "C13", "C14"}
        if k.get("status") == "fixed" and isinstance(w.get("source"), str) and behavioural and "C08" not in k.get("properties", []):
            cfgs_w = [tuple(w["config"])] if "config" in w else [gen_prog.CONFIGS[0], gen_prog.CONFIGS[7]]
            for cfg in cfgs_w:
                v, text = gen_prog.behaviour_check(ol, w["source"], cfg)
                ck.case(f"regression|{cfg}|{w['source']}", nontrivial=not v.startswith("skip"))
                ck.count("regression_corpus:" + v.split(":")[0])
                if v.startswith("fail"):
                    failing.append(("regression of " + k["kf"], w["source"], cfg, v, text))
    failing.sort(key=lambda f: len(f[1]))
    for name, src, cfg, v, text in failing[:3]:
        ck.violation({"kind": "behaviour", "case": name, "source": src, "config": list(cfg), "observed": v, "converted": text,
                      "expected": "same stdout and same user globals as exec(source)", "broken_obligations": ck.broken})
    if ck.broken and not failing:
        ck.violation({"kind": "obligation", "broken_obligations": ck.broken,
                      "searched": f"{len(items)} programs x configurations on the real converter: same stdout and globals",
                      "k_disagreements": [{"source": s[:800], "config": list(c), "detail": d[:400]} for s, c, d in k_bad[:10]]}, no_input=True)
    return ck.finish(
        rule="seeded structured programs of the supported fragment (feature mix counted under stats.feature:*), run to completion without exception, "
             "x 3 or 8 (quick) / 8 (thorough) option combinations, plus curated edge programs x 8; observable = stdout + user globals of exec(source) "
             "vs eval(converted) in fresh namespaces; distinct by (config, source); non-trivial = the original ran to completion; plus random simple statements "
             "with effectful probes at 10 kinds of position (ordered effect log + names bound), straight-line module programs inside the fragment of the M-EVAL theorem "
             "(its hypothesis evaluated by the model on each), and the tree comparison K over the catalogue of statement forms x placements",
        extra={"R_failures": len(failing), "K_disagreements": len(k_bad), "programs": len(items)},
        assumptions=["the fragment generated avoids the shapes of the open known findings (known_findings.jsonl), which are replayed separately"])


def replay(ck, ol):
    r = json.load(open(ck.replay_file))
    if "source" not in r:
        print("replay file names a broken obligation, no input:", r.get("broken_obligations")); return 0
    v, text = gen_prog.behaviour_check(ol, r["source"], tuple(r["config"]))
    print(r["source"]); print("converted:", text); print("observed:", v)
    return 1 if v.startswith("fail") else 0


if __name__ == "__main__":
    sys.exit(main(sys.argv[1:]))
