"""C06 -- every name resolves to the same variable after lowering of scopes."""
import collections, itertools, json, sys
from common import Check, fresh_oneliner, load_known_findings, StepLimit
import gen_prog, lower_common, par

OL = None
FROLES = ['none', 'read', 'assign', 'param', 'gassign', 'gread', 'nlassign', 'nlread', 'nlaug', 'gaug', 'fortarget', 'walrus', 'lamparam', 'comptarget',
          'lamread', 'compread', 'assign_late', 'import', 'defname', 'augassign', 'classname', 'subscript_index', 'lamdefault', 'genread',
          'nested_comp', 'lam_in_comp', 'comp_in_lam', 'kwdefault', 'posdefault', 'lamdefault_same', 'swap', 'lamkwparam', 'lamstarparam', 'defkwparam',
          'decoclassname', 'lamstarkwparam', 'lam_in_lam', 'compiter_same', 'assign_compiter', 'lamwalrus']
CROLES = ['none', 'read', 'assign', 'gassign', 'nlassign', 'read_then_assign', 'compread', 'lamread', 'fortarget', 'walrus', 'genread',
          'decoclass', 'lamlamread', 'lamcompread', 'complamread', 'lamstarkw', 'compiter_same', 'assign_lam_read', 'assign_lam_compiter', 'assign_compread', 'lamwalrus']


def body(kind, role, tag, ind):
    p = '    ' * ind
    L = []
    def log(e): L.append(f"{p}log('{tag}', {e})")
    if kind == 'f':
        if role == 'none': L.append(p + 'pass')
        elif role == 'read': log('x')
        elif role == 'assign': L.append(f"{p}x = '{tag}'"); log('x')
        elif role == 'param': log('x')
        elif role == 'gassign': L += [p + 'global x', f"{p}x = '{tag}'"]; log('x')
        elif role == 'gread': L += [p + 'global x']; log('x')
        elif role == 'nlassign': L += [p + 'nonlocal x', f"{p}x = '{tag}'"]; log('x')
        elif role == 'nlread': L += [p + 'nonlocal x']; log('x')
        elif role == 'nlaug': L += [p + 'nonlocal x', f"{p}x += '{tag}'"]; log('x')
        elif role == 'gaug': L += [p + 'global x', f"{p}x += '{tag}'"]; log('x')
        elif role == 'fortarget': L += [f"{p}for x in ['{tag}a', '{tag}b']:", f"{p}    log('{tag}i', x)"]; log('x')
        elif role == 'walrus': L += [f"{p}log('{tag}w', (x := '{tag}'))"]; log('x')
        elif role == 'lamparam': L += [f"{p}log('{tag}l', (lambda x: x)('{tag}'))"]
        elif role == 'comptarget': L += [f"{p}log('{tag}c', [x for x in ['{tag}']])"]
        elif role == 'lamread': L += [f"{p}log('{tag}l', (lambda: x)())"]
        elif role == 'compread': L += [f"{p}log('{tag}c', [x for _ in [0]])"]
        elif role == 'genread': L += [f"{p}log('{tag}g', list(x for _ in [0]))"]
        elif role == 'assign_late': L.append(p + 'pass')
        elif role == 'import': L += [f"{p}import sys as x"]; log('x.__name__')
        elif role == 'defname': L += [f"{p}def x(): return '{tag}'"]; log('x()')
        elif role == 'augassign': L += [f"{p}x = '{tag}'", f"{p}x += '+'"]; log('x')
        elif role == 'classname': L += [f"{p}class x: v = '{tag}'"]; log('x.v')
        elif role == 'decoclassname': L += [f"{p}@(lambda c: type(c.__name__, (c,), {{'d': '{tag}d'}}))", f"{p}class x: v = '{tag}'"]; log("(x.v, getattr(x, 'd', None))")
        elif role == 'lamstarkwparam': L += [f"{p}log('{tag}l', (lambda *a, **x: sorted(x.items()))(1, k='{tag}'), (lambda *x, **k: (x, sorted(k)))('{tag}s', x=1))"]
        elif role == 'lam_in_lam': L += [f"{p}log('{tag}n', (lambda: (lambda: x)())(), (lambda: [(lambda: x)() for _ in [0]])())"]
        elif role == 'compiter_same': L += [f"{p}log('{tag}c', [x for x in x], [y for y in x])"]
        elif role == 'lamwalrus': L += [f"{p}log('{tag}w', (lambda: (x := '{tag}') + x)(), (lambda: [(x := '{tag}' + i) for i in 'ab'] + [x, (lambda: x)()])(), x)"]
        elif role == 'assign_compiter': L += [f"{p}x = '{tag}'", f"{p}log('{tag}c', [x for x in x], [[x for x in x] for x in [x]], [x for x in [x] for x in x])"]
        elif role == 'subscript_index': L += [f"{p}d_{tag} = {{}}", f"{p}d_{tag}[x] = '{tag}'", f"{p}d_{tag}[x] += '+'"]; log(f"sorted(d_{tag}.items())")
        elif role == 'lamkwparam': L += [f"{p}log('{tag}l', (lambda *, x: x)(x='{tag}k'), (lambda a, *, x='{tag}d': (a, x))(1))"]
        elif role == 'lamstarparam': L += [f"{p}log('{tag}l', (lambda *x: x)('{tag}s'), (lambda **x: sorted(x.items()))(k='{tag}'))"]
        elif role == 'defkwparam': L += [f"{p}def h_{tag}(*x, **kw):", f"{p}    return x", f"{p}def k_{tag}(*, x='{tag}d'):", f"{p}    return x"]; log(f"(h_{tag}('{tag}s'), k_{tag}(), k_{tag}(x='{tag}k'))")
        elif role == 'lamdefault': L += [f"{p}log('{tag}d', (lambda y=x: y)())"]
        elif role == 'lamdefault_same': L += [f"{p}log('{tag}d', (lambda x=x: x)(), (lambda *, x=x: x)())"]
        elif role == 'swap': L += [f"{p}y_{tag} = '{tag}y'", f"{p}x, y_{tag} = y_{tag}, x"]; log(f"(x, y_{tag})")
        elif role == 'nested_comp': L += [f"{p}log('{tag}n', [[x for _ in [0]] for x in ['{tag}']], [[x for x in ['{tag}i']] for _ in [0]])"]
        elif role == 'lam_in_comp': L += [f"{p}log('{tag}n', [(lambda: x)() for x in ['{tag}']], [(lambda x: [x for _ in [0]])(y) for y in ['{tag}']])"]
        elif role == 'comp_in_lam': L += [f"{p}log('{tag}n', (lambda x: [x for _ in [0]])('{tag}'), (lambda x: (lambda: x)())('{tag}'))"]
        elif role == 'kwdefault': L += [f"{p}def h_{tag}(*, k=x, j=0):", f"{p}    return (k, j)"]; log(f"h_{tag}()")
        elif role == 'posdefault': L += [f"{p}def h_{tag}(a=x, /, b=x):", f"{p}    return (a, b)"]; log(f"h_{tag}()")
    else:
        if role == 'none': L.append(p + 'pass')
        elif role == 'read': L.append(f"{p}a_{tag} = x")
        elif role == 'assign': L += [f"{p}x = '{tag}'", f"{p}a_{tag} = x"]
        elif role == 'gassign': L += [p + 'global x', f"{p}x = '{tag}'", f"{p}a_{tag} = x"]
        elif role == 'nlassign': L += [p + 'nonlocal x', f"{p}x = '{tag}'", f"{p}a_{tag} = x"]
        elif role == 'read_then_assign': L += [f"{p}a_{tag} = x", f"{p}x = '{tag}'", f"{p}b_{tag} = x"]
        elif role == 'compread': L += [f"{p}a_{tag} = [x for _ in [0]]"]
        elif role == 'genread': L += [f"{p}a_{tag} = list(x for _ in [0])"]
        elif role == 'lamread': L += [f"{p}a_{tag} = (lambda: x)()"]
        elif role == 'lamlamread': L += [f"{p}a_{tag} = (lambda: (lambda: x)())()"]
        elif role == 'lamcompread': L += [f"{p}a_{tag} = (lambda: [x for _ in [0]])()"]
        elif role == 'complamread': L += [f"{p}a_{tag} = [(lambda: x)() for _ in [0]]"]
        elif role == 'compiter_same': L += [f"{p}a_{tag} = ([x for x in x], [y for y in x], list(x for x in x))"]
        elif role == 'assign_lam_read': L += [f"{p}x = '{tag}'", f"{p}a_{tag} = (lambda: x)()", f"{p}def m_{tag}(k=x, *, j=x): return (k, j)", f"{p}b_{tag} = (x, m_{tag}(), x + '+')"]
        elif role == 'assign_lam_compiter': L += [f"{p}x = '{tag}'", f"{p}a_{tag} = list(x for _ in [0])", f"{p}b_{tag} = ([y for y in x], [x for x in x])"]
        elif role == 'lamwalrus': L += [f"{p}a_{tag} = ((lambda: (x := '{tag}') + x)(), (lambda: [(x := '{tag}' + i) for i in 'ab'] + [x, (lambda: x)()])(), x)"]
        elif role == 'assign_compread': L += [f"{p}x = '{tag}'", f"{p}a_{tag} = [x for _ in [0]]"]
        elif role == 'lamstarkw': L += [f"{p}a_{tag} = (lambda *a, **x: sorted(x.items()))(1, k='{tag}')", f"{p}b_{tag} = (lambda *x, **k: (x, sorted(k)))('{tag}s', x=1)"]
        elif role == 'decoclass': L += [f"{p}@(lambda c: type(c.__name__, (c,), {{'d': '{tag}d'}}))", f"{p}class x: v = '{tag}'", f"{p}a_{tag} = (x.v, getattr(x, 'd', None))"]
        elif role == 'fortarget': L += [f"{p}for x in ['{tag}a', '{tag}b']:", f"{p}    a_{tag} = x", f"{p}b_{tag} = x"]
        elif role == 'walrus': L += [f"{p}a_{tag} = (x := '{tag}')", f"{p}b_{tag} = x"]
    return L


def post(kind, role, tag, ind):
    p = '    ' * ind
    if kind == 'f':
        if role in ('none', 'lamparam', 'comptarget', 'lamread', 'compread', 'genread', 'lamdefault', 'nested_comp', 'lam_in_comp', 'comp_in_lam', 'lamdefault_same', 'lamkwparam', 'lamstarparam', 'defkwparam', 'lamstarkwparam', 'lam_in_lam', 'compiter_same', 'lamwalrus'): return []
        if role == 'assign_late': return [f"{p}x = '{tag}'", f"{p}log('{tag}post', x)"]
        if role == 'import': return [f"{p}log('{tag}post', x.__name__)"]
        if role == 'defname': return [f"{p}log('{tag}post', x())"]
        if role == 'classname': return [f"{p}log('{tag}post', x.v)"]
        if role == 'decoclassname': return [f"{p}log('{tag}post', (x.v, getattr(x, 'd', None)))"]
        if role == 'subscript_index': return [f"{p}log('{tag}post', sorted(d_{tag}.items()))"]
        return [f"{p}log('{tag}post', x)"]
    return []


def gen(mod_assign, chain):
    L = []
    if mod_assign:
        L.append("x = 'm'")
    def emit(i, ind):
        kind, role = chain[i]
        tag = f"s{i}"
        p = '    ' * ind
        if kind == 'f':
            L.append(f"{p}def f{i}({'x=' + repr(tag) if role == 'param' else ''}):")
        else:
            L.append(f"{p}class f{i}:")
        L.extend(body(kind, role, tag, ind + 1))
        if i + 1 < len(chain):
            emit(i + 1, ind + 1)
            if chain[i + 1][0] == 'f':
                L.append(f"{'    ' * (ind + 1)}f{i + 1}()")
            else:
                L.append(f"{'    ' * (ind + 1)}log('cls{i + 1}', sorted((k, v) for k, v in vars(f{i + 1}).items() if k[:2] in ('a_', 'b_') or k == 'x'))")
        L.extend(post(kind, role, tag, ind + 1))
    emit(0, 0)
    if chain[0][0] == 'f':
        L.append("f0()")
    else:
        L.append("log('cls0', sorted((k, v) for k, v in vars(f0).items() if k[:2] in ('a_', 'b_') or k == 'x'))")
    L.append("log('mod', globals().get('x', '<unset>'))")
    return "\n".join(L) + "\n"


def run(code, mode):
    out = []
    def norm(v):
        if isinstance(v, (list, tuple)): return type(v)(norm(i) for i in v)
        if isinstance(v, type): return 'cls'
        if callable(v): return 'fn'
        if hasattr(v, '__spec__'): return 'mod'
        return v
    g = {'log': lambda *a: out.append(repr(norm(a)))}
    try:
        with StepLimit():
            if mode == 'exec':
                exec(compile(code, '<s>', 'exec'), g)
            else:
                eval(compile(code, '<o>', 'eval'), g)
    except BaseException as e:
        return out, type(e).__name__
    return out, None


READS = {'read', 'nlread', 'lamread', 'compread', 'genread', 'nlassign', 'nlaug', 'subscript_index', 'lamdefault', 'kwdefault', 'posdefault', 'lamdefault_same', 'lam_in_lam', 'compiter_same', 'lamwalrus'}
LOCALBIND = {'assign', 'param', 'walrus', 'import', 'defname', 'assign_late', 'fortarget', 'augassign', 'classname', 'decoclassname', 'assign_compiter'}
CREADS = ('read', 'nlassign', 'compread', 'genread', 'lamread', 'read_then_assign', 'lamlamread', 'lamcompread', 'complamread', 'compiter_same', 'assign_lam_read', 'assign_lam_compiter', 'assign_compread', 'lamwalrus')


def binder_idx(chain, i):
    """index of the function scope Python binds a free x of scope i to, or None (global)"""
    for j in range(i - 1, -1, -1):
        k, r = chain[j]
        if k == 'c':
            continue
        if r in LOCALBIND:
            return j
        if r in ('gassign', 'gread', 'gaug'):
            return None
    return None


def classes(ma, chain):
    """syntactic shape classes of the open known findings"""
    cs = set()
    for i, (k, r) in enumerate(chain):
        free_here = (k == 'f' and r in READS) or (k == 'c' and r in CREADS)
        b = binder_idx(chain, i) if free_here else None
        if k == 'c' and r == 'read_then_assign':
            cs.add('KF-D27')
        if k == 'c' and r == 'assign_compread' and sys.version_info >= (3, 12):
            cs.add('KF-D72')
        if k == 'c' and r in ('assign_lam_read', 'assign_lam_compiter', 'assign_compread') and binder_idx(chain, i) is not None:
            cs.add('KF-D73')
        # D20: a global read (explicit or implicit) below an enclosing function that has a local of the same name
        reads_global = (r in ('gassign', 'gread', 'gaug')) or (free_here and b is None)
        if reads_global and any(chain[j][0] == 'f' and chain[j][1] in LOCALBIND for j in range(i)):
            cs.add('KF-D20')
    return cs


def observe(item):
    ma, chain, cfg = item
    src = chain if isinstance(chain, str) else gen(ma, chain)
    try:
        compile(src, '<s>', 'exec')
    except SyntaxError:
        return "skip:syntax", src, None
    o, oe = run(src, 'exec')
    if oe:
        return "skip:raises", src, None
    try:
        conv = OL.convert_code_string(src, configs=gen_prog.mk_configs(OL, cfg))
    except BaseException as e:
        return f"fail:conversion raised {type(e).__name__}: {str(e)[:80]}", src, None
    try:
        compile(conv, '<o>', 'eval')
    except SyntaxError as e:
        return f"fail:output does not compile: {e.msg}", src, conv
    c, ce = run(conv, 'eval')
    if ce:
        return f"fail:converted program raised {ce} after {c}", src, conv
    if c != o:
        i = next((k for k in range(min(len(o), len(c))) if o[k] != c[k]), min(len(o), len(c)))
        return f"fail:logged values differ at {i}: original {o[i:i+2]} converted {c[i:i+2]}", src, conv
    return "ok", src, conv


def super_free_programs():
    """methods that use the implicit __class__ cell (zero-argument super(), __class__) AND names of an enclosing
    function, in either order of first occurrence, at two depths"""
    out = []
    for bind in ('assign', 'param'):
        for use in ('read', 'nlassign', 'nlaug', 'inner-def', 'lambda'):
            for cell in ('super', 'dunder', 'both', 'two-arg'):
                for first in ('cell', 'name'):
                    for deep in (0, 1):
                        cellx = {'super': "super().m()", 'dunder': "__class__.__name__", 'both': "(super().m(), __class__.__name__)",
                                 'two-arg': "super(C, self).m()"}[cell]
                        usex = {'read': "x", 'nlassign': "x", 'nlaug': "x", 'inner-def': "g()", 'lambda': "(lambda: x)()"}[use]
                        pre = {'read': [], 'nlassign': ["nonlocal x", "x = x + '!'"], 'nlaug': ["nonlocal x", "x += '+'"],
                               'inner-def': ["def g():", "    return x + y"], 'lambda': []}[use]
                        if first == 'cell':
                            body = pre[:0] + [l for l in pre if l.startswith('nonlocal')] + ["r0 = " + cellx] + [l for l in pre if not l.startswith('nonlocal')] + ["return (r0, " + usex + ", y)"]
                        else:
                            body = pre + ["r1 = " + usex, "return (" + cellx + ", r1, y)"]
                        cls = ["class B:", "    def m(self):", "        return 'B'", "class C(B):", "    def m(self):"] + ["        " + l for l in body] + \
                              ["c = C()", "log('r', c.m(), c.m(), x, y)"]
                        if deep:
                            cls = ["def mid():", "    nonlocal y", "    y = y + 'm'"] + ["    " + l for l in cls] + ["mid()"]
                        head = "def outer(x='p'):" if bind == 'param' else "def outer():"
                        L = [head] + (["    x = 'o'"] if bind == 'assign' else []) + ["    y = 'y'"] + ["    " + l for l in cls] + ["    log('end', x, y)", "outer()"]
                        out.append((f"{bind}/{use}/{cell}/{first}/{deep}", "\n".join(L) + "\n"))
    return out


def observe_src(item):
    label, src, cfg = item
    return observe((None, src, cfg))


def main(argv):
    global OL
    ck = Check("C06", argv)
    ol = OL = fresh_oneliner()
    if ck.replay_file:
        return replay(ck, ol)
    b = ck.build(["OlVerif.Props.C06"])
    if not b["built"].get("OlVerif.Props.C06", False):
        ck.broken.append("lean: OlVerif.Props.C06 does not build: " + b["log"][-1200:])
    else:
        ck.audit("OlVerif/Audit/C06.lean")
    kinds = [('f', r) for r in FROLES] + [('c', r) for r in CROLES]
    chains = []
    for d in (1, 2):
        for chain in itertools.product(kinds, repeat=d):
            for ma in (0, 1):
                chains.append((ma, chain))
    d3 = [(ma, ch) for ch in itertools.product(kinds, repeat=3) for ma in (0, 1)]
    if ck.tier == "quick":
        chains += ck.rng.sample(d3, 2500)
    else:
        chains += d3
        d4 = 30000
        for _ in range(d4):
            chains.append((ck.rng.randrange(2), tuple(ck.rng.choice(kinds) for _ in range(4))))
    items = [(ma, ch, gen_prog.CONFIGS[(i * 3 + len(ch)) % 8]) for i, (ma, ch) in enumerate(chains)]
    results = par.pmap(observe, items)
    kfs = {k["kf"]: k for k in load_known_findings("C06") if k.get("status") == "open"}
    failing = []
    kf_seen = collections.Counter()
    by_class = collections.defaultdict(collections.Counter)
    pairs = []
    for (ma, ch, cfg), (verdict, src, conv) in zip(items, results):
        ck.case(f"{cfg}|{src}", nontrivial=not verdict.startswith("skip"))
        ck.count("verdict:" + verdict.split(":")[0])
        if verdict.startswith("skip"):
            continue
        ck.count("depth:%d" % len(ch))
        cs = classes(ma, ch)
        for c in cs or {"(none)"}:
            by_class[c]["fail" if verdict.startswith("fail") else "ok"] += 1
        if verdict.startswith("fail"):
            open_cs = [c for c in cs if c in kfs]
            if open_cs:
                for c in open_cs:
                    kf_seen[c] += 1
            else:
                failing.append((src, cfg, verdict, conv, [f"{a}:{b_}" for a, b_ in ch]))
        if len(pairs) < (1500 if ck.tier == "quick" else 20000) and (len(src) + ma) % 3 == 0:
            pairs.append((src, (cfg[1], cfg[2])))
        if len(ck.samples) < 4 and len(ch) == 3 and verdict == "ok" and not cs and ch[0][1] == 'assign' and ch[2][1] in ('nlaug', 'read'):
            ck.sample({"chain": [f"{a}:{b_}" for a, b_ in ch], "module_assign": ma, "source": src})
    # methods using the __class__ cell together with names of enclosing functions
    sf = super_free_programs()
    sf_items = [(label, src, gen_prog.CONFIGS[(i * 5 + k) % 8]) for i, (label, src) in enumerate(sf) for k in ((0, 3) if ck.tier == "quick" else range(8))]
    sf_results = par.pmap(observe_src, sf_items)
    for (label, src0, cfg), (verdict, src, conv) in zip(sf_items, sf_results):
        ck.case(f"{cfg}|{src}", nontrivial=not verdict.startswith("skip"))
        ck.count("super_free:" + verdict.split(":")[0])
        if verdict.startswith("fail"):
            failing.append((src, cfg, verdict, conv, ["super-free:" + label]))
        if not verdict.startswith("skip"):
            pairs.append((src, (cfg[1], cfg[2])))
    # the hypothesis WalkOK of C06.free_name_goes_to_binder on CPython's own tables, for every program of the matrix
    # (and of the generator's corpus): it must hold, otherwise the theorem does not speak about real programs
    walk_bad = []
    walk_srcs = [src for (_, _, _), (verdict, src, conv) in zip(items, results) if not verdict.startswith("skip")]
    walk_srcs += [src for (_, src, _), (verdict, _, _) in zip(sf_items, sf_results) if not verdict.startswith("skip")][::2]
    walk_srcs += [gen_prog.gen_program(ck.rng)[0] for _ in range(60 if ck.tier == "quick" else 1500)]
    for src in walk_srcs:
        try:
            nw, bad = lower_common.walk_invariants(src)
        except (SyntaxError, ValueError):
            continue
        ck.count("walks_checked", nw)
        if bad:
            walk_bad.append((src, bad[0]))
    if walk_bad:
        ck.broken.append(f"coverage: the hypothesis WalkOK of C06.free_name_goes_to_binder fails on {len(walk_bad)} programs' symbol tables, first: {walk_bad[0][1]} in {walk_bad[0][0]!r}")
    k_bad = []
    if b["driver_ok"]:
        for src, cfg, ok, detail in lower_common.compare(ol, pairs):
            if ok:
                ck.count("K_agree")
            else:
                k_bad.append((src, cfg, detail))
    if k_bad:
        ck.broken.append(f"correspondence K(lowerFull = convert, incl. namespace decisions): {len(k_bad)} scope programs differ, first: {k_bad[0][2][:300]} on {k_bad[0][0]!r}")
    for kf, n in sorted(kf_seen.items()):
        ck.known(kf, kfs[kf]["what"])
    failing.sort(key=lambda f: len(f[0]))
    for src, cfg, verdict, conv, ch in failing[:3]:
        ck.violation({"kind": "scope", "chain": ch, "source": src, "config": list(cfg), "observed": verdict, "converted": conv,
                      "expected": "same values logged at every scope and same final module namespace", "broken_obligations": ck.broken})
    if ck.broken and not failing:
        ck.violation({"kind": "obligation", "broken_obligations": ck.broken, "searched": f"{len(items)} scope chains on the real converter",
                      "k_disagreements": [{"source": s, "config": list(c), "detail": d[:400]} for s, c, d in k_bad[:10]]}, no_input=True)
    return ck.finish(
        rule="scope chains module > s0 > s1 > s2 (depth 1-2 exhaustive, depth 3 sampled (quick) / exhaustive (thorough), depth 4 sampled (thorough)); each scope a "
             "function with one of 31 roles or a class with one of 11 roles of the tracked name x (none, read, assign, parameter, global/nonlocal declared and "
             "assigned / read / augmented, for target, walrus, lambda parameter / default / read, comprehension target / read, generator read, late assignment, "
             "import, def name, class name, augmented assignment, subscript index, nested comprehension / lambda shadowing, keyword-only and positional default) x module-level binding present or not; filtered to programs CPython compiles and runs "
             "without exception; observed: values logged at every scope + final module x; failures inside the syntactic shape classes of the open known findings "
             "are attributed to them; distinct by (config, source)",
        extra={"R_failures": len(failing), "K_disagreements": len(k_bad), "by_shape_class": {k: dict(v) for k, v in by_class.items()}},
        assumptions=["symtable.symtable is CPython's scope analysis and is an input of the model"])


def replay(ck, ol):
    global OL
    OL = ol
    r = json.load(open(ck.replay_file))
    if "source" not in r:
        print("replay file names a broken obligation, no input:", r.get("broken_obligations")); return 0
    o = run(r["source"], 'exec')
    try:
        conv = ol.convert_code_string(r["source"], configs=gen_prog.mk_configs(ol, tuple(r["config"])))
        c = run(conv, 'eval')
    except Exception as e:
        c = ("conversion raised", type(e).__name__)
    print(r["source"]); print("original:", o); print("converted:", c)
    return 0 if o == c else 1


if __name__ == "__main__":
    sys.exit(main(sys.argv[1:]))
