"""C11 -- functions keep their signature, call binding, defaults and decorators."""
import inspect, itertools, json, sys
from common import Check, fresh_oneliner
import gen_prog, lower_common, par, unparse_common as U
import ast

OL = None
CALLS = ["()", "(1)", "(1,2)", "(1,2,3)", "(1,2,3,4,5)", "(p0=1)", "(a0=1)", "(1,a0=2)", "(k0=1)", "(1,k0=2,k1=3)", "(1,2,k0=3,zz=4)",
         "(*[1,2],**{'k0':3})", "(a0=1,a1=2,k0=3,k1=4)", "(1,2,3,4,k0=1,k1=2)", "(a1=5)", "(1,p0=2)", "(**{'a0':1,'a0':2})", "(1,2,a0=3)"]


def sigs():
    """every legal parameter list with up to 2 parameters per kind"""
    for npos in range(3):
        for nposd in range(npos + 1):
            for narg in range(3):
                for nargd in range(narg + 1):
                    if nposd > 0 and nargd < narg:
                        continue
                    for var in (0, 1):
                        for nkw in range(3):
                            for kwd in itertools.product((0, 1), repeat=nkw):
                                for kwarg in (0, 1):
                                    parts = []
                                    for i in range(npos): parts.append(f"p{i}" + (f"={i}" if i >= npos - nposd else ""))
                                    if npos: parts.append('/')
                                    for i in range(narg): parts.append(f"a{i}" + (f"={10+i}" if i >= narg - nargd else ""))
                                    if var: parts.append('*v')
                                    elif nkw: parts.append('*')
                                    for i in range(nkw): parts.append(f"k{i}" + (f"={20+i}" if kwd[i] else ""))
                                    if kwarg: parts.append('**kw')
                                    yield ", ".join(parts)


def call_result(ns, call):
    try:
        d = eval('f' + call, ns)
        d = {k: v for k, v in d.items() if not k.startswith('__ol_')}
        return ('ok', sorted(d.items(), key=str))
    except TypeError:
        return ('TypeError',)
    except SyntaxError:
        return ('SyntaxError',)


def observe(item):
    s, cfg, annotate = item
    params = s
    if annotate:
        params = ", ".join((p.split("=")[0] + ": int" + (" = " + p.split("=")[1] if "=" in p else "")) if p not in ("/", "*") and not p.startswith("*") else p for p in s.split(", ")) if s else s
    src = f"def f({params}){' -> int' if annotate else ''}:\n    return locals()\n"
    try:
        compile(src, '<s>', 'exec')
    except SyntaxError:
        return s, "skip", None
    g = {}
    exec(src, g)
    try:
        conv = OL.convert_code_string(src, configs=gen_prog.mk_configs(OL, cfg))
        h = {}
        eval(conv, h)
    except Exception as e:
        return s, f"fail:conversion / evaluation raised {type(e).__name__}: {e}", None
    def sig_no_ann(f):
        sg = inspect.signature(f)
        return str(sg.replace(parameters=[p.replace(annotation=inspect.Parameter.empty) for p in sg.parameters.values()], return_annotation=inspect.Signature.empty))
    if sig_no_ann(g['f']) != sig_no_ann(h['f']):
        return s, f"fail:signature differs: original {sig_no_ann(g['f'])} converted {sig_no_ann(h['f'])}", conv
    for call in CALLS:
        a, b = call_result(g, call), call_result(h, call)
        if a != b:
            return s, f"fail:call f{call}: original {a} converted {b}", conv
    return s, "ok", conv


BEHAVIOUR = [
    ("defaults-once", "n = [0]\ndef mk():\n    n[0] += 1\n    return n[0]\ndef f(a=mk(), *, b=mk()):\n    return a, b\nprint(f(), f(), n)\n"),
    ("defaults-defining-scope", "x = 1\ndef outer():\n    x = 2\n    def f(a=x):\n        return a\n    x = 3\n    return f()\nprint(outer())\n"),
    ("decorators-order", "log = []\ndef d(n):\n    log.append(('eval', n))\n    def w(fn):\n        log.append(('apply', n))\n        return fn\n    return w\n@d(1)\n@d(2)\n@d(3)\ndef f(): return 1\nprint(log, f())\n"),
    ("return-none", "def f():\n    pass\ndef g():\n    return\ndef h(x):\n    if x:\n        return x\nprint(f(), g(), h(0), h(5))\n"),
    ("mutable-default", "def f(a, acc=[]):\n    acc.append(a)\n    return acc\nprint(f(1), f(2))\n"),
    ("kwonly-required", "def f(*, k):\n    return k\ntry:\n    pass\nfinally:\n    pass\n" if False else "def f(*, k):\n    return k\nprint(f(k=3))\n"),
    ("star-args-forwarding", "def g(*a, **k):\n    return a, sorted(k.items())\ndef f(x, /, y, *a, z=1, **k):\n    return g(x, y, *a, z=z, **k)\nprint(f(1, 2, 3, 4, z=5, w=6))\n"),
    ("method-signature", "class A:\n    def m(self, a, /, b=2, *c, d, e=5, **f):\n        return (a, b, c, d, e, f)\nprint(A().m(1, d=4), A().m(1, 2, 3, d=4, g=7))\n"),
    ("recursion-default", "def fact(n, acc=1):\n    if n <= 1:\n        return acc\n    return fact(n - 1, acc * n)\nprint(fact(6))\n"),
    ("parameters-read-by-nested-class-body", "def f(a, b=2, *c, d=4, **e):\n    class K:\n        v = (a, b, c, d, sorted(e))\n        class N:\n            w = (a, d)\n        def m(self, p=b):\n            return p\n    return K.v, K.N.w, K().m()\nprint(f(1), f(1, 5, 6, d=7, z=8))\n"),
    ("parameters-read-by-lambda-and-comprehension", "def f(a, /, b, *, c=3):\n    return (lambda: (a, b, c))(), [a + i for i in range(b)], {c: a}\nprint(f(1, 2), f(1, b=1, c=0))\n"),
    ("kwonly-default-class-var", "class A:\n    base = 5\n    def m(self, *, k=base, j=base + 1):\n        return (k, j)\nprint(A().m(), A().m(k=1))\n"),
    ("kwonly-default-captured", "def outer(x):\n    def inner(*, k=x):\n        return k\n    def cap():\n        return x\n    x = x + 1\n    return inner(), cap()\nprint(outer(1))\n"),
    ("pos-default-captured-local", "def outer():\n    x = 2\n    def cap():\n        return x\n    def f(a=x, b=x + 1):\n        return a, b\n    return f(), cap()\nprint(outer())\n"),
    ("pos-default-class-var", "SIZE = 1\nclass A:\n    SIZE = 5\n    def m(self, n=SIZE, k=SIZE * 2):\n        return n, k\nprint(A().m(), A().m(0))\n"),
    ("pos-default-param-reassigned", "def outer(x):\n    x = x + 10\n    def cap():\n        return x\n    def f(a=x, *, k=x):\n        return a, k\n    return f(), cap()\nprint(outer(1))\n"),
    ("lambda-default-class-var", "S = 1\nclass A:\n    S = 3\n    f = lambda self, n=S, *, k=S + 1: (n, k)\nprint(A().f())\n"),
    ("lambda-default-captured-local", "def outer():\n    y = 4\n    def cap():\n        nonlocal y\n        y += 1\n        return y\n    cap()\n    g = lambda a=y, *, k=y * 2: (a, k)\n    return g(), cap()\nprint(outer())\n"),
    ("default-in-nested-class-method", "def outer(z):\n    class K:\n        w = z + 1\n        def m(self, a=w, b=z):\n            return a, b\n    def cap():\n        return z\n    return K().m(), cap()\nprint(outer(7))\n"),
    ("default-own-name-shadow", "x = 5\ndef f(x=x + 1):\n    def inner():\n        return x\n    return inner()\nprint(f(), f(1))\n"),
    ("posonly-default-captured", "def outer(x):\n    def inner(a=x, /, b=x * 2):\n        return (a, b)\n    def cap():\n        return x\n    return inner(), cap()\nprint(outer(3))\n"),
    ("kwonly-hole", "def f(*, a=1, b, c=3):\n    return (a, b, c)\nprint(f(b=2), f(a=0, b=5, c=9))\n"),
    ("lambda-signature", "f = lambda a, /, b=2, *c, d, e=5, **k: (a, b, c, d, e, k)\nprint(f(1, d=4), f(1, 2, 3, d=4, z=9))\n"),
]


def main(argv):
    global OL
    ck = Check("C11", argv)
    ol = OL = fresh_oneliner()
    if ck.replay_file:
        return replay(ck, ol)
    b = ck.build(["OlVerif.Props.C11"])
    if not b["built"].get("OlVerif.Props.C11", False):
        ck.broken.append("lean: OlVerif.Props.C11 does not build: " + b["log"][-1200:])
    else:
        ck.audit("OlVerif/Audit/C11.lean")
    all_sigs = sorted(set(sigs()))
    items = []
    for i, s in enumerate(all_sigs):
        if ck.tier == "quick" and (i + ck.seed) % 2:
            continue
        for u in ("ast.unparse", "oneliner"):
            items.append((s, (u, "list" if i % 2 else "chain_call", "if_expr"), i % 5 == 0))
    results = par.pmap(observe, items)
    failing = []
    for (s, cfg, ann), (_, verdict, conv) in zip(items, results):
        ck.case(f"{cfg}|{ann}|{s}", nontrivial=verdict != "skip" and s != "")
        ck.count("verdict:" + verdict.split(":")[0])
        ck.count("calls", len(CALLS))
        if verdict.startswith("fail"):
            failing.append((s, cfg, verdict, conv))
    ck.sample({"signature": all_sigs[len(all_sigs) // 2], "call_shapes": CALLS})
    for name, src in BEHAVIOUR:
        for cfg in gen_prog.CONFIGS[::3]:
            v, text = gen_prog.behaviour_check(ol, src, cfg)
            ck.case(f"beh|{cfg}|{src}")
            ck.count("behaviour:" + v.split(":")[0])
            if v.startswith("fail"):
                failing.append((name + "\n" + src, cfg, v, text))
    # K: the emitted trees (lambda with the copied parameter list) and the rendering of every parameter list by the custom unparser
    k_bad = []
    if b["driver_ok"]:
        pairs = [(f"def f({s}):\n    return locals()\n", ("list", "if_expr")) for s in all_sigs[::3]]
        for src, cfg, ok, detail in lower_common.compare(ol, pairs):
            if ok:
                ck.count("K_lower_agree")
            else:
                k_bad.append((src, detail))
        lambdas = []
        for s in all_sigs[::2]:
            try:
                lambdas.append(ast.parse(f"lambda {s}: 0", mode="eval").body)
            except SyntaxError:
                pass
        mt = U.model_tokens(lambdas)
        eu = sys.modules["oneliner.expr_unparse"]
        for lam, toks in zip(lambdas, mt):
            text = eu.expr_unparse(lam)
            if toks != U.tokens_of_text(text):
                k_bad.append((text, f"model tokens {toks} != real tokens"))
            else:
                ck.count("K_unparse_lambda_agree")
    if k_bad:
        ck.broken.append(f"correspondence K: {len(k_bad)} cases differ, first: {k_bad[0][1][:300]} on {k_bad[0][0][:200]!r}")
    failing.sort(key=lambda f: len(f[0]))
    for s, cfg, verdict, conv in failing[:3]:
        ck.violation({"kind": "signature", "signature": s, "config": list(cfg), "observed": verdict, "converted": conv,
                      "expected": "same inspect.signature (modulo annotations) and same binding / TypeError for every call shape", "broken_obligations": ck.broken})
    if ck.broken and not failing:
        ck.violation({"kind": "obligation", "broken_obligations": ck.broken, "searched": f"{len(items)} signatures x {len(CALLS)} call shapes on the real converter"}, no_input=True)
    return ck.finish(
        rule="every legal parameter list with up to 2 parameters per kind (positional-only, positional-or-keyword, *args, keyword-only with every subset of "
             "defaults, **kwargs; quick: every second one, rotating with the seed) x both unparsers, every fifth one fully annotated, x 18 call shapes "
             "(too few / too many positionals, keywords for each name, duplicates, unexpected keywords, star-args); plus behaviour programs for default "
             "evaluation (once, in the defining scope), decorator order, returned value; distinct by (config, signature)",
        extra={"R_failures": len(failing), "K_disagreements": len(k_bad), "signatures": len(all_sigs)},
        assumptions=["argument binding itself is CPython's (the emitted callable is a lambda with the copied parameter list)"])


def replay(ck, ol):
    global OL
    OL = ol
    r = json.load(open(ck.replay_file))
    if "signature" not in r:
        print("replay file names a broken obligation, no input:", r.get("broken_obligations")); return 0
    res = observe((r["signature"].split("\n")[0], tuple(r["config"]), False))
    print(res[:2])
    return 1 if res[1].startswith("fail") else 0


if __name__ == "__main__":
    sys.exit(main(sys.argv[1:]))
