"""Control-flow skeletons (C05): exhaustive enumerator, rendering with probes, trace oracle."""
import itertools, sys

# skeleton syntax:
# ('atom',i) ('pass',) ('brk',) ('cont',) ('ret',i|None) ('if',c,body,orelse) ('while',c,body,orelse) ('for',it,body,orelse)


def render(block, ind=0):
    out = []
    pad = "    " * ind
    for s in block:
        k = s[0]
        if k == "atom": out.append(f"{pad}m({s[1]})")
        elif k == "pass": out.append(pad + "pass")
        elif k == "brk": out.append(pad + "break")
        elif k == "cont": out.append(pad + "continue")
        elif k == "ret": out.append(pad + ("return" if s[1] is None else f"return r({s[1]})"))
        elif k == "def":
            # a nested function (its own namespace: its own return flag, no access to outer loops), called at once
            out.append(f"{pad}def g{s[1]}():")
            out += render(s[2], ind + 1)
            out.append(f"{pad}RESULT.append(g{s[1]}())")
        else:
            head = {"if": f"if c({s[1]}):", "while": f"while c({s[1]}):", "for": f"for x{s[1]} in it({s[1]}):"}[k]
            out.append(pad + head)
            out += render(s[2], ind + 1)
            if s[3]:
                out.append(pad + "else:")
                out += render(s[3], ind + 1)
    return out


def source(block, placement):
    if placement == "module":
        return "\n".join(render(block)) + "\n"
    if placement == "function":
        return "def f():\n" + "\n".join(render(block, 1)) + "\nRESULT.append(f())\n"
    if placement == "class":
        return "class K:\n" + "\n".join(render(block, 1)) + "\n"
    if placement == "method":
        return "class K:\n    def f(self):\n" + "\n".join(render(block, 2)) + "\nRESULT.append(K().f())\n"
    raise ValueError(placement)


def blocks(n, depth, inloop, infn, allow_empty=False):
    """all blocks with exactly n statement nodes"""
    if n == 0:
        if allow_empty:
            yield []
        return
    for first_size in range(1, n + 1):
        for s in stmts(first_size, depth, inloop, infn):
            if first_size == n:
                yield [s]
            else:
                for rest in blocks(n - first_size, depth, inloop, infn):
                    yield [s] + rest


def stmts(n, depth, inloop, infn):
    if n == 1:
        yield ("atom", 0)
        if inloop:
            yield ("brk",)
            yield ("cont",)
        if infn:
            yield ("ret", 0)
            yield ("ret", None)
        return
    if depth == 0:
        return
    for k in ("if", "while", "for"):
        for nb in range(1, n):
            ne = n - 1 - nb
            for b in blocks(nb, depth - 1, inloop or k != "if", infn):
                for e in blocks(ne, depth - 1, inloop, infn, allow_empty=True):
                    yield (k, 0, b, e)


def number(block):
    cnt = itertools.count()

    def go(b):
        r = []
        for s in b:
            if s[0] == "atom": r.append(("atom", next(cnt)))
            elif s[0] == "ret" and s[1] is not None: r.append(("ret", next(cnt)))
            elif s[0] in ("if", "while", "for"):
                i = next(cnt)
                r.append((s[0], i, go(s[2]), go(s[3])))
            elif s[0] == "def":
                i = next(cnt)
                r.append(("def", i, go(s[2]), []))
            else:
                r.append(s)
        return r
    return go(block)


def families(infn):
    """targeted shapes beyond the exhaustive bound: an interrupt of the OUTER loop inside the else clause of an inner
    loop, interrupts below nested ifs followed by further statements, several guards in one block, loops in branches"""
    A = ("atom", 0)
    ints = [("brk",), ("cont",)] + ([("ret", 0), ("ret", None)] if infn else [])
    out = []
    loops = ("while", "for")
    for X in ints:
        for L1 in loops:
            for L2 in loops:
                # else clause of the inner loop holds a conditional interrupt of the outer loop, then more statements
                out.append([(L1, 0, [(L2, 0, [A], [("if", 0, [X], []), A]), A], [A])])
                out.append([(L1, 0, [(L2, 0, [("if", 0, [("brk",)], []), A], [("if", 0, [X], []), A]), A], [])])
                out.append([(L1, 0, [(L2, 0, [A], [("if", 0, [A], [X]), A, ("if", 0, [X], []), A])], [A])])
            # nested ifs: the interrupt two levels down, statements after each level
            out.append([(L1, 0, [("if", 0, [("if", 0, [X], []), A], []), A], [A])])
            out.append([(L1, 0, [("if", 0, [A], [("if", 0, [X], []), A]), A], [])])
            out.append([(L1, 0, [("if", 0, [("if", 0, [A], [X]), A], [("if", 0, [X], [A]), A]), A, ("if", 0, [X], []), A], [A])])
            out.append([(L1, 0, [("if", 0, [("if", 0, [("if", 0, [X], []), A], []), A], []), A], [])])
            # an inner loop inside a branch, its own break, then an outer interrupt
            out.append([(L1, 0, [("if", 0, [("while", 0, [("if", 0, [("brk",)], []), A], [A]), ("if", 0, [X], []), A], []), A], [A])])
        if infn:
            out.append([("if", 0, [("if", 0, [X], []), A], []), A] if X[0] == "ret" else [A])
            out.append([("for", 0, [A], [("if", 0, [X], []), A]), A] if X[0] == "ret" else [A])
    return [number(b) for b in out]


def enumerate_skeletons(max_nodes, depth, infn):
    for n in range(1, max_nodes + 1):
        for b in blocks(n, depth, False, infn):
            yield number(b)


def random_skeleton(rng, nodes, depth, infn, with_defs=True):
    """a random block with about `nodes` statement nodes, biased towards interrupts followed by more code"""
    def block(n, d, inloop, infn):
        out = []
        while n > 0:
            r = rng.random()
            if d > 0 and n >= 2 and r < 0.55:
                k = rng.choice(["if", "if", "while", "for"])
                size = rng.randrange(2, n + 1)
                nb = rng.randrange(1, size)
                ne = size - 1 - nb
                if rng.random() < 0.5:
                    nb += ne; ne = 0
                out.append((k, 0, block(nb, d - 1, inloop or k != "if", infn), block(ne, d - 1, inloop, infn)))
                n -= size
            elif with_defs and d > 0 and n >= 2 and r < 0.62:
                size = rng.randrange(2, n + 1)
                out.append(("def", 0, block(size - 1, d - 1, False, True), []))
                n -= size
            else:
                ch = ["atom", "atom"]
                if inloop: ch += ["brk", "cont"]
                if infn: ch += ["ret", "retn"]
                c = rng.choice(ch)
                out.append({"atom": ("atom", 0), "brk": ("brk",), "cont": ("cont",), "ret": ("ret", 0), "retn": ("ret", None)}[c])
                n -= 1
        return out
    return number(block(nodes, depth, False, infn))


def densify(block):
    """a marker after every statement of every block: whatever runs when it should not becomes visible"""
    out = []
    for s in block:
        if s[0] in ("if", "while", "for"):
            out.append((s[0], 0, densify(s[2]), densify(s[3]) if s[3] else []))
        elif s[0] == "def":
            out.append(("def", 0, densify(s[2]), []))
        else:
            out.append(s)
        out.append(("atom", 0))
    return out


# ------------------------------------------------------------------ trace oracle
FALSY = [0, "", [], None, 0.0, False]
TRUTHY = [1, "x", [0], 2.5, True, (0,)]


class Val:
    """the value of a marker / condition probe: its truth test is an event of the trace, so a truth test the
    source does not perform (or performs once where the converted program performs it twice) is visible"""
    __slots__ = ("w", "tag", "t")

    def __init__(self, w, tag, t):
        self.w, self.tag, self.t = w, tag, t

    def __bool__(self):
        self.w.ev.append(("bool",) + self.tag)
        return self.t


class World:
    """instrumented probes; all outcomes are a deterministic function of (schedule, probe id, call number)"""

    def __init__(self, schedule, max_cond_calls=5):
        self.s = schedule
        self.ev = []
        self.calls = {}
        self.max_cond_calls = max_cond_calls

    def _k(self, key):
        k = self.calls.get(key, 0)
        self.calls[key] = k + 1
        return k

    def m(self, i):
        self.ev.append(("m", i))
        # the value of a marker call is irrelevant in statement position but matters to the
        # short-circuit style: vary its truthiness
        h = (self.s * 7 + i * 3 + len([e for e in self.ev if e[0] != "bool"])) % 4
        return Val(self, ("m", i), bool([None, 0, 1, "v"][h]))

    def c(self, i):
        k = self._k(("c", i))
        self.ev.append(("c", i, k))
        if k >= self.max_cond_calls:
            return Val(self, ("c", i, k), False)
        h = (self.s * 2654435761 + i * 40503 + k * 9973 + (self.s >> 3)) % 7
        return Val(self, ("c", i, k), h >= 3)

    def r(self, i):
        self.ev.append(("r", i))
        return ("rv", i, (self.s + i) % 3)

    def it(self, i):
        k = self._k(("it", i))
        self.ev.append(("it", i, k))
        n = (self.s + i * 5 + k) % 4
        w = self

        class It:
            def __iter__(s2):
                w.ev.append(("iter", i, k))
                s2.j = 0
                return s2

            def __next__(s2):
                j = s2.j
                s2.j += 1
                if j >= n:
                    w.ev.append(("next", i, k, "stop"))
                    raise StopIteration
                w.ev.append(("next", i, k, j))
                return j
        return It()


def run(code_or_text, mode, schedule, limit=20000):
    w = World(schedule)
    res = []
    g = {"m": w.m, "c": w.c, "r": w.r, "it": w.it, "RESULT": res, "__name__": "__main__"}
    try:
        if mode == "exec":
            exec(code_or_text, g)
        else:
            eval(code_or_text, g)
        status = "ok"
    except RecursionError:
        status = "exc:RecursionError"
    except Exception as e:
        status = "exc:" + type(e).__name__ + ":" + str(e)[:80]
    return status, w.ev, res


# ------------------------------------------------------------------ M-CTRL correspondence (Lean Ctrl model)
def sk_json(block):
    out = []
    for s in block:
        k = s[0]
        if k == "atom": out.append(["atom", s[1]])
        elif k in ("pass", "brk", "cont"): out.append([k])
        elif k == "ret": out.append(["ret", s[1]])
        elif k in ("if", "while", "for"): out.append([k, s[1], sk_json(s[2]), sk_json(s[3])])
        else:
            raise ValueError(k)
    return out


def has_def(block):
    return any(s[0] == "def" or (s[0] in ("if", "while", "for") and (has_def(s[2]) or has_def(s[3]))) for s in block)


def ev_str(e):
    return " ".join(str(x) for x in e)


def collapse_retests(ev):
    """drop a truth-test event of a condition value that immediately repeats the previous event (the same object
    tested again right away)"""
    out = []
    for e in ev:
        if out and e == out[-1] and e[0] == "bool" and e[1] == "c":
            continue
        out.append(e)
    return out


def model_events(ev):
    """the events the Lean semantics list (truth tests are folded into the condition / marker events there)"""
    return [ev_str(e) for e in ev if e[0] != "bool"]


def res_json(res):
    if not res:
        return None
    v = res[-1]
    return None if v is None else v[1] * 3 + v[2]
