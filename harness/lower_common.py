"""K for M-LOWER: Lean `lowerFull` against the real `convert`, as canonical trees."""
import ast, re, symtable, sys
from astjson import stmt_to_json, expr_from_json
import leandrv


def sym_to_json(t):
    kind = t.get_type()
    kind = str(kind).split(".")[-1].lower() if not isinstance(kind, str) else kind
    syms = []
    for s in t.get_symbols():
        bits = (1 if s.is_assigned() else 0) | (2 if s.is_parameter() else 0) | (4 if s.is_global() else 0) | \
               (8 if s.is_declared_global() else 0) | (16 if s.is_nonlocal() else 0) | (32 if s.is_free() else 0) | (64 if s.is_imported() else 0) | (128 if s.is_local() else 0)
        syms.append([s.get_name(), bits])
    isfn = isinstance(t, symtable.Function)
    iscls = isinstance(t, symtable.Class)
    frees = list(t.get_frees()) if isfn else []
    nonlocals = list(t.get_nonlocals()) if isfn else []
    params = list(t.get_parameters()) if isfn else []
    if iscls:
        import warnings
        with warnings.catch_warnings():
            warnings.simplefilter("ignore")
            methods = list(t.get_methods())
    else:
        methods = []
    return [t.get_name(), kind, t.get_lineno(), syms, frees, nonlocals, params, methods,
            [sym_to_json(c) for c in t.get_children()]]


def canon_dump(tree):
    d = ast.dump(tree)
    d = re.sub(r", ctx=(Load|Store|Del)\(\)", "", d)
    d = re.sub(r"ctx=(Load|Store|Del)\(\), ", "", d)
    d = d.replace(", vararg=None", "").replace(", kwarg=None", "").replace(", kind=None", "")
    d = d.replace("args=[], kwonlyargs", "args=[], kwonlyargs")
    m = {}

    def rep(mo):
        k = mo.group(0)
        if k not in m:
            m[k] = f"T{len(m)}"
        return m[k]
    return re.sub(r"__ol_[a-z]+_(?:[a-z]{10}|#\d+)", rep, d)


def err_class(ex):
    return type(ex).__name__


def real_convert(ol, src, cfg):
    """-> ('ok', tree) | ('err', class name)"""
    conv = sys.modules["oneliner.convert"].convert
    cmod = sys.modules["oneliner.config"]
    c = cmod.Configs()
    c.expr_wrapper, c.if_style = cfg
    try:
        tree = ast.parse(src)
        st = symtable.symtable(src, "<s>", "exec")
    except SyntaxError as e:
        return ("unparseable", str(e))
    try:
        return ("ok", conv(tree, st, c))
    except RecursionError:
        return ("err", "RecursionError")
    except Exception as e:
        return ("err", err_class(e))


def model_requests(srcs_cfgs):
    reqs = []
    for src, cfg in srcs_cfgs:
        tree = ast.parse(src)
        st = symtable.symtable(src, "<s>", "exec")
        reqs.append({"op": "lower", "cfg": list(cfg), "sym": sym_to_json(st), "body": [stmt_to_json(s) for s in tree.body]})
    return reqs


def model_convert(srcs_cfgs):
    out = []
    for r in leandrv.run_batch(model_requests(srcs_cfgs)):
        if "ok" in r:
            out.append(("ok", expr_from_json(r["ok"])))
        elif "err" in r:
            out.append(("err", r["err"]))
        else:
            out.append(("protocol-error", r.get("error")))
    return out


def model_bad(srcs_cfgs):
    """the hypothesis `badModule` of C08.reject_at_any_depth, evaluated by the Lean model on each
    program: (bad: bool, outcome: 'ok' | 'err')"""
    out = []
    for r in leandrv.run_batch(model_requests(srcs_cfgs)):
        out.append((r.get("bad"), "ok" if "ok" in r else ("err" if "err" in r else "protocol-error")))
    return out


def py_binders(tree):
    """names bound anywhere inside an expression tree, CPython's view: walrus targets, lambda parameters,
    comprehension target names (the reference for the Lean function `bnd`)"""
    out = set()
    for n in ast.walk(tree):
        if isinstance(n, ast.NamedExpr):
            out.add(n.target.id)
        elif isinstance(n, ast.Lambda):
            a = n.args
            for x in a.posonlyargs + a.args + a.kwonlyargs + ([a.vararg] if a.vararg else []) + ([a.kwarg] if a.kwarg else []):
                out.add(x.arg)
        elif isinstance(n, ast.comprehension):
            for m in ast.walk(n.target):
                if isinstance(m, ast.Name) and isinstance(m.ctx, ast.Store):
                    out.add(m.id)
    return out


def binder_check(ol, srcs_cfgs):
    """K for `bnd` and the statement of C09.no_foreign_binders on the real converter: yields
    (src, cfg, ok, detail) - the non-reserved names bound by the real output equal those the Lean `bnd` lists for
    the model's output, and each is a name the script binds or an audited helper name"""
    srcs_cfgs = [(s, c) for s, c in srcs_cfgs if analysable(s)]
    audited = {"_", "__", "self", "it", "__class__", "itertools", "importlib"}
    for (src, cfg), r in zip(srcs_cfgs, leandrv.run_batch(model_requests(srcs_cfgs))):
        real = real_convert(ol, src, cfg)
        if real[0] != "ok" or "bnd" not in r:
            continue
        rb = {x for x in py_binders(real[1]) if not x.startswith("__ol_")}
        mb = {x for x in r["bnd"] if not x.startswith("__ol_")}
        if rb != mb:
            yield src, cfg, False, f"binders differ: real {sorted(rb)} model {sorted(mb)}"; continue
        user = set()
        for n in ast.walk(ast.parse(src)):
            if isinstance(n, ast.Name) and isinstance(n.ctx, ast.Store):
                user.add(n.id)
            elif isinstance(n, (ast.FunctionDef, ast.ClassDef)):
                user.add(n.name)
            elif isinstance(n, ast.arg):
                user.add(n.arg)
            elif isinstance(n, ast.alias):
                user.add(n.asname or n.name.split(".")[0])
                user.add(n.asname or n.name)
        foreign = rb - user - audited
        if foreign:
            yield src, cfg, False, f"the converted program binds names the script does not bind: {sorted(foreign)}"; continue
        yield src, cfg, True, "ok"


def owns(sym):
    """the code's ownership test (`ownsName` / SymInfo.owns) on a real symtable.Symbol"""
    return (not sym.is_nonlocal()) and (sym.is_assigned() or sym.is_imported() or (sym.is_parameter() and not sym.is_global()))


def walk_invariants(src):
    """the hypothesis `WalkOK` of C06.free_name_goes_to_binder evaluated on CPython's tables: for every function /
    class scope and every free / nonlocal name of it, every enclosing function scope up to the first one in
    which the name is local has the name in its table, and there the code's ownership test equals is_local().
    Returns (number of walks checked, list of violations)."""
    top = symtable.symtable(src, "<s>", "exec")
    bad = []
    n = [0]

    def cands(t):
        if isinstance(t, symtable.Function):
            return list(t.get_frees()) + list(t.get_nonlocals())
        if isinstance(t, symtable.Class):
            return [s.get_name() for s in t.get_symbols() if s.is_nonlocal() or s.is_free()]
        return []

    def rec(t, stack):
        for x in cands(t):
            if x == "__class__" or x == "__classdict__":
                continue
            n[0] += 1
            found = False
            for outer in reversed(stack):
                if not isinstance(outer, symtable.Function):
                    continue
                try:
                    sym = outer.lookup(x)
                except KeyError:
                    bad.append(f"{x!r}: not in the table of enclosing function {outer.get_name()!r} (scope {t.get_name()!r})"); break
                if owns(sym) != sym.is_local():
                    bad.append(f"{x!r}: ownership test {owns(sym)} != is_local() {sym.is_local()} in {outer.get_name()!r} (walk from {t.get_name()!r})")
                if sym.is_local():
                    found = True
                    break
            if not found and not bad:
                bad.append(f"{x!r}: no enclosing function scope binds it (walk from {t.get_name()!r})")
        for c in t.get_children():
            # namespaces are built for def and class scopes only (generate_nsp): lambdas and comprehensions are
            # left to Python's own scoping, no owner walk starts in or below them
            if isinstance(c, symtable.Function) and (c.get_name() == "lambda" or
                    (c.get_name() in ("listcomp", "genexpr", "setcomp", "dictcomp") and ".0" in c.get_parameters())):
                continue
            rec(c, stack + [t])
    rec(top, [])
    return n[0], bad


def analysable(src):
    try:
        ast.parse(src)
        symtable.symtable(src, "<s>", "exec")
        return True
    except (SyntaxError, ValueError, RecursionError):
        return False


def compare(ol, srcs_cfgs):
    """yields (src, cfg, agree: bool, detail); programs CPython's parser / symtable pass refuse are
    outside the model's domain (the real entry point raises before `convert` is reached) and are skipped"""
    all_pairs = [(s, c) for s, c in srcs_cfgs if analysable(s)]
    for lo in range(0, len(all_pairs), 800):          # bounded batches: the requests of a thorough run do not fit in memory at once
        yield from _compare_batch(ol, all_pairs[lo:lo + 800])


def _compare_batch(ol, srcs_cfgs):
    models = model_convert(srcs_cfgs)
    for (src, cfg), m in zip(srcs_cfgs, models):
        r = real_convert(ol, src, cfg)
        if r[0] == "ok" and m[0] == "ok":
            a, b = canon_dump(r[1]), canon_dump(m[1])
            if a == b:
                yield src, cfg, True, "ok"
            else:
                # first difference
                i = next((k for k in range(min(len(a), len(b))) if a[k] != b[k]), min(len(a), len(b)))
                yield src, cfg, False, f"trees differ at {i}: real ...{a[max(0,i-80):i+120]}... model ...{b[max(0,i-80):i+120]}..."
        elif r[0] == "err" and m[0] == "err":
            if r[1] == m[1]:
                yield src, cfg, True, "err:" + r[1]
            else:
                yield src, cfg, False, f"error class differs: real {r[1]} model {m[1]}"
        else:
            yield src, cfg, False, f"outcome differs: real {r[0]}:{r[1] if r[0]!='ok' else ''} model {m[0]}:{m[1] if m[0]!='ok' else ''}"
