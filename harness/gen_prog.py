"""Structured generator of scripts inside the supported fragment (mostly valid, terminating,
exception free), with the open known-finding shapes avoided by construction (DESIGN.md §7),
plus the behavioural oracle of C01 (stdout + user globals, exec vs eval)."""
import ast, contextlib, io, itertools, random, sys, symtable

CONFIGS = [(u, w, i) for u in ("ast.unparse", "oneliner") for w in ("chain_call", "list") for i in ("if_expr", "short_circuit")]


def mk_configs(ol, cfg):
    cmod = sys.modules["oneliner.config"]
    c = cmod.Configs()
    c.unparser, c.expr_wrapper, c.if_style = cfg
    return c


class Scope:
    def __init__(self, kind, prefix, parent=None):
        self.kind = kind            # module | function | class
        self.prefix = prefix
        self.parent = parent
        self.ints = []              # definitely assigned int variables readable here
        self.lists = []             # (name, minlen)
        self.funcs = []             # (name, npos) callable, returns int
        self.objs = []              # (name, classname)
        self.assignable = []        # int names this scope may (re)assign
        self.loop = 0
        self.counter = itertools.count()
        self.globals_decl = []
        self.nonlocals_decl = []
        self.allow_nested = True    # False inside a closure that rebinds an enclosing name through `nonlocal` (shape of KF-D18)

    def fresh(self, tag="v"):
        return f"{self.prefix}{tag}{next(self.counter)}"

    def child_block(self):
        s = Scope(self.kind, self.prefix, self.parent)
        s.ints = list(self.ints); s.lists = list(self.lists); s.funcs = list(self.funcs); s.objs = list(self.objs)
        s.assignable = list(self.assignable); s.loop = self.loop; s.counter = self.counter
        s.globals_decl = self.globals_decl; s.nonlocals_decl = self.nonlocals_decl
        s.allow_nested = self.allow_nested
        return s


class ProgGen:
    def __init__(self, rng, size=12, features=None):
        self.r = rng
        self.size = size
        self.features = set()
        self.classes = []           # (name, attrs, methods[(name, kind, npos)], base)
        self.fn_counter = itertools.count()
        self.cls_counter = itertools.count()
        self.allow = features       # None = everything

    def ok(self, f):
        return self.allow is None or f in self.allow

    # ---------------------------------------------------------------- expressions (ints)
    def atom(self, sc):
        r = self.r
        if sc.ints and r.random() < 0.6:
            return r.choice(sc.ints)
        return str(r.choice([0, 1, 2, 3, 5, 7, 10, 100]))

    def expr(self, sc, d=2):
        r = self.r
        if d <= 0:
            return self.atom(sc)
        k = r.randrange(20)
        E = lambda: self.expr(sc, d - 1)
        if k <= 3:
            return self.atom(sc)
        if k == 4:
            return f"{E()} {r.choice(['+', '-', '*'])} {E()}"
        if k == 5:
            return f"({E()}) {r.choice(['//', '%'])} (abs({E()}) + 1)"
        if k == 6:
            self.features.add("ifexp")
            return f"({E()} if {self.cond(sc, d - 1)} else {E()})"
        if k == 7 and sc.lists:
            n, ml = r.choice(sc.lists)
            self.features.add("subscript")
            return f"{n}[{r.randrange(-ml, ml)}]"
        if k == 8 and sc.funcs:
            n, np = r.choice(sc.funcs)
            self.features.add("call")
            return f"{n}({', '.join(self.expr(sc, d - 1) for _ in range(np))})"
        if k == 9 and sc.objs:
            n, cn = r.choice(sc.objs)
            cls = [c for c in self.classes if c[0] == cn][0]
            ms = [m for m in cls[2] if m[1] in ("method", "static", "class")]
            if ms and r.random() < 0.6:
                m = r.choice(ms)
                self.features.add("methodcall")
                return f"{n}.{m[0]}({', '.join(self.expr(sc, d - 1) for _ in range(m[2]))})"
            if cls[1]:
                return f"{n}.{r.choice(cls[1])}"
            return self.atom(sc)
        if k == 10:
            self.features.add("comprehension")
            v = "c" + str(r.randrange(3))
            inner = self.child_ints(sc, [v])
            return f"sum([{self.expr(inner, d - 1)} for {v} in range({r.randrange(0, 4)}){' if ' + self.cond(inner, 0) if r.random() < .3 else ''}])"
        if k == 11:
            self.features.add("lambda")
            return f"(lambda q, w={E()}: q + w)({E()})"
        if k == 12:
            self.features.add("unary")
            return f"{r.choice(['-', '+', '~'])}{self.atom(sc)}"
        if k == 13:
            return f"len({self.listexpr(sc, d - 1)})"
        if k == 14:
            self.features.add("bitop")
            return f"({E()} {r.choice(['&', '|', '^'])} {E()})"
        if k == 15:
            return f"({E()} << {r.randrange(0, 4)})"
        if k == 16:
            self.features.add("boolop-value")
            return f"({E()} {r.choice(['and', 'or'])} {E()})"
        if k == 17:
            return f"max({E()}, {E()})"
        if k == 18:
            self.features.add("genexp")
            v = "c" + str(r.randrange(3))
            inner = self.child_ints(sc, [v])
            if r.random() < 0.5:
                # a generator expression that is NOT the sole argument: it keeps its own parentheses
                self.features.add("genexp-with-keywords")
                return r.choice([f"max(({self.expr(inner, d - 1)} for {v} in range({r.randrange(0, 4)})), default={E()})",
                                 f"sorted(({self.expr(inner, d - 1)} for {v} in range({r.randrange(1, 4)})), key=abs)[0]",
                                 f"sum(({self.expr(inner, d - 1)} for {v} in range({r.randrange(0, 4)})), {E()})"])
            return f"sum({self.expr(inner, d - 1)} for {v} in range({r.randrange(0, 4)}))"
        return f"int({self.cond(sc, d - 1)})"

    def child_ints(self, sc, names):
        s = sc.child_block()
        s.ints = s.ints + names
        return s

    def cond(self, sc, d=1):
        r = self.r
        k = r.randrange(8)
        a, b = self.expr(sc, d), self.expr(sc, d)
        if k <= 3:
            return f"{a} {r.choice(['<', '<=', '>', '>=', '==', '!='])} {b}"
        if k == 4:
            self.features.add("boolop")
            return f"{a} < {b} {r.choice(['and', 'or'])} {self.expr(sc, 0)} != {self.expr(sc, 0)}"
        if k == 5:
            return f"not {a} > {b}"
        if k == 6:
            self.features.add("chained-compare")
            return f"{a} <= {b} < {self.expr(sc, d)}"
        return f"{a} % 2 == 0"

    def listexpr(self, sc, d=1):
        r = self.r
        if sc.lists and r.random() < 0.5:
            return r.choice(sc.lists)[0]
        n = r.randrange(0, 4)
        return "[" + ", ".join(self.expr(sc, d) for _ in range(n)) + "]"

    def strexpr(self, sc, d=1):
        r = self.r
        k = r.randrange(5)
        if k == 0:
            self.features.add("fstring")
            conv = r.choice(["", "", "!r", "!s"])
            spec = r.choice(["", "", ":>4", ":03d"]) if conv == "" else r.choice(["", ":>6"])
            return f"f'v={{{self.expr(sc, d)}{conv}{spec}}};'"
        if k == 1:
            return repr(r.choice(["a", "it's", 'say "hi"', "tab\there", "back\\slash", "nl\n", "{}", "é😀"]))
        if k == 2:
            self.features.add("fstring")
            return f"f'{{{self.expr(sc, d)}}} {{{self.expr(sc, 0)}:{{{r.randrange(1, 5)}}}}}'"
        if k == 3:
            return f"str({self.expr(sc, d)})"
        return f"'%s-%s' % ({self.expr(sc, d)}, {self.expr(sc, 0)})"

    def printstmt(self, sc):
        r = self.r
        args = []
        for _ in range(r.randrange(1, 4)):
            k = r.randrange(6)
            if k <= 2: args.append(self.expr(sc, 2))
            elif k == 3: args.append(self.strexpr(sc))
            elif k == 4: args.append(self.listexpr(sc))
            else: args.append(self.cond(sc))
        kw = r.choice(["", "", ", sep='|'", ", end='.\\n'"])
        return f"print({', '.join(args)}{kw})"

    # ---------------------------------------------------------------- statements
    def new_int(self, sc):
        return sc.fresh("v")

    def target_int(self, sc):
        """an int variable the scope may assign: a new one or an existing assignable one"""
        if sc.assignable and self.r.random() < 0.5:
            return self.r.choice(sc.assignable), False
        return self.new_int(sc), True

    def block(self, sc, n, depth, ind):
        out = []
        inner = sc.child_block()
        for _ in range(max(1, n)):
            out += self.stmt(inner, depth, ind)
        return out

    def stmt(self, sc, depth, ind):
        r = self.r
        pad = "    " * ind
        L = []
        kinds = ["assign"] * 4 + ["print"] * 4 + ["aug"] * 3 + ["if"] * 3 + ["for"] * 2 + ["while"] * 2 + \
                ["destructure", "listop", "def", "class", "walrus", "import", "obj", "pass", "exprstmt", "chain", "closure", "annassign"]
        if sc.loop:
            kinds += ["break", "continue"] * 2
        if sc.kind == "function":
            kinds += ["return"] * 2
        k = r.choice(kinds)
        if depth <= 0 and k in ("if", "for", "while", "def", "class", "closure"):
            k = "print"
        if not sc.allow_nested and k in ("def", "class", "closure"):
            k = "print"
        if k == "assign":
            t, new = self.target_int(sc)
            L.append(f"{pad}{t} = {self.expr(sc, 3)}")
            self.define_int(sc, t, new)
        elif k == "annassign":
            self.features.add("annassign")
            t = self.new_int(sc)
            L.append(f"{pad}{t}: int = {self.expr(sc, 2)}")
            self.define_int(sc, t, True)
        elif k == "chain":
            self.features.add("chained-assign")
            a, b = self.new_int(sc), self.new_int(sc)
            L.append(f"{pad}{a} = {b} = {self.expr(sc, 2)}")
            self.define_int(sc, a, True); self.define_int(sc, b, True)
        elif k == "print":
            L.append(pad + self.printstmt(sc))
        elif k == "aug":
            self.features.add("augassign")
            cands = [a for a in sc.assignable if a in sc.ints]
            ch = r.randrange(4)
            if ch == 0 and sc.lists:
                n, ml = r.choice(sc.lists)
                L.append(f"{pad}{n}[{r.randrange(0, ml)}] {r.choice(['+=', '-=', '*=', '|='])} {self.expr(sc, 1)}")
                self.features.add("aug-subscript")
            elif ch == 1 and sc.lists and sc.kind != "class":
                n, ml = r.choice(sc.lists)
                if self.can_rebind(sc, n):
                    L.append(f"{pad}{n} += [{self.expr(sc, 1)}]")
                    self.features.add("aug-list-inplace")
                else:
                    L.append(f"{pad}{n}.append({self.expr(sc, 1)})")
            elif ch == 2 and sc.objs:
                n, cn = r.choice(sc.objs)
                cls = [c for c in self.classes if c[0] == cn][0]
                if cls[1]:
                    L.append(f"{pad}{n}.{r.choice(cls[1])} {r.choice(['+=', '-=', '^='])} {self.expr(sc, 1)}")
                    self.features.add("aug-attribute")
                else:
                    L.append(pad + self.printstmt(sc))
            elif cands:
                t = r.choice(cands)
                op = r.choice(["+=", "-=", "*=", "//=", "%=", "&=", "|=", "^=", "<<=", ">>=", "**="])
                if op in ("//=", "%="):
                    rhs = f"abs({self.expr(sc, 1)}) + 1"
                elif op in ("<<=", ">>=", "**="):
                    rhs = str(r.randrange(0, 3))
                    if op == "**=":
                        L.append(f"{pad}{t} = {t} % 7")
                else:
                    rhs = self.expr(sc, 2)
                L.append(f"{pad}{t} {op} {rhs}")
            else:
                t = self.new_int(sc)
                L.append(f"{pad}{t} = {self.expr(sc, 2)}")
                self.define_int(sc, t, True)
        elif k == "destructure":
            self.features.add("destructure")
            ch = r.randrange(4)
            a, b, c = self.new_int(sc), self.new_int(sc), self.new_int(sc)
            if ch == 0:
                L.append(f"{pad}{a}, {b} = {self.expr(sc, 1)}, {self.expr(sc, 1)}")
                self.define_int(sc, a, True); self.define_int(sc, b, True)
            elif ch == 1:
                lst = sc.fresh("l")
                L.append(f"{pad}{a}, *{lst}, {b} = [{', '.join(self.expr(sc, 1) for _ in range(r.randrange(2, 6)))}]")
                self.define_int(sc, a, True); self.define_int(sc, b, True)
                self.features.add("destructure-star")
            elif ch == 2:
                L.append(f"{pad}({a}, [{b}, {c}]) = ({self.expr(sc, 1)}, ({self.expr(sc, 1)}, {self.expr(sc, 1)}))")
                for x in (a, b, c): self.define_int(sc, x, True)
                self.features.add("destructure-nested")
            else:
                L.append(f"{pad}{a}, {b} = iter([{self.expr(sc, 1)}, {self.expr(sc, 1)}])")
                self.define_int(sc, a, True); self.define_int(sc, b, True)
        elif k == "listop":
            self.features.add("list")
            n = sc.fresh("l")
            ml = r.randrange(3, 6)
            L.append(f"{pad}{n} = [{', '.join(self.expr(sc, 1) for _ in range(ml))}]")
            sc.lists.append((n, ml))
            if r.random() < 0.5:
                L.append(f"{pad}{n}[{r.randrange(0, ml)}] = {self.expr(sc, 1)}")
                self.features.add("subscript-assign")
            if r.random() < 0.3:
                L.append(f"{pad}{n}[{r.randrange(0, 2)}:{r.choice(['', '2', '-1'])}] = [{self.expr(sc, 1)}, {self.expr(sc, 1)}, {self.expr(sc, 1)}]")
                self.features.add("slice-assign")
        elif k == "if":
            self.features.add("if")
            L.append(f"{pad}if {self.cond(sc)}:")
            L += self.block(sc, r.randrange(1, 3), depth - 1, ind + 1)
            for _ in range(r.choice([0, 0, 1])):
                self.features.add("elif")
                L.append(f"{pad}elif {self.cond(sc)}:")
                L += self.block(sc, r.randrange(1, 3), depth - 1, ind + 1)
            if r.random() < 0.5:
                L.append(f"{pad}else:")
                L += self.block(sc, r.randrange(1, 3), depth - 1, ind + 1)
        elif k == "for" and sc.kind != "class":
            self.features.add("for")
            v = sc.fresh("i")
            ch = r.randrange(4)
            inner = sc.child_block()
            inner.loop += 1
            if ch == 0:
                L.append(f"{pad}for {v} in range({r.randrange(0, 5)}):")
                inner.ints.append(v)
            elif ch == 1:
                L.append(f"{pad}for {v} in {self.listexpr(sc)}:")
                inner.ints.append(v)
            elif ch == 2:
                w = sc.fresh("j")
                L.append(f"{pad}for {v}, {w} in [(1, 2), (3, {self.expr(sc, 1)}), (5, 6)]:")
                inner.ints += [v, w]
                self.features.add("for-tuple-target")
            else:
                L.append(f"{pad}for {v} in iter(range({r.randrange(1, 5)})):")
                inner.ints.append(v)
            n = r.randrange(1, 4)
            for _ in range(n):
                L += self.stmt(inner, depth - 1, ind + 1)
            if r.random() < 0.3:
                self.features.add("for-else")
                L.append(f"{pad}else:")
                L += self.block(sc, r.randrange(1, 3), depth - 1, ind + 1)
        elif k == "while":
            self.features.add("while")
            w = self.new_int(sc)
            L.append(f"{pad}{w} = {r.randrange(0, 4)}")
            self.define_int(sc, w, True, assignable=False)
            inner = sc.child_block()
            inner.loop += 1
            L.append(f"{pad}while {w} > 0{' and ' + self.cond(sc, 0) if r.random() < .2 else ''}:")
            L.append(f"{pad}    {w} -= 1")
            for _ in range(r.randrange(1, 4)):
                L += self.stmt(inner, depth - 1, ind + 1)
            if r.random() < 0.3:
                self.features.add("while-else")
                L.append(f"{pad}else:")
                L += self.block(sc, r.randrange(1, 3), depth - 1, ind + 1)
        elif k == "break":
            self.features.add("break")
            if r.random() < 0.7:
                L.append(f"{pad}if {self.cond(sc)}:")
                L.append(f"{pad}    break")
            else:
                L.append(f"{pad}break")
        elif k == "continue":
            self.features.add("continue")
            if r.random() < 0.7:
                L.append(f"{pad}if {self.cond(sc)}:")
                L.append(f"{pad}    continue")
            else:
                L.append(f"{pad}continue")
        elif k == "return":
            self.features.add("return")
            if r.random() < 0.6:
                L.append(f"{pad}if {self.cond(sc)}:")
                L.append(f"{pad}    return {self.expr(sc, 2)}")
            else:
                L.append(f"{pad}return {self.expr(sc, 2)}")
        elif k == "def" and sc.kind in ("module", "function"):
            L += self.funcdef(sc, depth, ind)
        elif k == "closure" and sc.kind == "function" and sc.parent is not None and sc.parent.kind == "module":
            L += self.closure(sc, depth, ind)
        elif k == "class" and sc.kind == "module" and sc.loop == 0:
            L += self.classdef(sc, depth, ind)
        elif k == "obj" and self.classes and sc.kind != "class":
            cn, attrs, methods, base = r.choice(self.classes)
            o = sc.fresh("o")
            L.append(f"{pad}{o} = {cn}({self.expr(sc, 1)})")
            sc.objs.append((o, cn))
            self.features.add("instance")
            if attrs and r.random() < 0.5:
                L.append(f"{pad}{o}.{r.choice(attrs)} = {self.expr(sc, 1)}")
                self.features.add("attribute-assign")
        elif k == "walrus":
            self.features.add("walrus")
            t = self.new_int(sc)
            if sc.kind == "class":
                L.append(f"{pad}{t} = {self.expr(sc, 1)}")
            else:
                L.append(f"{pad}print(({t} := {self.expr(sc, 2)}) + 1)")
            self.define_int(sc, t, True)
        elif k == "import" and sc.kind == "module":
            self.features.add("import")
            ch = r.randrange(5)
            if ch == 0:
                L.append(f"{pad}import math")
                L.append(f"{pad}print(math.floor({self.expr(sc, 1)} / 2))")
            elif ch == 1:
                L.append(f"{pad}import os.path as osp, math as m_")
                L.append(f"{pad}print(osp.join('a', 'b'), m_.gcd(12, {self.expr(sc, 0)}))")
            elif ch == 2:
                L.append(f"{pad}from math import floor, ceil as cl")
                L.append(f"{pad}print(floor(2.5), cl({self.expr(sc, 0)} / 3))")
            elif ch == 3:
                L.append(f"{pad}import os.path")
                L.append(f"{pad}print(os.path.basename('x/y'), os.sep)")
            else:
                L.append(f"{pad}from os import path as pth, sep")
                L.append(f"{pad}print(pth.basename('p/q'), sep)")
        elif k == "pass":
            L.append(f"{pad}pass")
        elif k == "exprstmt":
            if sc.lists:
                n, ml = r.choice(sc.lists)
                L.append(f"{pad}{n}.append({self.expr(sc, 1)})")
            else:
                L.append(f"{pad}{self.expr(sc, 2)}")
        else:
            L.append(pad + self.printstmt(sc))
        return L

    def can_rebind(self, sc, name):
        return True

    def define_int(self, sc, name, new, assignable=True):
        if name not in sc.ints:
            sc.ints.append(name)
        if assignable and name not in sc.assignable:
            sc.assignable.append(name)

    module_scope_assignables = ()

    def params(self, prefix, visible=()):
        """`visible`: integer names of the *defining* scope; a default value may read one of them (a default is
        evaluated where the def statement stands: module global, enclosing function's local, class attribute)"""
        r = self.r
        ps = []

        def dflt():
            if visible and r.random() < 0.5:
                self.features.add("default-reads-defining-scope")
                return r.choice(list(visible))
            return str(r.randrange(0, 9))
        npos = r.randrange(0, 3)
        names = [f"{prefix}p{i}" for i in range(6)]
        it = iter(names)
        sig = []
        used = []
        posonly = r.random() < 0.15 and npos > 0
        for i in range(npos):
            n = next(it); used.append(n)
            sig.append(n)
        if posonly:
            sig.append("/")
        ndef = 0
        if r.random() < 0.4:
            n = next(it); used.append(n); sig.append(f"{n}={dflt()}"); ndef = 1
        star = None
        if r.random() < 0.2:
            star = f"{prefix}va"; sig.append("*" + star)
        kwo = None
        if r.random() < 0.25:
            if star is None:
                sig.append("*")
            kwo = next(it); used.append(kwo); sig.append(f"{kwo}={dflt()}")
        kw = None
        if r.random() < 0.15:
            kw = f"{prefix}kw"; sig.append("**" + kw)
        return sig, used, npos, star, kw

    def funcdef(self, sc, depth, ind):
        r = self.r
        pad = "    " * ind
        self.features.add("def")
        idx = next(self.fn_counter)
        name = f"f{idx}"
        prefix = f"f{idx}_"
        sig, used, npos, star, kw = self.params(prefix, visible=[v for v in sc.ints if v in getattr(sc, "assignable", []) or sc.kind == "module"])
        L = []
        decos = []
        if r.random() < 0.2 and sc.kind == "module":
            self.features.add("decorator")
            self.need_deco = True
            decos = [f"{pad}@deco({r.randrange(1, 4)})"] + ([f"{pad}@deco2"] if r.random() < .5 else [])
        L += decos
        L.append(f"{pad}def {name}({', '.join(sig)}):")
        fs = Scope("function", prefix, parent=sc if sc.kind == "module" else sc)
        fs.ints = list(used)
        fs.assignable = list(used)
        # module-level ints visible (read-only) -- only those of the module scope defined so far
        msc = sc
        while msc.parent is not None:
            msc = msc.parent
        if sc.kind == "module":
            fs.ints += [v for v in sc.ints]
            fs.funcs = list(sc.funcs)
            fs.lists = list(sc.lists)
            fs.objs = list(sc.objs)
            gl = [v for v in sc.assignable if v in sc.ints]
            if gl and r.random() < 0.3:
                g = r.choice(gl)
                self.features.add("global")
                L.append(f"{pad}    global {g}")
                fs.assignable.append(g)
        else:
            # nested def in a function: reads of enclosing locals allowed (captured, read-only)
            fs.ints += list(sc.ints)
            fs.funcs = list(sc.funcs)
        if star:
            L.append(f"{pad}    print(len({star}))")
        if kw:
            L.append(f"{pad}    print(sorted({kw}))")
        n = r.randrange(1, 5)
        for _ in range(n):
            L += self.stmt(fs, depth - 1, ind + 1)
        L.append(f"{pad}    return {self.expr(fs, 2)}")
        sc.funcs.append((name, npos))
        # call it right away too
        if r.random() < 0.7:
            args = [self.expr(sc, 1) for _ in range(npos)]
            if star and r.random() < 0.5:
                args.append(self.expr(sc, 0))
            if kw and r.random() < 0.5:
                args.append(f"zz={self.expr(sc, 0)}")
            L.append(f"{pad}print({name}({', '.join(args)}))")
        return L

    def closure(self, sc, depth, ind):
        """inside a module-level function: a nested function that captures / rebinds an enclosing local"""
        r = self.r
        pad = "    " * ind
        self.features.add("closure")
        L = []
        cell = sc.fresh("cell")
        L.append(f"{pad}{cell} = {self.expr(sc, 1)}")
        self.define_int(sc, cell, True)
        idx = next(self.fn_counter)
        name = f"g{idx}"
        prefix = f"g{idx}_"
        L.append(f"{pad}def {name}({prefix}a):")
        fs = Scope("function", prefix, parent=sc)
        fs.ints = [f"{prefix}a", cell] + [v for v in sc.ints if v != cell][:3]
        fs.assignable = [f"{prefix}a"]
        fs.allow_nested = True      # nested scopes below a `nonlocal` rebinding (was avoided while KF-D18 was open; fixed in ce8f95d)
        if r.random() < 0.6:
            self.features.add("nonlocal")
            L.append(f"{pad}    nonlocal {cell}")
            L.append(f"{pad}    {cell} {r.choice(['=', '+=', '*='])} {self.expr(fs, 1)}")
        for _ in range(r.randrange(0, 3)):
            L += self.stmt(fs, depth - 1, ind + 1)
        L.append(f"{pad}    return {cell} + {self.expr(fs, 1)}")
        L.append(f"{pad}print({name}({self.expr(sc, 1)}), {cell})")
        sc.funcs.append((name, 1))
        return L

    def classdef(self, sc, depth, ind):
        r = self.r
        pad = "    " * ind
        self.features.add("class")
        idx = next(self.cls_counter)
        name = f"K{idx}"
        base = None
        if self.classes and r.random() < 0.4:
            base = r.choice(self.classes)
            self.features.add("inheritance")
        head = f"{pad}class {name}({base[0]}):" if base else f"{pad}class {name}:"
        L = [head]
        attrs = [f"a{idx}_{i}" for i in range(r.randrange(1, 3))]
        cs = Scope("class", f"k{idx}_", parent=sc)
        cs.ints = list(sc.ints)
        cs.funcs = list(sc.funcs)
        cattrs = []
        for _ in range(r.randrange(0, 3)):
            ca = cs.fresh("c")
            L.append(f"{pad}    {ca} = {self.expr(cs, 1)}")
            cs.ints.append(ca)
            cattrs.append(ca)
        if r.random() < 0.3:
            self.features.add("class-body-if")
            L.append(f"{pad}    if {self.cond(cs, 0)}:")
            ca = cs.fresh("c")
            L.append(f"{pad}        {ca} = 1")
            L.append(f"{pad}    else:")
            L.append(f"{pad}        {ca} = 2")
            cattrs.append(ca)
        methods = []
        L.append(f"{pad}    def __init__(self, x):")
        if base:
            self.features.add("super")
            L.append(f"{pad}        super().__init__(x + 1)" if r.random() < .7 else f"{pad}        super({name}, self).__init__(x)")
        for a in attrs:
            L.append(f"{pad}        self.{a} = x + {r.randrange(0, 5)}")
        allattrs = attrs + (base[1] if base else [])
        for mi in range(r.randrange(1, 4)):
            mk = r.choice(["method", "method", "static", "class", "property"])
            mn = f"m{idx}_{mi}"
            ms = Scope("function", f"{mn}_", parent=cs)
            ms.ints = [v for v in sc.ints]
            ms.funcs = list(sc.funcs)
            if mk == "method":
                if cattrs and r.random() < 0.5:
                    # defaults that read class attributes (evaluated in the class body), positional and keyword-only
                    self.features.add("default-reads-class-attribute")
                    L.append(f"{pad}    def {mn}(self, {mn}_a, {mn}_b={r.choice(cattrs)}, *, {mn}_k={r.choice(cattrs)} + 1):")
                    ms.ints += [f"{mn}_k"]
                else:
                    L.append(f"{pad}    def {mn}(self, {mn}_a, {mn}_b=2):")
                ms.ints += [f"{mn}_a", f"{mn}_b"]; ms.assignable = [f"{mn}_a"]
                for _ in range(r.randrange(0, 2)):
                    L += self.stmt(ms, depth - 1, ind + 2)
                L.append(f"{pad}        return self.{r.choice(allattrs)} + {self.expr(ms, 1)}")
                methods.append((mn, "method", 1))
            elif mk == "static":
                self.features.add("staticmethod")
                L.append(f"{pad}    @staticmethod")
                L.append(f"{pad}    def {mn}({mn}_a):")
                ms.ints += [f"{mn}_a"]
                L.append(f"{pad}        return {self.expr(ms, 2)}")
                methods.append((mn, "static", 1))
            elif mk == "class":
                self.features.add("classmethod")
                L.append(f"{pad}    @classmethod")
                L.append(f"{pad}    def {mn}(cls, {mn}_a):")
                ms.ints += [f"{mn}_a"]
                L.append(f"{pad}        return {self.expr(ms, 1)} + len(cls.__name__)")
                methods.append((mn, "class", 1))
            else:
                self.features.add("property")
                L.append(f"{pad}    @property")
                L.append(f"{pad}    def {mn}(self):")
                L.append(f"{pad}        return self.{r.choice(allattrs)} * 2")
                methods.append((mn, "property", 0))
        allmethods = methods + (base[2] if base else [])
        self.classes.append((name, allattrs, allmethods, base[0] if base else None))
        o = sc.fresh("o")
        L.append(f"{pad}{o} = {name}({self.expr(sc, 1)})")
        sc.objs.append((o, name))
        props = [m for m in allmethods if m[1] == "property"]
        L.append(f"{pad}print({o}.{r.choice(allattrs)}" + (f", {o}.{props[0][0]}" if props else "") + (f", {name}.{cattrs[0]}" if cattrs else "") + ")")
        return L

    def program(self):
        self.need_deco = False
        sc = Scope("module", "")
        L = []
        # a few initial variables so that expressions have material
        for _ in range(2):
            v = self.new_int(sc)
            L.append(f"{v} = {self.r.randrange(0, 20)}")
            self.define_int(sc, v, True)
        self.module_scope_assignables = sc.assignable
        for _ in range(self.size):
            L += self.stmt(sc, 3, 0)
        L.append("print(" + ", ".join(sc.ints[:8]) + ")")
        pre = []
        if self.need_deco:
            pre = ["def deco(n):",
                   "    print('deco', n)",
                   "    def wrap(fn):",
                   "        print('wrap', n)",
                   "        def inner(*a, **k):",
                   "            return fn(*a, **k) + n",
                   "        return inner",
                   "    return wrap",
                   "def deco2(fn):",
                   "    print('deco2')",
                   "    return fn"]
        return "\n".join(pre + L) + "\n"


def gen_program(rng, size=None):
    g = ProgGen(rng, size=size or rng.randrange(4, 14))
    src = g.program()
    return src, sorted(g.features)


# ---------------------------------------------------------------------- behavioural oracle
class Timeout(Exception):
    pass


def run_source(src, mode, limit=200000):
    """exec (mode='exec') or eval (mode='eval') in a fresh namespace; returns (status, stdout, globals-summary)"""
    buf = io.StringIO()
    g = {"__name__": "__main__", "__builtins__": __builtins__}
    steps = [0]

    def tracer(frame, event, arg):
        steps[0] += 1
        if steps[0] > limit:
            raise Timeout()
        return tracer
    status = "ok"
    try:
        code = compile(src, "<prog>", mode)
    except SyntaxError as e:
        return "nocompile:%s" % e.msg, "", {}
    except RecursionError:
        return "nocompile:RecursionError", "", {}
    old = sys.gettrace()
    sys.settrace(tracer)
    try:
        with contextlib.redirect_stdout(buf):
            if mode == "exec":
                exec(code, g)
            else:
                eval(code, g)
    except Timeout:
        status = "timeout"
    except BaseException as e:  # noqa
        status = "exc:" + type(e).__name__
    finally:
        sys.settrace(old)
    return status, buf.getvalue(), summarize_globals(g)


def summarize_globals(g):
    out = {}
    for k, v in g.items():
        if k.startswith("__"):
            continue
        if isinstance(v, int) and not isinstance(v, bool) and v.bit_length() > 4096:
            out[k] = "int:%x" % v            # hex: no digit limit, still exact
        elif isinstance(v, (int, float, str, bytes, bool, type(None), complex)):
            out[k] = repr(v)
        elif isinstance(v, (list, tuple, dict, set, frozenset)):
            try:
                out[k] = repr(v) if "object at 0x" not in repr(v) else type(v).__name__
            except Exception:
                out[k] = type(v).__name__
        elif isinstance(v, type):
            out[k] = "class"
        elif callable(v):
            out[k] = "callable"
        elif type(v).__name__ == "module":
            out[k] = "module:" + v.__name__
        else:
            out[k] = "obj:" + type(v).__name__
    return out


def user_view(summary):
    return {k: v for k, v in summary.items() if not k.startswith("__ol_") and k not in ("itertools", "importlib")}


def behaviour_check(ol, src, cfg):
    """C01's observable for one program and one configuration.
    returns (verdict, detail): verdict in ok | skip:<why> | fail:<why>"""
    st0, out0, g0 = run_source(src, "exec")
    if st0 != "ok":
        return "skip:original " + st0, ""
    try:
        text = ol.convert_code_string(src, configs=mk_configs(ol, cfg))
    except RecursionError:
        return "fail:convert RecursionError", ""
    except Exception as e:
        return f"fail:convert raised {type(e).__name__}: {e}", ""
    st1, out1, g1 = run_source(text, "eval")
    if st1 != "ok":
        return f"fail:converted {st1}", text
    if out0 != out1:
        return "fail:stdout differs", text
    u0, u1 = user_view(g0), user_view(g1)
    if u0 != u1:
        extra = sorted(set(u1) - set(u0)); missing = sorted(set(u0) - set(u1))
        diff = sorted(k for k in set(u0) & set(u1) if u0[k] != u1[k])
        return f"fail:globals differ extra={extra} missing={missing} changed={diff}", text
    return "ok", text


def converter_outputs(ck, n):
    """expression trees emitted by the real converter on n generated programs (all wrapper/if styles)"""
    ol = sys.modules.get("oneliner") or __import__("oneliner")
    conv = sys.modules["oneliner.convert"].convert
    made = 0
    tries = 0
    while made < n and tries < 4 * n:
        tries += 1
        src, feats = gen_program(ck.rng)
        cfg = CONFIGS[ck.rng.randrange(len(CONFIGS))]
        try:
            tree = conv(ast.parse(src), symtable.symtable(src, "<s>", "exec"), mk_configs(ol, cfg))
        except Exception:
            continue
        made += 1
        yield f"conv#{made}", tree
