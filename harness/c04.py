"""C04 -- literals are preserved exactly and never produce a line break."""
import ast, itertools, json, sys
from common import Check, fresh_oneliner, load_known_findings
import gen_expr, unparse_common as U, leandrv
from astjson import expr_to_json, expr_from_json

A = ast


def code_points(ck):
    pts = list(range(0, 0x300))
    pts += [0x2028, 0x2029, 0x85, 0xD7FF, 0xD800, 0xD801, 0xDBFF, 0xDC00, 0xDFFF, 0xE000, 0xFFFD, 0xFFFE, 0xFFFF, 0x10000, 0x1F600, 0x10FFFF]
    for plane in range(17):
        for _ in range(64 if ck.tier == "quick" else 512):
            pts.append(plane * 0x10000 + ck.rng.randrange(0x10000))
    return sorted(set(pts))


ALPHABET = ["'", '"', "\\", "{", "}", "\n", "a"]


def small_strings():
    for n in range(0, 5):
        for t in itertools.product(ALPHABET, repeat=n):
            yield "".join(t)


def C(v):
    return A.Constant(value=v)


def literal_cases(ck):
    """(name, tree, expected_value_or_None)"""
    for c in code_points(ck):
        yield f"cp:U+{c:04X}", C(chr(c)), chr(c)
    for s in small_strings():
        yield f"str:{s!r}", C(s), s
    # an escape followed by characters that could extend it: NUL + octal digits, \x / \u escapes + hex digits
    for s in ["\x001", "\x0007", "a\x008b", "\x00\x001", "\x019", "\x7f0", "\x800", "\u01000", "\ud8000", "\U000100000", "\n1", "\\0", "\\x41"]:
        yield f"str:{s!r}", C(s), s
    for s in ["", "plain", "tab\t", "\r\n", "\x00\x7f\x80\xff", "\u2028x", "日本語", "a" * 300, "'''", '"""', "\\n", "\\\\'"]:
        yield f"str:{s!r}", C(s), s
    for b in [b"", b"a", b"'", b'"', b"'\"", b"\\", b"\n\r\t\x00\xff", bytes(range(256))]:
        yield f"bytes:{b!r}"[:60], C(b), b
    ints = [0, 1, 7, 10, 255, 2 ** 31, 2 ** 64, 10 ** 50, 123456789012345678901234567890]
    for i in ints:
        yield f"int:{i}", C(i), i
    for f in [0.0, 0.5, 1.5, 1e-7, 1e22, 1e300, 5e-324, 1.7976931348623157e308, 3.141592653589793, 1e999, 2.5e-5, 100.0, 1e16]:
        yield f"float:{f!r}", C(f), f
    for z in [1j, 2.5j, 0j, 1e999j, 1e-9j, 123456789.125j]:
        yield f"complex:{z!r}", C(z), z
    for v in (None, True, False, ...):
        yield f"const:{v!r}", C(v), v
    # equal but different literals after one another in one process (True / 1 / 1.0, False / 0 / 0.0 / 0j, 2 / 2.0)
    for v in (1.0, 1, True, 1.0, 0j, 0.0, False, 0, 2.0, 2, -0.0 + 0.0):
        yield f"equal-literal:{v!r}", ast.Tuple(elts=[C(v)], ctx=ast.Load()), (v,)


def fstring_cases(ck):
    """f-strings: conversion x spec shape x nesting <= 3, literal parts from the small alphabet"""
    N = gen_expr.N
    convs = [-1, 114, 115, 97]
    def specs(depth):
        yield None
        yield A.JoinedStr(values=[C(">10")])
        yield A.JoinedStr(values=[A.FormattedValue(value=N("w"), conversion=-1, format_spec=None)])
        yield A.JoinedStr(values=[C(">"), A.FormattedValue(value=N("w"), conversion=-1, format_spec=None)])
        yield A.JoinedStr(values=[A.FormattedValue(value=N("w"), conversion=-1, format_spec=None), C(".2f")])
        yield A.JoinedStr(values=[A.FormattedValue(value=N("w"), conversion=114, format_spec=None), C("."), A.FormattedValue(value=N("p"), conversion=-1, format_spec=None)])
        yield A.JoinedStr(values=[C("'^10")])
        yield A.JoinedStr(values=[C('"<7')])
        yield A.JoinedStr(values=[C("'\"x"), A.FormattedValue(value=C("q"), conversion=-1, format_spec=None)])
    def values(depth):
        yield N("x")
        yield C("s")
        yield C("q'\"")
        yield A.Dict(keys=[C(1)], values=[C(2)])
        yield A.Set(elts=[N("x")])
        yield A.Lambda(args=gen_expr.noargs(), body=N("x"))
        yield A.IfExp(test=N("a"), body=N("b"), orelse=N("c"))
        yield A.Compare(left=N("a"), ops=[A.NotEq()], comparators=[N("b")])
        yield A.NamedExpr(target=A.Name(id="w", ctx=A.Store()), value=N("x"))
        yield A.Subscript(value=N("d"), slice=C("k"), ctx=A.Load())
        yield A.Subscript(value=A.Dict(keys=[C(1)], values=[C(2)]), slice=C(1), ctx=A.Load())
        yield A.Call(func=A.Attribute(value=A.Dict(keys=[], values=[]), attr="get", ctx=A.Load()), args=[N("x")], keywords=[])
        yield A.BinOp(left=A.Set(elts=[N("x")]), op=A.BitOr(), right=N("y"))
        yield A.Compare(left=A.DictComp(key=N("t"), value=N("t"), generators=[gen_expr.gen1()]), ops=[A.Eq()], comparators=[N("y")])
        yield A.IfExp(test=N("a"), body=A.Set(elts=[N("x")]), orelse=N("c"))
        yield C(b"by")
        yield A.Call(func=A.Attribute(value=C(","), attr="join", ctx=A.Load()), args=[N("x")], keywords=[])
        if depth < 3:
            for inner in itertools.islice(fstrings(depth + 1), 0, None, 7):
                yield inner
    def fstrings(depth):
        lits = [None, "a", "{", "}}", "'", '"', "\\", "\n", "{}x", "é😀"]
        i = 0
        for v in values(depth):
            for conv in convs:
                for sp in specs(depth):
                    i += 1
                    pre = lits[i % len(lits)]; post = lits[(i * 7 + 3) % len(lits)]
                    vals = []
                    if pre: vals.append(C(pre))
                    vals.append(A.FormattedValue(value=v, conversion=conv, format_spec=sp))
                    if post: vals.append(C(post))
                    yield A.JoinedStr(values=vals)
    for i, t in enumerate(fstrings(1)):
        yield f"fstr#{i}", t
    for s in small_strings():
        if s:
            yield f"fstr-lit:{s!r}", A.JoinedStr(values=[C(s), A.FormattedValue(value=N("x"), conversion=-1, format_spec=None)])
            yield f"fstr-nested-lit:{s!r}", A.JoinedStr(values=[A.FormattedValue(value=C(s), conversion=-1, format_spec=None)])
    # an escape followed by characters that could extend it, as literal part and as format-spec text
    for s in ["\x001", "\x0007", "a\x008b", "\x00\x001", "\x019", "\x7f0", "\x800", "\u01000", "\ud8000", "\U000100000", "\n1", "\\0", "\\x41"]:
        yield f"fstr-escape-then-digit:{s!r}", A.JoinedStr(values=[C(s), A.FormattedValue(value=N("v"), conversion=-1, format_spec=A.JoinedStr(values=[C(s + ">3")]))])


def spec_literal_brace(tree):
    """KF-D75: a brace in the literal text of a format spec"""
    for n in ast.walk(tree):
        if isinstance(n, ast.FormattedValue) and isinstance(n.format_spec, ast.JoinedStr):
            for v in n.format_spec.values:
                if isinstance(v, ast.Constant) and isinstance(v.value, str) and ("{" in v.value or "}" in v.value):
                    return True
    return False


def same_value(a, b):
    if type(a) is not type(b):
        return False
    if isinstance(a, float):
        return repr(a) == repr(b)
    if isinstance(a, complex):
        return repr(a) == repr(b)
    return a == b


def main(argv):
    ck = Check("C04", argv)
    ol = fresh_oneliner()
    eu = sys.modules["oneliner.expr_unparse"]
    if ck.replay_file:
        return replay(ck, ol)
    b = ck.build(["OlVerif.Props.C04"])
    if not b["extract_ok"]:
        ck.broken.append("translator: tools/extract.py could not read the escape table: " + b["log"][-400:])
    if not b["built"].get("OlVerif.Props.C04", False):
        ck.broken.append("lean: OlVerif.Props.C04 does not build (an obligation over the regenerated escape table fails): " + b["log"][-1500:])
    else:
        ck.audit("OlVerif/Audit/C04.lean")
    model_ok = b["driver_ok"]
    if not model_ok:
        ck.broken.append("lean: the driver (model) does not build")

    failing = []
    k_bad = []
    # ---- 1. constants: R oracle (literal_eval), one line, encodable
    lit = list(literal_cases(ck))
    texts = []
    for name, tree, val in lit:
        try:
            text = eu.expr_unparse(tree)
        except Exception as ex:
            failing.append((name, tree, None, f"unparser raised {type(ex).__name__}: {ex}")); texts.append(None); continue
        texts.append(text)
        ck.case("lit:" + name)
        ck.count("family:" + name.split(":")[0])
        problem = None
        if "\n" in text or "\r" in text:
            problem = "text contains a line break"
        else:
            try:
                text.encode("utf8")
            except UnicodeEncodeError:
                problem = "text cannot be encoded as UTF-8"
        if problem is None:
            try:
                back = ast.literal_eval(text)
                if not same_value(back, val):
                    problem = f"literal_eval gives {back!r:.80}, expected {val!r:.80}"
            except Exception as ex:
                problem = f"literal_eval raised {type(ex).__name__}: {ex}"
        if problem:
            failing.append((name, tree, text, problem))
    ck.sample({"case": lit[40][0], "text": texts[40]})
    ck.sample({"case": "str:\"'\\\\{\\n\"", "text": eu.expr_unparse(C("'\\{\n"))})
    # ---- 2. f-strings: complete round trip
    fs = [(n, t) for n, t in fstring_cases(ck) if gen_expr.parser_producible(t)]
    for name, tree in fs:
        ok, text, detail = U.roundtrip_real(ol, tree)
        ck.case("f:" + ast.dump(tree))
        ck.count("family:fstring")
        if ok and ("\n" in text or "\r" in text):
            ok, detail = False, "text contains a line break"
        if ok:
            try:
                text.encode("utf8")
            except UnicodeEncodeError:
                ok, detail = False, "text cannot be encoded as UTF-8"
        if not ok:
            failing.append((name, tree, text, detail))
        elif len(ck.samples) < 6 and name.endswith("7"):
            ck.sample({"case": name, "text": text})
    # ---- 2b. a brace in the literal text of a format spec (writable only through an escape; the stdlib unparser does not
    # round-trip these either, so the producibility filter above never lets them through: they are parsed from source here)
    kfs = {k["kf"]: k for k in load_known_findings("C04") if k.get("status") == "open"}
    kf_seen = set()
    for src in [r"f'{x:\x7b}'", r"f'{x:\x7d}'", r"f'{x:\x7b\x7d}'", r"f'{x:a\x7bb}'", r"f'{x:{y}\x7b>3}'", r"f'{x!r:\N{LEFT CURLY BRACKET}}'", r"f'a{{{x:\x7d}}}b'"]:
        tree = ast.parse(src, mode="eval").body
        ok, text, detail = U.roundtrip_real(ol, tree)
        ck.case("f:" + ast.dump(tree))
        ck.count("family:fstring-spec-brace")
        if not ok:
            if "KF-D75" in kfs and spec_literal_brace(tree):
                kf_seen.add("KF-D75")
            else:
                failing.append((f"fstr-spec-brace:{src}", tree, text, detail))
    for kf in sorted(kf_seen):
        ck.known(kf, kfs[kf]["what"])
    # ---- 3. K: model = code (escape on multi-character strings; tokens of all literal trees)
    if model_ok:
        strs = [s for s in small_strings()] + ["".join(chr(c) for c in code_points(ck)[i:i + 9]) for i in range(0, 900, 9)]
        reqs = []
        for s in strs:
            for q in "'\"":
                reqs.append({"op": "escape", "s": [ord(c) for c in s], "q": q})
        rep = leandrv.run_batch(reqs)
        i = 0
        for s in strs:
            for q in "'\"":
                m = leandrv.cps(rep[i].get("r", [])) if "r" in rep[i] else None
                i += 1
                real = eu.get_unescaped_str(s, q)
                if m != real:
                    k_bad.append((f"escape({s!r},{q})", f"model {m!r} != real {real!r}"))
                else:
                    ck.count("K_escape_agree")
        trees = [t for (_, t, _), tx in zip(lit, texts) if tx is not None] + [t for _, t in fs]
        txs = [tx for tx in texts if tx is not None] + [eu.expr_unparse(t) for _, t in fs]
        mt = U.model_tokens(trees)
        for t, toks, text in zip(trees, mt, txs):
            rt = U.tokens_of_text(text)
            if toks != rt:
                k_bad.append((ast.dump(t)[:200], f"model tokens {toks} != real tokens {rt}"))
            else:
                ck.count("K_tokens_agree")
        # ---- 4. R for the reference decoder: Lean decodeStr = CPython's decoding of the same text
        dreq = []; dexp = []
        for (name, tree, val), text in zip(lit, texts):
            if isinstance(val, str) and text is not None and len(text) < 400:
                q = text[0]
                dreq.append({"op": "decode", "t": [ord(c) for c in text[1:]] + [43], "q": q})
                try:
                    dexp.append(ast.literal_eval(text))
                except Exception:
                    dexp.append(None)
        for r, exp, rq in zip(leandrv.run_batch(dreq), dexp, dreq):
            got = None if r.get("s") is None else "".join(chr(c) for c in r["s"])
            if got != exp or (got is not None and r.get("rest") != 1):
                k_bad.append(("decode", f"reference decoder {got!r:.60} != literal_eval {exp!r:.60}"))
            else:
                ck.count("R_decoder_agree")
    if k_bad:
        ck.broken.append(f"correspondence: model and code differ on {len(k_bad)} cases, first: {k_bad[0][0]}: {k_bad[0][1][:300]}")
    failing.sort(key=lambda f: len(f[2] or ""))
    for name, tree, text, detail in failing[:3]:
        ck.violation({"kind": "literal", "case": name, "tree_json": expr_to_json(tree), "tree": ast.dump(tree)[:2000], "text": text,
                      "observed": detail, "expected": "single line, encodable, parses back to the identical constant / f-string structure",
                      "broken_obligations": ck.broken})
    if ck.broken and not failing:
        ck.violation({"kind": "obligation", "broken_obligations": ck.broken,
                      "searched": f"{len(lit)} constants and {len(fs)} f-strings on the real unparser: all preserved",
                      "k_disagreements": [{"case": n, "detail": d[:400]} for n, d in k_bad[:10]]}, no_input=True)
    return ck.finish(
        rule="constants: every code point 0..0x2FF + sampled planes + surrogate boundaries, all strings over {' \" \\ { } \\n a} up to length 4, "
             "bytes, ints, floats incl. inf, complex; f-strings: value shape x conversion x spec shape x nesting<=3 x literal parts; "
             "distinct by case name / tree dump",
        extra={"R_failures": len(failing), "K_disagreements": len(k_bad), "constants": len(lit), "fstrings": len(fs)},
        assumptions=["repr() of finite floats / ints / bytes is CPython's, not the repository's: assumed to read back (checked by literal_eval on every case)",
                     "the reference decoder (Unparse/StrLit.lean) models CPython's escape decoding; compared with literal_eval on every generated string"])


def replay(ck, ol):
    r = json.load(open(ck.replay_file))
    if "tree_json" not in r:
        print("replay file names a broken obligation, no input:", r.get("broken_obligations")); return 0
    e = expr_from_json(r["tree_json"])
    ok, text, detail = U.roundtrip_real(ol, e)
    print("tree:", ast.dump(e)[:500]); print("text:", text); print("observed:", "round-trips" if ok else detail)
    return 0 if ok else 1


if __name__ == "__main__":
    sys.exit(main(sys.argv[1:]))
