"""Expression-tree generators: the complete (slot x child kind) matrix, random deep trees,
literal families.  All trees are `ast` objects; validity (= producible by the parser) is
decided operationally by `parser_producible`."""
import ast, itertools, random

A = ast
LD = A.Load()


def N(i="x"):
    return A.Name(id=i, ctx=LD)


def C(v):
    return A.Constant(value=v)


def noargs():
    return A.arguments(posonlyargs=[], args=[], vararg=None, kwonlyargs=[], kw_defaults=[], kwarg=None, defaults=[])


def gen1(t=None, i=None, ifs=None, is_async=0):
    return A.comprehension(target=t or A.Name(id="t", ctx=A.Store()), iter=i or N("it"), ifs=ifs or [], is_async=is_async)


BINOPS = [A.Add, A.Sub, A.Mult, A.MatMult, A.Div, A.Mod, A.Pow, A.LShift, A.RShift, A.BitOr, A.BitXor, A.BitAnd, A.FloorDiv]
UNOPS = [A.Invert, A.Not, A.UAdd, A.USub]
CMPOPS = [A.Eq, A.NotEq, A.Lt, A.LtE, A.Gt, A.GtE, A.Is, A.IsNot, A.In, A.NotIn]


def plugs():
    """child shapes: at least one per node kind / operator class (name -> builder)."""
    P = {}
    P["Name"] = lambda: N("a")
    P["Int"] = lambda: C(7)
    P["Float"] = lambda: C(1.5)
    P["Complex"] = lambda: C(2j)
    P["Str"] = lambda: C("s'\"\\\n")
    P["Bytes"] = lambda: C(b"b'")
    P["None"] = lambda: C(None)
    P["True"] = lambda: C(True)
    P["Ellipsis"] = lambda: C(...)
    P["JoinedStr"] = lambda: A.JoinedStr(values=[C("p{"), A.FormattedValue(value=N("a"), conversion=114, format_spec=A.JoinedStr(values=[C(">"), A.FormattedValue(value=N("w"), conversion=-1, format_spec=None)]))])
    P["List"] = lambda: A.List(elts=[N("a"), N("b")], ctx=LD)
    P["List0"] = lambda: A.List(elts=[], ctx=LD)
    P["Tuple"] = lambda: A.Tuple(elts=[N("a"), N("b")], ctx=LD)
    P["Tuple1"] = lambda: A.Tuple(elts=[N("a")], ctx=LD)
    P["Tuple0"] = lambda: A.Tuple(elts=[], ctx=LD)
    P["Set"] = lambda: A.Set(elts=[N("a")])
    P["Dict"] = lambda: A.Dict(keys=[N("a"), None], values=[N("b"), N("c")])
    P["Attribute"] = lambda: A.Attribute(value=N("a"), attr="b", ctx=LD)
    P["Subscript"] = lambda: A.Subscript(value=N("a"), slice=N("b"), ctx=LD)
    P["SubscriptSlice"] = lambda: A.Subscript(value=N("a"), slice=A.Slice(lower=N("b"), upper=None, step=N("c")), ctx=LD)
    P["Call"] = lambda: A.Call(func=N("f"), args=[N("a")], keywords=[A.keyword(arg="k", value=N("b"))])
    for op in BINOPS:
        P[op.__name__] = (lambda op: lambda: A.BinOp(left=N("a"), op=op(), right=N("b")))(op)
    P["And"] = lambda: A.BoolOp(op=A.And(), values=[N("a"), N("b")])
    P["Or"] = lambda: A.BoolOp(op=A.Or(), values=[N("a"), N("b")])
    for op in UNOPS:
        P[op.__name__] = (lambda op: lambda: A.UnaryOp(op=op(), operand=N("a")))(op)
    P["Compare"] = lambda: A.Compare(left=N("a"), ops=[A.Lt(), A.NotIn()], comparators=[N("b"), N("c")])
    P["IfExp"] = lambda: A.IfExp(test=N("a"), body=N("b"), orelse=N("c"))
    P["Lambda"] = lambda: A.Lambda(args=A.arguments(posonlyargs=[], args=[A.arg(arg="p")], vararg=None, kwonlyargs=[], kw_defaults=[], kwarg=None, defaults=[N("d")]), body=N("p"))
    P["Lambda0"] = lambda: A.Lambda(args=noargs(), body=N("a"))
    P["NamedExpr"] = lambda: A.NamedExpr(target=A.Name(id="w", ctx=A.Store()), value=N("a"))
    P["ListComp"] = lambda: A.ListComp(elt=N("t"), generators=[gen1()])
    P["SetComp"] = lambda: A.SetComp(elt=N("t"), generators=[gen1()])
    P["DictComp"] = lambda: A.DictComp(key=N("t"), value=N("t"), generators=[gen1()])
    P["GeneratorExp"] = lambda: A.GeneratorExp(elt=N("t"), generators=[gen1(ifs=[N("c")])])
    P["Yield"] = lambda: A.Yield(value=N("a"))
    P["Yield0"] = lambda: A.Yield(value=None)
    P["YieldFrom"] = lambda: A.YieldFrom(value=N("a"))
    P["Await"] = lambda: A.Await(value=N("a"))
    P["Starred"] = lambda: A.Starred(value=N("a"), ctx=LD)
    P["Slice"] = lambda: A.Slice(lower=N("a"), upper=N("b"), step=None)
    P["NegInt"] = lambda: A.UnaryOp(op=A.USub(), operand=C(1))
    return P


def slots():
    """every child position of every node kind, incl. positions (name -> builder(child))."""
    S = {}
    S["Attribute.value"] = lambda c: A.Attribute(value=c, attr="z", ctx=LD)
    S["Subscript.value"] = lambda c: A.Subscript(value=c, slice=N("i"), ctx=LD)
    S["Subscript.slice"] = lambda c: A.Subscript(value=N("v"), slice=c, ctx=LD)
    S["Subscript.slice.tuple0"] = lambda c: A.Subscript(value=N("v"), slice=A.Tuple(elts=[c, N("j")], ctx=LD), ctx=LD)
    S["Subscript.slice.tuple1"] = lambda c: A.Subscript(value=N("v"), slice=A.Tuple(elts=[A.Slice(lower=N("j"), upper=None, step=None), c], ctx=LD), ctx=LD)
    S["Subscript.slice.tuple_single"] = lambda c: A.Subscript(value=N("v"), slice=A.Tuple(elts=[c], ctx=LD), ctx=LD)
    S["Slice.lower"] = lambda c: A.Subscript(value=N("v"), slice=A.Slice(lower=c, upper=N("u"), step=N("s")), ctx=LD)
    S["Slice.upper"] = lambda c: A.Subscript(value=N("v"), slice=A.Slice(lower=None, upper=c, step=None), ctx=LD)
    S["Slice.step"] = lambda c: A.Subscript(value=N("v"), slice=A.Slice(lower=N("l"), upper=None, step=c), ctx=LD)
    S["SliceInTuple.upper"] = lambda c: A.Subscript(value=N("v"), slice=A.Tuple(elts=[A.Slice(lower=None, upper=c, step=None), N("j")], ctx=LD), ctx=LD)
    S["Starred.value"] = lambda c: A.List(elts=[A.Starred(value=c, ctx=LD)], ctx=LD)
    S["Call.func"] = lambda c: A.Call(func=c, args=[], keywords=[])
    S["Call.onlyarg"] = lambda c: A.Call(func=N("f"), args=[c], keywords=[])
    S["Call.arg0of2"] = lambda c: A.Call(func=N("f"), args=[c, N("y")], keywords=[])
    S["Call.arg1of2"] = lambda c: A.Call(func=N("f"), args=[N("y"), c], keywords=[])
    S["Call.arg_with_kw"] = lambda c: A.Call(func=N("f"), args=[c], keywords=[A.keyword(arg="k", value=N("y"))])
    S["Call.starred_arg"] = lambda c: A.Call(func=N("f"), args=[A.Starred(value=c, ctx=LD)], keywords=[])
    S["Call.kwvalue"] = lambda c: A.Call(func=N("f"), args=[], keywords=[A.keyword(arg="k", value=c)])
    S["Call.kwvalue_after_arg"] = lambda c: A.Call(func=N("f"), args=[N("y")], keywords=[A.keyword(arg="k", value=c)])
    S["Call.starstar"] = lambda c: A.Call(func=N("f"), args=[], keywords=[A.keyword(arg=None, value=c)])
    for op in BINOPS:
        S[f"{op.__name__}.left"] = (lambda op: lambda c: A.BinOp(left=c, op=op(), right=N("y")))(op)
        S[f"{op.__name__}.right"] = (lambda op: lambda c: A.BinOp(left=N("y"), op=op(), right=c))(op)
    for op in (A.And, A.Or):
        for pos in range(3):
            def mk(c, op=op, pos=pos):
                vals = [N("p"), N("q"), N("r")]
                vals[pos] = c
                return A.BoolOp(op=op(), values=vals)
            S[f"{op.__name__}.{pos}"] = mk
    for op in UNOPS:
        S[f"{op.__name__}.operand"] = (lambda op: lambda c: A.UnaryOp(op=op(), operand=c))(op)
    S["List.elt"] = lambda c: A.List(elts=[N("y"), c], ctx=LD)
    S["List.only"] = lambda c: A.List(elts=[c], ctx=LD)
    S["Set.elt"] = lambda c: A.Set(elts=[c, N("y")])
    S["Tuple.elt"] = lambda c: A.Tuple(elts=[c, N("y")], ctx=LD)
    S["Tuple.single"] = lambda c: A.Tuple(elts=[c], ctx=LD)
    S["Dict.key"] = lambda c: A.Dict(keys=[c], values=[N("y")])
    S["Dict.value"] = lambda c: A.Dict(keys=[N("y")], values=[c])
    S["Dict.starvalue"] = lambda c: A.Dict(keys=[None, N("k")], values=[c, N("y")])
    S["Compare.left"] = lambda c: A.Compare(left=c, ops=[A.Lt()], comparators=[N("y")])
    S["Compare.cmp0"] = lambda c: A.Compare(left=N("y"), ops=[A.Is(), A.In()], comparators=[c, N("z")])
    S["Compare.cmp1"] = lambda c: A.Compare(left=N("y"), ops=[A.IsNot(), A.NotIn()], comparators=[N("z"), c])
    S["Compare.eq"] = lambda c: A.Compare(left=N("y"), ops=[A.Eq()], comparators=[c])
    S["NamedExpr.value"] = lambda c: A.NamedExpr(target=A.Name(id="w", ctx=A.Store()), value=c)
    S["Lambda.body"] = lambda c: A.Lambda(args=noargs(), body=c)
    S["Lambda.default"] = lambda c: A.Lambda(args=A.arguments(posonlyargs=[A.arg(arg="o")], args=[A.arg(arg="p"), A.arg(arg="q")], vararg=None, kwonlyargs=[], kw_defaults=[], kwarg=None, defaults=[c, N("d")]), body=N("p"))
    S["Lambda.posonly_default"] = lambda c: A.Lambda(args=A.arguments(posonlyargs=[A.arg(arg="o")], args=[], vararg=A.arg(arg="va"), kwonlyargs=[], kw_defaults=[], kwarg=A.arg(arg="kw"), defaults=[c]), body=N("o"))
    S["Lambda.kwdefault"] = lambda c: A.Lambda(args=A.arguments(posonlyargs=[], args=[], vararg=None, kwonlyargs=[A.arg(arg="k1"), A.arg(arg="k2")], kw_defaults=[None, c], kwarg=None, defaults=[]), body=N("k1"))
    for kind in ("ListComp", "SetComp", "GeneratorExp"):
        K = getattr(A, kind)
        S[f"{kind}.elt"] = (lambda K: lambda c: K(elt=c, generators=[gen1()]))(K)
        S[f"{kind}.iter"] = (lambda K: lambda c: K(elt=N("t"), generators=[gen1(i=c)]))(K)
        S[f"{kind}.iter2"] = (lambda K: lambda c: K(elt=N("t"), generators=[gen1(), gen1(t=A.Name(id="u", ctx=A.Store()), i=c)]))(K)
        S[f"{kind}.if"] = (lambda K: lambda c: K(elt=N("t"), generators=[gen1(ifs=[N("c1"), c])]))(K)
    S["DictComp.key"] = lambda c: A.DictComp(key=c, value=N("t"), generators=[gen1()])
    S["DictComp.value"] = lambda c: A.DictComp(key=N("t"), value=c, generators=[gen1()])
    S["DictComp.iter"] = lambda c: A.DictComp(key=N("t"), value=N("t"), generators=[gen1(i=c)])
    S["DictComp.if"] = lambda c: A.DictComp(key=N("t"), value=N("t"), generators=[gen1(ifs=[c])])
    S["GeneratorExp.in_call2"] = lambda c: A.Call(func=N("f"), args=[A.GeneratorExp(elt=c, generators=[gen1()]), N("y")], keywords=[])
    S["IfExp.body"] = lambda c: A.IfExp(test=N("p"), body=c, orelse=N("q"))
    S["IfExp.test"] = lambda c: A.IfExp(test=c, body=N("p"), orelse=N("q"))
    S["IfExp.orelse"] = lambda c: A.IfExp(test=N("p"), body=N("q"), orelse=c)
    S["Yield.value"] = lambda c: A.Yield(value=c)
    S["YieldFrom.value"] = lambda c: A.YieldFrom(value=c)
    S["Await.value"] = lambda c: A.Await(value=c)
    S["FormattedValue.value"] = lambda c: A.JoinedStr(values=[A.FormattedValue(value=c, conversion=-1, format_spec=None)])
    S["FormattedValue.value_conv"] = lambda c: A.JoinedStr(values=[C("a"), A.FormattedValue(value=c, conversion=115, format_spec=None), C("b")])
    S["FormattedValue.value_spec"] = lambda c: A.JoinedStr(values=[A.FormattedValue(value=c, conversion=-1, format_spec=A.JoinedStr(values=[C(".2f")]))])
    S["FormattedValue.spec_value"] = lambda c: A.JoinedStr(values=[A.FormattedValue(value=N("v"), conversion=-1, format_spec=A.JoinedStr(values=[A.FormattedValue(value=c, conversion=-1, format_spec=None)]))])
    S["Top"] = lambda c: c
    return S


def dump(e):
    return ast.dump(e)


def strip_ctx(d):
    import re
    d = re.sub(r", ctx=(Load|Store|Del)\(\)", "", d)
    d = re.sub(r"ctx=(Load|Store|Del)\(\), ", "", d)
    return d


def fix(e):
    return ast.fix_missing_locations(A.Expression(body=e))


def roundtrip_std(e):
    """does the *stdlib* unparser round-trip this tree?  = the tree is parser-producible"""
    try:
        t = ast.unparse(fix(e))
        back = ast.parse(t, mode="eval").body
    except Exception:
        return False
    return strip_ctx(ast.dump(back)) == strip_ctx(ast.dump(e))


def parser_producible(e):
    return roundtrip_std(e)


def depth2():
    P = plugs(); S = slots()
    for sn, sb in S.items():
        for pn, pb in P.items():
            yield f"{pn}@{sn}", sb(pb())


def depth3(rng, limit=None, plug_subset=None):
    P = plugs(); S = slots()
    pk = list(P) if plug_subset is None else plug_subset
    # the inner composition uses the slots whose parent kind is itself a plug-like node
    names = list(S)
    combos = [(s1, s2, p) for s1 in names for s2 in names for p in pk]
    if limit is not None and len(combos) > limit:
        combos = rng.sample(combos, limit)
    for s1, s2, p in combos:
        yield f"{p}@{s2}@{s1}", S[s1](S[s2](P[p]()))


def equal_literals():
    """constants that are equal (and hash equal) but are different literals: True / 1 / 1.0, False / 0 / 0.0 / 0j -
    in one process, in this order (a spelling remembered by value would leak from one to the next)"""
    seq = [("True", C(True)), ("1.0", A.BinOp(left=N("t"), op=A.Mult(), right=C(1.0))), ("1", C(1)), ("1.0-alone", C(1.0)),
           ("False", A.BoolOp(op=A.Or(), values=[C(False), N("z")])), ("0.0", A.BinOp(left=C(0.0), op=A.Add(), right=N("q"))), ("0j", C(0j)), ("0", C(0)),
           ("mixed", A.Tuple(elts=[C(1.0), C(True), C(1), C(0j), C(0.0), C(False), C(0)], ctx=LD)),
           ("2.0", C(2.0)), ("2", C(2)), ("2j-real", A.BinOp(left=C(2), op=A.Add(), right=C(0j)))]
    for name, e in seq:
        yield "eq-lit:" + name, e


# ------------------------------------------------------------------ random deep trees
IDENTS = ["a", "b", "c", "x", "y", "f", "g", "_", "self"]


class RandExpr:
    def __init__(self, rng, strings=None):
        self.r = rng
        self.strings = strings or ["", "s", "it's", 'q"', "\\", "\n", "{}", "é", " ", "😀", "a\tb"]

    def name(self):
        return N(self.r.choice(IDENTS))

    def const(self):
        r = self.r
        k = r.randrange(9)
        if k == 0: return C(r.choice([0, 1, 7, 10**20, 255]))
        if k == 1: return C(r.choice([0.5, 1e-7, 1e300, 3.0, 1e999, 1.0, 0.0]))
        if k == 2: return C(r.choice([1j, 2.5j, 1e999j, 0j]))
        if k == 3: return C(r.choice(self.strings))
        if k == 4: return C(r.choice([b"", b"x", b"'\"\\\n\xff"]))
        if k == 5: return C(None)
        if k == 6: return C(r.choice([True, False]))
        if k == 7: return C(...)
        return C(r.choice(self.strings) + r.choice(self.strings))

    def target(self, d):
        r = self.r
        if d <= 0 or r.random() < 0.6:
            return A.Name(id=r.choice(IDENTS), ctx=A.Store())
        k = r.randrange(4)
        if k == 0:
            return A.Tuple(elts=[self.target(d - 1) for _ in range(r.randrange(1, 3))], ctx=A.Store())
        if k == 1:
            return A.List(elts=[self.target(d - 1) for _ in range(r.randrange(0, 3))], ctx=A.Store())
        if k == 2:
            return A.Attribute(value=self.expr(d - 1), attr="at", ctx=A.Store())
        return A.Subscript(value=self.expr(d - 1), slice=self.expr(d - 1), ctx=A.Store())

    def comps(self, d):
        r = self.r
        gs = []
        for _ in range(r.choice([1, 1, 1, 2])):
            gs.append(A.comprehension(target=self.target(1), iter=self.expr(d - 1), ifs=[self.expr(d - 1) for _ in range(r.choice([0, 0, 1, 2]))], is_async=0))
        return gs

    def arguments(self, d):
        r = self.r
        npos = r.choice([0, 0, 1]); na = r.choice([0, 1, 2]); nk = r.choice([0, 0, 1, 2])
        names = iter(["p1", "p2", "p3", "p4", "p5", "p6", "p7", "p8"])
        pos = [A.arg(arg=next(names)) for _ in range(npos)]
        args = [A.arg(arg=next(names)) for _ in range(na)]
        nd = r.randrange(0, npos + na + 1)
        defaults = [self.expr(d - 1) for _ in range(nd)]
        va = A.arg(arg="va") if r.random() < 0.3 else None
        kwo = [A.arg(arg=next(names)) for _ in range(nk)]
        kwd = [self.expr(d - 1) if r.random() < 0.5 else None for _ in range(nk)]
        kwa = A.arg(arg="kw") if r.random() < 0.3 else None
        return A.arguments(posonlyargs=pos, args=args, vararg=va, kwonlyargs=kwo, kw_defaults=kwd, kwarg=kwa, defaults=defaults)

    def fstring(self, d, depth=0):
        r = self.r
        vals = []
        last_const = False
        for _ in range(r.randrange(0, 4)):
            if r.random() < 0.5 and not last_const:
                s = r.choice(self.strings)
                if s == "":
                    continue
                vals.append(C(s)); last_const = True
            else:
                spec = None
                if r.random() < 0.4 and depth < 1:
                    spec = self.fstring(d - 1, depth + 1)
                    # a format spec may not hold nested specs deeper than one level
                vals.append(A.FormattedValue(value=self.expr(max(d - 1, 0)), conversion=r.choice([-1, -1, 114, 115, 97]), format_spec=spec))
                last_const = False
        return A.JoinedStr(values=vals)

    def expr(self, d):
        r = self.r
        if d <= 0:
            return self.name() if r.random() < 0.5 else self.const()
        k = r.randrange(27)
        E = lambda: self.expr(d - 1)
        # bias towards right edges / operator chains
        if k == 0: return self.name()
        if k == 1: return self.const()
        if k == 2: return A.BinOp(left=E(), op=r.choice(BINOPS)(), right=E())
        if k == 3: return A.BinOp(left=self.name(), op=r.choice(BINOPS)(), right=self.expr(d - 1))
        if k == 4: return A.BoolOp(op=r.choice([A.And, A.Or])(), values=[E() for _ in range(r.randrange(2, 4))])
        if k == 5: return A.UnaryOp(op=r.choice(UNOPS)(), operand=E())
        if k == 6:
            n = r.randrange(1, 3)
            return A.Compare(left=E(), ops=[r.choice(CMPOPS)() for _ in range(n)], comparators=[E() for _ in range(n)])
        if k == 7: return A.IfExp(test=E(), body=E(), orelse=E())
        if k == 8: return A.Lambda(args=self.arguments(d), body=E())
        if k == 9: return A.NamedExpr(target=A.Name(id=r.choice(IDENTS), ctx=A.Store()), value=E())
        if k == 10: return A.Attribute(value=E(), attr=r.choice(["real", "x", "append"]), ctx=LD)
        if k == 11:
            s = r.randrange(4)
            if s == 0: sl = E()
            elif s == 1: sl = A.Slice(lower=E() if r.random() < .5 else None, upper=E() if r.random() < .5 else None, step=E() if r.random() < .3 else None)
            elif s == 2: sl = A.Tuple(elts=[E(), A.Slice(lower=None, upper=E(), step=None)], ctx=LD)
            else: sl = A.Tuple(elts=[E() for _ in range(r.randrange(1, 3))], ctx=LD)
            return A.Subscript(value=E(), slice=sl, ctx=LD)
        if k == 12:
            args = []
            for _ in range(r.randrange(0, 3)):
                args.append(A.Starred(value=E(), ctx=LD) if r.random() < 0.2 else E())
            kws = []
            for i in range(r.randrange(0, 3)):
                kws.append(A.keyword(arg=None if r.random() < 0.25 else f"k{i}", value=E()))
            return A.Call(func=E(), args=args, keywords=kws)
        if k == 13: return A.List(elts=[(A.Starred(value=E(), ctx=LD) if r.random() < .15 else E()) for _ in range(r.randrange(0, 3))], ctx=LD)
        if k == 14: return A.Tuple(elts=[(A.Starred(value=E(), ctx=LD) if r.random() < .15 else E()) for _ in range(r.randrange(0, 3))], ctx=LD)
        if k == 15: return A.Set(elts=[E() for _ in range(r.randrange(1, 3))])
        if k == 16:
            n = r.randrange(0, 3)
            return A.Dict(keys=[(None if r.random() < .2 else E()) for _ in range(n)], values=[E() for _ in range(n)])
        if k == 17: return A.ListComp(elt=E(), generators=self.comps(d))
        if k == 18: return A.SetComp(elt=E(), generators=self.comps(d))
        if k == 19: return A.DictComp(key=E(), value=E(), generators=self.comps(d))
        if k == 20: return A.GeneratorExp(elt=E(), generators=self.comps(d))
        if k == 21: return self.fstring(d)
        if k == 22: return A.Call(func=self.name(), args=[A.GeneratorExp(elt=E(), generators=self.comps(d))], keywords=[])
        if k == 23: return A.UnaryOp(op=A.USub(), operand=A.BinOp(left=E(), op=A.Pow(), right=A.UnaryOp(op=A.USub(), operand=E())))
        if k == 24: return A.BinOp(left=A.UnaryOp(op=r.choice([A.USub, A.Invert])(), operand=E()), op=A.Pow(), right=E())
        if k == 25: return A.Await(value=E()) if r.random() < 0.3 else A.UnaryOp(op=A.Not(), operand=A.Compare(left=E(), ops=[A.In()], comparators=[E()]))
        return A.IfExp(test=E(), body=A.Lambda(args=noargs(), body=E()), orelse=A.Lambda(args=noargs(), body=E()))


def random_trees(rng, n, max_depth=6):
    g = RandExpr(rng)
    for i in range(n):
        yield f"rand#{i}", g.expr(rng.randrange(2, max_depth + 1))


def kinds_in(e):
    return {type(n).__name__ for n in ast.walk(e) if isinstance(n, (ast.expr, ast.operator, ast.unaryop, ast.boolop, ast.cmpop))}
