"""A catalogue of statement forms x placements: every shape of every supported statement kind at
every kind of position.  The sources need not run (names are free); they must compile as Python.
Used by C02 (every accepted form yields one well-formed line) and C08."""
import itertools

AUG_OPS = ['+', '-', '*', '/', '//', '%', '**', '<<', '>>', '&', '|', '^', '@']
INDEXES = ["0", "-1", "i", "1:2", ":", "::2", "a:b:c", "1:2, 3", "::2, ..., :1", "1, 2", "(1, 2)", "...", "1:2,", "x[0]", "f(1)[2:3]", "'k'", "None"]
TARGETS = ["x", "o.a", "o.a.b", "f().a", "d[%s]" % "0"] + ["d[%s]" % i for i in INDEXES[1:]] + ["d[0][1:2]", "o.a[1:2, 3]"]
PATTERNS = ["a, b", "(a, b)", "[a, b]", "a, *b", "*a, b", "a, *b, c", "(a, (b, c))", "a, (b, *c), d", "[a, [b, [c, d]]]", "o.a, d[0]", "d[1:2], *r",
            "a, (o.b, d[1:2, 3])", "*a,", "(a,)", "[*a]"]
VALUES = ["v", "f(1)", "(1, 2)", "[x for x in y]", "lambda: 0", "a if b else c", "(yz := 3)", "f'{a}{b!r:>{w}}'", "{**m, 'k': 1}", "not a or b and c", "a < b <= c",
          "-x ** 2", "(x, *y)", "{k: v for k, v in z}", "(i for i in j)", "x[1:2, ::3]", "f(*a, k=1, **kw)", "b'bytes'", "1e309", "...", "1j"]

IMPORTS = ["import m", "import m as n", "import a.b", "import a.b as c", "import a.b.c", "import a.b.c.d", "import a.b.c as d", "import m, a.b.c, p.q as r",
           "from m import a", "from m import a as b", "from m import a, b as c, d", "from a.b import c", "from a.b.c import d as e", "from . import a",
           "from .. import a as b", "from .m import a", "from ...a.b import c, d as e", "from m import (a, b)"]

DEFS = ["def g(): pass", "def g(a, b=1): return a", "def g(a, /, b, *, c, d=2): return c", "def g(*args, **kw): return args", "def g(a=1, /, b=2, *c, d, e=3, **f): pass",
        "def g(a: int = 1, *b: str, c: 'x' = 2) -> None: pass", "@dec\ndef g(): pass", "@d1\n@d2(3)\n@o.d3\ndef g(a): return a",
        "def g():\n    def h(): return g\n    return h", "def g(x):\n    return lambda y: x + y", "def g():\n    global q\n    q = 1",
        "def g():\n    n = 0\n    def h():\n        nonlocal n\n        n += 1\n        return n\n    return h",
        "def g(a, *, k=lambda: 0): return k()",
        "def g(alpha, beta, gamma, delta, eps):\n    def h():\n        nonlocal alpha, eps\n        alpha = beta\n        eps = gamma\n        return alpha, beta, gamma, delta\n    return h",
        "def g():\n    global gq1, gq2, gq3\n    gq1 = gq2 = gq3 = 0", "def g(x):\n    if x:\n        return 1\n    elif x is None:\n        return 2\n    else:\n        return 3\n    return 4",
        "def g(xs):\n    for x in xs:\n        if x:\n            return x\n    else:\n        return None",
        "def g(n):\n    while n:\n        n -= 1\n        if n % 2:\n            continue\n        if n > 9:\n            break\n    else:\n        n = -1\n    return n"]

CLASSES = ["class C: pass", "class C(B): x = 1", "class C(B1, B2, metaclass=M, k=1): pass", "class C(*bases, **kw): pass", "@dec\nclass C: pass", "@d1\n@d2(1)\nclass C(B): y = 2",
           "class C:\n    a = 1\n    b = a + 1\n    def m(self): return self.a\n    @staticmethod\n    def s(): return 1\n    @classmethod\n    def c(cls): return cls\n    @property\n    def p(self): return 2",
           "class C:\n    class D:\n        z = 3\n    w = D.z", "class C:\n    def __init__(self, v):\n        self.v = v\n    def __init_subclass__(cls, **kw):\n        super().__init_subclass__(**kw)",
           "class C(B):\n    def m(self):\n        return super().m() + __class__.__name__", "class C:\n    x: int\n    y: int = 2\n    z: 'str' = 'a'",
           "class C:\n    for i in range(2):\n        vars()['a%d' % i] = i", "class C:\n    if flag:\n        a = 1\n    else:\n        a = 2",
           "class C:\n    [k for k in range(3)]\n    t = tuple(j for j in range(2))"]

LOOPS = ["for i in xs: pass", "for i, (j, *k) in xs: f(i)", "for o.a in xs: pass", "for d[0] in xs: pass", "for d[1:2, 3] in xs: pass", "for i in xs:\n    f(i)\nelse:\n    g()",
         "for i in xs:\n    if i: break\nelse:\n    g()", "for i in xs:\n    if i: continue\n    f(i)", "for i in xs:\n    for j in ys:\n        if j: break\n        if i: continue\n    else:\n        continue\n    break",
         "while c: c = f(c)", "while c:\n    c -= 1\nelse:\n    g()", "while True:\n    if c: break\n    c += 1", "while a:\n    while b:\n        b -= 1\n        if b == 2: break\n    else:\n        a -= 1\n        continue\n    break",
         "for i in range(3):\n    def h(): return i\n    fs.append(h)", "for i in xs:\n    class K:\n        v = i\n    ks.append(K)", "for i in (1, 2): pass", "for i in x, y: pass", "for x in *a, b: pass"]

IFS = ["if a: f()", "if a: f()\nelse: g()", "if a: f()\nelif b: g()", "if a: f()\nelif b: g()\nelif c: h()\nelse: k()", "if a:\n    if b: f()\n    else: g()\nelse:\n    if c: h()",
       "if a and b or not c: pass", "if (n := f()) > 1: g(n)", "if a:\n    pass"]

MISC = ["pass", "x", "f(x)", "...", "'docstring'", "1 + 2", "x: int", "x: int = 1", "o.a: int = 1", "d[0]: 'T' = f()", "(x): int = 1", "global gq", "global ga, gb",
        "x = y = z = 0", "a = o.b = d['k'] = (c, *e) = v", "lambda: (yield)" if False else "lambda a, b=1, /, c=2, *d, e, f=3, **g: a",
        "[y for x in z for y in x if y if not x]", "{x: y for x, y in z}", "{x async for x in y}" if False else "{x for x in y}", "print(f'{a!r:>{w}.{p}}|{b=}|{{}}|{c:{d}}')",
        "print(f\"{'q'}{\"%s\" % 1 if False else 2}\")" if False else "print(f\"{'q'}\")", "x = [i := 0, i + 1]", "print((lambda: (z := 1))())", "a = b if c else d if e else f",
        "x = -1 ** 2; y = (-1) ** 2; z = 2 ** -1", "x = a < b == c >= d is not e in f", "x = not (a == b)", "x = (yield_ := 5)", "t = 1,", "t = ()", "s = {1}", "s = {*a, *b}", "d = {**a}",
        "e = x[1:2, ::3][...]", "c = f(*a, *b, k=1, **kw, **kw2)", "g = (i for i in range(3))", "h = f(i for i in range(3))", "b = b'\\x00\\xff' + rb'\\d'", "n = 0x_ff + 1_000 + 0o17 + 0b11 + 1e3 + 1.5j",
        "s = 'a' 'b' \"c\"", "s = '''multi\nline'''", "s = '\\N{BULLET}\\u2028\\x7f'", "x = a @ b", "x = a if (b := c) else d", "x = [*a, *b]", "x = *a, *b", "x = await_ = 1"]


def indent(src, n=1):
    return "".join(("    " * n + l if l.strip() else l) + "\n" for l in src.split("\n"))


def stmts():
    """(name, statement source) for every form; multi-line statements allowed"""
    for t in TARGETS:
        yield "assign:" + t, f"{t} = v"
        yield "assign-chain:" + t, f"{t} = {t} = v"
        yield "ann:" + t, f"{t}: T = v" if not t.startswith("f()") else f"{t}: T = v"
    for op in AUG_OPS:
        for t in ("x", "o.a", "d[0]", "d[1:2]", "d[1:2, 3]", "f().a", "d[i][j]"):
            yield f"aug:{op}:{t}", f"{t} {op}= v"
    for t in TARGETS[5:]:
        yield "aug-index:" + t, f"{t} += v"
    for p in PATTERNS:
        yield "pattern:" + p, f"{p} = v"
        yield "pattern-chain:" + p, f"z = {p} = v"
        yield "pattern-for:" + p, f"for {p} in vs: pass"
    for v in VALUES:
        yield "value:" + v, f"x = {v}"
        yield "expr:" + v, v
        yield "return:" + v, f"return {v}"
        yield "aug-value:" + v, f"x += {v}"
    for i in IMPORTS:
        yield "import:" + i, i
    for i, d in enumerate(DEFS):
        yield f"def:{i}", d
    for i, c in enumerate(CLASSES):
        yield f"class:{i}", c
    for i, l in enumerate(LOOPS):
        yield f"loop:{i}", l
    for i, s in enumerate(IFS):
        yield f"if:{i}", s
    for i, s in enumerate(MISC):
        yield f"misc:{i}", s
    yield "return-none", "return"
    yield "nonlocal", "nonlocal nq\nnq = 1"


PLACEMENTS = {
    "module": "{S}",
    "function": "def outer(p, nq=0):\n{S1}",
    "nested-function": "def outer(p):\n    nq = 0\n    def inner(q):\n{S2}    return inner",
    "class": "class Host:\n{S1}",
    "method": "class Host:\n    def meth(self, nq=0):\n{S2}",
    "for-body": "for it_ in its:\n{S1}",
    "while-body-in-function": "def outer(nq=0):\n    while cond:\n{S2}        cond = False",
    "else-of-loop": "for it_ in its:\n    pass\nelse:\n{S1}",
    "if-else": "if cond:\n    pass\nelse:\n{S1}",
    "after-break-guard": "for it_ in its:\n    if it_:\n        break\n{S1}",
    "function-in-loop": "for it_ in its:\n    def inl(nq=0):\n{S2}",
    "class-in-function": "def outer(nq=0):\n    class Loc:\n{S2}    return Loc",
}


def programs():
    """(name, source): every form at every placement; the caller filters those CPython does not compile"""
    for (sn, s), (pn, tpl) in itertools.product(list(stmts()), PLACEMENTS.items()):
        src = tpl.replace("{S2}", indent(s, 2)).replace("{S1}", indent(s, 1)).replace("{S}", s + "\n")
        yield f"{sn}@{pn}", src


def compilable(src):
    try:
        compile(src, "<form>", "exec")
        return True
    except (SyntaxError, ValueError):
        return False
