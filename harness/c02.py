"""C02 -- accepted input always yields one well-formed single-line expression."""
import ast, json, sys
from common import Check, fresh_oneliner
import gen_prog, lower_common, inject


def programs(ck):
    n_in = 250 if ck.tier == "quick" else 5000
    n_out = 120 if ck.tier == "quick" else 3000
    for i in range(n_in):
        src, feats = gen_prog.gen_program(ck.rng)
        yield f"gen#{i}", src, feats
    # outside the fragment: every unsupported construct / illegal placement injected somewhere
    for i in range(n_out):
        src, feats = gen_prog.gen_program(ck.rng, size=ck.rng.randrange(3, 8))
        inj = inject.inject_random(ck.rng, src)
        if inj is not None:
            yield f"inj#{i}:{inj[1]}", inj[0], feats + ["injected:" + inj[1]]
    for name, src in inject.CURATED:
        yield "curated:" + name, src, ["curated"]
    # unsupported expression kinds at positions where a lowered construct surrounds them: must be rejected, or compile
    for i, src in enumerate([
            "def g():\n    for i in [1, 2]:\n        yield from [i]\nprint(list(g()))\n",
            "def g():\n    n = 2\n    while n:\n        n -= 1\n        yield from (n,)\nprint(list(g()))\n",
            "def g(l):\n    if l:\n        yield from l\n    else:\n        yield 0\nprint(list(g([1])))\n",
            "def g():\n    for i in [1, 2]:\n        x = yield i\n        if x:\n            break\nprint(list(g()))\n",
            "def g():\n    while True:\n        v = (yield)\n        if v is None:\n            return\nprint(list(g()))\n",
            "def g():\n    class K:\n        a = 1\n    yield from [K.a]\nprint(list(g()))\n",
            "f = lambda: (yield)\nprint(type(f()).__name__)\n",
            "def g():\n    for i in [1]:\n        l = [i, (yield from [i])]\n    return l\nprint(list(g()))\n",
            "async def h():\n    for i in [1]:\n        await i\n",
            "def g():\n    d = {}\n    d['k'] = yield from [1]\n    d['k'] += yield 2\nprint(list(g()))\n"]):
        yield f"unsupported-in-construct#{i}", src, ["curated"]
    # literals with edge code points (line separators of every kind, quotes, braces, the whole surrogate range's
    # boundaries, plane boundaries) as str constants, f-string parts, format specs, dict keys, defaults
    import ast as _ast
    edge = [0, 9, 10, 11, 12, 13, 0x1c, 0x1d, 0x1e, 0x1f, 0x7f, 0x85, 0xa0, 0xff, 0x100, 0x2028, 0x2029, 0xd7ff, 0xd800, 0xd801, 0xdbff, 0xdc00, 0xdffe, 0xdfff,
            0xe000, 0xfffe, 0xffff, 0x10000, 0x10ffff, 39, 34, 92, 123, 125]
    for cp in edge:
        esc = ("\\u%04x" % cp) if cp < 0x10000 else ("\\U%08x" % cp)
        spec = "x" if cp in (123, 125) else esc
        src = (f"s = 'a{esc}b'\nt = f'{esc}{{s!r:{spec}>9}}{esc}{esc}'\nd = {{'{esc}': '{esc}{esc}'}}\n"
               f"def g(a='{esc}', *, k=f'{{s}}{esc}'):\n    return a + k\nprint(ascii((s, t, d, g())))\n")
        try:
            compile(src, "<lit>", "exec")
        except (SyntaxError, ValueError):
            continue
        yield "literal:U+%04X" % cp, src, ["literal-edge"]
    # every statement form at every kind of position (harness/forms.py)
    import forms
    for name, src in forms.programs():
        yield "form:" + name, src, ["form"]
    if ck.tier == "thorough":
        import corpus_stdlib
        for p in corpus_stdlib.files(limit=250):
            try:
                src = inject.strip_unsupported(open(p, encoding="utf8").read())
            except Exception:
                continue
            if src and len(src) < 60000:
                yield "stdlib:" + p.split("/")[-1], src, ["stdlib-stripped"]


def observe(ol, src, cfg):
    """property's observable: returns (verdict, text) verdict in rejected | ok | fail:<why>"""
    try:
        text = ol.convert_code_string(src, configs=gen_prog.mk_configs(ol, cfg))
    except RecursionError:
        return "rejected:RecursionError", None
    except Exception as e:
        return "rejected:" + type(e).__name__, None
    if not isinstance(text, str):
        return "fail:result is not a string", repr(text)[:200]
    if "\n" in text or "\r" in text:
        return "fail:output contains a line break", text
    try:
        compile(text, "<o>", "eval")
    except SyntaxError as e:
        return f"fail:output does not compile in eval mode: {e.msg}", text
    except RecursionError:
        return "ok", text        # too deep for this interpreter's compiler: C17's concern
    except ValueError as e:
        return f"fail:compile raised ValueError: {e}", text
    return "ok", text


def main(argv):
    ck = Check("C02", argv)
    ol = fresh_oneliner()
    if ck.replay_file:
        return replay(ck, ol)
    b = ck.build(["OlVerif.Props.C02"])
    if not b["built"].get("OlVerif.Props.C02", False):
        ck.broken.append("lean: OlVerif.Props.C02 does not build: " + b["log"][-1500:])
    else:
        ck.audit("OlVerif/Audit/C02.lean")
    known = inject.known_shapes()
    failing = []
    k_pairs = []
    for name, src, feats in programs(ck):
        try:
            ast.parse(src)
        except (SyntaxError, ValueError, RecursionError):
            ck.count("skipped_not_valid_python"); continue
        try:
            compile(src, "<src>", "exec")
            compiles = True
        except (SyntaxError, ValueError, RecursionError):
            # parses but CPython refuses to compile it (illegal placement, bare starred ...): not a valid
            # script; C08 demands rejection for the listed cases, C02 demands nothing
            compiles = False
            ck.count("source_parses_but_does_not_compile")
        cfgs = gen_prog.CONFIGS if ck.tier == "thorough" else [gen_prog.CONFIGS[(len(src) + j * 3) % 8] for j in range(3)]
        if name.startswith("form:") and ck.tier != "thorough":
            if not compiles:
                continue
            k = (len(src) + ck.seed) % 4            # one configuration per unparser, the other two options rotating
            cfgs = [gen_prog.CONFIGS[k], gen_prog.CONFIGS[4 + (k + 1) % 4]]
        for cfg in cfgs:
            v, text = observe(ol, src, cfg)
            ck.case(f"{cfg}|{src}")
            ck.count("verdict:" + v.split(":")[0])
            for f in feats:
                if f.startswith("injected:") or f in ("curated", "stdlib-stripped", "form"):
                    ck.count("stream:" + f.split(":")[0])
            if v.startswith("fail") and not compiles:
                ck.count("not_demanded:source_does_not_compile")
            elif v.startswith("fail"):
                kf = inject.match_known(known, src, v, "C02", cfg)
                if kf:
                    ck.count("attributed_to_" + kf)
                else:
                    failing.append((name, src, cfg, v, text))
        if len(ck.samples) < 5 and name.startswith(("gen#3", "inj#5", "curated:w")):
            ck.sample({"case": name, "source": src[:600], "verdict": v})
        if not name.startswith("stdlib") and (not name.startswith("form:") or (len(k_pairs) + len(src)) % 3 == 0 or ck.tier == "thorough"):
            k_pairs.append((src, (cfgs[0][1], cfgs[0][2])))
    k_bad = []
    if b["driver_ok"]:
        for src, cfg, ok, detail in lower_common.compare(ol, k_pairs):
            if ok:
                ck.count("K_agree")
            else:
                k_bad.append((src, cfg, detail))
    if k_bad:
        ck.broken.append(f"correspondence K(lowerFull = convert): {len(k_bad)} programs differ, first: {k_bad[0][2][:300]} on {k_bad[0][0][:300]!r}")
    for kf in inject.replay_known(ol, known, "C02", observe):
        ck.known(kf[0], kf[1])
    failing.sort(key=lambda f: len(f[1]))
    for name, src, cfg, v, text in failing[:3]:
        ck.violation({"kind": "not-an-expression", "case": name, "source": src, "config": list(cfg), "observed": v, "output": text,
                      "expected": "either an exception or one-line text that compiles in eval mode", "broken_obligations": ck.broken})
    if ck.broken and not failing:
        ck.violation({"kind": "obligation", "broken_obligations": ck.broken,
                      "searched": "all generated programs x configurations on the real converter: output always one compilable line",
                      "k_disagreements": [{"source": s[:800], "config": list(c), "detail": d[:400]} for s, c, d in k_bad[:10]]}, no_input=True)
    return ck.finish(
        rule="generated programs inside the supported fragment + programs with one unsupported construct / illegal placement injected at a random "
             "statement or expression position + curated edge programs + the catalogue of statement forms (every assignment target / index / pattern shape, "
             "13 augmented operators, value shapes, import forms, def / class / loop / if forms) x 12 placements, filtered to sources CPython compiles (+ stdlib modules with unsupported statements stripped, thorough) "
             "x 3 (quick) / 8 (thorough) option combinations; distinct by (config, source)",
        extra={"R_failures": len(failing), "K_disagreements": len(k_bad)},
        assumptions=["stdlib ast.unparse is CPython's: assumed to emit text that parses back to the tree, with line breaks only outside string tokens (checked by compile on every case)"])


def replay(ck, ol):
    r = json.load(open(ck.replay_file))
    if "source" not in r:
        print("replay file names a broken obligation, no input:", r.get("broken_obligations")); return 0
    v, text = observe(ol, r["source"], tuple(r["config"]))
    print(r["source"]); print("output:", text); print("observed:", v)
    return 1 if v.startswith("fail") else 0


if __name__ == "__main__":
    sys.exit(main(sys.argv[1:]))
