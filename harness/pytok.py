"""Canonical token texts of a one-line Python expression text (host >= 3.12 tokenizer)."""
import io, tokenize

SKIP = {tokenize.NEWLINE, tokenize.NL, tokenize.ENDMARKER, tokenize.COMMENT, tokenize.INDENT, tokenize.DEDENT}


def real_tokens(text):
    """list of token texts; f-string literal parts are taken as raw source slices between the
    structural tokens, adjacent ones merged, so that `{{` stays `{{`."""
    toks = list(tokenize.generate_tokens(io.StringIO(text).readline))
    out = []
    pend_start = None   # column where a run of FSTRING_MIDDLE started
    last_end = 0
    for t in toks:
        if t.type in SKIP:
            continue
        if t.type == tokenize.FSTRING_MIDDLE:
            if pend_start is None:
                pend_start = last_end
            continue
        if pend_start is not None:
            if text[pend_start:t.start[1]] != "":
                out.append(text[pend_start:t.start[1]])
            pend_start = None
        out.append(t.string)
        last_end = t.end[1]
    return out


