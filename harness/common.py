"""Shared plumbing of all checks: build + audit of the Lean side, violation / known-finding
reporting, evidence files.  See DESIGN.md §3.6-3.8."""
import fcntl, hashlib, json, os, random, re, subprocess, sys, time, warnings

warnings.simplefilter("ignore")

ROOT = os.path.dirname(os.path.dirname(os.path.abspath(__file__)))
LEAN = os.path.join(ROOT, "lean")
REPO = os.environ.get("OLVERIF_REPO", "/repo")
PY = "/venv/bin/python"
ALLOWED_AXIOMS = {"propext", "Classical.choice", "Quot.sound"}
FORBIDDEN = re.compile(r"\b(sorry|admit|native_decide|bv_decide|implemented_by|unsafe)\b|^\s*axiom\s|maxHeartbeats\s+0\b", re.M)

TRUSTED_BASE = [
    "Lean 4.33.0 kernel; axioms audited per theorem: subset of {propext, Classical.choice, Quot.sound}",
    "tools/extract.py (translator: tables regenerated from /repo on this run)",
    "harness correspondence check (model vs implementation on generated inputs, canonicalised)",
    "CPython itself as reference (ast.parse / tokenize / compile / symtable / exec) for the R checks",
]


def strip_comments(src):
    # remove /- ... -/ (nested) and -- comments
    out = []
    i = 0
    depth = 0
    n = len(src)
    while i < n:
        if src.startswith("/-", i):
            depth += 1; i += 2; continue
        if depth and src.startswith("-/", i):
            depth -= 1; i += 2; continue
        if depth:
            if src[i] == "\n": out.append("\n")
            i += 1; continue
        if src.startswith("--", i):
            while i < n and src[i] != "\n":
                i += 1
            continue
        out.append(src[i]); i += 1
    return "".join(out)


def grep_forbidden():
    """forbidden constructs anywhere in the Lean sources (comments and string literals stripped)"""
    hits = []
    for dp, dn, fn in os.walk(LEAN):
        if ".lake" in dp:
            continue
        for f in fn:
            if f.endswith(".lean"):
                p = os.path.join(dp, f)
                s = strip_comments(open(p, encoding="utf8").read())
                s = re.sub(r'"(?:[^"\\]|\\.)*"', '""', s)
                for m in FORBIDDEN.finditer(s):
                    hits.append(f"{os.path.relpath(p, LEAN)}: {m.group(0).strip()}")
    return hits


# which regenerated tables each property's obligations depend on
TABLES = {
    "C01": [], "C02": ["Prec", "Escape"], "C03": ["Prec", "Escape"], "C04": ["Prec", "Escape"], "C05": [], "C06": [], "C07": [],
    "C08": ["Dispatch"], "C09": ["Dispatch"], "C10": ["Config"], "C11": ["Prec"], "C12": [], "C13": ["Dispatch"], "C14": [],
    "C15": ["Prec", "Escape"], "C16": ["Config"], "C17": [],
}


class StepLimit:
    """context manager: raises TimeoutError inside the block after `limit` trace events (a converted program
    that loops for ever under a changed converter must not hang the check)"""

    def __init__(self, limit=300000):
        self.limit = limit
        self.n = 0

    def _tracer(self, frame, event, arg):
        self.n += 1
        if self.n > self.limit:
            raise TimeoutError("step limit exceeded")
        return self._tracer

    def __enter__(self):
        self.old = sys.gettrace()
        sys.settrace(self._tracer)
        return self

    def __exit__(self, *a):
        sys.settrace(self.old)
        return False


class Check:
    def __init__(self, pid, argv=None):
        self.pid = pid
        self.t0 = time.time()
        self.seed = int(os.environ.get("VERIF_SEED", "0") or 0)
        self.tier = os.environ.get("VERIF_TIER", "quick")
        self.replay_file = None
        argv = list(argv or [])
        while argv:
            a = argv.pop(0)
            if a == "--tier":
                self.tier = argv.pop(0)
            elif a == "--replay":
                self.replay_file = argv.pop(0)
            elif a == "--seed":
                self.seed = int(argv.pop(0))
        if self.tier not in ("quick", "thorough"):
            self.tier = "quick"
        self.rng = random.Random(self.seed * 1000003 + int(hashlib.sha256(pid.encode()).hexdigest()[:8], 16))
        self.violations = []
        self.kf_lines = []
        self.obligations = []          # names of theorems elaborated + table obligations
        self.discharged = []
        self.broken = []               # names of broken obligations / correspondences (strings)
        self.stats = {}
        self.samples = []
        self.evaluations = 0
        self.distinct = set()
        self.notes = []
        self.build_log = ""
        if not self.replay_file:
            import glob
            for old in glob.glob(os.path.join(ROOT, "replays", f"{pid}-*.json")):
                try:
                    os.remove(old)
                except OSError:
                    pass

    # ------------------------------------------------------------------ lean side
    def build(self, modules, tables=None):
        """regenerate Gen/*.lean from /repo, build the given modules and the driver.
        Returns dict(extract_ok, built: {module: bool}, driver_ok, log)."""
        os.makedirs(os.path.join(LEAN, ".lake"), exist_ok=True)
        res = {"extract_ok": True, "built": {}, "driver_ok": True, "log": ""}
        with open(os.path.join(LEAN, ".lake", "build.lock"), "w") as lk:
            fcntl.flock(lk, fcntl.LOCK_EX)
            p = subprocess.run([PY, os.path.join(ROOT, "tools", "extract.py")], capture_output=True, text=True,
                               env=dict(os.environ, OLVERIF_REPO=REPO))
            res["log"] += p.stdout + p.stderr
            if p.returncode != 0:
                failed = re.findall(r"^EXTRACT-ERROR (\S+)", p.stdout, re.M)
                need = tables if tables is not None else TABLES.get(self.pid, ["Prec", "Escape", "Config", "Dispatch"])
                if "ALL" in failed or any(t in failed for t in need) or not failed:
                    res["extract_ok"] = False
            p = subprocess.run(["lake", "build", "driver"], cwd=LEAN, capture_output=True, text=True)
            if p.returncode != 0:
                res["driver_ok"] = False
                res["log"] += p.stdout[-6000:] + p.stderr[-2000:]
            for m in modules:
                p = subprocess.run(["lake", "build", m], cwd=LEAN, capture_output=True, text=True)
                res["built"][m] = p.returncode == 0
                if p.returncode != 0:
                    res["log"] += p.stdout[-8000:] + p.stderr[-2000:]
        self.build_log = res["log"]
        self.checker_cmd = "cd lean && lake build driver " + " ".join(modules) + " && lake env lean OlVerif/Audit/%s.lean" % self.pid
        return res

    def audit(self, audit_module_file):
        """run `#print axioms` for every property theorem; fills obligations/discharged."""
        hits = grep_forbidden()
        if hits:
            self.broken.append("audit: forbidden construct in Lean sources: " + "; ".join(hits[:5]))
        p = subprocess.run(["lake", "env", "lean", audit_module_file], cwd=LEAN, capture_output=True, text=True)
        out = p.stdout + p.stderr
        cur = None
        thms = {}
        for m in re.finditer(r"'([^']+)' (depends on axioms: \[([^\]]*)\]|does not depend on any axioms)", out):
            name = m.group(1)
            axs = [a.strip() for a in (m.group(3) or "").split(",") if a.strip()]
            thms[name] = axs
        if p.returncode != 0 and not thms:
            self.broken.append("audit: " + out[-1500:])
        try:
            declared = re.findall(r"^#print axioms (\S+)", open(os.path.join(LEAN, audit_module_file)).read(), re.M)
        except OSError:
            declared = []
        for name in declared:
            if name not in thms:
                self.obligations.append(name)
                self.broken.append(f"audit: theorem {name} was not elaborated")
        for name, axs in thms.items():
            self.obligations.append(name)
            bad = [a for a in axs if a not in ALLOWED_AXIOMS]
            if bad:
                self.broken.append(f"audit: theorem {name} depends on axioms {bad}")
            else:
                self.discharged.append(name)
        # theorems that failed to elaborate show up as errors
        for m in re.finditer(r"error: [^\n]*", out):
            self.broken.append("audit: " + m.group(0)[:300])
        if self.tier == "thorough":
            # independent re-check of the compiled proofs by the toolchain's external checker
            mod = "OlVerif.Props." + self.pid
            try:
                q = subprocess.run(["lake", "env", "leanchecker", mod], cwd=LEAN, capture_output=True, text=True, timeout=1800)
                if q.returncode != 0:
                    self.broken.append(f"leanchecker rejects {mod}: " + (q.stdout + q.stderr)[-600:])
                else:
                    self.stats["leanchecker"] = "accepted " + mod
            except (OSError, subprocess.TimeoutExpired) as e:
                self.notes.append(f"leanchecker could not be run on {mod}: {e}")
        return thms

    # ------------------------------------------------------------------ reporting
    def count(self, key, n=1):
        self.stats[key] = self.stats.get(key, 0) + n

    def case(self, canon, nontrivial=True):
        self.evaluations += 1
        if nontrivial:
            self.distinct.add(hashlib.sha1(canon.encode("utf8", "surrogatepass")).digest()[:8])

    def sample(self, obj, limit=8):
        if len(self.samples) < limit:
            self.samples.append(obj)

    def violation(self, replay, no_input=False):
        os.makedirs(os.path.join(ROOT, "replays"), exist_ok=True)
        replay = dict(replay)
        replay["property"] = self.pid
        replay["tier"] = self.tier
        replay["seed"] = self.seed
        body = json.dumps(replay, indent=1, sort_keys=True, default=str, ensure_ascii=True)
        h = hashlib.sha1(body.encode()).hexdigest()[:10]
        path = os.path.join(ROOT, "replays", f"{self.pid}-{h}.json")
        with open(path, "w") as f:
            f.write(body + "\n")
        line = f"VIOLATION property={self.pid} replay={path}"
        if no_input:
            line += " no-failing-input-found"
        print(line, flush=True)
        self.violations.append(path)

    def known(self, kf_id, what):
        line = f"KNOWN-FINDING: property={self.pid} {kf_id} {what}"
        print(line, flush=True)
        self.kf_lines.append(line)

    def finish(self, rule, level="proof", extra=None, assumptions=None):
        os.makedirs(os.path.join(ROOT, "evidence"), exist_ok=True)
        cov = {
            "obligations": len(self.obligations),
            "discharged": len(self.discharged),
            "checker_cmd": getattr(self, "checker_cmd", "cd lean && lake build"),
            "trusted_base": TRUSTED_BASE,
            "evaluations": self.evaluations,
            "distinct_nontrivial": len(self.distinct),
            "rule": rule,
            "samples": self.samples if self.samples else [{"note": "no case generated"}],
            "theorems": sorted(self.obligations),
            "broken_obligations": self.broken,
            "known_findings_printed": self.kf_lines,
            "stats": self.stats,
        }
        if extra:
            cov.update(extra)
        ev = {
            "property_id": self.pid, "tier": self.tier, "seed": self.seed, "level": level,
            "coverage": cov,
            "assumptions": assumptions or [],
            "wall_s": round(time.time() - self.t0, 2),
            "violations": len(self.violations),
        }
        with open(os.path.join(ROOT, "evidence", f"{self.pid}.json"), "w") as f:
            json.dump(ev, f, indent=1, default=str, ensure_ascii=True)
            f.write("\n")
        print(f"[{self.pid}] tier={self.tier} seed={self.seed} obligations={len(self.discharged)}/{len(self.obligations)} "
              f"evaluations={self.evaluations} distinct={len(self.distinct)} violations={len(self.violations)} "
              f"known={len(self.kf_lines)} wall={ev['wall_s']}s", flush=True)
        return 1 if self.violations else 0


def load_known_findings(pid=None):
    out = []
    p = os.path.join(ROOT, "known_findings.jsonl")
    if os.path.exists(p):
        for line in open(p, encoding="utf8"):
            line = line.strip()
            if not line or line.startswith("#"):
                continue
            r = json.loads(line)
            if pid is None or pid in r.get("properties", [r.get("property")]):
                out.append(r)
    return out


def fresh_oneliner():
    """import the package from the current working tree of /repo (fresh module objects)."""
    for k in list(sys.modules):
        if k == "oneliner" or k.startswith("oneliner."):
            del sys.modules[k]
    if REPO not in sys.path:
        sys.path.insert(0, REPO)
    import importlib
    return importlib.import_module("oneliner")
