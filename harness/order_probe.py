"""M-ORDER tie: module-level simple statements whose subexpressions are probes `__probe(k)`.
Three logs must agree: exec(source), eval(converted text), and the Lean trace `tr` of the model's output
(under the oracle that matches the objects used: with / without in-place operators)."""
import itertools

PRELUDE = '''
class _Obj:
    def __init__(s, k): object.__setattr__(s, 'k', k)
    def __getattr__(s, a):
        if a[:1] == 'v':          # observable attribute reads (a property / __getattr__ with an effect)
            _LOG.append(('getattr', s.k, a))
        return _OBJ(('attr', s.k, a))
    def __setattr__(s, a, v): pass
    def __repr__(s): return 'O%r' % (s.k,)
    def __getitem__(s, i): _LOG.append(('get', s.k, repr(i))); return _OBJ(('item', s.k))
    def __setitem__(s, i, v): _LOG.append(('set', s.k, repr(i)))
    def __call__(s, f): return f
    def __hash__(s): return 1
    def __bool__(s): return _TRUTH
    def __eq__(s, o): return True
    seq = (1, 2)
    def __neg__(s): return _OBJ(('neg', s.k))
    def __pos__(s): return _OBJ(('pos', s.k))
    def __invert__(s): return _OBJ(('inv', s.k))
    __iter__ = None          # not iterable (a __getitem__ that accepts every index would iterate for ever)
''' + "".join(f"    def __{n}__(s, o): return _OBJ(('{n}', s.k))\n    def __r{n}__(s, o): return _OBJ(('r{n}', s.k))\n"
              for n in ['add', 'sub', 'mul', 'truediv', 'floordiv', 'mod', 'pow', 'lshift', 'rshift', 'and', 'or', 'xor', 'matmul']) + '''
class _IObj(_Obj):
''' + "".join(f"    def __i{n}__(s, o): return s\n"
              for n in ['add', 'sub', 'mul', 'truediv', 'floordiv', 'mod', 'pow', 'lshift', 'rshift', 'and', 'or', 'xor', 'matmul'])

OPS = ['+', '-', '*', '/', '//', '%', '**', '<<', '>>', '&', '|', '^', '@']


class Gen:
    def __init__(self, rng):
        self.r = rng
        self.k = itertools.count(1)
        self.names = itertools.count()
        self.bound = []          # plain names the generated statements certainly bind

    def p(self):
        return f"__probe({next(self.k)})"

    def simple_target(self):
        c = self.r.randrange(5)
        if c == 0:
            n = f"n{next(self.names)}"
            self.bound.append(n)
            return n
        if c == 1:
            return f"{self.p()}.a{self.r.randrange(3)}"
        if c == 2:
            return f"{self.p()}[{self.p()}]"
        if c == 3 and self.r.random() < 0.35:
            # an index that is a tuple holding slices (one element: the trailing comma matters), an ellipsis
            lo = self.p() if self.r.random() < .7 else ""
            hi = self.p() if self.r.random() < .7 else ""
            return self.r.choice([f"{self.p()}[{lo}:{hi},]", f"{self.p()}[{lo}:{hi}, {self.p()}]", f"{self.p()}[..., {self.p()}]",
                                  f"{self.p()}[{self.p()}, {lo}:{hi}:{self.p()}]", f"{self.p()}[({self.p()}, {self.p()})]"])
        if c == 3:
            lo = self.p() if self.r.random() < .7 else ""
            hi = self.p() if self.r.random() < .7 else ""
            st = (":" + self.p()) if self.r.random() < .3 else ""
            return f"{self.p()}[{lo}:{hi}{st}]"
        return f"{self.p()}.b.c"

    def pattern(self, depth):
        """(target source, value-shape): shape = None (any value) | list of shapes with an optional ('*', n)"""
        if depth == 0 or self.r.random() < 0.45:
            return self.simple_target(), None
        n = self.r.randrange(1, 4)
        star = self.r.randrange(n) if self.r.random() < 0.4 else None
        elts, shapes = [], []
        for i in range(n):
            t, sh = self.pattern(depth - 1)
            if i == star:
                t, sh = "*" + self.simple_target(), ("*", self.r.randrange(0, 3))
            elts.append(t); shapes.append(sh)
        body = ", ".join(elts) + ("," if n == 1 else "")
        return (f"({body})" if self.r.random() < .6 else f"[{body}]"), shapes

    def value(self, shape):
        if shape is None:
            if self.r.random() < 0.25:
                # a dotted name whose attribute reads are observable: read once, before the targets
                return self.r.choice(["s_.v0", "s_.v1.v2", "s_.a.v3"])
            return self.p()
        parts = []
        for sh in shape:
            if isinstance(sh, tuple) and sh[0] == "*":
                parts += [self.p() for _ in range(sh[1])]
            else:
                parts.append(self.value(sh))
        return "(" + ", ".join(parts) + ("," if len(parts) == 1 else "") + ")"

    def statement(self):
        c = self.r.randrange(8)
        if c == 0:      # single target
            t, sh = self.pattern(2)
            # Python evaluates the value first; write it after generating the target so that ids differ from positions
            return f"{t} = {self.value(sh)}"
        if c == 1:      # chained simple targets
            ts = [self.simple_target() for _ in range(self.r.randrange(2, 4))]
            return " = ".join(ts) + " = " + self.value(None)
        if c == 2:      # chained with one pattern
            t, sh = self.pattern(2)
            ts = [self.simple_target(), t, self.simple_target()][: self.r.randrange(2, 4)]
            self.r.shuffle(ts)
            if t not in ts:
                ts[0] = t
            return " = ".join(ts) + " = " + self.value(sh)
        if c == 3:      # annotated
            return f"{self.simple_target()}: int = {self.p()}"
        if c == 4:      # augmented, attribute / subscript target
            t = self.r.choice([f"{self.p()}.a", f"{self.p()}[{self.p()}]", f"{self.p()}.a.b", f"{self.p()}[{self.p()}:{self.p()}]"])
            return f"{t} {self.r.choice(OPS)}= {self.p()}"
        if c == 5:      # augmented, name target (bound first)
            n = f"n{next(self.names)}"
            self.bound.append(n)
            return f"{n} = {self.p()}\n{n} {self.r.choice(OPS)}= {self.p()}"
        if c == 6:      # function definition: decorators, defaults, keyword-only defaults
            decos = "".join(f"@{self.p()}\n" for _ in range(self.r.randrange(0, 3)))
            pos = [f"a{i}" for i in range(self.r.randrange(0, 3))]
            dflt = [f"d{i}={self.p()}" for i in range(self.r.randrange(0, 3))]
            kwo = [(f"k{i}={self.p()}" if self.r.random() < .6 else f"k{i}") for i in range(self.r.randrange(0, 3))]
            sig = pos + dflt + (["*"] + kwo if kwo else [])
            fn = f"f{next(self.names)}"
            self.bound.append(fn)
            return f"{decos}def {fn}({', '.join(sig)}):\n    return {self.p()}"
        # expression statements: probes, displays, and loads of every attribute / subscript / slice / slice-tuple shape
        t = self.simple_target()
        while t.startswith("n") and t[1:].isdigit():
            self.bound.remove(t)
            t = self.simple_target()
        return self.r.choice([self.p(), f"({self.p()}, {self.p()})", f"[{self.p()}, {self.p()}]", t, t, f"{self.p()}({t})"])

    def program(self):
        return "\n".join(self.statement() for _ in range(self.r.randrange(1, 4))) + "\n"

    def program_at(self, placement):
        """the same statements at another kind of position, followed by a dump of the names they bound"""
        body = "\n".join(self.statement() for _ in range(self.r.randrange(1, 4))) + "\n"
        # the names bound by these statements, read back explicitly (locals() of a converted scope is not the script's)
        body += "__dump({" + ", ".join(f"'{n}': {n}" for n in dict.fromkeys(self.bound)) + "})\n"
        ind = lambda t, n=1: "".join(("    " * n + l + "\n") for l in t.rstrip("\n").split("\n"))
        if placement == "function":
            return "def host():\n" + ind(body) + "host()\n"
        if placement == "class":
            return "class Host:\n" + ind(body)
        if placement == "method":
            return "class Host:\n    def meth(self):\n" + ind(body, 2) + "Host().meth()\n"
        if placement == "for-body":
            return "for it_ in [1, 2]:\n" + ind(body)
        if placement == "while-body-in-function":
            return "def host():\n    c_ = 2\n    while c_:\n        c_ -= 1\n" + ind(body, 2) + "host()\n"
        if placement == "if-else":
            return "if __probe(0) is None:\n    pass\nelse:\n" + ind(body)
        if placement == "function-in-loop":
            return "for it_ in [1, 2]:\n    def inl():\n" + ind(body, 2) + "    inl()\n"
        if placement == "after-guard":
            return "for it_ in [1, 2, 3]:\n    if it_ == 3:\n        break\n    if it_ == 1:\n        continue\n" + ind(body)
        if placement == "class-in-function":
            return "def host():\n    class Loc:\n" + ind(body, 2) + "host()\n"
        return body


INDEX_SHAPES = ["{a}", "-1", "{a}:{b}", ":", "::{a}", "{a}:{b}:{c}", "{a}:{b},", ":,", "{a}:{b}, {c}", "{a}, {b}:{c}", "::{a}, ..., :{b}", "{a}, {b}", "({a}, {b})",
                "({a},)", "{a},", "...", "..., {a}", "{a}:{b}, {c}:{d}", "None", "'k'", "{a}[{b}]", "{a}[{b}:{c}]", "*{a}.seq, {b}", "({a}, {b}):{c}", "{a} if {b} else {c}", "(yz_ := {a})",
                "-{a}", "~{a}", "not {a}", "+{a}", "-{a}:~{b}", "-{a}, {b}", "-{a}[{b}]", "-({a} + {b})"]


def index_programs(probe="__probe"):
    """every index shape as a load, a store, an augmented store and a for target (deterministic)"""
    out = []
    for sh in INDEX_SHAPES:
        ids = iter(range(2, 20))
        idx = sh.format(a=f"{probe}({next(ids)})", b=f"{probe}({next(ids)})", c=f"{probe}({next(ids)})", d=f"{probe}({next(ids)})")
        out.append(f"{probe}(1)[{idx}]\n")
        out.append(f"x_ = {probe}(1)[{idx}]\n")
        if "yz_" not in sh and not sh.startswith("*"):
            out.append(f"{probe}(1)[{idx}] = {probe}(30)\n")
            out.append(f"{probe}(1)[{idx}] += {probe}(30)\n")
            out.append(f"for {probe}(1)[{idx}] in [{probe}(30), {probe}(31)]:\n    pass\n")
    return out


PLACEMENTS = ["module", "function", "class", "method", "for-body", "while-body-in-function", "if-else", "function-in-loop", "after-guard", "class-in-function"]


def run(code, mode, inplace, probe="__probe", dump="__dump", truth=True):
    log = []
    g = {}
    exec(PRELUDE, g)
    cls = g["_IObj"] if inplace else g["_Obj"]
    g["_OBJ"] = cls
    g["_LOG"] = log
    g["_TRUTH"] = truth       # truth value of every probe object: the oracle of the Lean trace
    g["s_"] = cls("s")        # a bound name whose `.v*` attribute reads are logged

    probe_name, dump_name = probe, dump

    def probe(k):
        log.append(k)
        return cls(k)
    g[probe_name] = probe

    def dump(ns):
        import re
        log.append(("names", sorted((k, getattr(v, "k", None) if isinstance(v, g["_Obj"]) else type(v).__name__)
                                    for k, v in ns.items() if re.fullmatch(r"n\d+|f\d+", k))))
    g[dump_name] = dump
    steps = [0]

    def tracer(frame, event, arg):
        steps[0] += 1
        if steps[0] > 200000:
            raise TimeoutError("step limit")
        return tracer
    import sys as _sys
    old = _sys.gettrace()
    _sys.settrace(tracer)
    try:
        if mode == "exec":
            exec(compile(code, "<s>", "exec"), g)
        else:
            eval(compile(code, "<o>", "eval"), g)
    except BaseException as e:
        return log, type(e).__name__ + ": " + str(e)[:80]
    finally:
        _sys.settrace(old)
    return log, None
