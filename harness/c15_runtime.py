"""Executed by each *runtime* interpreter (3.8 .. 3.13): exec the source, eval each converted text, report stdout.
usage: python c15_runtime.py in.json out.json     (pure stdlib, must stay valid Python 3.8)"""
import contextlib, io, json, signal, sys


class _Slow(BaseException):
    pass


def _alarm(signum, frame):
    raise _Slow()


LIMIT = 10.0      # seconds per program; a program that needs more is skipped, not judged


def run(code, mode):
    buf = io.StringIO()
    try:
        c = compile(code, "<p>", mode)
    except SyntaxError as e:
        return ["nocompile", str(e.msg)]
    except RecursionError:
        return ["nocompile", "RecursionError"]
    try:
        signal.signal(signal.SIGALRM, _alarm)
        signal.setitimer(signal.ITIMER_REAL, LIMIT)
        try:
            with contextlib.redirect_stdout(buf):
                if mode == "exec":
                    exec(c, {"__name__": "__main__"})
                else:
                    eval(c, {"__name__": "__main__"})
        finally:
            signal.setitimer(signal.ITIMER_REAL, 0)
    except _Slow:
        return ["slow", ""]
    except BaseException as e:
        return ["raises", type(e).__name__ + ": " + str(e)[:80], buf.getvalue()]
    return ["ok", buf.getvalue()]


def main():
    jobs = json.load(open(sys.argv[1]))
    out = []
    for j in jobs:
        r = {"source": run(j["source"], "exec"), "texts": {}}
        if r["source"][0] == "ok":
            for k, t in j["texts"].items():
                r["texts"][k] = run(t, "eval")
        out.append(r)
    json.dump({"version": list(sys.version_info[:3]), "results": out}, open(sys.argv[2], "w"))


main()
