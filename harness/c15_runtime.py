"""Executed by each *runtime* interpreter (3.8 .. 3.13): exec the source, eval each converted text, report stdout.
usage: python c15_runtime.py in.json out.json     (pure stdlib, must stay valid Python 3.8)"""
import contextlib, io, json, sys


def run(code, mode):
    buf = io.StringIO()
    try:
        c = compile(code, "<p>", mode)
    except SyntaxError as e:
        return ["nocompile", str(e.msg)]
    except RecursionError:
        return ["nocompile", "RecursionError"]
    try:
        with contextlib.redirect_stdout(buf):
            if mode == "exec":
                exec(c, {"__name__": "__main__"})
            else:
                eval(c, {"__name__": "__main__"})
    except BaseException as e:
        return ["raises", type(e).__name__ + ": " + str(e)[:80], buf.getvalue()]
    return ["ok", buf.getvalue()]


def main():
    jobs = json.load(open(sys.argv[1]))
    out = []
    for j in jobs:
        r = {"source": run(j["source"], "exec"), "texts": {}}
        if r["source"][0] == "ok":
            for k, t in j["texts"].items():
                r["texts"][k] = run(t, "eval")
        out.append(r)
    json.dump({"version": list(sys.version_info[:3]), "results": out}, open(sys.argv[2], "w"))


main()
