"""Straight-line module-level programs inside the fragment of C01.module_straightline_semantics (M-EVAL):
expression statements, pass, global, assignments with any number of name / attribute / plain-subscript targets,
augmented assignments on such targets; arbitrary (deterministic) expressions."""
AUG = ["+=", "-=", "*=", "//=", "%=", "**=", "<<=", ">>=", "&=", "|=", "^=", "/=", "@="]


class Gen:
    def __init__(self, rng):
        self.r = rng
        self.names = []          # int-valued names
        self.attrs = []          # int-valued attributes of o
        self.keys = []           # int-valued keys of d

    def atom(self):
        r = self.r
        k = r.randrange(8)
        if k == 0 and self.names: return r.choice(self.names)
        if k == 1 and self.attrs: return "o." + r.choice(self.attrs)
        if k == 2 and self.keys: return f"d[{r.choice(self.keys)!r}]"
        if k == 3: return f"l[{r.randrange(-3, 3)}]"
        return str(r.randrange(0, 9))

    def expr(self, depth=0):
        r = self.r
        k = r.randrange(14) if depth < 3 else 0
        if k <= 2: return self.atom()
        if k == 3: return f"({self.expr(depth + 1)} {r.choice(['+', '-', '*'])} {self.expr(depth + 1)})"
        if k == 4: return f"({self.expr(depth + 1)} if {self.expr(depth + 1)} {r.choice(['<', '==', '>='])} {self.expr(depth + 1)} else {self.expr(depth + 1)})"
        if k == 5: return f"(lambda q, w={self.expr(depth + 1)}: q + w)({self.expr(depth + 1)})"
        if k == 6: return f"sum([{self.expr(depth + 1)} + i for i in range({r.randrange(4)})])"
        if k == 7: return f"len(f'{{{self.expr(depth + 1)}!r:>4}}')"
        if k == 8: return f"(({self.expr(depth + 1)} or 3) and {self.expr(depth + 1)})"
        if k == 9: return f"int(not {self.expr(depth + 1)})"
        if k == 10:
            return r.choice([f"max({self.expr(depth + 1)}, {self.expr(depth + 1)}, key=abs)",
                             f"sorted(({self.expr(depth + 1)} + i for i in range(3)), key=abs)[0]",
                             f"max((i for i in range({r.randrange(3)})), default={self.expr(depth + 1)})"])
        if k == 11: return f"note({self.expr(depth + 1)})"
        if k == 12 and not getattr(self, "no_walrus", False):
            n = self.fresh_name()
            return f"({n} := {self.expr(depth + 1)})"
        return f"(-{self.expr(depth + 1)})"

    def fresh_name(self):
        r = self.r
        pool = ["x", "y", "z", "_", "k", "v", "it", "self", "total", "n1"]
        n = r.choice(pool)
        if n not in self.names:
            self.names.append(n)
        return n

    def target(self):
        r = self.r
        k = r.randrange(4)
        if k == 0 or k == 3:
            return self.fresh_name(), None
        if k == 1:
            a = r.choice(["a", "b", "c"])
            return f"o.{a}", ("attr", a)
        key = r.choice(["p", "q", 1, 2, 2, (1, 2)]) if r.randrange(3) else None
        if key is None:
            return f"l[{r.randrange(-3, 3)}]", None
        return f"d[{key!r}]", ("key", key)

    def commit(self, what):
        if what and what[0] == "attr" and what[1] not in self.attrs: self.attrs.append(what[1])
        if what and what[0] == "key" and what[1] not in self.keys: self.keys.append(what[1])

    def aug_target(self):
        r = self.r
        c = []
        if self.names: c.append(r.choice(self.names))
        if self.attrs: c.append("o." + r.choice(self.attrs))
        if self.keys: c.append(f"d[{r.choice(self.keys)!r}]")
        c.append(f"l[{r.randrange(-3, 3)}]")
        c.append(f"note(l)[note({r.randrange(0, 3)})]")
        c.append("note(o).cnt")
        return r.choice(c)

    def cond(self):
        r = self.r
        k = r.randrange(5)
        if k == 0: return self.expr(2)
        if k == 1: return f"B({self.expr(2)})"                  # truth test with a visible effect
        if k == 2: return f"not B({self.expr(2)})"
        if k == 3: return f"(B({self.expr(2)}) and B({self.expr(2)}))"
        return f"{self.expr(2)} {r.choice(['<', '==', '!=', '>='])} {self.expr(2)}"

    def block(self, depth):
        r = self.r
        n = r.randrange(1, 3)
        out = []
        for _ in range(n):
            k = r.randrange(6)
            if k == 0: out += ["R"]                              # a statement whose value cannot be truth-tested
            elif k == 1: out += ["note(R)"]
            elif k == 2: out += [f"B({self.expr(2)})"]           # ... or whose truth test is visible
            else: out += self.stmt_lines(depth + 1)
        return out

    def if_lines(self, depth):
        r = self.r
        L = [f"if {self.cond()}:"] + ["    " + l for l in self.block(depth)]
        for _ in range(r.randrange(0, 2)):
            L += [f"elif {self.cond()}:"] + ["    " + l for l in self.block(depth)]
        if r.randrange(3):
            L += ["else:"] + ["    " + l for l in self.block(depth)]
        return L

    def for_lines(self, depth):
        # (a walrus in the iterable of a for statement is KF-D16b: none is generated there)
        self.no_walrus = True
        try:
            return self._for_lines(depth)
        finally:
            self.no_walrus = False

    def _for_lines(self, depth):
        r = self.r
        k = r.randrange(4)
        if k == 0:
            t, w = self.target(); self.commit(w)
            head = f"for {t} in {r.choice(['[%s, %s]', 'iter([%s, %s])', '(note(q) for q in [%s, %s])']) % (self.expr(2), self.expr(2))}:"
        elif k == 1:
            head = f"for {self.fresh_name()} in range({r.randrange(0, 3)}):"
        elif k == 2:
            a, b = self.fresh_name(), self.fresh_name()
            head = f"for {a}, {b} in [({self.expr(2)}, {self.expr(2)}), [{self.expr(2)}, {self.expr(2)}]]:"
        else:
            a, b = self.fresh_name(), self.fresh_name()
            head = f"for [{a}, *{b}] in (iter([{self.expr(2)}, {self.expr(2)}]), [{self.expr(2)}]):"
        self.no_walrus = False
        L = [head] + ["    " + l for l in self.block(depth)]
        if r.randrange(3) == 0:
            L += ["else:"] + ["    " + l for l in self.block(depth)]
        return L

    def while_lines(self, depth):
        # a counted loop (walrus-free test: a walrus in a while test is KF-D16)
        r = self.r
        c = f"w{r.randrange(100)}"
        self.no_walrus = True
        try:
            test = r.choice([c, f"B({c})", f"{c} > 0", f"note({c})", f"({c} and {self.expr(2)} == {self.expr(2)})"])
        finally:
            self.no_walrus = False
        L = [f"{c} = {r.randrange(0, 3)}", f"while {test}:", f"    {c} -= 1"] + ["    " + l for l in self.block(depth)]
        if r.randrange(3) == 0:
            L += ["else:"] + ["    " + l for l in self.block(depth)]
        return L

    def stmt_lines(self, depth=0):
        if depth < 2 and self.r.randrange(9) == 0:
            return self.while_lines(depth)
        if depth < 2 and self.r.randrange(4) == 0:
            return self.if_lines(depth)
        if depth < 2 and self.r.randrange(6) == 0:
            return self.for_lines(depth)
        return [self.stmt()]

    def pattern(self, depth=0):
        r = self.r
        n = r.randrange(1, 4)
        parts, vals = [], []
        for _ in range(n):
            if depth < 2 and r.randrange(4) == 0:
                p, v = self.pattern(depth + 1)
                parts.append(p); vals.append(v)
            else:
                t, w = self.target()
                self.commit(w)
                parts.append(t); vals.append(self.expr(2))
        if n >= 1 and r.randrange(3) == 0:
            # one starred item: it takes a surplus of 0 - 2 values
            k = r.randrange(n)
            if not parts[k].startswith(("(", "[")):
                parts[k] = "*" + parts[k]
                extra = [self.expr(2) for _ in range(r.randrange(0, 3))]
                vals[k:k + 1] = extra
        br = r.choice(["()", "[]"])
        pat = br[0] + ", ".join(parts) + ("," if n == 1 and br == "()" else "") + br[1]
        kind = r.randrange(4)
        seq = ", ".join(vals)
        val = [f"({seq},)" if vals else "()", f"[{seq}]", f"iter([{seq}])", f"reversed([{seq}][::-1])"][kind]
        return pat, val

    def stmt(self):
        r = self.r
        if r.randrange(7) == 0:
            p, v = self.pattern()
            if r.randrange(3) == 0:
                return f"{self.fresh_name()} = {p} = {v.replace('iter(', 'list(').replace('reversed(', 'list(')}"
            return f"{p} = {v}"
        k = r.randrange(12)
        if k <= 3:
            n = 1 if r.randrange(3) else r.randrange(2, 4)
            ts = [self.target() for _ in range(n)]
            s = " = ".join(t for t, _ in ts) + " = " + self.expr()
            for _, w in ts: self.commit(w)
            return s
        if k <= 6:
            op = r.choice(AUG[:3]) if r.randrange(3) else r.choice(AUG[:11])
            rhs = self.expr()
            if op in ("//=", "%="): rhs = f"(abs({rhs}) + 1)"
            if op in ("**=", "<<=", ">>="): rhs = f"(abs({rhs}) % 3)"
            return f"{self.aug_target()} {op} {rhs}"
        if k == 7: return f"print({self.expr()}, {self.expr()})"
        if k == 8: return f"l.append({self.expr()}) if len(l) < 6 else None"
        if k == 9: return "pass"
        if k == 10: return f"global {self.fresh_name()}" if False else f"note({self.expr()})"
        return self.expr()

    def program(self):
        self.names, self.attrs, self.keys = ["x", "y", "z", "_", "k", "v", "it", "self", "total", "n1"], [], []
        L = ["o = type('O', (), {'cnt': 0})()", "d = {}", "l = [3, 1, 2]", "log = []",
             "note = lambda v: (log.append(repr(v)[:40] if isinstance(v, (int, float, str, list, tuple)) else type(v).__name__), v)[1]",
             "x = y = z = _ = k = v = it = self = total = n1 = 0", "o.a = o.b = o.c = d['p'] = d['q'] = d[1] = d[2] = 0"]
        L += ["B = type('B', (), {'__init__': lambda s, v: setattr(s, 'v', v), '__bool__': lambda s: (log.append('bool:%r' % (s.v,)), bool(s.v))[1]})",
              "R = type('R', (), {'__bool__': lambda s: 1 // 0, '__len__': lambda s: 1 // 0})()"]
        for _ in range(self.r.randrange(3, 14)):
            L += self.stmt_lines()
        L.append("print(sorted(vars(o).items()), sorted(d.items(), key=repr), l, log)")
        return "\n".join(L) + "\n"


FIXED = [
    "a = b = c = 1\na += b\nprint(a, b, c)\n",
    "o = type('O', (), {})()\no.x = o.y = 5\no.x += o.y\no.y **= 2\nprint(o.x, o.y)\n",
    "d = {}\nd['k'] = d[1] = d[(1, 2)] = 7\nd['k'] //= 2\nd[1] <<= d['k']\nprint(sorted(d.items(), key=repr))\n",
    "l = [[1, 2], [3]]\nl[0] += l[1]\nl[-1] *= 2\nm = l[0]\nm @= 1 if False else m\n" if False else "l = [[1, 2], [3]]\nl[0] += l[1]\nl[-1] *= 2\nprint(l)\n",
    "x = 1\nglobal_ = 2\npass\nx\n(y := x + global_)\nprint(x, y)\n",
    "log = []\nf = lambda v: (log.append(v if isinstance(v, (int, str)) else type(v).__name__), v)[1]\no = type('O', (), {})()\nd = {}\nf(o).a = f(d)[f('k')] = x = f(3)\nf(d)[f('k')] += f(4)\nf(o).a -= f(1)\nprint(log, o.a, d, x)\n",
    "_ = 1\n__ = 2\n_ += __\nprint(_, __)\n",
    # the truth value of a condition is taken once, that of a statement's value never
    "log = []\nB = type('B', (), {'__init__': lambda s, v: setattr(s, 'v', v), '__bool__': lambda s: (log.append('bool:%r' % (s.v,)), bool(s.v))[1]})\n"
    "R = type('R', (), {'__bool__': lambda s: 1 // 0})()\nx = 0\nif B(0):\n    R\nelse:\n    x += 1\nif B(1):\n    R\nelse:\n    x += 2\n"
    "if B(0):\n    x += 4\nelif B(''):\n    R\nelif B(3):\n    R\n    R\nelse:\n    R\nif not B(5):\n    pass\nelse:\n    B(6)\nprint(x, log)\n",
]


def programs(rng, n):
    g = Gen(rng)
    return FIXED + [g.program() for _ in range(n)]
