"""C09 -- helper names never capture or clobber user identifiers."""
import ast, json, re, sys
from common import Check, fresh_oneliner, load_known_findings
import gen_prog, lower_common, par

OL = None
BUILTINS_EMITTED = ["setattr", "hasattr", "tuple", "list", "slice", "type", "globals", "locals", "iter", "next", "classmethod", "__import__"]
RISKY = ["_", "__", "k", "v", "self", "it", "itertools", "importlib", "cls", "__ol", "ol_cnt", "_ol_k", "item", "loader", "retv",
         # names CPython gives to the symbol tables of lambdas / comprehensions, and modules the emitted code imports
         "genexpr", "listcomp", "setcomp", "dictcomp", "lambda_", "operator", "top"] + BUILTINS_EMITTED
ROLES = ["global", "local", "parameter", "loop-target", "function-name", "class-name", "class-attribute", "imported-alias", "nonlocal-cell", "lambda-parameter", "comprehension-target",
         "enclosing-function-name", "enclosing-class-name"]
FEATURES = {
    "while": "n_ = 2\nwhile n_ > 0:\n    n_ -= 1\n    print('w', n_)",
    "for-break": "for i_ in [1, 2, 3]:\n    if i_ == 2:\n        break\n    print('f', i_)\nelse:\n    print('no')",
    "class": "class K_:\n    a = 1\n    def m(s_):\n        return s_.a\nprint(K_().m())",
    "import": "import math\nprint(math.floor(2.5))",
    "from-import": "from math import floor as fl_\nprint(fl_(3.5))",
    "destructuring": "a1_, *b1_ = [1, 2, 3]\n(c1_, d1_), e1_ = (4, 5), 6\nfor (f1_, g1_), h1_ in [((7, 8), 9)]:\n    print(f1_, g1_, h1_)\nprint(a1_, b1_, c1_, d1_, e1_)",
    "aug-subscript": "d1_ = [1, 2]\nd1_[0:1] += [5]\nd1_[0] += 1\nprint(d1_)",
    "chain-wrapper": "print(1)\nprint(2)\nprint(3)",
    "global-store": "def g1_():\n    global G1_\n    G1_ = 5\ng1_()\nprint(G1_)",
    "closure": "def o1_():\n    c1_ = 1\n    def i1_():\n        nonlocal c1_\n        c1_ += 1\n        return c1_\n    return i1_()\nprint(o1_())",
    "return-in-loop": "def r1_():\n    for j_ in [1, 2]:\n        if j_ == 2:\n            return j_\n        print('r', j_)\nprint(r1_())",
    # the user's identifier is read *inside* the lowered construct, where emitted lambdas / comprehensions bind helper names;
    # str(X)[:4] makes the value visible without printing addresses
    "while-test-reads": "n_ = 2\nwhile n_ > 0 and print('c', str({X})[:4]) is None:\n    n_ -= 1\n    print('w', n_, str({X})[:4])",
    "while-break-reads": "n_ = 3\nwhile print('c', str({X})[:4]) is None and n_:\n    n_ -= 1\n    if n_ == 1:\n        break\n    print('wb', n_, str({X})[:4])\nelse:\n    print('no')",
    "for-body-reads": "for i_ in [1, 2, 3]:\n    if i_ == 3:\n        break\n    if i_ == 1:\n        continue\n    print('f', i_, str({X})[:4])",
    "for-iter-reads": "for i_ in [str({X})[:4], 2]:\n    print('fi', i_)",
    "class-body-reads": "class K_:\n    a = str({X})[:4]\n    def m(s_):\n        return s_.a, str({X})[:4]\nprint(K_.a)",
    "aug-reads": "d1_ = ['a', 'b']\nd1_[0] += str({X})[:4]\nd1_[len(str({X})[:1]):] += [str({X})[:4]]\nprint(d1_)",
    "destructuring-reads": "a1_, *b1_ = [str({X})[:4], 2, 3]\n(c1_, d1_), e1_ = (4, str({X})[:4]), 6\nprint(a1_, b1_, c1_, d1_, e1_)",
    "def-default-reads": "def h1_(a_=str({X})[:4], *, b_=str({X})[:3]):\n    return a_, b_\nprint(h1_())",
    "nested-loops-read": "for i_ in [1, 2]:\n    for j_ in [1, 2]:\n        if j_ == 2:\n            continue\n        print('n', i_, j_, str({X})[:4])\n    if i_ == 1:\n        continue\n    print('after', i_)",
    "if-test-reads": "if str({X})[:4] != 'zz' and print('i', str({X})[:4]) is None:\n    print('then')",
    "comprehension-reads": "print([(str({X})[:4], j_) for j_ in [1, 2] if str({X})[:4]])",
    "lambda-reads": "print((lambda z_: (str({X})[:4], z_))(1))",
    "lambda-default-same-name": "print((lambda {X}={X}: str({X})[:4])(), (lambda *, {X}={X}: str({X})[:4])(), (lambda z_, {X}=[{X}]: str({X}[0])[:4])(0))",
    "lambda-kwonly-param": "print((lambda *, {X}: str({X})[:4])({X}='kw'), (lambda *{X}: len({X}))(1, 2), (lambda **{X}: sorted({X}))(a_=1))",
    "lambda-star-and-kwargs": "print((lambda *a_, **{X}: (a_, sorted({X})))(1, k_=2), (lambda *{X}, **k_: ({X}, sorted(k_)))(1, k2_=2), (lambda z_, *a_, y_=1, **{X}: (z_, y_, sorted({X})))(0, q_=3))",
    "def-star-and-kwargs": "def h3_(*a_, **{X}):\n    return a_, sorted({X})\ndef h4_(*{X}, **k_):\n    return {X}, sorted(k_)\nprint(h3_(1, k_=2), h4_(1, k2_=2))",
    "chain-pattern-then-name": "a1_, b1_ = c1_ = [1, 2]\n(d1_, e1_), f1_ = g1_ = h1_ = [(3, 4), 5]\ni1_ = j1_, *k1_ = l1_ = iter([6, 7, 8])\nprint(a1_, b1_, c1_, d1_, e1_, f1_, g1_, g1_ is h1_, j1_, k1_, type(i1_).__name__, i1_ is l1_, list(l1_))",
    "nested-comprehension-variable": "print([[{X} * c_ for c_ in [1, 2]] for {X} in [3, 4]], [[f_ + {X} for f_ in [c_]] for c_ in [1] for {X} in [5]], (lambda {X}: [{X} + d_ for d_ in [1]])(6), [[e_ for e_ in [{X}]] for {X} in [7] if {X}])",
    "def-default-same-name": "def h2_({X}={X}, *, kw_={X}):\n    return str({X})[:4], str(kw_)[:4]\nprint(h2_())",
    "return-reads": "def r2_():\n    for j_ in [1, 2]:\n        if j_ == 2:\n            return str({X})[:4]\n    return None\nprint(r2_())",
}


def ind(s, n=1):
    return "".join("    " * n + l + "\n" for l in s.split("\n"))


def program(X, role, feat):
    F = FEATURES[feat].replace("{X}", X)
    if role == "global":
        return f"{X} = 41\n{F}\nprint({X})\n"
    if role == "local":
        return f"def fn_():\n    {X} = 41\n{ind(F)}    return {X}\nprint(fn_())\n"
    if role == "parameter":
        return f"def fn_({X}):\n{ind(F)}    return {X}\nprint(fn_(41))\n"
    if role == "loop-target":
        return f"for {X} in [40, 41]:\n{ind(F)}    print({X})\nprint({X})\n"
    if role == "function-name":
        return f"def {X}():\n    return 41\n{F}\nprint({X}())\n"
    if role == "enclosing-function-name":
        # the identifier names a function whose locals / parameters are captured by nested functions
        return f"def {X}(p_):\n    q_ = 1\n    def inner_():\n        nonlocal q_\n        q_ += p_\n        return q_\n{ind(F)}    return inner_(), q_\nprint({X}(40))\n"
    if role == "enclosing-class-name":
        return f"def mk_():\n    v_ = 41\n    class {X}:\n        def m(self):\n            return v_\n        w = v_ + 1\n    return {X}\n{F}\nprint(mk_()().m(), mk_().w)\n"
    if role == "class-name":
        return f"class {X}:\n    val = 41\n{F}\nprint({X}.val)\n"
    if role == "class-attribute":
        return f"class C_:\n    {X} = 41\n{ind(F)}    other = {X} + 1\nprint(C_.{X}, C_.other)\n"
    if role == "imported-alias":
        return f"import math as {X}\n{F}\nprint({X}.floor(41.5))\n"
    if role == "nonlocal-cell":
        return f"def fn_():\n    {X} = 40\n    def inner_():\n        nonlocal {X}\n        {X} += 1\n{ind(F, 2)}        return {X}\n    return inner_(), {X}\nprint(fn_())\n"
    if role == "lambda-parameter":
        return f"{F}\nprint((lambda {X}: {X} + 1)(40))\nprint((lambda *, {X}=41: {X})())\n"
    if role == "comprehension-target":
        return f"{F}\nprint([{X} for {X} in [41]], {{{X}: {X} for {X} in [41]}})\n"
    raise ValueError(role)


def legal_identifier(X, role):
    if X == "__import__" and role in ("class-name",):
        return True
    return X.isidentifier()


def observe(item):
    X, role, feat, cfg = item
    src = program(X, role, feat)
    v, text = gen_prog.behaviour_check(OL, src, cfg)
    return v, src, text


def rename_program(src, mapping):
    """consistent renaming of identifiers (Name, arg, def / class names, global / nonlocal, attribute-free)"""
    tree = ast.parse(src)

    class R(ast.NodeTransformer):
        def visit_Name(self, n):
            n.id = mapping.get(n.id, n.id); return n
        def visit_arg(self, n):
            n.arg = mapping.get(n.arg, n.arg); return n
        def visit_FunctionDef(self, n):
            self.generic_visit(n); n.name = mapping.get(n.name, n.name); return n
        def visit_ClassDef(self, n):
            self.generic_visit(n); n.name = mapping.get(n.name, n.name); return n
        def visit_Global(self, n):
            n.names = [mapping.get(x, x) for x in n.names]; return n
        def visit_Nonlocal(self, n):
            n.names = [mapping.get(x, x) for x in n.names]; return n
        def visit_keyword(self, n):
            self.generic_visit(n)
            if n.arg in mapping: n.arg = mapping[n.arg]
            return n
    return ast.unparse(R().visit(tree)) + "\n"


def main(argv):
    global OL
    ck = Check("C09", argv)
    ol = OL = fresh_oneliner()
    if ck.replay_file:
        return replay(ck, ol)
    b = ck.build(["OlVerif.Props.C09"])
    if not b["extract_ok"]:
        ck.broken.append("translator: cannot read the identifiers the emitted code mentions: " + b["log"][-300:])
    if not b["built"].get("OlVerif.Props.C09", False):
        ck.broken.append("lean: OlVerif.Props.C09 does not build (the emitted code mentions an identifier outside the reserved prefix and the audited helper list, or the model changed): " + b["log"][-1200:])
    else:
        ck.audit("OlVerif/Audit/C09.lean")
    kfs = {k["kf"]: k for k in load_known_findings("C09") if k.get("status") == "open"}
    items = []
    idx = 0
    own_import_failures = []
    # the helper modules imported by the script itself (not a rebinding: must work)
    for modname in ("itertools", "importlib"):
        for feat in FEATURES:
            for order in ("before", "after"):
                use = "print(next(itertools.count(5)))" if modname == "itertools" else "print(importlib.import_module('math').floor(2.5))"
                src = (f"import {modname}\n{FEATURES[feat].replace('{X}', modname)}\n{use}\n" if order == "before" else f"{FEATURES[feat].replace('{X}', '0')}\nimport {modname}\n{use}\n")
                for cfg in (gen_prog.CONFIGS if ck.tier == "thorough" else [gen_prog.CONFIGS[(len(feat) + len(order)) % 8]]):
                    v, text = gen_prog.behaviour_check(ol, src, cfg)
                    ck.case(f"own-import|{cfg}|{src}", nontrivial=not v.startswith("skip"))
                    ck.count("own-import:" + v.split(":")[0])
                    if v.startswith("fail"):
                        own_import_failures.append((modname, "imports-the-module-itself:" + order, feat, cfg, v, src, text))
    for X in RISKY:
        for role in ROLES:
            for feat in FEATURES:
                idx += 1
                cfgs = gen_prog.CONFIGS if ck.tier == "thorough" else [gen_prog.CONFIGS[(idx + ck.seed) % 8]]
                for cfg in cfgs:
                    items.append((X, role, feat, cfg))
    results = par.pmap(observe, items)
    failing = list(own_import_failures)
    kf_seen = {}
    pairs = []
    for (X, role, feat, cfg), (v, src, text) in zip(items, results):
        ck.case(f"{cfg}|{src}", nontrivial=not v.startswith("skip"))
        ck.count("verdict:" + v.split(":")[0])
        if v.startswith("skip"):
            ck.count("skip-role:" + role)
            continue
        ck.count("role:" + role); ck.count("feature:" + feat)
        if v.startswith("fail"):
            kf = None
            if X in ("itertools", "importlib"):
                kf = "KF-D40"
            elif X in BUILTINS_EMITTED:
                kf = "KF-D41"
            elif X == "top" and role in ("enclosing-function-name", "function-name", "class-name", "enclosing-class-name"):
                kf = "KF-D67"
            if kf in kfs:
                kf_seen[kf] = (X, role, feat)
            else:
                failing.append((X, role, feat, cfg, v, src, text))
        if (len(src) + len(X)) % 5 == 0 or feat == "destructuring":
            pairs.append((src, (cfg[1], cfg[2])))
        if len(ck.samples) < 4 and v == "ok" and X in ("_", "k", "self") and role in ("global", "class-attribute") and feat in ("while", "class"):
            ck.sample({"identifier": X, "role": role, "feature": feat, "source": src})
    # alpha-renaming of random programs onto risky identifiers (non-builtin ones)
    # (names of the form __x would be mangled inside class definitions: known finding KF-D55, replayed separately)
    safe_risky = [x for x in RISKY if x not in BUILTINS_EMITTED and x not in ("itertools", "importlib") and not (x.startswith("__") and not x.endswith("__"))]
    nren = 40 if ck.tier == "quick" else 1200
    for i in range(nren):
        src, feats = gen_prog.gen_program(ck.rng, size=ck.rng.randrange(4, 10))
        names = sorted({n.id for n in ast.walk(ast.parse(src)) if isinstance(n, ast.Name)} - set(dir(__builtins__)) - {"print", "math", "os", "osp", "m_", "floor", "cl", "pth", "sep", "deco", "deco2"})
        names = [n for n in names if re.fullmatch(r"[a-z]\w*", n)]
        if not names:
            continue
        pick = ck.rng.sample(names, min(len(names), len(safe_risky), 6))
        mapping = dict(zip(pick, ck.rng.sample(safe_risky, len(pick))))
        try:
            rsrc = rename_program(src, mapping)
        except Exception:
            continue
        cfg = gen_prog.CONFIGS[i % 8]
        v, text = gen_prog.behaviour_check(ol, rsrc, cfg)
        ck.case(f"ren|{cfg}|{rsrc}", nontrivial=not v.startswith("skip"))
        ck.count("alpha-renamed:" + v.split(":")[0])
        if v.startswith("fail"):
            v0, _ = gen_prog.behaviour_check(ol, src, cfg)
            if not v0.startswith("fail"):
                if "KF-D67" in kfs and re.search(r"^\s*(def|class) top\b", rsrc, re.M):
                    kf_seen["KF-D67"] = ("top", "alpha-renaming", "-")
                else:
                    failing.append((json.dumps(mapping), "alpha-renaming", "-", cfg, v, rsrc, text))
    k_bad = []
    if b["driver_ok"]:
        for src, cfg, ok, detail in lower_common.compare(ol, pairs):
            if ok:
                ck.count("K_agree")
            else:
                k_bad.append((src, cfg, detail))
    # the binder function of C09.no_foreign_binders against CPython's view of the real output
    b_bad = []
    if b["driver_ok"]:
        for src, cfg, ok, detail in lower_common.binder_check(ol, pairs):
            if ok:
                ck.count("binders_agree")
            else:
                b_bad.append((src, cfg, detail))
    if b_bad:
        ck.broken.append(f"correspondence K(bnd = names bound by the real output; none foreign): {len(b_bad)} programs differ, first: {b_bad[0][2][:300]} on {b_bad[0][0]!r}")
    if k_bad:
        ck.broken.append(f"correspondence K(lowerFull = convert): {len(k_bad)} programs differ, first: {k_bad[0][2][:300]} on {k_bad[0][0]!r}")
    if "KF-D55" in kfs:
        v, _ = gen_prog.behaviour_check(ol, kfs["KF-D55"]["witness"]["source"], gen_prog.CONFIGS[0])
        if v.startswith("fail"):
            kf_seen["KF-D55"] = ("__secret", "class-attribute", "-")
    if "KF-D43" in kfs:
        # the witness: a generator that always answers the same (a constant Mersenne-Twister state does; here the draw itself
        # is pinned for the duration of one conversion) - two nested functions then get the same dictionary name
        import random as _random
        from unittest import mock
        src43 = "def f():\n    a = 1\n    def g():\n        b = 2\n        def h():\n            return a + b\n        return h()\n    return g()\nprint(f())\n"
        with mock.patch.object(_random, "choices", lambda pop, k=1, **kw: [pop[0]] * k):
            try:
                text43 = ol.convert_code_string(src43)
            except Exception:
                text43 = ""
        names43 = re.findall(r"__ol_nonlocal_[a-z]+", text43)
        v43, _ = gen_prog.behaviour_check(ol, src43, gen_prog.CONFIGS[0])
        if v43 == "ok" and len(set(names43)) == 1 and len(names43) > 1:
            try:
                out43 = []
                eval(compile(text43, "<o>", "eval"), {"print": lambda *a: out43.append(a)})
                collided = out43 != [(3,)]
            except Exception:
                collided = True
            if collided:
                kf_seen["KF-D43"] = ("-", "degenerate-rng", "-")
    for kf, (X, role, feat) in sorted(kf_seen.items()):
        ck.known(kf, kfs[kf]["what"])
    failing.sort(key=lambda f: len(f[5]))
    for X, role, feat, cfg, v, src, text in failing[:3]:
        ck.violation({"kind": "identifier", "identifier": X, "role": role, "feature": feat, "source": src, "config": list(cfg), "observed": v, "converted": text,
                      "expected": "same behaviour as the original, whatever the identifier", "broken_obligations": ck.broken})
    if ck.broken and not failing:
        ck.violation({"kind": "obligation", "broken_obligations": ck.broken, "searched": f"{len(items)} (identifier, role, feature) programs on the real converter"}, no_input=True)
    return ck.finish(
        rule="finite matrix: risky identifier (_, __, k, v, self, it, itertools, importlib, cls, names resembling the reserved ones, and every builtin the emitted "
             "code calls) x role (global, local, parameter, loop target, function name, class name, class attribute, imported alias, nonlocal cell, lambda "
             "parameter, comprehension target) x converter feature that introduces helper names (while, for+break+else, class, import, from-import, destructuring, "
             "augmented subscript, chain wrapper, global store, closure, return in loop), exhaustive, x 1 (quick, rotating) / 8 (thorough) option combinations; "
             "plus consistent renaming of the identifiers of random programs onto risky ones; programs whose original raises are skipped; distinct by (config, source)",
        extra={"R_failures": len(failing), "K_disagreements": len(k_bad), "matrix": len(RISKY) * len(ROLES) * len(FEATURES)},
        assumptions=["fresh temporaries come from an injective supply (unique_id draws 10 random letters; a collision is known finding KF-D43)"])


def replay(ck, ol):
    r = json.load(open(ck.replay_file))
    if "source" not in r:
        print("replay file names a broken obligation, no input:", r.get("broken_obligations")); return 0
    v, text = gen_prog.behaviour_check(ol, r["source"], tuple(r["config"]))
    print(r["source"]); print("observed:", v)
    return 1 if v.startswith("fail") else 0


if __name__ == "__main__":
    sys.exit(main(sys.argv[1:]))
