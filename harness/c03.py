"""C03 -- the custom unparser round-trips every expression tree."""
import ast, json, os, sys
from common import Check, fresh_oneliner, load_known_findings, ROOT
import gen_expr, unparse_common as U


def cases(ck):
    for name, e in gen_expr.equal_literals():
        yield name, e
    for name, e in gen_expr.depth2():
        yield name, e
    n = 2000 if ck.tier == "quick" else 50000
    for name, e in gen_expr.random_trees(ck.rng, n, 6 if ck.tier == "quick" else 7):
        yield name, e
    if ck.tier == "thorough":
        for name, e in gen_expr.depth3(ck.rng, limit=200000):
            yield name, e
    import gen_prog
    for name, e in gen_prog.converter_outputs(ck, 120 if ck.tier == "quick" else 1500):
        yield name, e
    if ck.tier == "thorough":
        import corpus_stdlib
        for name, e in corpus_stdlib.expressions(limit=None):
            yield name, e


def main(argv):
    ck = Check("C03", argv)
    ol = fresh_oneliner()
    if ck.replay_file:
        return replay(ck, ol)
    b = ck.build(["OlVerif.Props.C03"])
    if not b["extract_ok"]:
        ck.broken.append("translator: tools/extract.py could not read the precedence tables: " + b["log"][-400:])
    if not b["built"].get("OlVerif.Props.C03", False):
        ck.broken.append("lean: OlVerif.Props.C03 does not build (a proof obligation over the regenerated tables fails): " + b["log"][-1500:])
    else:
        ck.audit("OlVerif/Audit/C03.lean")
    model_ok = b["driver_ok"]
    if not model_ok:
        ck.broken.append("lean: the driver (model) does not build against the regenerated tables")

    todo = []
    seen = set()
    for name, e in cases(ck):
        try:
            key = ast.dump(e)
        except Exception:
            continue
        if key in seen:
            continue
        seen.add(key)
        if not gen_expr.parser_producible(e) and not name.startswith("conv#"):
            ck.count("skipped_not_parser_producible")
            continue
        todo.append((name, e))
    # R: the property's own observable on the real code
    failing = []
    texts = []
    for name, e in todo:
        ok, text, detail = U.roundtrip_real(ol, e)
        texts.append(text)
        ck.case(ast.dump(e), nontrivial=len(list(ast.walk(e))) > 1)
        for k in gen_expr.kinds_in(e):
            ck.count("kind:" + k)
        if len(ck.samples) < 6 and len(list(ast.walk(e))) > 6:
            ck.sample({"case": name, "tree": ast.dump(e)[:300], "text": text})
        if not ok:
            failing.append((name, e, text, detail))
    # K: model tokens = tokens of the real text
    k_bad = []
    if model_ok:
        mt = U.model_tokens_wf([e for _, e in todo])
        not_wf = []
        for (name, e), (toks, wf), text in zip(todo, mt, texts):
            # the hypothesis of C03.unparse_derives must cover the trees the parser produces
            if wf is True:
                ck.count("theorem_hypothesis_holds")
            elif wf is False:
                ck.count("theorem_hypothesis_fails")
                why = outside_hypothesis(e)
                if why:
                    ck.count("outside_hypothesis:" + why)
                elif gen_expr.parser_producible(e):
                    not_wf.append((name, e))
            if text is None:
                continue
            rt = U.tokens_of_text(text)
            if toks is None:
                ck.count("model_rejected")
                k_bad.append((name, e, text, "model rejected the tree"))
            elif toks != rt:
                k_bad.append((name, e, text, f"model tokens {toks} != real tokens {rt}"))
            else:
                ck.count("K_agree")
    if model_ok and not_wf:
        ck.broken.append(f"coverage: {len(not_wf)} parser-producible trees are outside the hypothesis wfE of C03.unparse_derives, first: "
                         f"{not_wf[0][0]}: {ast.dump(not_wf[0][1])[:300]}")
    if k_bad:
        ck.broken.append(f"correspondence K(unparse): model and expr_unparse differ on {len(k_bad)} trees, first: {k_bad[0][0]}: {k_bad[0][3][:300]}")
    failing.sort(key=lambda f: len(ast.dump(f[1])))
    for name, e, text, detail in failing[:3]:
        ck.violation({"kind": "roundtrip", "case": name, "tree_json": U.expr_to_json(e), "tree": ast.dump(e), "text": text,
                      "observed": detail, "expected": "ast.parse(expr_unparse(e)) structurally equal to e",
                      "broken_obligations": ck.broken})
    if ck.broken and not failing:
        ck.violation({"kind": "obligation", "broken_obligations": ck.broken,
                      "searched": f"{len(todo)} trees (matrix, random, converter output) on the real unparser: all round-trip",
                      "k_disagreements": [{"case": n, "text": t, "detail": d[:500]} for n, _, t, d in k_bad[:10]]}, no_input=True)
    return ck.finish(
        rule="trees = complete (slot x child-kind) matrix at depth 2 + seeded random trees + trees emitted by the converter "
             "(+ depth-3 matrix and stdlib expressions in the thorough tier), restricted to parser-producible trees "
             "(stdlib unparse/parse round-trips them); non-trivial = more than one node; distinct by ast.dump",
        extra={"R_failures": len(failing), "K_disagreements": len(k_bad), "trees_checked": len(todo)},
        assumptions=["M-GRAMMAR (the Derives relation) is a hand transcription of CPython's expression grammar",
                     "token gluing (text -> tokens) is checked by tokenize on every generated case, not proved"])


def outside_hypothesis(e):
    """trees the parser can produce that the hypothesis wfE of C03.unparse_derives leaves out on purpose"""
    for n in ast.walk(e):
        if isinstance(n, ast.JoinedStr) and any(isinstance(v, ast.Constant) and v.value == "" for v in n.values):
            # CPython 3.12.0/3.12.1 leave an empty Constant after a nested field of a format spec (f'{x:{w}}')
            return "empty-literal-part-in-fstring"
    try:
        compile(ast.fix_missing_locations(ast.Expression(body=e)), "<t>", "eval")
    except SyntaxError:
        return "parser-accepts-compiler-refuses"     # e.g. (yield *a), f'{*a}'
    except Exception:
        pass
    return None


def replay(ck, ol):
    r = json.load(open(ck.replay_file))
    if "tree_json" not in r:
        print("replay file names a broken obligation, no input:", r.get("broken_obligations"))
        return 0
    from astjson import expr_from_json
    e = expr_from_json(r["tree_json"])
    ok, text, detail = U.roundtrip_real(ol, e)
    print("tree:", ast.dump(e)); print("text:", text); print("observed:", "round-trips" if ok else detail)
    return 0 if ok else 1


if __name__ == "__main__":
    sys.exit(main(sys.argv[1:]))
