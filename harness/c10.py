"""C10 -- conversion is a pure function of (source, options) up to the choice of fresh names."""
import json, os, random, re, subprocess, sys, tempfile
from common import Check, fresh_oneliner, REPO, PY
import gen_prog, leandrv, par

OPTS = {"unparser": ["ast.unparse", "oneliner"], "expr_wrapper": ["list", "chain_call"], "if_style": ["if_expr", "short_circuit"]}


def normalise(text):
    m = {}

    def rep(mo):
        k = mo.group(0)
        if k not in m:
            m[k] = f"__ol_{len(m)}"
        return m[k]
    return re.sub(r"__ol_[a-z]+_[a-z]{10}", rep, text)


FRESH = r'''
import json, sys, random, re
sys.path.insert(0, %r)
import oneliner
from oneliner.config import Configs
progs = json.load(open(sys.argv[1]))
out = {}
for pi, src in enumerate(progs):
    for u in ("ast.unparse", "oneliner"):
        for w in ("list", "chain_call"):
            for i in ("if_expr", "short_circuit"):
                c = Configs(); c.unparser = u; c.expr_wrapper = w; c.if_style = i
                try:
                    out["%%d|%%s|%%s|%%s" %% (pi, u, w, i)] = oneliner.convert_code_string(src, configs=c)
                except Exception as e:
                    out["%%d|%%s|%%s|%%s" %% (pi, u, w, i)] = "!raised " + type(e).__name__
json.dump(out, open(sys.argv[2], "w"))
'''


FRESH_FORMS = r'''
import json, sys
sys.path.insert(0, %r)
import oneliner
from oneliner.config import Configs
jobs = json.load(open(sys.argv[1]))
out = []
for src, (u, w, i) in jobs:
    c = Configs(); c.unparser = u; c.expr_wrapper = w; c.if_style = i
    try:
        out.append(oneliner.convert_code_string(src, configs=c))
    except BaseException as e:
        out.append("!" + type(e).__name__)
json.dump(out, open(sys.argv[2], "w"))
'''


def forms_determinism(ck):
    """every statement form of the catalogue converted in fresh processes that differ only in PYTHONHASHSEED:
    the texts must agree (up to the renaming of __ol_ temporaries).  Returns a list of failures."""
    import forms, shutil
    progs = [(n, s) for n, s in forms.programs() if n.rsplit("@", 1)[1] in ("module", "function", "class", "method", "nested-function")
             and forms.compilable(s)]
    if ck.tier == "quick":
        progs = [p for i, p in enumerate(progs) if (i + ck.seed) % 2 == 0]
    jobs = [(s, list(gen_prog.CONFIGS[(i + ck.seed) % 8])) for i, (n, s) in enumerate(progs)]
    d = tempfile.mkdtemp(prefix="olverif_c10f_")
    outs = {}
    try:
        pin = os.path.join(d, "in.json")
        json.dump(jobs, open(pin, "w"))
        for hs in (1 + ck.seed, 7919 + ck.seed, 424242 + ck.seed):
            pout = os.path.join(d, f"out{hs}.json")
            r = subprocess.run([PY, "-c", FRESH_FORMS % REPO, pin, pout], capture_output=True, text=True, env=dict(os.environ, PYTHONHASHSEED=str(hs)))
            if r.returncode != 0:
                raise RuntimeError("fresh process failed: " + r.stderr[-800:])
            outs[hs] = [normalise(t) for t in json.load(open(pout))]
    finally:
        shutil.rmtree(d, ignore_errors=True)
    fails = []
    seeds = sorted(outs)
    for i, (n, s) in enumerate(progs):
        ck.case(f"forms-determinism|{jobs[i][1]}|{s}")
        ck.count("forms_determinism_programs")
        for hs in seeds[1:]:
            if outs[hs][i] != outs[seeds[0]][i]:
                fails.append((n, s, jobs[i][1], seeds[0], hs, outs[seeds[0]][i], outs[hs][i]))
                break
    return fails


def fresh_table(progs, per_conversion=False):
    """the function F(p, opts), computed in fresh interpreter processes"""
    d = tempfile.mkdtemp(prefix="olverif_c10_")
    try:
        table = {}
        groups = [[i] for i in range(len(progs))] if per_conversion else [list(range(len(progs)))]
        for g in groups:
            pin, pout = os.path.join(d, "in.json"), os.path.join(d, "out.json")
            json.dump([progs[i] for i in g], open(pin, "w"))
            env = dict(os.environ, PYTHONHASHSEED=str(random.randrange(1, 10 ** 6)))
            r = subprocess.run([PY, "-c", FRESH % REPO, pin, pout], capture_output=True, text=True, env=env)
            if r.returncode != 0:
                raise RuntimeError("fresh process failed: " + r.stderr[-800:])
            for k, v in json.load(open(pout)).items():
                pi, rest = k.split("|", 1)
                table[f"{g[int(pi)]}|{rest}"] = normalise(v)
        return table
    finally:
        import shutil
        shutil.rmtree(d, ignore_errors=True)


def random_history(rng, nprogs, length):
    ops = []
    nobj = 0
    for _ in range(length):
        k = rng.randrange(10)
        if k < 2 or nobj == 0 and k < 5:
            ops.append(["new"]); nobj += 1
        elif k < 5 and nobj:
            name = rng.choice(list(OPTS) + ["unparser"])
            val = rng.choice(OPTS[name]) if rng.random() < 0.85 else rng.choice(["bogus", "", "List", rng.choice(OPTS[name]) + " ", " " + rng.choice(OPTS[name]), rng.choice(OPTS[name]) + "\t"])
            ops.append(["set", rng.randrange(nobj + (1 if rng.random() < .05 else 0)), name, val])
        elif k < 7 and nobj:
            ops.append(["convert", rng.randrange(nprogs), rng.randrange(nobj)])
        elif k < 9:
            ops.append(["convertDefault", rng.randrange(nprogs)])
        elif nobj == 0:
            ops.append(["new"]); nobj += 1
        else:
            ops.append(["reseed", rng.randrange(5)])
    # always end with conversions so that the history is observed
    ops.append(["convertDefault", rng.randrange(nprogs)])
    if nobj:
        ops.append(["convert", rng.randrange(nprogs), rng.randrange(nobj)])
    return ops


def churn(cmod):
    """not an action of the history: short-lived option objects with non-default values are created and freed
    (their addresses become available again); a pure API cannot notice"""
    import gc
    tmp = []
    for i in range(40):
        c = cmod.Configs()
        c.unparser = "oneliner"; c.expr_wrapper = "list"; c.if_style = "short_circuit"
        tmp.append(c)
    del tmp, c
    gc.collect()


def run_real(ol, progs, ops, with_churn=False):
    cmod = sys.modules["oneliner.config"]
    objs = []
    outs = []
    for op in ops:
        if with_churn and op[0] in ("new", "convertDefault", "convert"):
            churn(cmod)
        if op[0] == "new":
            objs.append(cmod.Configs()); outs.append("none")
        elif op[0] == "set":
            if op[1] >= len(objs):
                outs.append("noobj"); continue
            try:
                setattr(objs[op[1]], op[2], op[3]); outs.append("none")
            except ValueError:
                outs.append("ValueError")
        elif op[0] == "convert":
            if op[2] >= len(objs):
                outs.append("noobj"); continue
            try:
                outs.append(["text", normalise(ol.convert_code_string(progs[op[1]], configs=objs[op[2]]))])
            except Exception as e:
                outs.append(["text", "!raised " + type(e).__name__])
        elif op[0] == "convertDefault":
            try:
                outs.append(["text", normalise(ol.convert_code_string(progs[op[1]]))])
            except Exception as e:
                outs.append(["text", "!raised " + type(e).__name__])
        elif op[0] == "reseed":
            random.seed(op[1]); outs.append("none")
    return outs


def main(argv):
    ck = Check("C10", argv)
    ol = fresh_oneliner()
    if ck.replay_file:
        return replay(ck, ol)
    b = ck.build(["OlVerif.Props.C10"])
    if not b["extract_ok"]:
        ck.broken.append("translator: " + b["log"][-400:])
    if not b["built"].get("OlVerif.Props.C10", False):
        ck.broken.append("lean: OlVerif.Props.C10 does not build (the probed storage kind of option values makes the purity theorems false, or the model changed): " + b["log"][-1200:])
    else:
        ck.audit("OlVerif/Audit/C10.lean")
    nprogs = 15 if ck.tier == "quick" else 30
    progs = [gen_prog.gen_program(ck.rng, size=ck.rng.randrange(3, 9))[0] for _ in range(nprogs)]
    progs[1] = "for i in [1, 2, 3]:\n    if i == 2:\n        break\n    print(i)\nelse:\n    print('no')\n"
    progs[2] = "n = 2\nwhile n:\n    n -= 1\nimport math\nprint(math.floor(2.5))\n"
    progs[3] = "def g():\n    for j in range(3):\n        if j:\n            return j\nclass K:\n    a = 1\nprint(g(), K.a)\n"
    progs[4] = "x = 1\ny = 2\nprint(x + y)\n"
    # the same string contents in different quoting contexts (inside an f-string field, plain, with the other quote)
    progs[5] = 'a = f"""{len("it\'s")}{len(\'say "hi"\')}"""\nprint(a)\n'
    progs[6] = 'msg = "it\'s"\nq = \'say "hi"\'\nprint(msg, q, f"{msg!r:>8}")\n'
    progs[0] = "def f(alpha, beta, gamma, delta):\n    def g():\n        return alpha, beta, gamma, delta\n    return g\nprint(f(1, 2, 3, 4)())\n"
    # pairs in which what one conversion saw could leak into the next: a name that is a comprehension target / lambda parameter in
    # one program and a captured variable read inside a comprehension / lambda in the other; equal but different literals
    progs[7] = "print([n for n in range(3)], {k: v for k, v in [(1, 2)]}, (lambda w, *a, **kw: w)(1))\n"
    progs[8] = ("def f(w=3):\n    n = 5\n    k = 6\n    def g():\n        nonlocal k\n        k += 1\n        return n, k, w\n"
                "    return [n for _ in [0]], [(n, k) for v in [1]], (lambda: (n, k, w))(), {n: k for _ in [0]}, g()\nprint(f())\n")
    progs[9] = "a = True\nb = 1 if True else 0\nc = False or 0\nprint(a, b, c)\n"
    progs[10] = "t = 2 * 1.0\nu = 0.0 + 1\nz = 0j\nprint(t, u, z, 1, 0)\n"
    progs[11] = "class K:\n    n = 1\n    k = [n for n in [2]]\n    def m(self, n=n):\n        return [n for _ in [0]]\nprint(K.n, K.k, K().m())\n"
    # a script that is refused half-way (other statements before and after the unsupported one), and one refused for an
    # illegal placement: what a failed conversion leaves behind must not reach the next one.  They are the LAST programs of
    # the pool, so that nothing follows them in the fresh reference process either
    progs[nprogs - 1] = "leak_before = 1\nn = 2\nwhile n:\n    n -= 1\ntry:\n    pass\nexcept Exception:\n    pass\nleak_after = [k for k in range(2)]\n"
    progs[nprogs - 2] = "def f(a):\n    b = a + 1\n    def g():\n        return b\n    return g\nfor i in [1]:\n    print(i)\ncontinue\nafter = f(1)()\n"
    # refused while the transformer is inside a lambda body and a comprehension whose variables are called like the
    # captured variables of progs[8] / progs[0] / progs[11]
    progs[nprogs - 3] = "def f(alpha):\n    h = lambda n, k, *a, **kw: [lambda: (yield n + k + w + v) for w in [alpha] for v in [w]]\n    return h\nprint(f(1))\n"
    try:
        F = fresh_table(progs, per_conversion=(ck.tier == "thorough"))
    except Exception as e:
        ck.broken.append("fresh-process reference could not be computed: " + str(e)[:500]); F = {}
    nh = 400 if ck.tier == "quick" else 12000
    hists = [random_history(ck.rng, nprogs, ck.rng.randrange(1, 7)) for _ in range(nh)]
    # every ordered pair of the curated programs, with one option object and with the default options
    for i in range(nprogs):
        for j in range(nprogs):
            if i != j and (ck.tier == "thorough" or ((i >= 7 or j >= 7) and i < 12 and j < 12) or i >= nprogs - 3):
                hists.append([["new"], ["set", 0, "unparser", "oneliner"], ["convert", i, 0], ["convert", j, 0], ["convertDefault", i], ["convertDefault", j]])
    model = None
    if b["driver_ok"]:
        model = [r.get("outs") for r in leandrv.run_batch([{"op": "api", "ops": h} for h in hists])]
    failing = []
    k_bad = []
    saved_state = random.getstate()
    # every history starts in its own forked process: a fresh copy of the just-imported package
    reals = par.pmap_isolated(lambda ih: run_real(ol, progs, ih[1], with_churn=(ih[0] % 2 == 1)), list(enumerate(hists)))
    for hi, h in enumerate(hists):
        real = reals[hi]
        ck.case(json.dumps(h), nontrivial=sum(1 for o in h if o[0] in ("set", "convert")) >= 2)
        for o in h:
            ck.count("op:" + o[0])
        if hi % 97 == 3:
            ck.sample({"history": h})
        mo = model[hi] if model else None
        for k, (op, ro) in enumerate(zip(h, real)):
            if isinstance(ro, list):   # a conversion: which options should have been used?
                # specification side (independent of the Lean model): own settings of the object
                if op[0] == "convertDefault":
                    opts = {n: None for n in OPTS}
                    exp_opts = dict(unparser="ast.unparse", expr_wrapper="chain_call", if_style="if_expr")
                else:
                    exp_opts = dict(unparser="ast.unparse", expr_wrapper="chain_call", if_style="if_expr")
                    nobj = -1
                    for prev in h[:k]:
                        if prev[0] == "new":
                            nobj += 1
                        # an object's own settings: legal sets addressed to it after its creation
                    created = [i for i, prev in enumerate(h[:k]) if prev[0] == "new"]
                    start = created[op[2]]
                    for prev in h[start:k]:
                        if prev[0] == "set" and prev[1] == op[2] and prev[3] in OPTS.get(prev[2], []):
                            exp_opts[prev[2]] = prev[3]
                key = f"{op[1]}|{exp_opts['unparser']}|{exp_opts['expr_wrapper']}|{exp_opts['if_style']}"
                if F and F.get(key) != ro[1]:
                    failing.append((h, k, f"conversion #{k} of the history differs from the same call in a fresh process with options {exp_opts}"))
                    break
                if mo is not None:
                    m = mo[k]
                    if not (isinstance(m, list) and m[0] == "text" and m[2] == exp_opts):
                        k_bad.append((h, k, f"model says {m}, own settings are {exp_opts}"))
            elif mo is not None and mo[k] != ro:
                k_bad.append((h, k, f"model outcome {mo[k]} != real outcome {ro}"))
    random.setstate(saved_state)
    try:
        det_fails = forms_determinism(ck)
    except Exception as e:
        ck.broken.append("hash-seed comparison could not be run: " + str(e)[:400]); det_fails = []
    det_fails.sort(key=lambda f: len(f[1]))
    for n, s, cfg, hs0, hs1, t0, t1 in det_fails[:2]:
        ck.violation({"kind": "hash-seed", "case": n, "source": s, "config": cfg, "hash_seeds": [hs0, hs1], "observed": "texts differ: " + t0[-300:] + "  VS  " + t1[-300:],
                      "expected": "the same text (up to renaming of __ol_ temporaries) in every fresh process", "broken_obligations": ck.broken})
    if k_bad:
        ck.broken.append(f"correspondence K(api model = real API): {len(k_bad)} histories differ, first: {k_bad[0][2]} in {k_bad[0][0]}")
    failing.sort(key=lambda f: len(f[0]))
    for h, k, why in failing[:3]:
        ck.violation({"kind": "history", "history": h, "programs": progs, "observed": why,
                      "expected": "every conversion equals the same call made in a fresh process (up to renaming of __ol_ temporaries)",
                      "broken_obligations": ck.broken})
    if ck.broken and not failing and not det_fails:
        ck.violation({"kind": "obligation", "broken_obligations": ck.broken,
                      "searched": f"{len(hists)} random histories on the real API: every conversion equals the fresh-process result"}, no_input=True)
    return ck.finish(
        rule="random histories (length 1-8) over {new, set (legal and illegal values, existing and missing objects), convert, convertDefault, reseed} on a pool of "
             "generated programs; every conversion compared (after first-occurrence renaming of __ol_ names) with the same call made in a fresh interpreter "
             "process (quick: one fresh process for the whole table with a random hash seed; thorough: one per program); distinct by history; "
             "non-trivial = at least two set/convert actions; every second history runs with short-lived option objects created and freed before each action; plus every statement form of harness/forms.py at 5 placements converted in three fresh processes "
             "that differ only in PYTHONHASHSEED",
        extra={"R_failures": len(failing) + len(det_fails), "K_disagreements": len(k_bad), "histories": len(hists), "programs": nprogs},
        assumptions=["F(p, opts) itself (the conversion) is modelled elsewhere (M-LOWER); here it is the fresh-process result"])


def replay(ck, ol):
    r = json.load(open(ck.replay_file))
    if r.get("kind") == "hash-seed":
        outs = []
        for hs in r["hash_seeds"]:
            code = ("import sys; sys.path.insert(0, %r); import oneliner; from oneliner.config import Configs; c = Configs(); "
                    "c.unparser, c.expr_wrapper, c.if_style = %r; print(oneliner.convert_code_string(%r, configs=c))" % (REPO, tuple(r["config"]), r["source"]))
            p = subprocess.run([PY, "-c", code], capture_output=True, text=True, env=dict(os.environ, PYTHONHASHSEED=str(hs)))
            outs.append(normalise(p.stdout))
        print(r["source"]); print("texts equal across hash seeds:", outs[0] == outs[1])
        return 0 if outs[0] == outs[1] else 1
    if "history" not in r:
        print("replay file names a broken obligation, no input:", r.get("broken_obligations")); return 0
    progs = r["programs"]
    F = fresh_table(progs)
    real = run_real(ol, progs, r["history"])
    print("history:", r["history"]); print("outcomes:", [o if isinstance(o, str) else o[1][:80] for o in real])
    return 0


if __name__ == "__main__":
    sys.exit(main(sys.argv[1:]))
