import olv_log as log
log.LOG.append('pk2')
attr='A:pk2'
