import olv_log as log
log.LOG.append('pk3')
from .shadow import shadow
