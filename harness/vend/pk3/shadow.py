import olv_log as log
log.LOG.append('pk3.shadow')
def shadow():
    return 'fn'
