import olv_log as log
log.LOG.append('pk.mod')
val='V'
