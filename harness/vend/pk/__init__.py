import olv_log as log
log.LOG.append('pk')
attr='A:pk'
