import olv_log as log
log.LOG.append('pk.sub')
attr='A:pk.sub'
