import olv_log as log
log.LOG.append('pk.sub.leaf')
val='L'
