import olv_log as log
log.LOG.append('pk.sub.deep')
attr='A:pk.sub.deep'
