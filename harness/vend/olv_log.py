LOG=[]
