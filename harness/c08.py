"""C08 -- unsupported constructs are rejected, never silently dropped or mistranslated."""
import ast, json, sys
from common import Check, fresh_oneliner
import gen_prog, lower_common, inject


def rejected(ol, src, cfg):
    try:
        text = ol.convert_code_string(src, configs=gen_prog.mk_configs(ol, cfg))
    except RecursionError:
        return True, "RecursionError", None
    except Exception as e:
        return True, type(e).__name__, None
    return False, None, text


def injected_line(base, prog):
    """1-based line number of the first line where the injected program differs from its base"""
    a, b = base.split("\n"), prog.split("\n")
    for i, (x, y) in enumerate(zip(a, b)):
        if x != y:
            return i + 1
    return min(len(a), len(b)) + 1


def main(argv):
    ck = Check("C08", argv)
    ol = fresh_oneliner()
    if ck.replay_file:
        return replay(ck, ol)
    b = ck.build(["OlVerif.Props.C08"])
    if not b["extract_ok"]:
        ck.broken.append("translator: " + b["log"][-300:])
    if not b["built"].get("OlVerif.Props.C08", False):
        ck.broken.append("lean: OlVerif.Props.C08 does not build: " + b["log"][-1500:])
    else:
        ck.audit("OlVerif/Audit/C08.lean")
    npool = 10 if ck.tier == "quick" else 150
    known = inject.known_shapes()
    failing = []
    k_pairs = []
    dead_dropped = 0
    hyp = []          # (kind, prog, cfg, rejected, dead) for the hypothesis check of the theorem
    for pi in range(npool):
        base, feats = gen_prog.gen_program(ck.rng, size=ck.rng.randrange(3, 9))
        inj = inject.all_injections(base)
        if ck.tier == "quick" and len(inj) > 450:
            inj = ck.rng.sample(inj, 450)
        for kind, pos, prog in inj:
            try:
                ast.parse(prog)
            except SyntaxError:
                ck.count("skipped_not_valid_python"); continue
            cfg = gen_prog.CONFIGS[(pos + len(kind) + pi) % 8]
            rej, cls, text = rejected(ol, prog, cfg)
            ck.case(f"{kind}|{pos}|{prog}")
            ck.count("kind:" + kind)
            dead = inject.is_dead_position(prog, injected_line(base, prog))
            hyp.append((kind, prog, cfg, rej, dead))
            if rej:
                ck.count("rejected:" + cls)
            else:
                line = injected_line(base, prog)
                if dead and any(k["kf"] == "KF-D37" for k in known):
                    dead_dropped += 1
                    ck.count("attributed_to_KF-D37")
                else:
                    failing.append((kind, pos, prog, cfg, text))
            if (pos * 7 + len(kind)) % 11 == 0:
                k_pairs.append((prog, (cfg[1], cfg[2])))
            if len(ck.samples) < 5 and (pos + len(kind)) % 37 == 0:
                ck.sample({"kind": kind, "line": pos + 1, "program": prog[:500], "outcome": ("raised " + cls) if rej else "returned"})
    # curated: constructs in positions that are easy to miss
    for name, src in CURATED:
        rej, cls, text = rejected(ol, src, gen_prog.CONFIGS[0])
        ck.case("curated|" + src)
        ck.count("curated")
        if not rej:
            kf = None
            for k in known:
                if "C08" in k.get("properties", []) and k.get("witness", {}).get("source") == src:
                    kf = k["kf"]
            if kf is None:
                failing.append(("curated:" + name, 0, src, gen_prog.CONFIGS[0], text))
        k_pairs.append((src, ("chain_call", "if_expr")))
    k_bad = []
    if b["driver_ok"]:
        for src, cfg, ok, detail in lower_common.compare(ol, k_pairs):
            if ok:
                ck.count("K_agree")
            else:
                k_bad.append((src, cfg, detail))
    # the hypothesis of C08.reject_at_any_depth (`badModule`) evaluated by the model on every injection:
    # it must hold for every injection at a live position (otherwise the theorem would not speak about
    # the property's quantifier), and where it holds the real converter must have raised
    uncovered = []
    if b["driver_ok"]:
        hs = [h for h in hyp if lower_common.analysable(h[1])]
        cap = 25000
        if len(hs) > cap:
            # every injection that the converter accepted, and a sample of the rest (the model is run in bounded batches)
            keep = [h for h in hs if not h[3]]
            hs = keep + ck.rng.sample([h for h in hs if h[3]], cap - min(cap, len(keep)))
            ck.count("hypothesis_check_sampled", len(hs))

        def model_bad_batched(items, size=1000):
            for i in range(0, len(items), size):
                yield from lower_common.model_bad(items[i:i + size])
        for (kind, prog, cfg, rej, dead), (bad, outcome) in zip(hs, model_bad_batched([(h[1], (h[2][1], h[2][2])) for h in hs])):
            if bad is True:
                ck.count("theorem_hypothesis_holds")
                if outcome != "err":
                    ck.broken.append("model: badModule holds but lowerFull returned a tree on " + repr(prog[:300]))
                if not rej and not any(f[2] == prog for f in failing):
                    failing.append((kind, 0, prog, cfg, "a tree although the rejection theorem's hypothesis holds"))
            elif bad is False:
                if dead:
                    ck.count("hypothesis_false_dead_position")
                elif rej:
                    ck.count("hypothesis_false_but_rejected:" + kind)
                    uncovered.append((kind, prog))
            else:
                ck.count("hypothesis_protocol_error")
        if len({k for k, _ in uncovered}) and len(uncovered) > 0:
            ck.count("kinds_outside_hypothesis", len({k for k, _ in uncovered}))
    if k_bad:
        ck.broken.append(f"correspondence K(lowerFull = convert, incl. error class): {len(k_bad)} programs differ, first: {k_bad[0][2][:300]} on {k_bad[0][0][:400]!r}")
    for k in known:
        if "C08" in k.get("properties", []) and "source" in k.get("witness", {}):
            rej, cls, text = rejected(ol, k["witness"]["source"], tuple(k["witness"].get("config", gen_prog.CONFIGS[0])))
            if not rej:
                ck.known(k["kf"], k["what"])
    failing.sort(key=lambda f: len(f[2]))
    for kind, pos, prog, cfg, text in failing[:3]:
        ck.violation({"kind": "accepted", "construct": kind, "line": pos + 1, "source": prog, "config": list(cfg), "observed": "conversion returned " + (text or "")[:400],
                      "expected": "conversion raises an error", "broken_obligations": ck.broken})
    if ck.broken and not failing:
        ck.violation({"kind": "obligation", "broken_obligations": ck.broken,
                      "searched": "every injection of the pool on the real converter: all rejected (or attributed to a listed known finding)",
                      "k_disagreements": [{"source": s[:800], "config": list(c), "detail": d[:400]} for s, c, d in k_bad[:10]]}, no_input=True)
    return ck.finish(
        rule="pool of generated supported programs x every unsupported statement kind (try, raise, with, assert, del, match, type alias, star import, async def, yield) "
             "and expression kind (yield, yield from, await) and every illegal placement (break/continue outside loop, return outside function, two stars in an "
             "assignment / for / nested pattern) injected at every statement position (exhaustive per program; quick: at most 450 injections per program); "
             "distinct by (kind, position, program)",
        extra={"R_failures": len(failing), "K_disagreements": len(k_bad), "dead_code_drops_attributed": dead_dropped},
        assumptions=[])


CURATED = [
    ("yield-in-lambda-default", "def f(a=lambda: (yield)):\n    return a\n"),
    ("await-in-comprehension", "def f():\n    return [await x for x in y]\n"),
    ("yield-in-for-iter", "def f():\n    for i in (yield):\n        pass\n"),
    ("yield-in-while-test", "def f():\n    while (yield):\n        pass\n"),
    ("yield-in-subscript-target", "def f(d):\n    d[(yield)] = 1\n"),
    ("yield-in-aug-target", "def f(d):\n    d[(yield)] += 1\n"),
    ("yield-in-decorator", "def g():\n    @(yield)\n    def f(): pass\n"),
    ("yield-in-class-base", "def g():\n    class A((yield)): pass\n"),
    ("yield-in-class-keyword", "def g():\n    class A(k=(yield)): pass\n"),
    ("yield-in-return", "def f():\n    return (yield 1)\n"),
    ("yield-in-fstring", "def f():\n    return f'{(yield)}'\n"),
    ("yield-in-attr-target", "def f(o):\n    (yield).a = 1\n"),
    ("yield-in-for-target", "def f(d):\n    for d[(yield)] in []:\n        pass\n"),
    ("try-in-else-of-loop", "for i in []:\n    pass\nelse:\n    try:\n        pass\n    finally:\n        pass\n"),
    ("with-in-method", "class A:\n    def m(self):\n        with self:\n            pass\n"),
    ("del-in-class", "class A:\n    x = 1\n    del x\n"),
    ("async-for", "async def f():\n    async for i in x:\n        pass\n"),
    ("raise-in-elif", "if 0:\n    pass\nelif 1:\n    raise E\n"),
    ("global-star-import", "from os import *\n"),
    ("relative-star-import", "from . import *\n"),
    ("relative-star-import-2", "x = 1\nfrom .. import *\ny = 2\n"),
    ("relative-star-import-in-if", "if True:\n    pass\nfrom .pkg import *\n"),
    ("two-stars-walrus-free", "[*a, *b] = 1, 2\n"),
    ("return-in-class-in-def", "def f():\n    class A:\n        return 1\n"),
    ("break-in-def-in-loop", "for i in []:\n    def f():\n        break\n"),
    ("continue-in-class-in-loop", "while 0:\n    class A:\n        continue\n"),
    ("break-in-else-of-toplevel-loop", "while 0:\n    pass\nelse:\n    break\n"),
]


def replay(ck, ol):
    r = json.load(open(ck.replay_file))
    if "source" not in r:
        print("replay file names a broken obligation, no input:", r.get("broken_obligations")); return 0
    rej, cls, text = rejected(ol, r["source"], tuple(r["config"]))
    print(r["source"]); print("observed:", ("raised " + cls) if rej else ("returned " + text[:300]))
    return 0 if rej else 1


if __name__ == "__main__":
    sys.exit(main(sys.argv[1:]))
