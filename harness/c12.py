"""C12 -- classes keep their members, bases, metaclass, method kinds and super()."""
import contextlib, io, itertools, json, sys
from common import Check, fresh_oneliner, load_known_findings, StepLimit
import gen_prog, lower_common, par

OL = None
PRE = """
class Meta(type):
    def __new__(m, n, b, ns, **kw):
        c = super().__new__(m, n, b, ns)
        c.meta_kw = sorted(kw.items())
        return c
    def __init__(c, n, b, ns, **kw):
        super().__init__(n, b, ns)
class Base0:
    base0 = 'b0'
    def who(self): return 'Base0'
    def __init_subclass__(cls, tag=None, **kw):
        super().__init_subclass__(**kw)
        cls.tag = tag
class Left(Base0):
    def who(self): return 'Left>' + super().who()
class Right(Base0):
    def who(self): return 'Right>' + super().who()
def deco(n):
    def w(c):
        c.decorated = getattr(c, 'decorated', []) + [n]
        return c
    return w
def deco_new(n):
    'a decorator that returns a new class'
    def w(c):
        return type(c.__name__, (c,), {'decorated_new': n})
    return w
encl = 'enclM'
encl2 = 'encl2M'
encl3 = 100
gshared = 'G'
def hookd(f):
    def w(cls, *a, **kw):
        cls.hooked = getattr(cls, 'hooked', 0) + 1
        return f(cls, *a, **kw)
    return w
"""
BASES = {"none": "", "one": "Base0", "diamond": "Left, Right"}
MEMBERS = {
    "attrs": ["x = 1", "y = x + 1", "x = 3"],
    "method": ["def m(self, a, b=2):", "    return (self.__class__.__name__, a, b)"],
    "static": ["@staticmethod", "def s(a):", "    return a * 2"],
    "classmethod": ["@classmethod", "def c(cls, a):", "    return (cls.__name__, a)"],
    "property": ["@property", "def p(self):", "    return 'prop'", "@p.setter", "def p(self, v):", "    self._v = v"],
    "nested-class": ["class Inner:", "    z = 5", "    def im(self): return 'inner'"],
    "init": ["def __init__(self, v=7):", "    self.v = v"],
    "body-if": ["if 1 < 2:", "    flag = 'yes'", "else:", "    flag = 'no'"],
    "body-for": ["acc = []", "for i in range(3):", "    acc.append(i)", "    if i == 1:", "        break", "last = i"],
    "super0": ["def who(self):", "    return 'K>' + super().who()"],
    "super2": ["def who(self):", "    return 'K2>' + super(K, self).who()"],
    "init-subclass": ["def __init_subclass__(cls, extra=0, **kw):", "    super().__init_subclass__(**kw)", "    cls.extra = extra"],
    # the two hooks type.__new__ makes classmethods implicitly (plain functions only), and __new__ (implicit staticmethod)
    "init-subclass-explicit-cm": ["@classmethod", "def __init_subclass__(cls, extra=0, **kw):", "    super().__init_subclass__(**kw)", "    cls.extra = extra"],
    "init-subclass-decorated": ["@hookd", "def __init_subclass__(cls, extra=0, **kw):", "    super().__init_subclass__(**kw)", "    cls.extra = extra"],
    "class-getitem": ["def __class_getitem__(cls, k):", "    return (cls.__name__, k)"],
    "class-getitem-explicit-cm": ["@classmethod", "def __class_getitem__(cls, k):", "    return (cls.__name__, 'cm', k)"],
    "class-getitem-decorated": ["@hookd", "def __class_getitem__(cls, k):", "    return (cls.__name__, 'd', k)"],
    "new": ["def __new__(cls, *a, **k):", "    o = super().__new__(cls)", "    o.made = cls.__name__", "    return o"],
    "dunder-call": ["def __call__(self, a):", "    return a + 1", "def __repr__(self):", "    return 'K()'"],
    "class-var-in-method-default": ["d = 4", "def md(self, a=d):", "    return a"],
    "lambda-member": ["lam = lambda self, q=2: q * 3"],
    "self-ref": ["def me(self):", "    return (K.__name__, getattr(K, 'decorated_new', None), getattr(K, 'decorated', None))"],
    "lambda-default-same-name": ["sep = '-'", "width = 3", "lam2 = lambda self, sep=sep, *, width=width + 1: (sep, width)"],
    "comprehension-member": ["sq = [n * n for n in range(3)]"],
    # the implicit __class__ cell together with a name of the enclosing scope (a function local in the function placements)
    "super0-enclosing": ["def who(self):", "    return 'K>' + super().who() + encl"],
    "dunder-class-enclosing": ["def dc(self):", "    return (__class__.__name__, encl, encl2)"],
    # the class body itself (attribute values, a nested class body, a default) reads names of the enclosing scope that no method captures
    # lambda members (wrapped or not) whose nested lambdas / generator expressions read globals and builtins not used at the first level
    "nested-lambda-members": ["by_len = staticmethod(lambda seq: sorted(seq, key=lambda t: len(t)))", "grow = classmethod(lambda cls, n: n + (lambda: encl3)())",
                              "tot = property(lambda self: sum(abs(q) for q in (1, -2)))", "pick = lambda self, seq: max((divmod(x, 2) for x in seq), key=lambda p: p[1])"],
    # the implicit class cell read by a function nested in a method and by a lambda written in the class body
    "nested-fn-class-cell": ["def nf(self):", "    def inner():", "        return (__class__.__name__, type(super(__class__, self)).__name__)", "    return inner(), (lambda: __class__.__name__)()"],
    "lambda-class-cell": ["lc = lambda self: __class__.__name__", "lc2 = lambda self: (lambda: __class__.__name__)()"],
    # a member named like a module-level variable that a lambda of the body reads: the body's own reads (values, defaults, first iterables) see the member
    "member-beside-lambda-global": ["gshared = 'member'", "gl = lambda self: gshared", "gv = gshared + '!'", "def gd(self, a=gshared, *, b=gshared):", "    return (a, b, gshared)",
                                    "gfirst = [q for q in gshared][:2]", "gsame = [gshared for gshared in gshared][:2]"],
    "body-reads-enclosing": ["be = (encl, encl2)", "class Inner2:", "    bi = encl2 + '!'", "def bd(self, a=encl2):", "    return a"],
}


def class_source(bases, meta, kws, ndeco, members):
    head_args = []
    if BASES[bases]:
        head_args.append(BASES[bases])
    if meta:
        head_args.append("metaclass=Meta")
    if kws:
        if meta:
            head_args.append("mk=1")
        if bases != "none":
            head_args.append("tag='T'")
    L = [f"@deco({i})" for i in range(ndeco)]
    if ndeco == 2:
        L[1] = "@deco_new(1)"          # the inner decorator replaces the class, the outer one marks the replacement
    L.append("class K" + (f"({', '.join(head_args)})" if head_args else "") + ":")
    body = []
    for m in members:
        body += MEMBERS[m]
    if not body:
        body = ["pass"]
    L += ["    " + l for l in body]
    return L


OBS = """
def show(c):
    d = {}
    for k, v in vars(c).items():
        if k.startswith('__') and k not in ('__init__', '__call__', '__repr__', '__init_subclass__'):
            continue
        if isinstance(v, (int, str, list, tuple, dict)): d[k] = repr(v)
        elif isinstance(v, staticmethod): d[k] = 'staticmethod'
        elif isinstance(v, classmethod): d[k] = 'classmethod'
        elif isinstance(v, property): d[k] = 'property:%s' % (v.fset is not None)
        elif isinstance(v, type): d[k] = 'class:' + repr(sorted(x for x in vars(v) if not x.startswith('__')))
        elif callable(v): d[k] = 'function'
        else: d[k] = type(v).__name__
    return sorted(d.items())
def probe(c):
    out = [('vars', show(c)), ('mro', [x.__name__ for x in c.__mro__]), ('type', type(c).__name__), ('name', c.__name__)]
    for attr in ('tag', 'meta_kw', 'decorated', 'decorated_new', 'extra', 'hooked'):
        if hasattr(c, attr): out.append((attr, repr(getattr(c, attr))))
    try:
        o = c()
    except Exception as e:
        out.append(('construct', type(e).__name__)); return out
    for call in ('o.m(1)', 'o.m(1, b=5)', 'c.s(4)', 'o.s(4)', 'c.c(3)', 'o.c(3)', 'o.p', 'o.who()', 'o.v', 'o(1)', 'repr(o)', 'o.md()', 'o.lam()', 'o.lam2()', 'o.me()', 'o.nf()', 'o.lc()', 'o.lc2()', "c.by_len(['bb', 'a'])", 'c.grow(1)', 'o.tot', 'o.pick([3, 4])', 'o.dc()', 'o.bd()', 'o.gl()', 'o.gd()', 'c.Inner2.bi', 'c.Inner().im()', 'c.Inner.z', 'c[int].__class__.__name__', "c['k']", 'o.made'):
        try:
            out.append((call, repr(eval(call, {'o': o, 'c': c}))))
        except AttributeError:
            pass
        except Exception as e:
            out.append((call, 'raises ' + type(e).__name__))
    class Sub(c, extra=3) if hasattr(c, 'extra') or 'init-subclass' in MEMBERS_USED else c:
        pass
    return out
"""


def program(bases, meta, kws, ndeco, members, placement):
    cls = class_source(bases, meta, kws, ndeco, members)
    sub = []
    if any(m.startswith("init-subclass") for m in members):
        sub = ["class Sub(K, extra=3):", "    pass", "L(('sub-extra', Sub.extra, getattr(Sub, 'tag', None), getattr(Sub, 'hooked', None)))"]
    elif bases != "none":
        sub = ["class Sub(K, tag='S'):", "    pass", "L(('sub-tag', Sub.tag, [x.__name__ for x in Sub.__mro__]))"]
    if placement == "module":
        body = cls + ["L(probe(K))"] + sub
        return PRE + "\n".join(body) + "\n"
    if placement in ("redefined", "redefined-in-function"):
        # the same name bound by an earlier class statement with another body in the same scope
        old = ["class K:", "    old_attr = 'old'", "    x = 'old-x'", "    def old_m(self):", "        return self.old_attr", "    def m(self, a):", "        return 'old-m'", "Old = K"]
        if placement == "redefined":
            body = old + cls + ["L(probe(Old))", "L(probe(K))"] + sub
            return PRE + "\n".join(body) + "\n"
        body = ["def make(encl2='encl2P'):", "    encl = 'enclF'"] + ["    " + l for l in old + cls] + ["    return Old, K", "Old, K = make()", "L(probe(Old))", "L(probe(K))"] + sub
        return PRE + "\n".join(body) + "\n"
    if placement == "function":
        body = ["def make(encl2='encl2P'):", "    encl = 'enclF'"] + ["    " + l for l in cls] + ["    return K", "K = make()", "L(probe(K))"] + sub
        return PRE + "\n".join(body) + "\n"
    if placement == "class":
        body = ["class Outer:"] + ["    " + l for l in cls] + ["K = Outer.K", "L(probe(K))"] + sub
        return PRE + "\n".join(body) + "\n"


def run(code, mode):
    log = []
    import re
    g = {'L': lambda a: log.append(re.sub(r'0x[0-9a-f]+', '0x', repr(a))), 'MEMBERS_USED': ()}
    exec(OBS.replace("    class Sub(c, extra=3) if hasattr(c, 'extra') or 'init-subclass' in MEMBERS_USED else c:\n        pass\n", ""), g)
    try:
        with StepLimit():
            if mode == 'exec':
                exec(compile(code, '<s>', 'exec'), g)
            else:
                eval(compile(code, '<o>', 'eval'), g)
    except BaseException as e:
        log.append('EXC ' + type(e).__name__ + ' ' + str(e)[:80])
    return log


def observe(item):
    spec, cfg = item
    src = program(*spec)
    o = run(src, 'exec')
    if any(x.startswith('EXC') for x in o):
        return "skip", src, None, o
    try:
        conv = OL.convert_code_string(src, configs=gen_prog.mk_configs(OL, cfg))
    except BaseException as e:
        return f"fail:conversion raised {type(e).__name__}: {str(e)[:80]}", src, None, o
    c = run(conv, 'eval')
    if o != c:
        i = next((k for k in range(min(len(o), len(c))) if o[k] != c[k]), min(len(o), len(c)))
        return f"fail:observations differ: original {o[i:i+1]} converted {c[i:i+1]}", src, conv, o
    return "ok", src, conv, o


def main(argv):
    global OL
    ck = Check("C12", argv)
    ol = OL = fresh_oneliner()
    if ck.replay_file:
        return replay(ck, ol)
    b = ck.build(["OlVerif.Props.C12"])
    if not b["built"].get("OlVerif.Props.C12", False):
        ck.broken.append("lean: OlVerif.Props.C12 does not build: " + b["log"][-1200:])
    else:
        ck.audit("OlVerif/Audit/C12.lean")
    kfs = {k["kf"]: k for k in load_known_findings("C12") if k.get("status") == "open"}
    member_sets = [[m] for m in MEMBERS] + [["attrs", "method", "static", "classmethod", "property"], ["init", "method", "super0"],
                   ["nested-class", "body-if", "body-for"], ["init-subclass", "method"], ["super2", "init"], ["dunder-call", "attrs", "class-var-in-method-default"],
                   ["super0-enclosing", "dunder-class-enclosing", "method"], ["body-reads-enclosing", "attrs"], ["nested-lambda-members", "attrs"], ["nested-fn-class-cell", "lambda-class-cell", "method"], ["member-beside-lambda-global", "lambda-member", "attrs"]]
    for _ in range(10 if ck.tier == "quick" else 200):
        member_sets.append(ck.rng.sample(list(MEMBERS), ck.rng.randrange(2, 6)))
    specs = []
    for bases in BASES:
        for meta in (False, True):
            for kws in (False, True):
                for ndeco in (0, 1, 2):
                    for placement in ("module", "function", "class", "redefined", "redefined-in-function"):
                        for members in member_sets:
                            if ("super0" in members or "super2" in members or "super0-enclosing" in members) and bases == "none":
                                continue
                            if sum(m in members for m in ("super0", "super2", "super0-enclosing")) > 1:
                                continue
                            specs.append((bases, meta, kws, ndeco, tuple(members), placement))
    if ck.tier == "quick":
        # a stratified sample: every member set and every placement at least a few times, the rest at random
        must = []
        seen = {}
        for sp in ck.rng.sample(specs, len(specs)):
            key = (sp[4], sp[5])
            if seen.get(key, 0) < 2:
                seen[key] = seen.get(key, 0) + 1
                must.append(sp)
        rest = [sp for sp in specs if sp not in set(must)]
        specs = must + ck.rng.sample(rest, max(0, min(len(rest), 1200 - len(must))))
    items = [(s, gen_prog.CONFIGS[(i * 3 + 1) % 8]) for i, s in enumerate(specs)]
    results = par.pmap(observe, items)
    failing = []
    pairs = []
    for (spec, cfg), (v, src, conv, o) in zip(items, results):
        ck.case(f"{cfg}|{src}", nontrivial=v != "skip")
        ck.count("verdict:" + v.split(":")[0])
        if v == "skip":
            continue
        ck.count("bases:" + spec[0]); ck.count("placement:" + spec[5]); ck.count("decorators:%d" % spec[3])
        for m in spec[4]:
            ck.count("member:" + m)
        if v.startswith("fail"):
            failing.append((spec, cfg, v, src, conv))
        if len(pairs) < 400 and (len(src) % 3 == 0):
            pairs.append((src, (cfg[1], cfg[2])))
        if len(ck.samples) < 3 and v == "ok" and spec[0] == "diamond" and spec[1] and len(spec[4]) >= 3:
            ck.sample({"spec": list(spec), "observations": o[:2]})
    # known finding: __set_name__ of members is not called
    for k in kfs.values():
        w = k.get("witness", {}).get("source")
        if w:
            so, sc = io.StringIO(), io.StringIO()
            with contextlib.redirect_stdout(so):
                o = run(w, 'exec')
            try:
                conv_w = ol.convert_code_string(w)
                with contextlib.redirect_stdout(sc):
                    c = run(conv_w, 'eval')
            except Exception as e:
                c = ["conversion raised " + type(e).__name__]
            if (o, so.getvalue()) != (c, sc.getvalue()):
                ck.known(k["kf"], k["what"])
    k_bad = []
    if b["driver_ok"]:
        for src, cfg, ok, detail in lower_common.compare(ol, pairs):
            if ok:
                ck.count("K_agree")
            else:
                k_bad.append((src, cfg, detail))
    if k_bad:
        ck.broken.append(f"correspondence K(lowerFull = convert): {len(k_bad)} class programs differ, first: {k_bad[0][2][:300]}")
    failing.sort(key=lambda f: len(f[3]))
    for spec, cfg, v, src, conv in failing[:3]:
        ck.violation({"kind": "class", "spec": list(spec), "source": src, "config": list(cfg), "observed": v, "converted": conv,
                      "expected": "same filtered vars(cls), MRO, metaclass, decorator effects and member call results", "broken_obligations": ck.broken})
    if ck.broken and not failing:
        ck.violation({"kind": "obligation", "broken_obligations": ck.broken, "searched": f"{len(items)} class skeletons on the real converter"}, no_input=True)
    return ck.finish(
        rule="class skeletons from {no base, one base, diamond} x {no / explicit metaclass} x {no / class keywords} x {0, 1, 2 decorators} x {module, function, class} "
             "placement x member sets (each of 16 member kinds alone - attributes incl. rebinding, method, staticmethod, classmethod, property with setter, nested class, "
             "__init__, if and for+break in the body, zero- and two-argument super(), __init_subclass__, __call__/__repr__, class variable as method default, lambda member, "
             "comprehension member - curated combinations and random combinations); quick: 900 sampled skeletons; observed: filtered vars(cls), MRO names, type(cls), "
             "decorator / metaclass / __init_subclass__ effects, results of calling each member on the class, an instance and a subclass; distinct by (config, source)",
        extra={"R_failures": len(failing), "K_disagreements": len(k_bad), "skeletons": len(specs)},
        assumptions=["what type.__new__, __prepare__, __set_name__ and super()'s frame inspection do at run time is CPython behaviour; it is observed, not modelled"])


def replay(ck, ol):
    global OL
    OL = ol
    r = json.load(open(ck.replay_file))
    if "source" not in r:
        print("replay file names a broken obligation, no input:", r.get("broken_obligations")); return 0
    o = run(r["source"], 'exec')
    c = run(ol.convert_code_string(r["source"], configs=gen_prog.mk_configs(ol, tuple(r["config"]))), 'eval')
    print("original:", o); print("converted:", c)
    return 0 if o == c else 1


if __name__ == "__main__":
    sys.exit(main(sys.argv[1:]))
