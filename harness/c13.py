"""C13 -- assignment, destructuring and augmented assignment store what Python stores."""
import itertools, json, sys
from common import Check, fresh_oneliner, StepLimit
import gen_prog, lower_common, par

OL = None
OPS = ['+', '-', '*', '/', '//', '%', '**', '<<', '>>', '&', '|', '^', '@']
DUNDERS = ['add', 'sub', 'mul', 'truediv', 'floordiv', 'mod', 'pow', 'lshift', 'rshift', 'and', 'or', 'xor', 'matmul']

PRE = """
class I:
    def __init__(s,n): s.n=n
    def __repr__(s): return 'I%r'%s.n
""" + "".join(f"    def __i{n}__(s,o): s.n=('{n}',s.n,o); return s\n" for n in DUNDERS) + """
class N:
    def __init__(s,n): s.n=n
    def __repr__(s): return 'N%r'%(s.n,)
""" + "".join(f"    def __{n}__(s,o): return N(('{n}',s.n,o))\n" for n in DUNDERS) + """
class J:
    def __init__(s,n): s.n=n
    def __repr__(s): return 'J%r'%(s.n,)
""" + "".join(f"    def __i{n}__(s,o): return J(('{n}',s.n,o))\n" for n in DUNDERS) + """
class NI:
    'in-place methods that decline: Python falls back to the binary operator'
    def __init__(s,n): s.n=n
    def __repr__(s): return 'NI%r'%(s.n,)
""" + "".join(f"    def __i{n}__(s,o): return NotImplemented\n    def __{n}__(s,o): return NI(('{n}',s.n,o))\n" for n in DUNDERS) + """
class PX:
    'a proxy: every attribute exists on the instance (hasattr is always true), operators are looked up on the type'
    def __init__(s,n): s.n=n
    def __repr__(s): return 'PX%r'%(s.n,)
    def __getattr__(s,a): return lambda *x: 'proxied-' + a
""" + "".join(f"    def __{n}__(s,o): return PX(('{n}',s.n,o))\n" for n in DUNDERS) + """
class OB:
    'no operators at all'
    def __repr__(s): return 'OB'
class RR:
    'only reflected operators'
    def __init__(s,n): s.n=n
    def __repr__(s): return 'RR%r'%(s.n,)
""" + "".join(f"    def __r{n}__(s,o): return RR(('r{n}',s.n,o))\n" for n in DUNDERS) + """
class IA:
    'an in-place method stored on the instance is not used by the statement'
    def __init__(s,n):
        s.n=n
""" + "".join(f"        s.__i{n}__ = lambda o: 'instance-attribute'\n" for n in DUNDERS) + """    def __repr__(s): return 'IA%r'%(s.n,)
""" + "".join(f"    def __{n}__(s,o): return IA(('{n}',s.n,o))\n" for n in DUNDERS) + """
class M:
    'a container indexed by anything: records every key it is read / written with'
    def __init__(s): s.d = {}; s.log = []
    def __getitem__(s, k): s.log.append(('get', repr(k))); return s.d[repr(k)]
    def __setitem__(s, k, v): s.log.append(('set', repr(k))); s.d[repr(k)] = v
"""

OPERANDS = {'int': ('7', '2'), 'float': ('7.5', '2.0'), 'str': ("'ab'", "'c'"), 'list': ('[1,2]', '[3]'), 'tuple': ('(1,2)', '(3,)'),
            'set': ('{1,2}', '{2,3}'), 'dict': ("{'a':1}", "{'b':2}"), 'inplace': ("I(1)", "2"), 'noinplace': ("N(1)", "2"), 'inplace-new': ("J(1)", "2"),
            'inplace-declines': ("NI(1)", "2"), 'proxy-getattr': ("PX(1)", "2"), 'reflected-only': ("OB()", "RR(2)"), 'instance-attr-inplace': ("IA(1)", "2")}
TARGETS = {'name': ("x = {a}\nal = x\n", "x {op}= {b}\n", "L(x, al, x is al)\n"),
           'attr': ("class O: pass\no=O()\no.f = {a}\nal = o.f\n", "o.f {op}= {b}\n", "L(o.f, al, o.f is al)\n"),
           'sub': ("d=[{a}]\nal = d[0]\n", "d[0] {op}= {b}\n", "L(d[0], al, d[0] is al)\n"),
           'slice': ("d=[{a},{a}]\nal = d[0]\n", "d[0:1] {op}= [{b}]\n", "L(d, al)\n"),
           'slice-open': ("d=[{a},{a},{a}]\nal = d[1]\n", "d[1:] {op}= [{b}]\n", "L(d, al)\n"),
           'slice-tuple': ("m=M()\nm[1:2, 3] = {a}\nal = m[1:2, 3]\n", "m[1:2, 3] {op}= {b}\n", "L(m.d, m.log, al)\n"),
           'slices-tuple': ("m=M()\nm[::2, ..., :1] = {a}\nal = m[::2, ..., :1]\n", "m[::2, ..., :1] {op}= {b}\n", "L(m.d, m.log, al)\n"),
           'index-tuple': ("m=M()\nm[1, 2] = {a}\nal = m[1, 2]\n", "m[1, 2] {op}= {b}\n", "L(m.d, m.log, al)\n")}


def values(kind, m):
    if kind == 'list': return '[' + ','.join(str(i) for i in range(m)) + ']'
    if kind == 'tuple': return '(' + ','.join(str(i) for i in range(m)) + (',)' if m else ')')
    if kind == 'str': return repr('abcdefgh'[:m])
    if kind == 'range': return f'range({m})'
    if kind == 'gen': return f'(i*2 for i in range({m}))'
    if kind == 'dictview': return '{' + ','.join(f'{i}:{i}' for i in range(m)) + '}.keys()'
    if kind == 'iter': return f'iter({list(range(m))})'


def destructuring_cases(ck):
    kinds = ['list', 'tuple', 'str', 'range', 'gen', 'dictview', 'iter']
    for n in (1, 2, 3, 4):
        for star in [None] + list(range(n)):
            names = [f'v{i}' for i in range(n)]
            pat = ', '.join(('*' if star == i else '') + names[i] for i in range(n)) + (',' if n == 1 else '')
            mn = n if star is None else n - 1
            for m in range(mn, mn + 4):
                if star is None and m != n:
                    continue
                for kind in kinds:
                    for form in ('tuple', 'list'):
                        lhs = pat if form == 'tuple' else '[' + pat.rstrip(',') + ']'
                        yield f"flat:{n}:{star}:{m}:{kind}:{form}", f"{lhs} = {values(kind, m)}\nL({', '.join(names)})\n"
    # nested patterns up to depth 3, star at every position of each level
    leaf = itertools.count()
    def pats(depth):
        if depth == 0:
            return [(lambda nm: (nm, 1, "0"))(f"n{next(leaf)}")]
        out = []
        for n in (1, 2):
            for star in [None] + list(range(n)):
                subs = [ck.rng.choice(pats(depth - 1)) if ck.rng.random() < 0.6 else (f"n{next(leaf)}", 1, "0") for _ in range(n)]
                names = []
                vals = []
                for i, (p, cnt, v) in enumerate(subs):
                    if star == i:
                        if "," in p:      # a starred sub-pattern
                            names.append("*[" + p.strip("()") + "]")
                            inner = v.strip("()[]").rstrip(",")
                            vals.append(inner)
                        else:
                            names.append("*" + p)
                            vals.append("7, 8")
                    else:
                        names.append(p)
                        vals.append(v)
                out.append(("(" + ", ".join(names) + ("," if n == 1 else "") + ")", n, "[" + ", ".join(x for x in vals if x != "") + "]"))
        return out
    for d in (2, 3):
        for i, (p, n, v) in enumerate(pats(d)):
            yield f"nested:{d}:{i}", f"{p} = {v}\nL(sorted((k, v) for k, v in globals().items() if k[0] == 'n' and k[1:].isdigit()))\n"
    # nested patterns whose ELEMENTS are iterables of every kind (an element that cannot be indexed must still be unpacked)
    for kind in kinds:
        for star in (False, True):
            inner = "a, *b" if star else "a, b"
            yield f"nested-element:{kind}:{star}", f"({inner}), c = {values(kind, 2)}, 3\nL(a, b, c)\n"
            yield f"nested-element-list:{kind}:{star}", f"[c, [{inner}]] = [3, {values(kind, 2)}]\nL(a, b, c)\n"
            yield f"nested-element-deep:{kind}:{star}", f"x, (y, ({inner})) = 0, (1, {values(kind, 2)})\nL(a, b, x, y)\n"
            yield f"nested-element-for:{kind}:{star}", f"for ({inner}), c in [({values(kind, 2)}, 3)]:\n    L(a, b, c)\n"
    yield "nested-element-map", "(a, b), (c, *d) = map(str, [1, 2]), {5: 6, 7: 8}\nL(a, b, c, d)\n"
    yield "nested-element-dict-int-keys", "(a, b), c = {1: 'x', 0: 'y'}, 3\nL(a, b, c)\n"
    # targets of every kind inside patterns, chained, attribute / subscript / slice with missing bounds
    yield "mixed-targets", "class O: pass\no = O()\nd = [0, 0, 0, 0]\no.a, d[1], (d[2], *r), d[3:] = 1, 2, (3, 4, 5), [6, 7]\nL(o.a, d, r)\n"
    for lo, hi, st in itertools.product(['', '1', '-2'], ['', '3', '-1'], ['', ':', ':2', ':-1']):
        rhs = "[9]" if st in ('', ':') else "d[%s:%s%s]" % (lo, hi, st)
        yield f"slice:{lo}:{hi}:{st}", f"d = list(range(6))\nd[{lo}:{hi}{st}] = {rhs}\nL(d)\n"
    # every index shape a subscript target can have (plain assignment, deletion is unsupported)
    for k, idx in enumerate(["1:2, 3", "::2, ..., :1", "1, 2", "(1, 2)", "...", "1:2,", ":, :", "-1", "1:2:3, 4:5:6", "None", "'k'"]):
        yield f"index-shape:{k}", f"m = M()\nm[{idx}] = 5\nx = m[{idx}]\nL(m.d, m.log, x)\n"
    yield "chained-mixed", "class O: pass\no = O()\nd = {}\na = o.b = d['k'] = (c, *e) = [1, 2, 3]\nL(a, o.b, d, c, e, a is o.b)\n"


def aug_cases(ck):
    for place in ('global', 'local', 'nonlocal', 'class'):
        for tn, (pre, st, post) in TARGETS.items():
            for op in OPS:
                for on, (a, b) in OPERANDS.items():
                    body = (pre + st + post).format(a=a, b=b, op=op)
                    if place == 'global':
                        src = PRE + body
                    elif place == 'local':
                        src = PRE + "def f():\n" + "".join('    ' + l + '\n' for l in body.splitlines()) + "f()\n"
                    elif place == 'nonlocal':
                        if tn != 'name':
                            continue
                        src = PRE + "def f():\n" + "".join('    ' + l + '\n' for l in pre.format(a=a).splitlines()) + \
                            "    def g():\n        nonlocal x\n        " + st.format(b=b, op=op) + "    g()\n" + \
                            "".join('    ' + l + '\n' for l in post.splitlines()) + "f()\n"
                    else:
                        src = PRE + "class K:\n" + "".join('    ' + l + '\n' for l in (pre + st).format(a=a, b=b, op=op).splitlines()) + \
                            "    " + post.replace('L(', 'r = (') + "L(K.r)\n"
                    yield f"aug:{place}:{tn}:{op}:{on}", src


def run(code, mode):
    log = []
    g = {'L': lambda *a: log.append(repr(a))}
    try:
        with StepLimit():
            if mode == 'exec':
                exec(compile(code, '<s>', 'exec'), g)
            else:
                eval(compile(code, '<o>', 'eval'), g)
    except BaseException as e:
        log.append('EXC ' + type(e).__name__)
    return log


def observe(item):
    name, src, cfg = item
    o = run(src, 'exec')
    if any(x.startswith('EXC') for x in o):
        return name, "skip", None, None
    try:
        text = OL.convert_code_string(src, configs=gen_prog.mk_configs(OL, cfg))
    except BaseException as e:
        return name, f"fail:conversion raised {type(e).__name__}: {e}", o, None
    c = run(text, 'eval')
    if o != c:
        return name, f"fail:stored values differ: original {o} converted {c}", o, text
    return name, "ok", o, text


def known_shape(name, verdict):
    # KF-D35: an in-place method that returns NotImplemented has no fallback to the binary operator
    return None


def main(argv):
    global OL
    ck = Check("C13", argv)
    ol = OL = fresh_oneliner()
    if ck.replay_file:
        return replay(ck, ol)
    b = ck.build(["OlVerif.Props.C13"])
    if not b["extract_ok"]:
        ck.broken.append("translator: cannot read _op_dict: " + b["log"][-300:])
    if not b["built"].get("OlVerif.Props.C13", False):
        ck.broken.append("lean: OlVerif.Props.C13 does not build (the regenerated in-place method table differs from the reference, or the model changed): " + b["log"][-1200:])
    else:
        ck.audit("OlVerif/Audit/C13.lean")
    cases = list(destructuring_cases(ck))
    aug = list(aug_cases(ck))
    if ck.tier == "quick":
        aug = [a for i, a in enumerate(aug) if (i + ck.seed) % 3 == 0]
    items = []
    for i, (name, src) in enumerate(cases + aug):
        cfgs = gen_prog.CONFIGS if ck.tier == "thorough" else [gen_prog.CONFIGS[(i * 5 + 1) % 8]]
        for cfg in cfgs:
            items.append((name, src, cfg))
    results = par.pmap(observe, items)
    failing = []
    for (name, src, cfg), (_, verdict, o, text) in zip(items, results):
        ck.case(f"{cfg}|{src}", nontrivial=verdict != "skip")
        ck.count("family:" + name.split(":")[0])
        ck.count("verdict:" + verdict.split(":")[0])
        if verdict.startswith("fail"):
            failing.append((name, src, cfg, verdict, text))
        if len(ck.samples) < 5 and verdict == "ok" and name.startswith(("flat:3:1:4", "nested:3", "aug:class:slice")):
            ck.sample({"case": name, "source": src[-200:], "stored": o})
    k_bad = []
    if b["driver_ok"]:
        pairs = [(src, (gen_prog.CONFIGS[i % 8][1], gen_prog.CONFIGS[i % 8][2])) for i, (name, src) in enumerate(cases + aug[::4])]
        for src, cfg, ok, detail in lower_common.compare(ol, pairs):
            if ok:
                ck.count("K_agree")
            else:
                k_bad.append((src, cfg, detail))
    if k_bad:
        ck.broken.append(f"correspondence K(lowerFull = convert): {len(k_bad)} assignment programs differ, first: {k_bad[0][2][:300]} on {k_bad[0][0][-300:]!r}")
    failing.sort(key=lambda f: len(f[1]))
    for name, src, cfg, verdict, text in failing[:3]:
        ck.violation({"kind": "store", "case": name, "source": src, "config": list(cfg), "observed": verdict, "converted": text,
                      "expected": "same repr of every target and alias as the original", "broken_obligations": ck.broken})
    if ck.broken and not failing:
        ck.violation({"kind": "obligation", "broken_obligations": ck.broken, "searched": f"{len(items)} assignment programs on the real converter: all store the same values",
                      "k_disagreements": [{"source": s[-600:], "config": list(c), "detail": d[:400]} for s, c, d in k_bad[:10]]}, no_input=True)
    return ck.finish(
        rule="destructuring: 1-4 targets, star at every position, tuple and list brackets, source lengths min..min+3, 7 source kinds (list, tuple, str, range, "
             "generator, dict view, one-shot iterator), random nested patterns of depth 2-3 with starred sub-patterns, attribute/subscript/slice targets with every "
             "combination of missing bounds, chained mixed targets; augmented: 13 operators x {name, attribute, subscript, slice, open slice} x 10 operand types "
             "(incl. classes with in-place methods returning self / a new object / NotImplemented / none, proxies whose every attribute exists, reflected-only operands, in-place methods stored on the instance) x {global, local, nonlocal, class} (quick: one third, rotating with the seed); "
             "cases whose original raises are skipped; distinct by (config, source)",
        extra={"R_failures": len(failing), "K_disagreements": len(k_bad)},
        assumptions=["the functions of the standard operator module (iadd, ...) perform the statement's protocol (type-level lookup, NotImplemented, fallback, reflected form): checked by the operand classes that decline, proxy attributes, define only reflected operators or carry instance attributes"])


def replay(ck, ol):
    global OL
    OL = ol
    r = json.load(open(ck.replay_file))
    if "source" not in r:
        print("replay file names a broken obligation, no input:", r.get("broken_obligations")); return 0
    res = observe((r["case"], r["source"], tuple(r["config"])))
    print(r["source"]); print(res[1])
    return 1 if res[1].startswith("fail") else 0


if __name__ == "__main__":
    sys.exit(main(sys.argv[1:]))
