"""fork-based parallel map (the checks may use all cores)."""
import multiprocessing as mp, os

_FUNC = None


def _call(x):
    return _FUNC(x)


def pmap(func, items, procs=None, chunksize=None):
    global _FUNC
    items = list(items)
    if len(items) < 8:
        return [func(x) for x in items]
    procs = procs or min(16, os.cpu_count() or 4)
    _FUNC = func
    ctx = mp.get_context("fork")
    with ctx.Pool(procs) as pool:
        return pool.map(_call, items, chunksize or max(1, len(items) // (procs * 4)))
