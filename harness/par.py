"""fork-based parallel map (the checks may use all cores)."""
import multiprocessing as mp, os

_FUNC = None


def _call(x):
    return _FUNC(x)


def pmap(func, items, procs=None, chunksize=None):
    global _FUNC
    items = list(items)
    if len(items) < 8:
        return [func(x) for x in items]
    procs = procs or min(16, os.cpu_count() or 4)
    _FUNC = func
    ctx = mp.get_context("fork")
    with ctx.Pool(procs) as pool:
        return pool.map(_call, items, chunksize or max(1, len(items) // (procs * 4)))


def pmap_isolated(func, items, procs=None):
    """every item in its own forked process (state changes of one item cannot reach another)"""
    global _FUNC
    items = list(items)
    procs = procs or min(16, os.cpu_count() or 4)
    _FUNC = func
    ctx = mp.get_context("fork")
    with ctx.Pool(procs, maxtasksperchild=1) as pool:
        return pool.map(_call, items, 1)
