"""K (model tokens = tokenize(real text)) and R (complete round trip on the real code) for the
custom unparser; shared by C03, C04, C02, C11."""
import ast, json
from astjson import expr_to_json
from gen_expr import strip_ctx, fix
import leandrv, pytok


def real_unparse(ol, e):
    eu = __import__("sys").modules["oneliner.expr_unparse"]
    return eu.expr_unparse(e)


def roundtrip_real(ol, e):
    """the property's observable on the implementation. returns (ok, text, detail)"""
    try:
        text = real_unparse(ol, e)
    except Exception as ex:  # noqa
        return False, None, f"unparser raised {type(ex).__name__}: {ex}"
    try:
        back = ast.parse(text, mode="eval").body
    except SyntaxError as ex:
        return False, text, f"text does not parse: {ex}"
    except Exception as ex:
        return False, text, f"parse raised {type(ex).__name__}: {ex}"
    a, b = strip_ctx(ast.dump(back)), strip_ctx(ast.dump(e))
    if a != b:
        return False, text, "tree differs after reparse"
    return True, text, ""


def model_tokens(trees):
    """Lean model token texts for a list of ast trees (None when the model rejects the input)."""
    reqs = [{"op": "unparse", "e": expr_to_json(e)} for e in trees]
    out = []
    for r in leandrv.run_batch(reqs):
        if "toks" in r:
            out.append([leandrv.cps(t) for t in r["toks"]])
        else:
            out.append(None)
    return out


def model_tokens_wf(trees):
    """(tokens, wf) per tree: `wf` is the hypothesis of C03.unparse_derives (the executable `wfEB`)"""
    reqs = [{"op": "unparse", "e": expr_to_json(e)} for e in trees]
    out = []
    for r in leandrv.run_batch(reqs):
        if "toks" in r:
            out.append(([leandrv.cps(t) for t in r["toks"]], r.get("wf")))
        else:
            out.append((None, None))
    return out


def tokens_of_text(text):
    try:
        return pytok.real_tokens(text)
    except Exception as ex:
        return ["<tokenize-error %s>" % type(ex).__name__]
