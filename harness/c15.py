"""C15 -- the generated expression runs identically on every Python 3.8+ runtime."""
import time, ast, glob, json, os, shutil, subprocess, sys, tempfile
from common import Check, fresh_oneliner, load_known_findings, REPO
import gen_prog, inject, par

HERE = os.path.dirname(os.path.abspath(__file__))
WANTED = ["3.8", "3.9", "3.10", "3.11", "3.12", "3.13"]


def interpreters():
    found = {}
    for v in WANTED:
        cands = sorted(glob.glob(os.path.expanduser(f"~/.pyenv/versions/{v}.*/bin/python"))) + [shutil.which(f"python{v}") or ""]
        for c in cands:
            if c and os.path.exists(c):
                found[v] = c
                break
    return found


FSTRING_PROGRAMS = [
    ("plain-fstring", "x = 5\nprint(f'{x}|{x!r:>4}|{x:{3}}')\n"),
    ("string-in-field", "d = {'k': 1}\nprint(f'{d[\"k\"]}')\n"),
    ("string-in-field-2", "print(f'{\"a\" + \"b\"}')\n"),
    ("nested-fstring", "x = 2\nprint(f'{f\"{x}\"}')\n"),
    ("nested-3", "x = 2\nprint(f\"{f'{str(x) + chr(97)}'}\")\n"),
    ("join-in-field", "l = ['a', 'b']\nprint(f'{\",\".join(l)}')\n"),
    ("bytes-in-field", "print(f'{b\"x\"}')\n"),
    ("escape-in-field", "l = ['a', 'b']\nnl = chr(10)\nprint(f'{nl.join(l)}')\n"),
    ("escape-in-field-literal", "l = ['a', 'b']\nprint(f'{chr(10).join(l)}' + '\\n'.join(l))\n"),
    ("backslash-literal-part", "x = 1\nprint(f'a\\tb{x}\\n')\n"),
    ("quote-literal-part", "x = 1\nprint(f'it\\'s \"{x}\"')\n"),
    ("walrus-subscript", "l = [1, 2, 3]\nprint(l[(i := 1)], i)\n"),
    ("star-subscript-tuple", "d = {}\nt = (1, 2)\nd[(*t, 3)] = 1\nprint(d)\n"),
    ("class-body-comprehension-global", "SCALE = 3\nclass K:\n    rows = [SCALE * r for r in range(2)]\n    s = {SCALE for _ in range(1)}\n    d = {r: len(str(SCALE)) for r in range(2)}\nprint(K.rows, K.s, K.d)\n"),
    ("function-comprehension-closure", "def f(n):\n    def g():\n        return n\n    return [n + i for i in range(2)], g()\nprint(f(2))\n"),
    ("posonly", "def f(a, /, b, *, c=1):\n    return a + b + c\nprint(f(1, 2))\n"),
    ("dict-merge-free", "a = {1: 2}\nb = {**a, 3: 4}\nprint(b)\n"),
    ("unpack-in-return", "def f():\n    t = (1, 2)\n    return (*t, 3)\nprint(f())\n"),
    # class hooks that type.__new__ wraps implicitly: plain, explicitly decorated either way (descriptor chaining differs between 3.8 .. 3.13)
    ("hook-plain", "class A:\n    def __class_getitem__(cls, k):\n        return (cls.__name__, k)\n    def __init_subclass__(cls, **kw):\n        cls.tag = 'sub'\nclass B(A):\n    pass\nprint(A[1], B[2], B.tag)\n"),
    ("hook-classmethod", "class A:\n    @classmethod\n    def __class_getitem__(cls, k):\n        return (cls.__name__, k)\n    @classmethod\n    def __init_subclass__(cls, **kw):\n        cls.tag = 'sub'\nclass B(A):\n    pass\nprint(A[1], B[2], B.tag)\n"),
    ("hook-staticmethod", "class A:\n    @staticmethod\n    def __class_getitem__(k):\n        return ('static', k)\nprint(A[1])\n"),
    ("hook-decorated", "def d(f):\n    def w(cls, *a, **k):\n        return ('w', f(cls, *a, **k))\n    return w\nclass A:\n    @d\n    def __class_getitem__(cls, k):\n        return (cls.__name__, k)\nprint(A[1])\n"),
    ("walrus-index", "a = [1, 2, 3]\ni = 0\nprint(a[(i := i + 1)], a[(j := 2)], i, j)\n"),
    ("posonly-lambda", "f = lambda a, b=1, /, c=2, *, d=3: (a, b, c, d)\nprint(f(0), f(0, 5, d=9))\n"),
    ("dict-union-free", "d = {**{'a': 1}, 'b': 2}\nprint(sorted(d.items()))\n"),
    ("starred-index", "t = (1, 2)\nd = {(1, 2): 'x'}\nprint(d[t[0], t[1]])\n"),
    ("return-starred", "def f(a):\n    return (1, *a)\nprint(f([2, 3]))\n"),
    ("decorated-class", "def deco(c):\n    c.tag = 1\n    return c\ndef deco2(n):\n    return lambda c: c\n@deco\n@deco2(2)\nclass K:\n    pass\nprint(K.tag)\n"),
    ("decorated-function-and-method", "def d(f):\n    return f\n@d\ndef g(a, *, k=1):\n    return a + k\nclass K:\n    @staticmethod\n    @d\n    def s(x):\n        return x\nprint(g(1), K.s(2))\n"),
    ("super-in-loop", "class B:\n    def m(self):\n        return 1\nclass C(B):\n    def m(self):\n        t = 0\n        for i in range(2):\n            t += super().m()\n        while t < 5:\n            t += super().m()\n        return t\nprint(C().m())\n"),
    ("super-outside-loop", "class B:\n    def m(self):\n        return 1\nclass C(B):\n    def m(self):\n        s = super()\n        t = 0\n        for i in range(2):\n            t += s.m() + super(C, self).m()\n        return t\nprint(C().m())\n"),
    ("walrus-in-displays", "print({(a := 5), 1} == {1, 5}, [(b := 2), b], ((c := 3), c), {(d := 4): d}, a)\n"),
    ("walrus-in-call-and-subscript", "l = [1, 2, 3]\nprint(l[(i := 1)], max((j := 2), 1), i, j, f'{(k := 7)}', k)\n"),
    ("starred-index-load", "t = (1, 2)\nd = {(1, 2, 3): 'x', (0, 1, 2): 'y'}\nprint(d[(*t, 3)], d[(0, *t)])\n"),
    # loop-else with break / return: placeholders and flags the lowering builds itself (host-dependent names from `from ast import *`)
    ("loop-else-break", "n = 0\nwhile n < 3:\n    n += 1\n    if n == 2:\n        break\nelse:\n    print('no break')\nprint(n)\ndef f():\n    i = 0\n    while i < 3:\n        i += 1\n        if i == 2:\n            return i\n    else:\n        return -1\nprint(f())\nfor k in [1, 2]:\n    if k == 2:\n        break\nelse:\n    print('for no break')\nprint(k)\nm = 0\nwhile m < 2:\n    m += 1\nelse:\n    print('else ran', m)\n"),
    # comprehensions in class bodies: their own table exists only on hosts <= 3.11 (inlined since 3.12)
    ("class-comprehension-reads-global", "x = 'm'\nclass K:\n    y = [x + str(i) for i in range(2)]\n    z = {i: x for i in range(1)}\nprint(K.y, K.z)\n"),
    # one kind of comprehension per class, each reading a global (and a builtin) the class body mentions nowhere else
    ("class-each-comprehension-kind", "g1 = 'a'\ng2 = 'b'\ng3 = 'c'\ng4 = 'd'\nclass L:\n    v = [g1 for _ in range(1)]\nclass S:\n    v = sorted({g2 + str(i) for i in range(2)})\n"
     "class D:\n    v = {i: g3 for i in range(1)}\nclass G:\n    v = list(g4 for _ in range(1))\nclass N:\n    v = [sorted({len(g1) + j for j in range(i)}) for i in range(2)]\nprint(L.v, S.v, D.v, G.v, N.v)\n"),
    ("class-comprehension-beside-member", "x = 'm'\nclass K:\n    x = 'k'\n    c = [x for _ in [0]]\n    d = [a for a in x]\nprint(K.c, K.d)\n"),
    ("starred-index-load-in-function", "def f(d, t):\n    return d[(*t, 3)]\nprint(f({(1, 2, 3): 'x'}, (1, 2)))\n"),
]


def _literal_in_field(tree, kinds, nested_too):
    for n in ast.walk(tree):
        if isinstance(n, ast.FormattedValue):
            inner = [m for m in ast.walk(n.value) if isinstance(m, ast.Constant) and isinstance(m.value, kinds)]
            nested = [m for m in ast.walk(n.value) if isinstance(m, ast.JoinedStr)]
            if inner or (nested and nested_too):
                return True
    return False


def known_shape(name, src, key, rt, host, text=None):
    """KF-D47: text produced on a >= 3.12 host (by the `oneliner` unparser, and by the stdlib unparser of that host for
    bytes literals) relies on 3.12 f-string syntax: a string / bytes literal or a nested f-string inside a replacement
    field - in the source, or put there by the conversion (a captured variable read as `__ol_nonlocal_x['v']`)"""
    if rt in ("3.8", "3.9", "3.10", "3.11") and (host in ("3.12", "3.13") or key.startswith("oneliner|")):
        new_host = host in ("3.12", "3.13")
        kinds = (str, bytes) if new_host else (bytes,)
        for code, mode in ((src, "exec"), (text, "eval")):
            if code is None:
                continue
            try:
                tree = ast.parse(code, mode=mode)
            except (SyntaxError, ValueError, RecursionError):
                continue
            if _literal_in_field(tree, kinds, new_host):
                return "KF-D47"
    # KF-D65: zero-argument super() inside a loop body of a method (a comprehension frame on runtimes <= 3.11)
    if rt in ("3.8", "3.9", "3.10", "3.11"):
        try:
            tree = ast.parse(src)
        except (SyntaxError, ValueError, RecursionError):
            tree = None
        if tree is not None:
            for loop in ast.walk(tree):
                if isinstance(loop, (ast.For, ast.While)):
                    for n in ast.walk(loop):
                        if isinstance(n, ast.Call) and isinstance(n.func, ast.Name) and n.func.id == "super" and not n.args and not n.keywords:
                            return "KF-D65"
    # KF-D72: on a 3.12+ host a list / set / dict comprehension of a class body has no symbol table of its own
    if host in ("3.12", "3.13"):
        try:
            if inject.class_comp_reads_member(ast.parse(src)):
                return "KF-D72"
        except (SyntaxError, ValueError, RecursionError):
            pass
    # KF-D62: the stdlib unparser of a >= 3.11 host writes a tuple index without parentheses, also when it holds a
    # starred item (`d[*t, 3]`, PEP 646 syntax): a SyntaxError on 3.8 - 3.10
    if rt in ("3.8", "3.9", "3.10") and host in ("3.11", "3.12", "3.13") and key.startswith("ast.unparse|"):
        try:
            tree = ast.parse(src)
        except (SyntaxError, ValueError, RecursionError):
            return None
        for n in ast.walk(tree):
            if isinstance(n, ast.Subscript) and isinstance(n.ctx, ast.Load) and isinstance(n.slice, ast.Tuple) and any(isinstance(e, ast.Starred) for e in n.slice.elts):
                return "KF-D62"
    return None


def main(argv):
    ck = Check("C15", argv)
    ol = fresh_oneliner()
    if ck.replay_file:
        print("replay: re-run ./check C15 (needs the interpreter binaries)"); return 0
    b = ck.build(["OlVerif.Props.C15"])
    if not b["extract_ok"]:
        ck.broken.append("translator: " + b["log"][-300:])
    if not b["built"].get("OlVerif.Props.C15", False):
        ck.broken.append("lean: OlVerif.Props.C15 does not build: " + b["log"][-1200:])
    else:
        ck.audit("OlVerif/Audit/C15.lean")
    interp = interpreters()
    ck.stats["interpreters_found"] = sorted(interp)
    n = 20 if ck.tier == "quick" else 400
    progs = [("gen#%d" % i, gen_prog.gen_program(ck.rng, size=ck.rng.randrange(4, 10))[0]) for i in range(n)] + FSTRING_PROGRAMS
    # programs that are slow already as source (huge integers) would only measure the interpreters' bignum speed
    kept = []
    for name, src in progs:
        t0 = time.time()
        st, _, _ = gen_prog.run_source(src, "exec")
        if st == "ok" and time.time() - t0 < 1.0:
            kept.append((name, src))
        else:
            ck.count("skipped_slow_or_failing_source")
    progs = kept
    hosts = [v for v in ("3.10", "3.11", "3.12", "3.13") if v in interp]
    if ck.tier == "quick":
        hosts = [v for v in hosts if v in ("3.10", "3.12", "3.13")] or hosts
    kfs = {k["kf"]: k for k in load_known_findings("C15") if k.get("status") == "open"}
    failing = []
    kf_seen = {}
    d = tempfile.mkdtemp(prefix="olverif_c15_")
    try:
        json.dump([s for _, s in progs], open(os.path.join(d, "progs.json"), "w"))
        host_texts = {}
        for h in hosts:
            out = os.path.join(d, f"host{h}.json")
            r = subprocess.run([interp[h], os.path.join(HERE, "c15_host.py"), REPO, os.path.join(d, "progs.json"), out], capture_output=True, text=True, timeout=900)
            if r.returncode != 0:
                ck.notes.append(f"host {h}: conversion process failed: {r.stderr[-300:]}")
                ck.count("host_failed:" + h)
                continue
            host_texts[h] = json.load(open(out))["texts"]
        # a conversion that raises on one host but succeeds on another host
        for pi, (name, src) in enumerate(progs):
            keys = set()
            for h in host_texts:
                keys |= set(host_texts[h][pi])
            for key in sorted(keys):
                ok_hosts = [h for h in host_texts if isinstance(host_texts[h][pi].get(key), str)]
                # a deliberate refusal (SyntaxError / RuntimeError / NotImplementedError) on some host is allowed; a crash is not
                bad_hosts = [(h, host_texts[h][pi][key]["raised"]) for h in host_texts if isinstance(host_texts[h][pi].get(key), dict)
                             and host_texts[h][pi][key]["raised"] not in ("SyntaxError", "RuntimeError", "NotImplementedError")]
                if ok_hosts and bad_hosts:
                    failing.append((name, src, bad_hosts[0][0], "-", key, f"conversion crashes on host {bad_hosts} but succeeds on host {ok_hosts}"))
                ck.count("host_conversions", len(ok_hosts) + len(bad_hosts))
        pi_of = {name: i for i, (name, _) in enumerate(progs)}
        for h, texts in host_texts.items():
            jobs = [{"source": s, "texts": {k: t for k, t in tx.items() if isinstance(t, str)}} for (_, s), tx in zip(progs, texts)]
            json.dump(jobs, open(os.path.join(d, f"jobs{h}.json"), "w"))
            def runtime(rt, h=h):
                out = os.path.join(d, f"rt{h}_{rt}.json")
                try:
                    r = subprocess.run([interp[rt], os.path.join(HERE, "c15_runtime.py"), os.path.join(d, f"jobs{h}.json"), out], capture_output=True, text=True, timeout=3600)
                except subprocess.TimeoutExpired:
                    return rt, None, "runtime process exceeded 3600 s"
                if r.returncode != 0:
                    return rt, None, r.stderr[-300:]
                return rt, json.load(open(out))["results"], None
            for rt, res, err in [runtime(rt) for rt in sorted(interp)]:
                if res is None:
                    ck.notes.append(f"runtime {rt}: {err}"); ck.count("runtime_failed:" + rt); continue
                for (name, src), r in zip(progs, res):
                    if r["source"][0] != "ok":
                        ck.count(f"source_not_ok_on:{rt}")
                        continue
                    for key, tr in r["texts"].items():
                        ck.case(f"{h}|{rt}|{key}|{src}")
                        ck.count(f"pair:host{h}->rt{rt}")
                        if tr[0] == "slow":
                            ck.count("skipped_slow_on:" + rt); continue
                        if tr[0] != "ok" or tr[1] != r["source"][1]:
                            why = f"{tr[0]}: {tr[1][:100]}" if tr[0] != "ok" else "stdout differs"
                            kf = known_shape(name, src, key, rt, h, host_texts[h][pi_of[name]].get(key))
                            if kf and kf in kfs:
                                kf_seen[kf] = (name, h, rt, key)
                            else:
                                failing.append((name, src, h, rt, key, why))
        ck.sample({"programs": len(progs), "hosts": hosts, "runtimes": sorted(interp), "example": progs[0][1][:400]})
    finally:
        shutil.rmtree(d, ignore_errors=True)
    if not interp or len(interp) < 2:
        ck.notes.append("fewer than two interpreter binaries found: the cross-version part was not exercised")
    for kf, where in sorted(kf_seen.items()):
        ck.known(kf, kfs[kf]["what"])
    failing.sort(key=lambda f: len(f[1]))
    for name, src, h, rt, key, why in failing[:3]:
        ck.violation({"kind": "runtime", "case": name, "source": src, "host": h, "runtime": rt, "config": key.split("|"), "observed": why,
                      "expected": "the converted text compiles and prints the same as the script on that runtime", "broken_obligations": ck.broken})
    if ck.broken and not failing:
        ck.violation({"kind": "obligation", "broken_obligations": ck.broken, "searched": "all (program, host, runtime, config) combinations available"}, no_input=True)
    return ck.finish(
        rule="generated programs of the supported fragment (3.8 syntax) + f-string / subscript / parameter edge programs, converted under all 8 option combinations on "
             "every available host interpreter in {3.10, 3.11, 3.12, 3.13} (quick: up to three of them) and then compiled + evaluated on every available runtime "
             "interpreter in {3.8 .. 3.13}; observed: stdout of eval(output) vs stdout of exec(source) under the same runtime binary; distinct by "
             "(host, runtime, config, source)",
        extra={"R_failures": len(failing), "interpreters": interp, "notes": ck.notes},
        assumptions=["behaviour of interpreter binaries other than the one running the check is observed when they are present (~/.pyenv/versions), never modelled; their absence is recorded, not fatal"])


if __name__ == "__main__":
    sys.exit(main(sys.argv[1:]))
