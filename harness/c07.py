"""C07 -- each source subexpression is evaluated once, in Python's order."""
import itertools, json, sys
from common import Check, fresh_oneliner, load_known_findings, StepLimit
import gen_prog, lower_common

PRE = '''
class O:
    def __init__(s,n): object.__setattr__(s,'n',n)
    def __getitem__(s,i): L('getitem',s.n,repr(i)); return V(0)
    def __setitem__(s,i,v): L('setitem',s.n,repr(i),repr(v))
    def __getattr__(s,a): L('getattr',s.n,a); return V(0)
    def __setattr__(s,a,v): L('setattr',s.n,a,repr(v))
    def __iter__(s): L('iter',s.n); return iter([V(1),V(2),V(3)])
    def __repr__(s): return 'O%s'%s.n
class V:
    def __init__(s,n): s.n=n
    def __iadd__(s,o): L('iadd',s.n); return s
    def __add__(s,o): L('add',s.n); return V(s.n+100)
    def __repr__(s): return 'V%s'%s.n
    def __iter__(s): L('iterV',s.n); return iter([V(10),V(20),V(30)])
def p(n):
    L('p',n); return O(n)
def q(n):
    L('q',n); return n
def d(n):
    L('d',n)
    def deco(f):
        L('apply',n); return f
    return deco
'''


def templates():
    T = {}
    targets = {'name': 'x', 'attr': 'p(1).a', 'sub': 'p(1)[q(2)]', 'slice': 'p(1)[q(2):q(3)]', 'slice_open': 'p(1)[q(2):]', 'slice_step': 'p(1)[q(2):q(3):q(4)]',
               'slice_tuple': 'p(1)[q(2):q(3), q(4)]', 'attr_chain': 'p(1).a.b', 'sub_attr': 'p(1)[q(2)].c',
               'tuple_names': 'x, y, z', 'tuple_mixed': 'x, p(1).a, p(2)[q(3)]', 'star': 'x, *y', 'nested': '(x, p(1).a), y', 'star_attr': '*p(1).a, y'}
    for tn, t in targets.items():
        val = 'p(9)'
        if tn == 'nested': val = '[[p(7), p(8)], p(9)]'
        T[f'assign_{tn}'] = f"{t} = {val}\n"
        if not tn.startswith(('tuple', 'star', 'nested')):
            T[f'chain_{tn}'] = f"w = {t} = {val}\n"
            T[f'chain2_{tn}'] = f"{t} = w = {val}\n"
            T[f'chain3_{tn}'] = f"{t} = p(5).z = {val}\n"
            if 'slice' not in tn:
                # annotated assignment (the annotation itself is a constant: dropped annotations are KF-D33)
                T[f'ann_{tn}'] = f"{t}: int = {val}\n"
                T[f'ann_fn_{tn}'] = f"def f():\n    {t}: int = {val}\nf()\n"
                T[f'ann_cls_{tn}'] = f"class K:\n    {t}: int = {val}\n"
    T['chain_const'] = "x = y = 1\nL('v',x,y)\n"
    T['chain_call'] = "x = y = q(5)\nL('v',x,y)\n"
    ops = ['+', '-', '*', '/', '//', '%', '**', '<<', '>>', '&', '|', '^', '@']
    for tn in ('attr', 'sub', 'slice', 'slice_open', 'attr_chain', 'sub_attr'):
        T[f'aug_{tn}'] = f"{targets[tn]} += p(9)\n"
    for i, op in enumerate(ops):
        T[f'augop_{i}_sub'] = f"d = {{2: 5}}\ndef dd():\n    L('dd'); return d\ndd()[q(2)] {op}= q(3)\nL('r', d)\n"
        T[f'augop_{i}_name'] = f"x = 7\nx {op}= q(2)\nL('x', x)\n"
    T['aug_name_inplace'] = "x = V(5)\nx += q(1)\nL('x',repr(x))\n"
    T['def_defaults_decos'] = "@d(1)\n@d(2)\ndef f(a=q(3), b=q(4), *, c=q(5), e=q(6)):\n    pass\n"
    T['def_posonly_defaults'] = "def f(a=q(1), /, b=q(2), *c, d=q(3), **e):\n    pass\n"
    T['method_defaults'] = "class C:\n    @d(1)\n    def f(self, a=q(2)):\n        pass\n    g = q(3)\n"
    T['class_bases'] = "class B: pass\ndef b(n):\n    L('base', n); return B\nclass C(b(1), b(2).__mro__[0]):\n    pass\n"
    T['class_keywords'] = "class M(type):\n    def __new__(m,n,b,ns,**k): return super().__new__(m,n,b,ns)\n    def __init__(c,n,b,ns,**k): pass\nclass C(metaclass=M, k1=q(1), k2=q(2)):\n    pass\n"
    T['class_decorator_names'] = "def dd(c): L('apply-dd'); return c\n@dd\nclass C:\n    L('body')\n"
    T['if_header'] = "if q(0):\n    pass\nelif q(1):\n    L('b')\nelse:\n    pass\n"
    T['if_boolop'] = "if q(0) or q(1) and q(2):\n    L('t')\n"
    T['while_header'] = "i=[0]\nwhile q(len(i))<3:\n    i.append(0)\n"
    T['while_break'] = "i=[0]\nwhile q(len(i))<9:\n    i.append(0)\n    if len(i) == 3:\n        break\n"
    T['while_return'] = "def f():\n    i=[0]\n    while q(len(i))<9:\n        i.append(0)\n        if len(i) == 3:\n            return q(7)\nL('r', f())\n"
    T['while_else_break'] = "i=[0]\nwhile q(len(i))<3:\n    i.append(0)\n    for z in p(5):\n        break\nelse:\n    L('else')\n"
    T['for_break_iter'] = "for z in p(1):\n    L('body',repr(z))\n    if repr(z) == 'V2':\n        break\nelse:\n    L('else')\n"
    T['name_obj_sub'] = "xo = p(1)\nxo[q(2)] = q(3)\n"
    T['name_obj_slice'] = "xo = p(1)\nxo[q(2):q(3)] = q(4)\n"
    T['name_obj_attr'] = "xo = p(1)\nxo.a = q(3)\n"
    T['name_obj_aug_sub'] = "xo = p(1)\nxo[q(2)] += q(3)\n"
    T['dict_name_sub'] = "d = {}\nd[q(1)] = q(2)\nd[q(3)], d[q(4)] = q(5), q(6)\nL('d', sorted(d.items()))\n"
    T['def_deco_defaults_order'] = "@d(1)\ndef f(a=q(2), *, b=q(3)):\n    pass\n@d(4)\n@d(5)\ndef g(c=q(6)):\n    pass\n"
    T['for_header'] = "for z in p(1):\n    L('body',repr(z))\n"
    T['for_target_sub'] = "for p(1)[q(2)] in [1,2]:\n    pass\n"
    T['for_target_attr'] = "for p(1).a in [1,2]:\n    L('body')\n"
    T['for_target_tuple'] = "for x, p(1).a in [(1,2),(3,4)]:\n    L('body', x)\n"
    T['return_'] = "def f():\n    return q(1)\nL('r',f())\n"
    T['return_tuple'] = "def f():\n    return q(1), q(2)\nL('r',f())\n"
    T['expr_call'] = "q(1) + q(2) * q(3)\n"
    T['call_args'] = "def g(*a,**k): L('g')\ng(q(1), *[q(2)], k=q(3), **{'j':q(4)})\n"
    T['lambda_default'] = "f = lambda a=q(1): a\nL('v',f())\n"
    T['nested_star'] = "(x, *y), z = [p(1), p(2)]\n"
    T['walrus'] = "L((a := q(1)) + (b := q(2)), a, b)\n"
    # a walrus whose store is not a plain name binding: global-declared, nonlocal, captured local, class member, inside a comprehension
    T['walrus_global'] = "def f():\n    global gw\n    L((gw := q(1)) + q(2), gw)\nf()\nL(gw)\n"
    T['walrus_nonlocal'] = "def f():\n    w = q(0)\n    def g():\n        nonlocal w\n        L((w := q(1)) + q(2), w)\n    g()\n    L(w)\nf()\n"
    T['walrus_captured'] = "def f():\n    L((w := q(1)) + q(2), w)\n    def g():\n        return w\n    L(g())\nf()\n"
    T['walrus_class'] = "class K:\n    L((a := q(1)) + q(2), a)\n    b = a\nL(K.a, K.b)\n"
    T['walrus_in_comp'] = "L([(c := q(i)) for i in (1, 2)], c)\n"
    T['walrus_in_call_args'] = "def g(*a, **k): L('g', a, sorted(k))\ng((x := q(1)), y=(z := q(2)))\nL(x, z)\n"
    T['ifexp'] = "L(q(1) if q(0) else q(2))\n"
    T['compare_chain'] = "L(q(1) < q(2) < q(0) < q(3))\n"
    T['subscript_load'] = "L(p(1)[q(2):q(3)])\n"
    T['dict_display'] = "L({q(1): q(2), q(3): q(4)})\n"
    T['comprehension'] = "L([q(i) for i in (q(5), q(6)) if q(7)])\n"
    T['fstring'] = "L(f'{q(1)!r:>{q(2)}}{q(3)}')\n"
    # the object of an augmented subscript / attribute target is a plain name that the index / operand rebinds:
    # the name is loaded once, first
    T['aug_sub_index_rebinds_object'] = ("a = [q(1), q(2)]\nb = [q(3), q(4)]\ndef sw():\n    global a\n    a = b\n    return q(0)\na[sw()] += q(5)\nL('ab', a, b)\n"
                                         "c = [q(6), q(7)]\ne = c\nc[(c := [q(8), q(9)])[0] - 8] += q(1)\nL('ce', c, e)\n")
    T['aug_attr_operand_rebinds_object'] = ("class O_:\n    v = 0\no1 = O_()\no2 = O_()\nx = o1\ndef sw2():\n    global x\n    x = o2\n    return q(5)\nx.v += sw2()\nL('o', o1.v, o2.v)\n")
    T['assign_sub_value_rebinds_object'] = "g = [0, 0]\nh = [9, 9]\ndef sw3():\n    global g\n    g = h\n    return q(1)\ng[q(0)] = sw3()\nL('gh', g, h)\n"
    # keyword arguments and ** mappings in every order (written order = evaluation order)
    T['call_kwargs_order'] = "L(dict(**(L('m', 1) or {}), k=q(2), **(L('m', 3) or {'z': 1}), j=q(4)))\nL(dict(a=q(5), **(L('m', 6) or {})), max(q(7), q(8), *[q(9)], key=(L('m', 10) or abs)))\n"
    # if / else whose branch is a bare return / continue that needs no flag (the last statement of its body)
    T['if_else_bare_return'] = "def f(c):\n    L('f', c)\n    if q(c):\n        return\n    else:\n        L('else', c)\nf(1)\nf(0)\n"
    T['if_else_bare_continue'] = "for c in [q(1), q(0)]:\n    if c:\n        continue\n    else:\n        L('else', c)\n"
    T['if_else_pass_and_falsy'] = "if q(1):\n    pass\nelse:\n    L('else')\nif q(1):\n    q(0)\nelse:\n    L('else2')\nif q(0):\n    pass\nelif q(1):\n    q(0)\nelse:\n    L('else3')\n"
    # expression statements that are nothing but a literal with evaluated parts
    T['bare_fstring'] = "f'{q(1)!r:>{q(2)}}{q(3)}'\nf'a{q(4)}' f'{q(5)}b'\n"
    T['bare_fstring_in_function'] = "def f():\n    f'{q(1)}{q(2)!s}'\n    return q(3)\nf()\n"
    T['bare_fstring_in_class'] = "class K:\n    f'{q(1)}'\n    f'{q(2):{q(3)}}'\n"
    T['bare_fstring_in_branches'] = "if q(1):\n    f'{q(2)}'\nelse:\n    f'{q(3)}'\nfor i in [q(4)]:\n    f'{q(5)}{i}'\n"
    T['bare_displays'] = "[q(1), q(2)]\n(q(3), q(4))\n{q(5): q(6)}\n{q(7)}\nq(8)[q(9)]\nq(10).a\n-q(11)\nq(12) if q(13) else q(14)\n"
    T['import_order'] = "import json, os\n"
    T['global_assign_in_func'] = "def f():\n    global g1\n    g1 = q(1)\n    p(2).a = q(3)\nf()\n"
    T['nonlocal_assign'] = "def f():\n    v = q(0)\n    def g():\n        nonlocal v\n        v = q(1)\n        p(2)[q(3)] = v\n    g()\nf()\n"
    T['class_body_assign'] = "class K:\n    a = q(1)\n    p(2).z = q(3)\n    b, c = q(4), q(5)\n"
    return T


# templates whose order is known to differ: each is a listed known finding (open)
KNOWN = {
    'class_keywords': 'KF-D31', 'class_bases_kw': 'KF-D31',
}


def run(code, mode):
    log = []
    g = {'L': lambda *a: log.append(a)}
    exec(PRE, g)
    try:
        with StepLimit():
            if mode == 'exec':
                exec(compile(code, '<s>', 'exec'), g)
            else:
                eval(compile(code, '<o>', 'eval'), g)
    except BaseException as e:
        log.append(('EXC', type(e).__name__, str(e)[:50]))
    return [repr(x) for x in log]


def main(argv):
    ck = Check("C07", argv)
    ol = fresh_oneliner()
    if ck.replay_file:
        return replay(ck, ol)
    b = ck.build(["OlVerif.Props.C07"])
    if not b["built"].get("OlVerif.Props.C07", False):
        ck.broken.append("lean: OlVerif.Props.C07 does not build: " + b["log"][-1200:])
    else:
        ck.audit("OlVerif/Audit/C07.lean")
    T = templates()
    extra = KF_TEMPLATES
    kfs = {k["kf"]: k for k in load_known_findings("C07") if k.get("status") == "open"}
    failing = []
    kf_seen = {}
    pairs = []
    for name, src in list(T.items()) + list(extra.items()):
        o = run(src, 'exec')
        if any("'EXC'" in x for x in o):
            ck.count("skipped_original_raises"); continue
        cfgs = gen_prog.CONFIGS if ck.tier == "thorough" else [gen_prog.CONFIGS[(len(name) + j * 3 + ck.seed) % 8] for j in range(3)]
        for cfg in cfgs:
            ck.case(f"{cfg}|{src}", nontrivial=len(o) >= 2)
            ck.count("family:" + name.split("_")[0])
            try:
                conv = ol.convert_code_string(src, configs=gen_prog.mk_configs(ol, cfg))
                c = run(conv, 'eval')
            except BaseException as e:
                c = ['CONVERT-EXC ' + type(e).__name__]; conv = None
            if o != c:
                kf = extra_kf(name)
                if kf and kf in kfs:
                    kf_seen[kf] = name
                else:
                    failing.append((name, src, cfg, f"original {o} converted {c}", conv))
        pairs.append((src, (cfgs[0][1], cfgs[0][2])))
        if len(ck.samples) < 5 and name in ('assign_sub', 'aug_slice', 'def_defaults_decos', 'class_bases', 'nonlocal_assign'):
            ck.sample({"template": name, "source": src, "probe_log": o})
    # ---- M-ORDER: probe programs; exec(source) = eval(converted) = Lean trace `tr` of the model's output
    import order_probe, leandrv
    n_probe = 150 if ck.tier == "quick" else 3000
    pprogs = [order_probe.Gen(ck.rng).program() for _ in range(n_probe)]
    # every index shape as a load / store / augmented store (loops are outside M-ORDER: C05)
    pprogs += [p_ for p_ in order_probe.index_programs() if not p_.startswith("for ")]
    m_bad = []
    pjobs = []
    for i, src in enumerate(pprogs):
        cfg = gen_prog.CONFIGS[(i + ck.seed) % 8]
        try:
            conv = ol.convert_code_string(src, configs=gen_prog.mk_configs(ol, cfg))
        except BaseException as e:
            failing.append(("probe-program", src, cfg, f"conversion raised {type(e).__name__}: {e}", None)); continue
        logs = {}
        for inplace in (True, False):
            # objects with in-place operators are truthy, those without are falsy: the two oracles of the Lean trace
            l0, e0 = order_probe.run(src, "exec", inplace, truth=inplace)
            l1, e1 = order_probe.run(conv, "eval", inplace, truth=inplace)
            ck.case(f"probe|{inplace}|{cfg}|{src}", nontrivial=len(l0) >= 2)
            ck.count("probe_programs")
            if e0 is not None:
                ck.count("probe_skipped_original_raises"); continue
            if (l0, e0) != (l1, e1):
                failing.append(("probe-program", src, cfg, f"in-place operators {inplace}: original {l0} converted {l1} {e1 or ''}", conv))
            logs[inplace] = [e for e in l1 if isinstance(e, int)]     # the Lean trace lists probes only
        pjobs.append((src, cfg, logs))
    if b["driver_ok"] and pjobs:
        reqs = lower_common.model_requests([(src, (cfg[1], cfg[2])) for src, cfg, _ in pjobs])
        for (src, cfg, logs), r in zip(pjobs, leandrv.run_batch(reqs)):
            if "tr_t" not in r:
                m_bad.append((src, cfg, "model did not return a trace: " + str(r)[:200])); continue
            for inplace, key in ((True, "tr_t"), (False, "tr_f")):
                if inplace in logs and logs[inplace] != r[key]:
                    m_bad.append((src, cfg, f"oracle {inplace}: Lean trace {r[key]} != CPython's probe log of the converted program {logs[inplace]}"))
                    break
            else:
                ck.count("M_ORDER_agree")
    if m_bad:
        ck.broken.append(f"correspondence K(M-ORDER tr = CPython's evaluation order on the converted program): {len(m_bad)} programs differ, first: {m_bad[0][2][:300]} on {m_bad[0][0]!r}")
    k_bad = []
    if b["driver_ok"]:
        for src, cfg, ok, detail in lower_common.compare(ol, pairs):
            if ok:
                ck.count("K_agree")
            else:
                k_bad.append((src, cfg, detail))
    if k_bad:
        ck.broken.append(f"correspondence K(lowerFull = convert): {len(k_bad)} templates differ, first: {k_bad[0][2][:300]} on {k_bad[0][0]!r}")
    for kf, name in sorted(kf_seen.items()):
        ck.known(kf, kfs[kf]["what"])
    failing.sort(key=lambda f: len(f[1]))
    for name, src, cfg, why, conv in failing[:3]:
        ck.violation({"kind": "order", "template": name, "source": src, "config": list(cfg), "observed": why, "converted": conv,
                      "expected": "same ordered log of probe identifiers", "broken_obligations": ck.broken})
    if ck.broken and not failing:
        ck.violation({"kind": "obligation", "broken_obligations": ck.broken, "searched": f"{len(T)} templates on the real converter: same probe order"}, no_input=True)
    return ck.finish(
        rule="statement templates with every subexpression replaced by a logging probe: all assignment target shapes (name, attribute, subscript, slices with every "
             "combination of bounds, slice in a tuple index, chains, nested / starred patterns, chained with 2 and 3 targets), 13 augmented operators on name and "
             "subscript targets plus attribute / slice / chained targets, def with defaults, keyword-only defaults and decorators, methods, class bases / keywords / "
             "decorators, if / elif / while / for headers, for targets, return, call arguments, walrus, conditional expression, chained comparison, displays, "
             "comprehension, f-string, global / nonlocal / class-body placements; exhaustive over the template list x 3 (quick) / 8 (thorough) option combinations; "
             "non-trivial = at least two events; plus random module-level programs of simple statements whose subexpressions are probes (random nested / starred / "
             "chained targets with structured values, annotated, augmented x 13 operators, defs with decorators and defaults) run with objects that have / lack "
             "in-place operators: exec(source) = eval(converted) = the Lean trace of the model's output",
        extra={"R_failures": len(failing), "K_disagreements": len(k_bad) + len(m_bad), "templates": len(T) + len(extra), "probe_programs": len(pprogs)},
        assumptions=["subexpressions other than probes are pure (names, constants)"])


KF_TEMPLATES = {
    'kf_class_metaclass_order': "class M(type):\n    pass\ndef mk():\n    L('meta'); return M\nclass B: pass\ndef b():\n    L('base'); return B\nclass C(b(), metaclass=mk()):\n    pass\n",
    'kf_class_decorator_expr_order': "def b():\n    L('base'); return object\n@d(1)\nclass C(b()):\n    L('body')\n",
    'kf_ann_assign': "x: q(1) = q(2)\n",
    'kf_ann_only': "x: q(1)\n",
    'kf_def_annotations': "def f(a: q(1) = q(2)) -> q(3):\n    pass\n",
}


def extra_kf(name):
    return {'kf_class_metaclass_order': 'KF-D31', 'kf_class_decorator_expr_order': 'KF-D38b', 'kf_ann_assign': 'KF-D32', 'kf_ann_only': 'KF-D32',
            'kf_def_annotations': 'KF-D33'}.get(name)


def replay(ck, ol):
    r = json.load(open(ck.replay_file))
    if "source" not in r:
        print("replay file names a broken obligation, no input:", r.get("broken_obligations")); return 0
    o = run(r["source"], 'exec')
    conv = ol.convert_code_string(r["source"], configs=gen_prog.mk_configs(ol, tuple(r["config"])))
    c = run(conv, 'eval')
    print(r["source"]); print("original:", o); print("converted:", c)
    return 0 if o == c else 1


if __name__ == "__main__":
    sys.exit(main(sys.argv[1:]))
