"""C16 -- the command line writes exactly the API result and validates options first."""
import json, os, shutil, subprocess, sys, tempfile
from common import Check, fresh_oneliner, REPO, PY
import gen_prog, leandrv, par
from c10 import normalise

OPTS = {"unparser": ["ast.unparse", "oneliner"], "expr_wrapper": ["list", "chain_call"], "if_style": ["if_expr", "short_circuit"]}
BAD_C = ["nope=1", "unparser", "unparser=", "=oneliner", "unparser=oneliner=x", "__doc__=x", "config_names=x", "__class__=y",
         "if_style=IF_EXPR", "expr_wrapper=chain", "unparser =oneliner", "__init__=z", "__module__=m",
         # a legal value with blanks around it is not that value
         "unparser=oneliner ", "expr_wrapper= list", "if_style=short_circuit\t", "unparser= ast.unparse", "if_style=if_expr\n"]


def gen_invocation(rng, nprogs):
    inv = {"prog": rng.randrange(nprogs), "c": [], "unparser": None, "out": rng.choice([None, "out.txt", "existing.txt"]), "missing_input": False}
    for n in rng.sample(list(OPTS), rng.randrange(0, 4)):
        inv["c"].append(f"{n}={rng.choice(OPTS[n])}")
    r = rng.random()
    if r < 0.35:
        inv["c"].insert(rng.randrange(len(inv["c"]) + 1), rng.choice(BAD_C))
    elif r < 0.45:
        inv["unparser"] = rng.choice(["oneliner", "ast.unparse"])
    elif r < 0.5:
        inv["missing_input"] = True
    if rng.random() < 0.1 and inv["c"]:
        inv["c"].append(inv["c"][0].split("=")[0] + "=" + rng.choice(OPTS.get(inv["c"][0].split("=")[0], ["x"])))
    return inv


def run_cli(job):
    inv, src = job
    d = tempfile.mkdtemp(prefix="olverif_c16_")
    try:
        with open(os.path.join(d, "in.py"), "w", encoding="utf8") as f:
            f.write(src)
        with open(os.path.join(d, "existing.txt"), "w") as f:
            f.write("OLD CONTENT")
        cmd = [PY, "-W", "ignore", "-m", "oneliner", "in.py" if not inv["missing_input"] else "nofile.py"]
        for c in inv["c"]:
            cmd += ["-C", c] if len(c) % 2 else ["-C" + c]
        if inv["unparser"]:
            cmd += ["--unparser", inv["unparser"]]
        if inv["out"]:
            cmd += ["-o", inv["out"]]
        env = dict(os.environ, PYTHONPATH=REPO)
        p = subprocess.run(cmd, cwd=d, capture_output=True, env=env, timeout=120)
        files = {}
        for fn in sorted(os.listdir(d)):
            if fn not in ("in.py",):
                files[fn] = open(os.path.join(d, fn), encoding="utf8", errors="replace").read()
        return {"rc": p.returncode, "stdout": p.stdout.decode("utf8", "replace"), "stderr": p.stderr.decode("utf8", "replace")[-300:], "files": files}
    finally:
        shutil.rmtree(d, ignore_errors=True)


def main(argv):
    ck = Check("C16", argv)
    ol = fresh_oneliner()
    if ck.replay_file:
        return replay(ck, ol)
    b = ck.build(["OlVerif.Props.C16"])
    if not b["extract_ok"]:
        ck.broken.append("translator: cannot read the order of effects / option-name check off __main__.py: " + b["log"][-400:])
    if not b["built"].get("OlVerif.Props.C16", False):
        ck.broken.append("lean: OlVerif.Props.C16 does not build (extracted effect order or name check violates an obligation): " + b["log"][-1200:])
    else:
        ck.audit("OlVerif/Audit/C16.lean")
    nprogs = 5
    progs = [gen_prog.gen_program(ck.rng, size=ck.rng.randrange(3, 8))[0] for _ in range(nprogs)]
    progs[0] = "s = 'é😀\\u2028'\nprint(s)\n"
    # raw line-separator-like characters inside string literals (the file is not to be re-split), and a CRLF file
    progs[1] = "s = 'a\u2028b\x0cc\x1cd\x85e\u2029f'\nt = \'\'\'x\u2028y\x0bz\x1d\x1e\'\'\'\nprint(ascii(s), ascii(t))\n"
    progs[2] = "x = 1\r\nif x:\r\n    print('crlf', x)\r\n"
    n = 140 if ck.tier == "quick" else 3000
    invs = [gen_invocation(ck.rng, nprogs) for _ in range(n)]
    results = par.pmap(run_cli, [(inv, progs[inv["prog"]]) for inv in invs], procs=16, chunksize=2)
    model = None
    if b["driver_ok"]:
        reqs = [{"op": "cli", "input": "in.py" if not inv["missing_input"] else "nofile.py", "output": inv["out"], "c": inv["c"],
                 "unparser": inv["unparser"], "fs": ["in.py", "existing.txt"]} for inv in invs]
        model = leandrv.run_batch(reqs)
    cmod = sys.modules["oneliner.config"]
    failing = []
    k_bad = []
    for i, (inv, res) in enumerate(zip(invs, results)):
        ck.case(json.dumps(inv), nontrivial=True)
        # ---- specification, independent of the model
        opts = dict(unparser="ast.unparse", expr_wrapper="chain_call", if_style="if_expr")
        valid = True
        for c in inv["c"]:
            parts = c.split("=")
            if len(parts) != 2 or parts[0] not in OPTS or parts[1] not in OPTS[parts[0]]:
                valid = False; break
            opts[parts[0]] = parts[1]
        if valid and inv["unparser"]:
            opts["unparser"] = inv["unparser"]
        ok_expected = valid and not inv["missing_input"]
        ck.count("expected:" + ("ok" if ok_expected else ("bad-option" if not valid else "missing-input")))
        why = None
        if not ok_expected:
            if res["rc"] == 0:
                why = "exit status 0 although the invocation is invalid"
            elif res["files"].get("existing.txt") != "OLD CONTENT":
                why = "an existing output file was truncated / overwritten although the invocation is invalid"
            elif "out.txt" in res["files"]:
                why = "an output file was created although the invocation is invalid"
            elif res["stdout"].strip():
                why = "something was printed to stdout although the invocation is invalid"
        else:
            c = cmod.Configs()
            c.unparser, c.expr_wrapper, c.if_style = opts["unparser"], opts["expr_wrapper"], opts["if_style"]
            exp = normalise(ol.convert_code_string(progs[inv["prog"]], configs=c))
            if res["rc"] != 0:
                why = f"exit status {res['rc']} for a valid invocation: {res['stderr'][-200:]}"
            elif inv["out"]:
                got = res["files"].get(inv["out"])
                if got is None or normalise(got) != exp:
                    why = "the output file does not hold the text the library call returns"
                elif res["stdout"] != "":
                    why = "text printed although -o was given"
                else:
                    for other in ("out.txt", "existing.txt"):
                        if other != inv["out"] and (other in res["files"]) != (other == "existing.txt"):
                            why = "unexpected file created / removed"
                        if other != inv["out"] and other == "existing.txt" and res["files"].get(other) != "OLD CONTENT":
                            why = "another file was modified"
            else:
                if normalise(res["stdout"]) != exp + "\n":
                    why = "stdout is not the text the library call returns plus one newline"
                elif "out.txt" in res["files"] or res["files"].get("existing.txt") != "OLD CONTENT":
                    why = "a file was written although no -o was given"
        if why:
            failing.append((inv, why, res))
        if i % 29 == 5:
            ck.sample({"invocation": inv, "exit": res["rc"]})
        # ---- K: model vs real
        if model is not None:
            m = model[i]
            m_ok = m.get("exit") == "ok"
            r_ok = res["rc"] == 0
            m_written = m.get("written")
            r_written = [f for f in ("out.txt", "existing.txt") if (f == "out.txt" and f in res["files"]) or (f == "existing.txt" and res["files"].get(f) != "OLD CONTENT")]
            if m_ok != r_ok or bool(m_written) != bool(r_written) or (m_written and m_written[0] not in r_written) \
               or (m.get("stdout") is not None) != (res["stdout"].strip() != ""):
                k_bad.append((inv, f"model exit={m.get('exit')} written={m_written} stdout={m.get('stdout')}; real rc={res['rc']} written={r_written} stdout={res['stdout'][:40]!r}"))
            elif m_ok and (m_written or m.get("stdout")):
                mo = m_written[1] if m_written else m["stdout"]
                if mo != opts:
                    k_bad.append((inv, f"model used options {mo}, specification says {opts}"))
            ck.count("K_compared")
    if k_bad:
        ck.broken.append(f"correspondence K(cli model = real CLI): {len(k_bad)} invocations differ, first: {k_bad[0][0]} :: {k_bad[0][1]}")
    failing.sort(key=lambda f: len(json.dumps(f[0])))
    for inv, why, res in failing[:3]:
        ck.violation({"kind": "cli", "invocation": inv, "program": progs[inv["prog"]], "observed": why, "rc": res["rc"], "stderr": res["stderr"],
                      "expected": "output file / stdout = library result for the options given; invalid options abort before any file is touched",
                      "broken_obligations": ck.broken})
    if ck.broken and not failing:
        ck.violation({"kind": "obligation", "broken_obligations": ck.broken,
                      "searched": f"{len(invs)} invocations of the real command line: all as specified",
                      "k_disagreements": [{"invocation": i, "detail": d[:300]} for i, d in k_bad[:10]]}, no_input=True)
    return ck.finish(
        rule="invocations of `python -m oneliner` in a scratch directory: programs x random subsets of -C options (both `-C x` and `-Cx` spellings) x "
             "{-o new file, -o existing file, stdout} x malformed / unknown / dunder / illegal-value -C arguments, deprecated --unparser, missing input; "
             "observed: exit status, stdout, existence and bytes of output files; distinct by invocation",
        extra={"R_failures": len(failing), "K_disagreements": len(k_bad), "invocations": len(invs)},
        assumptions=["argparse is CPython's; the model starts after argument parsing"])


def replay(ck, ol):
    r = json.load(open(ck.replay_file))
    if "invocation" not in r:
        print("replay file names a broken obligation, no input:", r.get("broken_obligations")); return 0
    res = run_cli((r["invocation"], r["program"]))
    print(r["invocation"]); print(res)
    return 0


if __name__ == "__main__":
    sys.exit(main(sys.argv[1:]))
