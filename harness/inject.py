"""Unsupported constructs / illegal placements injected at statement and expression positions
(C08, C02), curated edge programs, and the known-findings plumbing shared by the checks."""
import ast, json, os, random, sys
from common import load_known_findings

# ---------------------------------------------------------------- statement-level injections
STMT_SNIPPETS = {
    "try": ["try:", "    pass", "except Exception:", "    pass"],
    "try-finally": ["try:", "    print(1)", "finally:", "    pass"],
    "raise": ["if False:", "    raise ValueError(1)"],
    "raise-bare": ["raise ValueError('x')"],
    "with": ["with open('/dev/null') as fh:", "    pass"],
    "assert": ["assert True, 'm'"],
    "del": ["zz_del = 1", "del zz_del"],
    "match": ["match 1:", "    case 1:", "        pass", "    case _:", "        pass"],
    "type-alias": ["type ZZ = int"],
    "star-import": None,   # only legal at module level, handled below
    "async-def": ["async def zz_coro():", "    pass"],
    "yield-stmt": None,    # needs a function, handled below
    "global-after": None,
}
EXPR_SNIPPETS = {
    "yield-expr": "(yield 1)",
    "yield-from-expr": "(yield from [])",
    "await-expr": "(await zz_aw)",
}
PLACEMENT_SNIPPETS = {
    "break-outside": ["break"],
    "continue-outside": ["continue"],
    "return-outside": ["return 1"],
    "two-stars": ["*zz_a, *zz_b = [1, 2]"],
    "two-stars-for": ["for *zz_a, *zz_b in [[1, 2]]:", "    pass"],
    "two-stars-nested": ["zz_c, (*zz_a, *zz_b) = 1, [1, 2]"],
    # a star-free sub-pattern, an attribute, a subscript between / inside the two stars; list patterns; chained
    "two-stars-around-nested": ["*zz_a, (zz_c, zz_d), *zz_b = [1, (2, 3), 4]"],
    "two-stars-starred-nested": ["*(zz_c, zz_d), *zz_b = [1, 2, 3]"],
    "two-stars-list": ["[*zz_a, zz_c, *zz_b] = [1, 2, 3]"],
    "two-stars-for-nested": ["for *zz_a, [zz_c], *zz_b in [[1, [2], 3]]:", "    pass"],
    "two-stars-chained": ["zz_c = *zz_a, *zz_b = [1, 2]"],
    "two-stars-deep": ["zz_c, (zz_d, (*zz_a, zz_e, *zz_b)) = 1, (2, [3, 4, 5])"],
    # the same in the target of a comprehension clause (list / dict comprehension, generator expression, second clause)
    "two-stars-comp": ["zz_c = [zz_a for *zz_a, *zz_b in [[1, 2]]]"],
    "two-stars-dictcomp": ["zz_c = {1: zz_a for zz_d, *zz_a, *zz_b in [[1, 2, 3]]}"],
    "two-stars-genexp": ["zz_c = list(zz_b for zz_d in [0] for [*zz_a, *zz_b] in [[1, 2]])"],
}


def indent_of(line):
    return len(line) - len(line.lstrip(" "))


def statement_positions(lines):
    """indices i such that a statement may be inserted before line i at line i's indentation"""
    pos = []
    for i, l in enumerate(lines):
        s = l.strip()
        if not s or s.startswith(("elif ", "else:", "except", "finally:", "@")):
            continue
        if i > 0 and lines[i - 1].strip().startswith("@"):
            continue
        pos.append(i)
    return pos


def enclosing(lines, i):
    """(nearest namespace kind: 'def' | 'class' | 'module', in a loop of that namespace) for an
    insertion before line i at its indentation"""
    cur = indent_of(lines[i])
    inloop = False
    for j in range(i - 1, -1, -1):
        l = lines[j]
        if not l.strip():
            continue
        k = indent_of(l)
        if k < cur:
            cur = k
            s = l.strip()
            if s.startswith("def "):
                return "def", inloop
            if s.startswith("class "):
                return "class", inloop
            if s.startswith(("for ", "while ")):
                inloop = True
            elif s.startswith("else:"):
                # else of a loop is outside that loop; else of an if changes nothing: skip to its header
                pass
    return "module", inloop


def inject_stmt(lines, i, snippet):
    pad = " " * indent_of(lines[i])
    return lines[:i] + [pad + s for s in snippet] + lines[i:]


def _int_literal_spans(src):
    """line -> [(col, end_col)] of integer literals that are genuine expressions (not text inside a string or an
    f-string, whose replacement fields and format specs are left alone)"""
    spans = {}
    try:
        tree = ast.parse(src)
    except SyntaxError:
        return spans

    def walk(node, in_fstring):
        if isinstance(node, ast.JoinedStr):
            in_fstring = True
        if isinstance(node, ast.Constant) and type(node.value) is int and not in_fstring and node.lineno == node.end_lineno:
            spans.setdefault(node.lineno, []).append((node.col_offset, node.end_col_offset))
        for ch in ast.iter_child_nodes(node):
            walk(ch, in_fstring)
    walk(tree, False)
    return spans


def inject_expr(lines, i, text, spans=None):
    """replace the first integer literal of line i (an expression position) by `text`"""
    l = lines[i]
    if l.strip().startswith(("def ", "class ", "import ", "from ", "global ", "nonlocal ", "@", "for ", "type ")):
        return None
    if spans is None:
        spans = _int_literal_spans("\n".join(lines) + "\n")
    cands = sorted(spans.get(i + 1, []))
    if not cands:
        return None
    a, b = cands[0]
    # col offsets are in UTF-8 bytes
    raw = l.encode("utf8")
    new = (raw[:a] + text.encode("utf8") + raw[b:]).decode("utf8")
    return lines[:i] + [new] + lines[i + 1:]


def all_injections(src, rng=None, per_kind=None):
    """every (kind, program) obtained by injecting one construct at one position; legality-aware:
    yields only programs for which the property demands rejection"""
    lines = src.rstrip("\n").split("\n")
    pos = statement_positions(lines)
    spans = _int_literal_spans(src)
    out = []
    for i in pos:
        near, inloop = enclosing(lines, i)
        # the header scan above treats `else:` of a loop like the loop body; be conservative:
        # illegal-placement injections are only made where no loop header precedes at all
        for kind, snip in STMT_SNIPPETS.items():
            if snip is None:
                continue
            out.append((kind, i, "\n".join(inject_stmt(lines, i, snip)) + "\n"))
        if indent_of(lines[i]) == 0:
            for star in ("from math import *", "from . import *", "from .. import *", "from .m import *", "from os.path import *"):
                out.append(("star-import", i, "\n".join(inject_stmt(lines, i, [star])) + "\n"))
        out.append(("yield-stmt", i, "\n".join(inject_stmt(lines, i, ["yield 5"])) + "\n"))
        for kind, text in EXPR_SNIPPETS.items():
            r = inject_expr(lines, i, text, spans)
            if r:
                out.append((kind, i, "\n".join(r) + "\n"))
        if not inloop:
            out.append(("break-outside", i, "\n".join(inject_stmt(lines, i, ["break"])) + "\n"))
            out.append(("continue-outside", i, "\n".join(inject_stmt(lines, i, ["continue"])) + "\n"))
        if near != "def":
            out.append(("return-outside", i, "\n".join(inject_stmt(lines, i, ["return 1"])) + "\n"))
        for kind in ("two-stars", "two-stars-for", "two-stars-nested", "two-stars-around-nested", "two-stars-starred-nested",
                     "two-stars-list", "two-stars-for-nested", "two-stars-chained", "two-stars-deep",
                     "two-stars-comp", "two-stars-dictcomp", "two-stars-genexp"):
            out.append((kind, i, "\n".join(inject_stmt(lines, i, PLACEMENT_SNIPPETS[kind])) + "\n"))
    return out


def inject_random(rng, src):
    inj = all_injections(src)
    if not inj:
        return None
    kind, i, prog = rng.choice(inj)
    try:
        ast.parse(prog)
    except SyntaxError:
        return None
    return prog, kind


# dead code: statements after a direct interrupt are dropped by the converter (known finding D37)
def is_dead_position(src, lineno):
    """is the statement starting at `lineno` (1-based) preceded, in its own block, by a direct break/continue/return?"""
    tree = ast.parse(src)
    for node in ast.walk(tree):
        for f in ("body", "orelse", "finalbody"):
            blk = getattr(node, f, None)
            if isinstance(blk, list) and blk and isinstance(blk[0], ast.stmt):
                dead = False
                for s in blk:
                    if dead and s.lineno <= lineno <= getattr(s, "end_lineno", s.lineno):
                        return True
                    if isinstance(s, (ast.Break, ast.Continue, ast.Return)):
                        dead = True
    return False


CURATED = [
    ("lambda-kwonly-parameter-named-like-captured-variable", "def f():\n    a = 1\n    kw = 'outer'\n    def g():\n        nonlocal a, kw\n        a += 1\n        kw += '!'\n        return a, kw\n"
     "    h = lambda *, a: a * 10\n    k = lambda x, *, a=5, **kw: (x, a, sorted(kw))\n    m = lambda *a, kw=0: (a, kw)\n    return g(), h(a=3), k(1), k(1, a=2, z=0), m(1, kw=2), a, kw\nprint(f())\n"),
    ("class-body-below-nonlocal-rebinder", "def outer():\n    x = 'o'\n    def middle():\n        nonlocal x\n        x = x + 'm'\n        class K:\n            a = x\n            def m(self):\n                return x\n        return K.a, K().m(), x\n    return middle(), x\nprint(outer())\n"),
    ("lambda-signatures", "f = lambda a, b=2, *c, d, e=5, **k: (a, b, c, d, e, sorted(k))\ng = lambda *, name, sep: name + sep\nh = lambda *a, k: (a, k)\ni = lambda a, /, b, *, c: (a, b, c)\n"
     "print(f(1, d=4), g(name='n', sep='-'), h(1, k=2), i(1, 2, c=3), (lambda *, only: only)(only=1))\n"),
    ("positional-only-defaults", "def f(a, b=1, /, c=2):\n    return (a, b, c)\ndef g(p=10, /):\n    return p\nh = lambda p=10, /, q=20: (p, q)\nk = lambda a, b=3, /, *r, z=4: (a, b, r, z)\n"
     "print(f(0), f(0, 5), f(0, 5, 6), f(0, c=9), g(), g(3), h(), h(1), h(1, q=2), k(1), k(1, 2, 3, z=5))\n"),
    ("aug-subscript-index-rebinds-object", "a = [1, 2]\nb = [10, 20]\ndef swap():\n    global a\n    a = b\n    return 0\na[swap()] += 5\nc = [1, 2]\nd = c\nc[(c := [7, 8])[0] - 7] += 1\nprint(a, b, c, d)\n"),
    ("genexp-argument-with-keywords", "w = ['bb', 'a', 'ccc']\nprint(sorted((x for x in w), key=len), max((len(x) for x in w), default=0), sum((1 for _ in w), 10))\n"),
    # one class per shape: the names a class body's lambdas read as globals are collected per class
    ("class-body-nested-lambdas-read-global", "x = 'G'\nclass K1:\n    x = 'M'\n    g = (lambda: (lambda: x)())()\nclass K2:\n    x = 'M'\n    a = lambda self, w: (lambda h: (w, h, x))\n"
     "class K3:\n    x = 'M'\n    j = (lambda: (lambda: (lambda: x)())())()\nclass K4:\n    x = 'M'\n    m = lambda self: ''.join(map(lambda c: c + x, 'ab'))\n"
     "class K5:\n    x = 'M'\n    i = [(lambda: (lambda: x)())() for _ in [0]]\nprint(K1.g, K2().a(1)(2), K3.j, K4().m(), K5.i, K1.x)\n"),
    ("interrupts-below-nested-ifs", "def f(n):\n    out = []\n    for i in range(n):\n        if i % 2:\n            if i == 3:\n                continue\n            out.append(('odd', i))\n        else:\n            if i == 4:\n                break\n            out.append(('even', i))\n        out.append(('end', i))\n    else:\n        out.append('no-break')\n    return out\nprint(f(3), f(7))\n"),
    ("interrupt-in-loop-else", "def f():\n    out = []\n    for i in range(3):\n        for j in range(2):\n            out.append((i, j))\n        else:\n            if i == 1:\n                continue\n            out.append(('else', i))\n        out.append(('after', i))\n    return out\nprint(f())\n"),
    ("bare-fstring-statement", "log = []\nf'{log.append(1)}{log.append(2)!r:>{len(log)}}'\ndef g():\n    f'{log.append(3)}'\ng()\nprint(log)\n"),
    ("empty", ""),
    ("only-pass", "pass\n"),
    ("docstring", '"""doc"""\nx = 1\n'),
    ("walrus-in-while-test", "it = iter([1, 2, 0, 3])\nwhile (x := next(it)):\n    print(x)\n"),
    ("walrus-in-for-iter", "for x in (y := [1, 2]):\n    print(x, y)\n"),
    ("while-then-own-import-itertools", "n = 2\nwhile n:\n    n -= 1\nimport itertools\nprint(next(itertools.count(5)))\n"),
    ("own-import-importlib-then-import", "import importlib\nimport math\nprint(importlib.import_module('math') is math)\n"),
    ("nested-destructuring-sibling", "(a, b), c = (1, 2), 3\nh, (lo, *mid, hi), t = 0, [1, 2, 3, 4], 5\nprint(a, b, c, h, lo, mid, hi, t)\n"),
    ("nested-comprehension-shadow", "def f():\n    x = 'outer'\n    def g():\n        return x\n    return [[x for _ in [0]] for x in ['in']], g()\nprint(f())\n"),
    ("swap-closure", "def f():\n    lo, hi = 1, 2\n    def g():\n        return lo, hi\n    lo, hi = hi, lo\n    return g()\nprint(f())\n"),
    ("swap-class-body", "class A:\n    a, b = 1, 2\n    a, b = b, a\nprint(A.a, A.b)\n"),
    ("self-observing-tuple-assign", "total = 5\ndef report():\n    return total\ntotal, last = 0, report()\nprint(total, last)\n"),
    ("lambda-default-same-name", "class A:\n    k = 3\n    f = lambda self, k=k: k\ndef o():\n    x = 1\n    def c():\n        return x\n    return (lambda x=x: x)(), c()\nprint(A().f(), o())\n"),
    ("loop-else-return-then-more", "def f(v):\n    for i in [1]:\n        pass\n    else:\n        if v:\n            return 'early'\n        print('after')\n    return 'late'\nprint(f(1), f(0))\n"),
    ("decorated-class-2", "def d(n):\n    def w(c):\n        c.n = n\n        return c\n    return w\n@d(1)\n@d(2)\nclass A: pass\nprint(A.n)\n"),
    ("import-dotted", "import os.path\nprint(os.path.sep)\n"),
    ("for-assign-target", "for i in range(3):\n    i = i + 1\n    print(i)\n"),
    ("underscore-while", "_ = 3\nwhile _ > 0:\n    _ -= 1\nprint(_)\n"),
    ("nested-fstring", "x = 1\nprint(f'{f\"{x!r:>{3}}\"}')\n"),
    ("slice-tuple-assign", "class M:\n    def __setitem__(s, k, v): print(k, v)\nm = M()\nm[1:2, 3] = 4\nm[::2] = 5\n"),
    ("lambda-default", "f = lambda a, b=2, *c, d=4, **e: (a, b, c, d, e)\nprint(f(1))\n"),
    ("chained-compare-walrus", "print((y := 5) < 6 < (z := 7), y, z)\n"),
    ("global-in-class", "class A:\n    global gg\n    gg = 3\nprint(gg)\n"),
    ("nonlocal-chain", "def f():\n    x = 1\n    def g():\n        def h():\n            nonlocal x\n            x += 1\n        h()\n    g()\n    return x\nprint(f())\n"),
    ("decorated-class", "def d(c):\n    c.z = 1\n    return c\n@d\nclass A: pass\n"),
    ("starred-call", "def f(*a, **k): return a, k\nprint(f(*[1, 2], **{'x': 3}))\n"),
    ("conditional-import", "if True:\n    import json as j\nprint(j.dumps([1]))\n"),
    ("while-else-break", "n = 3\nwhile n:\n    n -= 1\n    if n == 1:\n        break\nelse:\n    print('no')\nprint(n)\n"),
    ("return-in-loops", "def f():\n    for i in range(3):\n        while True:\n            if i == 1:\n                return i\n            break\n    return -1\nprint(f())\n"),
    ("aug-slice-class", "class A:\n    d = [1, 2, 3]\n    d[0:1] += [9]\nprint(A.d)\n"),
    ("inf-constant", "print(1e999, -1e999, 1e999j)\n"),
    ("surrogate", "s = '\\ud800'\nprint(len(s))\n"),
    ("bytes-in-fstring", "print(f'{b\"x\"!r}')\n"),
    ("dict-set-in-fstring", "print(f'{ {1: 2}[1]}{ {3} }')\n"),
    ("many-statements", "".join(f"x{i} = {i}\n" for i in range(150))),
    ("genexp-in-class", "g = 2\nclass A:\n    s = sum(g for _ in range(3))\nprint(A.s)\n"),
    ("lambda-in-class", "class A:\n    f = lambda self, n=1: n + 1\nprint(A().f())\n"),
    ("ann-no-value", "x: int\ny: int = 2\nprint(y)\n"),
    ("unary-pow", "print(-2 ** 2, (-2) ** 2, 2 ** -1, -(2) ** -(2))\n"),
    ("attribute-of-int", "print((1).real, 1.5.real, (1).__add__(2))\n"),
]


def strip_unsupported(src):
    """real-world module with every unsupported statement replaced by `pass` (C02's stdlib stream)"""
    tree = ast.parse(src)
    supported = (ast.Expr, ast.If, ast.While, ast.For, ast.Break, ast.Continue, ast.Pass, ast.Assign, ast.AnnAssign,
                 ast.AugAssign, ast.FunctionDef, ast.Return, ast.Global, ast.Nonlocal, ast.ClassDef, ast.Import, ast.ImportFrom)

    class T(ast.NodeTransformer):
        def generic_visit(self, node):
            super().generic_visit(node)
            for f in ("body", "orelse", "finalbody"):
                blk = getattr(node, f, None)
                if isinstance(blk, list) and blk and isinstance(blk[0], ast.stmt):
                    new = []
                    for s in blk:
                        if not isinstance(s, supported):
                            new.append(ast.Pass())
                        elif isinstance(s, ast.ImportFrom) and any(a.name == "*" for a in s.names):
                            new.append(ast.Pass())
                        else:
                            new.append(s)
                    setattr(node, f, new)
            return node
    tree = T().visit(tree)

    class Y(ast.NodeTransformer):
        def visit_Yield(self, node): return ast.Constant(value=None)
        def visit_YieldFrom(self, node): return ast.Constant(value=None)
        def visit_Await(self, node): return ast.Constant(value=None)
    tree = Y().visit(tree)
    return ast.unparse(ast.fix_missing_locations(tree)) + "\n"


# ---------------------------------------------------------------- known findings
def _walrus_in_while_test(tree):
    for n in ast.walk(tree):
        if isinstance(n, ast.While) and any(isinstance(x, ast.NamedExpr) for x in ast.walk(n.test)):
            return True
    return False


def _walrus_in_loop_in_class_or_comp(tree):
    return False


def _walrus_in_for_iter(tree):
    for n in ast.walk(tree):
        if isinstance(n, ast.For) and any(isinstance(x, ast.NamedExpr) for x in ast.walk(n.iter)):
            return True
    return False


def _fstring_spec_control_char(tree):
    """a NUL, a carriage return or a lone surrogate in the literal text of an f-string format spec"""
    for n in ast.walk(tree):
        if isinstance(n, ast.FormattedValue) and n.format_spec is not None:
            for m in ast.walk(n.format_spec):
                if isinstance(m, ast.Constant) and isinstance(m.value, str) and ("\x00" in m.value or "\r" in m.value or any(0xD800 <= ord(ch) <= 0xDFFF for ch in m.value)):
                    return True
    return False


_SCOPES = (ast.FunctionDef, ast.AsyncFunctionDef, ast.Lambda, ast.ClassDef, ast.ListComp, ast.SetComp, ast.DictComp, ast.GeneratorExp)


def _bound_here(stmts, params=()):
    """names bound directly in a block of statements (not in nested scopes)"""
    out = set(params)

    def walk(n):
        if isinstance(n, (ast.FunctionDef, ast.AsyncFunctionDef, ast.ClassDef)):
            out.add(n.name)
            for d in n.decorator_list:
                walk(d)
            return
        if isinstance(n, (ast.Lambda, ast.ListComp, ast.SetComp, ast.DictComp, ast.GeneratorExp)):
            # a walrus inside a comprehension binds in the enclosing scope
            for m in ast.walk(n):
                if isinstance(m, ast.NamedExpr) and not isinstance(n, ast.Lambda):
                    out.add(m.target.id)
            return
        if isinstance(n, ast.Name) and isinstance(n.ctx, (ast.Store, ast.Del)):
            out.add(n.id)
        if isinstance(n, (ast.Import, ast.ImportFrom)):
            for al in n.names:
                out.add((al.asname or al.name).split(".")[0])
        for ch in ast.iter_child_nodes(n):
            walk(ch)
    for st in stmts:
        walk(st)
    return out


def _inner_reads(cls, kinds, skip_first_iter=True):
    """names loaded inside the scopes of the given kinds written directly in the class body (nested ones included),
    other than in the first iterable of a comprehension, and not bound by those scopes themselves"""
    reads = set()

    def loads(n, shadow):
        if isinstance(n, ast.Name):
            if isinstance(n.ctx, ast.Load) and n.id not in shadow:
                reads.add(n.id)
            return
        if isinstance(n, ast.Lambda):
            a = n.args
            sh = shadow | {x.arg for x in a.posonlyargs + a.args + a.kwonlyargs} | ({a.vararg.arg} if a.vararg else set()) | ({a.kwarg.arg} if a.kwarg else set())
            loads(n.body, sh)
            return
        if isinstance(n, (ast.ListComp, ast.SetComp, ast.DictComp, ast.GeneratorExp)):
            sh = shadow | {m.id for g in n.generators for m in ast.walk(g.target) if isinstance(m, ast.Name)}
            for ch in ast.iter_child_nodes(n):
                if isinstance(ch, ast.comprehension):
                    for f in (ch.iter, *ch.ifs):
                        loads(f, sh)
                else:
                    loads(ch, sh)
            return
        for ch in ast.iter_child_nodes(n):
            loads(ch, shadow)

    def find(n):
        if isinstance(n, (ast.FunctionDef, ast.AsyncFunctionDef, ast.ClassDef)):
            return
        if isinstance(n, kinds):
            if isinstance(n, ast.Lambda):
                loads(n, set())
            else:
                sh = {m.id for g in n.generators for m in ast.walk(g.target) if isinstance(m, ast.Name)}
                for i, g in enumerate(n.generators):
                    if i == 0:
                        find(g.iter)          # evaluated in the class body itself
                    else:
                        loads(g.iter, sh)
                    for f in g.ifs:
                        loads(f, sh)
                for f in ("elt", "key", "value"):
                    if hasattr(n, f):
                        loads(getattr(n, f), sh)
            return
        for ch in ast.iter_child_nodes(n):
            find(ch)
    for st in cls.body:
        find(st)
    return reads


def _class_comp_reads_member_312(tree):
    """KF-D72: (3.12+ host) a list / set / dict comprehension written directly in a class body reads, outside its first
    iterable, a name that the class body binds"""
    return sys.version_info >= (3, 12) and class_comp_reads_member(tree)


def class_comp_reads_member(tree):
    for n in ast.walk(tree):
        if isinstance(n, ast.ClassDef):
            if _bound_here(n.body) & _inner_reads(n, (ast.ListComp, ast.SetComp, ast.DictComp)):
                return True
    return False


def _class_in_function_inner_reads_member(tree):
    """KF-D73: a class nested in a function; a lambda / comprehension / generator expression of the class body reads a name
    that both the class body and an enclosing function bind"""
    def visit(n, fn_bound):
        if isinstance(n, (ast.FunctionDef, ast.AsyncFunctionDef)):
            a = n.args
            params = {x.arg for x in a.posonlyargs + a.args + a.kwonlyargs} | ({a.vararg.arg} if a.vararg else set()) | ({a.kwarg.arg} if a.kwarg else set())
            fn_bound = fn_bound | _bound_here(n.body, params)
        elif isinstance(n, ast.ClassDef) and fn_bound:
            if _bound_here(n.body) & fn_bound & _inner_reads(n, (ast.Lambda, ast.ListComp, ast.SetComp, ast.DictComp, ast.GeneratorExp)):
                return True
        return any(visit(ch, fn_bound) for ch in ast.iter_child_nodes(n))
    return visit(tree, frozenset())


SHAPES = {
    "walrus_in_while_test": _walrus_in_while_test,
    "walrus_in_for_iter": _walrus_in_for_iter,
    "fstring_spec_control_char": _fstring_spec_control_char,
    "class_comp_reads_member_312": _class_comp_reads_member_312,
    "class_in_function_inner_reads_member": _class_in_function_inner_reads_member,
}


def known_shapes():
    return [k for k in load_known_findings() if k.get("status") == "open"]


def match_known(known, src, verdict, pid=None, cfg=None):
    try:
        tree = ast.parse(src)
    except SyntaxError:
        return None
    for k in known:
        if pid and pid not in k.get("properties", []):
            continue
        if k.get("only_unparser") and (cfg is None or cfg[0] != k["only_unparser"]):
            continue
        sh = SHAPES.get(k.get("shape"))
        if sh and sh(tree) and verdict.startswith(k.get("signature", "fail")):
            return k["kf"]
    return None


def replay_known(ol, known, pid, observe):
    """replay the witness of every open known finding of this property on the real code;
    yields (kf id, what) for those that still fail"""
    for k in known:
        if pid not in k.get("properties", []):
            continue
        w = k.get("witness", {})
        if "source" not in w:
            continue
        cfgs = [tuple(w["config"])] if "config" in w else [("ast.unparse", "chain_call", "if_expr")]
        for cfg in cfgs:
            v, _ = observe(ol, w["source"], cfg)
            if v.startswith("fail"):
                yield k["kf"], k["what"]
                break
