"""C05 -- break / continue / return / else are lowered with exact statement-level control flow."""
import ast, json, sys
from common import Check, fresh_oneliner
import gen_skel, lower_common, gen_prog

CFG4 = [("list", "if_expr"), ("chain_call", "short_circuit"), ("list", "short_circuit"), ("chain_call", "if_expr")]
PLACEMENTS = ("module", "function", "class", "method")


def skeleton_cases(ck):
    """(placement, block) -- exhaustive up to a bound, sampled down in the quick tier, plus random bigger ones"""
    maxn, depth = (4, 3) if ck.tier == "quick" else (5, 4)
    allc = []
    for pl in PLACEMENTS:
        for b in gen_skel.enumerate_skeletons(maxn, depth, pl in ("function", "method")):
            allc.append((pl, b))
    if ck.tier == "quick":
        # all skeletons up to 3 nodes, a seeded sample of the 4-node ones
        small = [c for c in allc if count_nodes(c[1]) <= 3]
        big = [c for c in allc if count_nodes(c[1]) > 3]
        allc = small + ck.rng.sample(big, min(len(big), 1500))
    for pl in PLACEMENTS:
        for b in gen_skel.families(pl in ("function", "method")):
            allc.append((pl, b))
    n_rand = 700 if ck.tier == "quick" else 8000
    for _ in range(n_rand):
        pl = ck.rng.choice(PLACEMENTS)
        allc.append((pl, gen_skel.random_skeleton(ck.rng, ck.rng.randrange(4, 10), 4, pl in ("function", "method"))))
    return allc


def k1_extra_cases(ck):
    """structure-only cases (cheap): many more random skeletons for the tree comparison K1"""
    out = []
    n = 5000 if ck.tier == "quick" else 60000
    for _ in range(n):
        pl = ck.rng.choice(PLACEMENTS)
        out.append((pl, gen_skel.random_skeleton(ck.rng, ck.rng.randrange(4, 9), 4, pl in ("function", "method"))))
    return out


def count_nodes(block):
    n = 0
    for s in block:
        n += 1
        if s[0] in ("if", "while", "for", "def"):
            n += count_nodes(s[2]) + count_nodes(s[3])
    return n


KF_D61B = [0]
WALRUS_CONDITIONS = [
    ("global", "def f():\n    global g\n    if (g := c(0)):\n        m(1)\n    elif (g := c(2)):\n        m(3)\n    else:\n        m(4)\n    m(5)\nf()\nf()\n"),
    ("captured", "def f():\n    v = None\n    def h():\n        return v\n    for x0 in it(0):\n        if (v := c(1)):\n            m(2)\n            continue\n        m(3)\n"
                 "        if h() is not v:\n            m(99)\n    m(4)\nf()\n"),
    ("nonlocal", "def f():\n    v = None\n    def h():\n        nonlocal v\n        if (v := c(0)):\n            m(1)\n            return\n        m(2)\n    h()\n    h()\n    m(3)\nf()\n"),
    ("class-member", "class K:\n    if (w := c(0)):\n        m(1)\n    else:\n        m(2)\n    for x1 in it(1):\n        if (w := c(2)):\n            break\n        m(3)\n    else:\n        m(4)\n"),
    ("conditional-expression", "def f():\n    global g\n    m(1) if (g := c(0)) else m(2)\n    (g := c(3)) and m(4)\n    (g := c(5)) or m(6)\nf()\n"),
]


def trace_check(ol, src, cfg3, schedules):
    """the property's observable on the real code. returns None or a failure description"""
    try:
        text = ol.convert_code_string(src, configs=gen_prog.mk_configs(ol, cfg3))
    except Exception as e:
        return f"conversion raised {type(e).__name__}: {e}", None, None
    try:
        code = compile(text, "<conv>", "eval")
    except SyntaxError as e:
        return f"converted text does not compile: {e}", text, None
    src_code = compile(src, "<src>", "exec")
    for s in schedules:
        st0, ev0, res0 = gen_skel.run(src_code, "exec", s)
        st1, ev1, res1 = gen_skel.run(code, "eval", s)
        if st0 != "ok":
            continue
        if st1 != "ok":
            return f"schedule {s}: converted program raised {st1}", text, s
        if ev0 != ev1:
            if cfg3[2] == "short_circuit" and ev0 == gen_skel.collapse_retests(ev1):
                # KF-D61b: the only difference is the truth value of a *condition* taken again right away
                KF_D61B[0] += 1
                continue
            i = next((k for k in range(min(len(ev0), len(ev1))) if ev0[k] != ev1[k]), min(len(ev0), len(ev1)))
            return f"schedule {s}: traces differ at event {i}: original {ev0[i:i+4]} converted {ev1[i:i+4]}", text, s
        if res0 != res1:
            return f"schedule {s}: returned value differs: original {res0} converted {res1}", text, s
    return None, text, None


def main(argv):
    ck = Check("C05", argv)
    ol = fresh_oneliner()
    if ck.replay_file:
        return replay(ck, ol)
    b = ck.build(["OlVerif.Props.C05"])
    if not b["extract_ok"]:
        ck.broken.append("translator: " + b["log"][-300:])
    if not b["built"].get("OlVerif.Props.C05", False):
        ck.broken.append("lean: OlVerif.Props.C05 does not build: " + b["log"][-1500:])
    else:
        ck.audit("OlVerif/Audit/C05.lean")
    cases = skeleton_cases(ck)
    nsched = 2 if ck.tier == "quick" else 4
    failing = []
    k_bad = []
    # R: trace oracle on the real code
    for idx, (pl, blk) in enumerate(cases):
        src = gen_skel.source(blk, pl)
        cfgs = [CFG4[(idx + j) % 4] for j in range(2 if ck.tier == "quick" else 4)]
        for j, (w, i) in enumerate(cfgs):
            un = "oneliner" if (idx + j) % 2 else "ast.unparse"
            scheds = [(ck.seed * 101 + idx * 7 + j * 3 + t * 1009) % 100003 for t in range(nsched)]
            why, text, s = trace_check(ol, src, (un, w, i), scheds)
            ck.case(f"{pl}|{w}|{i}|{src}", nontrivial=count_nodes(blk) >= 2)
            ck.count("placement:" + pl)
            ck.count("runs", nsched)
            if why:
                failing.append((src, (un, w, i), why, text, s))
        if idx % 400 == 7:
            ck.sample({"placement": pl, "source": src, "config": list(cfgs[0])})
    # conditions that are assignment expressions on names which are not plain variables (declared global, captured by
    # a nested function, class members): the condition must still be evaluated once per visit
    for name, src in WALRUS_CONDITIONS:
        for (w, i) in CFG4:
            for un in ("ast.unparse", "oneliner"):
                why, text, s = trace_check(ol, src, (un, w, i), [3, 8, 21, 34, 55, 89])
                ck.case(f"walrus-condition|{un}|{w}|{i}|{src}", nontrivial=True)
                ck.count("walrus_conditions")
                if why:
                    failing.append((src, (un, w, i), why, text, s))
    # K1: emitted tree of the model = emitted tree of the converter
    if b["driver_ok"]:
        pairs = []
        by_src = {}
        for idx, (pl, blk) in enumerate(cases):
            src = gen_skel.source(blk, pl)
            by_src[src] = (pl, blk)
            pairs.append((src, CFG4[idx % 4]))
            if ck.tier == "thorough":
                pairs.append((src, CFG4[(idx + 1) % 4]))
        seen_src = {p[0] for p in pairs}
        for idx, (pl, blk) in enumerate(k1_extra_cases(ck)):
            src = gen_skel.source(blk, pl)
            if src not in seen_src:
                seen_src.add(src)
                by_src[src] = (pl, blk)
                pairs.append((src, CFG4[idx % 4]))
                ck.case(f"K1|{pl}|{CFG4[idx % 4]}|{src}", nontrivial=True)
        for src, cfg, ok, detail in lower_common.compare(ol, pairs):
            if ok:
                ck.count("K1_agree")
            else:
                k_bad.append((src, cfg, detail))
    else:
        ck.broken.append("lean: the driver (model) does not build")
    # K1' + K2: the *proved* object.  emit(lower(sk)) of the Lean Ctrl model = the converter's tree; the Lean executable
    # semantics of source skeleton and target IR = CPython's event traces of source and converted program
    if b["driver_ok"]:
        import leandrv
        from astjson import expr_from_json
        ctrl_cases = [(pl, blk) for (pl, blk) in cases if pl in ("module", "function") and not gen_skel.has_def(blk)]
        if ck.tier == "quick":
            ctrl_cases = ctrl_cases[:1500]
        reqs = []
        meta = []
        for idx, (pl, blk) in enumerate(ctrl_cases):
            cfg = CFG4[idx % 4]
            scheds = [(ck.seed * 131 + idx * 7 + t * 1009) % 100003 for t in range(2)]
            reqs.append({"op": "ctrl", "cfg": list(cfg), "placement": pl, "sk": gen_skel.sk_json(blk), "schedules": scheds})
            meta.append((pl, blk, cfg))
        outs = leandrv.run_batch(reqs)
        for (pl, blk, cfg), r in zip(meta, outs):
            src = gen_skel.source(blk, pl)
            if "error" in r:
                k_bad.append((src, cfg, "Ctrl model: " + str(r["error"])[:200])); continue
            real = lower_common.real_convert(ol, src, cfg)
            if real[0] != "ok":
                k_bad.append((src, cfg, "converter refused a legal skeleton: " + str(real[1]))); continue
            if lower_common.canon_dump(real[1]) != lower_common.canon_dump(expr_from_json(r["tree"])):
                k_bad.append((src, cfg, "K1': emit(lowerSk) differs from the converter's tree"))
            else:
                ck.count("K1prime_agree")
            try:
                text = ol.convert_code_string(src, configs=gen_prog.mk_configs(ol, ("oneliner",) + cfg))
                code1 = compile(text, "<conv>", "eval")
            except Exception as e:
                continue
            code0 = compile(src, "<src>", "exec")
            for run in r["runs"]:
                if "fuel" in run["src"] or "fuel" in run["tgt"]:
                    ck.count("K2_out_of_fuel"); continue
                st0, ev0, res0 = gen_skel.run(code0, "exec", run["s"])
                st1, ev1, res1 = gen_skel.run(code1, "eval", run["s"])
                if st0 != "ok" or st1 != "ok":
                    continue
                if run["src"]["ev"] != gen_skel.model_events(ev0):
                    k_bad.append((src, cfg, f"K2: Lean source semantics trace differs from CPython exec (schedule {run['s']})"))
                elif run["tgt"]["ev"] != gen_skel.model_events(ev1):
                    k_bad.append((src, cfg, f"K2: Lean target semantics trace differs from CPython eval of the converted program (schedule {run['s']})"))
                elif pl == "function" and run["tgt"]["rv"] != gen_skel.res_json(res1):
                    k_bad.append((src, cfg, f"K2: return cell differs (schedule {run['s']})"))
                else:
                    ck.count("K2_traces_agree")
    if k_bad and not failing:
        # failing-input search, step (ii): the inputs on which model and code disagree, on the real code,
        # under every option combination and more schedules
        # richest first: nested loops with interrupts at several levels need more than the small skeletons
        def richness(item):
            src = item[0]
            return (src.count("while ") + src.count("for "), src.count("break") + src.count("continue") + src.count("return"), len(src))
        ranked = sorted(k_bad, key=richness, reverse=True)
        pool = ranked[:200] + k_bad[:60]
        cands = []
        for src, cfg, detail in pool:
            if src in by_src:
                pl, blk = by_src[src]
                cands.append(gen_skel.source(gen_skel.number(gen_skel.densify(blk)), pl))
            cands.append(src)
        cands = list(dict.fromkeys(cands))
        for src in cands:
            hit = False
            for un in ("ast.unparse", "oneliner"):
                for (w, i) in CFG4:
                    why, text, s = trace_check(ol, src, (un, w, i), list(range(1, 13)))
                    ck.count("search_runs", 12)
                    if why:
                        failing.append((src, (un, w, i), why, text, s))
                        hit = True
                        break
                if hit:
                    break
            if len(failing) >= 3:
                break
    if k_bad:
        ck.broken.append(f"correspondence K1(lowerFull = convert): {len(k_bad)} skeletons differ, first: {k_bad[0][0]!r} {k_bad[0][1]}: {k_bad[0][2][:300]}")
    if KF_D61B[0]:
        from common import load_known_findings
        for k in load_known_findings("C05"):
            if k["kf"] == "KF-D61b" and k.get("status") == "open":
                ck.known(k["kf"], k["what"])
                ck.count("attributed_to_KF-D61b", KF_D61B[0])
                break
        else:
            ck.broken.append("a repeated truth test of a condition was observed but KF-D61b is not listed as open")
    failing.sort(key=lambda f: len(f[0]))
    for src, cfg, why, text, s in failing[:3]:
        ck.violation({"kind": "trace", "source": src, "config": list(cfg), "schedule": s, "observed": why, "converted": text,
                      "expected": "same sequence of marker / condition / iterable / __iter__ / __next__ / return-value events and same returned value",
                      "broken_obligations": ck.broken})
    if ck.broken and not failing:
        ck.violation({"kind": "obligation", "broken_obligations": ck.broken,
                      "searched": f"{len(cases)} skeletons x configurations x {nsched} schedules on the real converter: all traces equal",
                      "k_disagreements": [{"source": s, "config": list(c), "detail": d[:400]} for s, c, d in k_bad[:10]]}, no_input=True)
    return ck.finish(
        rule="control-flow skeletons over {marker, pass, break, continue, return, return v, if, while, for} with and without else: "
             "exhaustive up to 3 (quick) / 5 (thorough) statement nodes, seeded sample of the next size, random skeletons of 5-10 nodes; "
             "x module / function / class / method placement x wrapper x if-style x both unparsers x branch/length schedules "
             "(falsy and truthy values of several types, iterables of length 0-3); distinct by (placement, config, source); "
             "non-trivial = at least 2 statement nodes",
        extra={"R_failures": len(failing), "K_disagreements": len(k_bad), "skeletons": len(cases), "schedules_per_case": nsched},
        assumptions=["the semantics of the three library idioms (takewhile/count comprehension, list comprehension, iterator wrapper) in the Lean target semantics is modelled; it is compared with CPython on every generated skeleton (K2/R)"])


def replay(ck, ol):
    r = json.load(open(ck.replay_file))
    if "source" not in r:
        print("replay file names a broken obligation, no input:", r.get("broken_obligations")); return 0
    why, text, s = trace_check(ol, r["source"], tuple(r["config"]), [r["schedule"]] if r.get("schedule") is not None else [1, 2, 3])
    print(r["source"]); print("converted:", text); print("observed:", why or "traces equal")
    return 1 if why else 0


if __name__ == "__main__":
    sys.exit(main(sys.argv[1:]))
