"""C17 -- long and deeply nested programs convert without exhausting recursion."""
import io, json, sys, contextlib
from common import Check, fresh_oneliner
import gen_prog, lower_common, par

OL = None


def family(name, n):
    if name == "statements":
        return "".join(f"x{i} = {i}\n" for i in range(n)) + f"print(x0 + x{n-1})\n"
    if name == "statements-in-function":
        return "def f():\n" + "".join(f"    x{i} = {i}\n" for i in range(n)) + f"    return x0 + x{n-1}\nprint(f())\n"
    if name == "statements-in-loop":
        return "t = 0\nfor i in range(2):\n" + "".join(f"    t += {i % 3}\n" for i in range(n)) + "print(t)\n"
    if name == "elif-chain":
        return "v = -1\nif v == 0:\n    print(0)\n" + "".join(f"elif v == {i}:\n    print({i})\n" for i in range(1, n)) + "else:\n    print('none')\n"
    if name == "dispatch-return":
        return "def f(v):\n    if v == 0:\n        return 0\n" + "".join(f"    elif v == {i}:\n        return {i}\n" for i in range(1, n)) + "    else:\n        return -1\nprint(f(3), f(-5))\n"
    if name == "dispatch-continue":
        return "t = 0\nfor v in [0, 2, -1]:\n    if v == 0:\n        continue\n" + "".join(f"    elif v == {i}:\n        t += {i}\n        continue\n" for i in range(1, n)) + "    else:\n        break\nprint(t)\n"
    if name == "binop-chain":
        return "s = " + " + ".join("1" for _ in range(n)) + "\nprint(s)\n"
    if name.startswith("op-chain:"):
        # a chain of one binary operator (left-nested in the tree; ** right-nested), unparenthesised in the source
        op = name.split(":", 1)[1]
        operand = {"**": "1", "<<": "0", ">>": "0", "//": "1", "%": "7", "@": "M", "/": "1"}.get(op, "1")
        pre = "class _M:\n    def __matmul__(s, o):\n        return s\nM = _M()\n" if op == "@" else ""
        first = {"<<": "1", ">>": "4"}.get(op, operand)
        return pre + "s = " + f" {op} ".join([first] + [operand] * (n - 1)) + "\nprint(type(s).__name__, s if isinstance(s, (int, float)) and abs(s) < 10 ** 6 else 0)\n"
    if name == "compare-chain":
        return "s = " + " <= ".join("1" for _ in range(n)) + "\nprint(s)\n"
    if name == "unary-chain":
        return "s = " + "- " * n + "1\nt = " + "not " * n + "1\nprint(s, t)\n"
    if name == "boolop-chain":
        return "s = " + " or ".join("0" for _ in range(n)) + "\nprint(s)\n"
    if name == "attribute-chain":
        return "class O:\n    pass\no = O()\no.a = o\nv = o" + ".a" * n + "\nprint(v is o)\n"
    if name == "call-chain":
        return "def f():\n    return f\nv = f" + "()" * n + "\nprint(v is f)\n"
    if name == "statements-after-break":
        # a flat block in which many statements follow a conditional break / continue / return (one shared guard)
        return "t = 0\nfor i in range(3):\n    if i == 2:\n        break\n" + "".join(f"    t += {k % 3}\n" for k in range(n)) + "print(t)\n"
    if name == "statements-after-continue":
        return "t = 0\nn = 0\nwhile n < 3:\n    n += 1\n    if n == 2:\n        continue\n" + "".join(f"    t += {k % 3}\n" for k in range(n)) + "print(t)\n"
    if name == "statements-after-return":
        return "def f(v):\n    t = 0\n    if v:\n        return -1\n" + "".join(f"    t += {k % 3}\n" for k in range(n)) + "    return t\nprint(f(0), f(1))\n"
    if name == "lambda-chain-in-class":
        return "g = 7\nclass K:\n    f = " + "lambda: " * n + "g\nv = K.f\nfor _ in range(" + str(n) + "):\n    v = v()\nprint(v)\n"
    if name == "lambda-chain-in-function":
        return "def mk():\n    g = 7\n    return " + "lambda: " * n + "g\nv = mk()\nfor _ in range(" + str(n) + "):\n    v = v()\nprint(v)\n"
    if name == "genexp-chain-in-class":
        return "g = [7]\nclass K:\n    f = " + "(" * n + "g" + " for _ in [0])" * n + "\nv = K.f\nfor _ in range(" + str(n) + "):\n    v = next(v)\nprint(v)\n"
    if name == "huge-int-literal":
        # 4 n hexadecimal digits: beyond about 3 570 the value has more than 4 300 decimal digits
        return "x = 0x" + "f" * (4 * n) + "\nprint(x.bit_length())\n"
    if name == "nested-def":
        L = [" " * i + f"def f{i}():" for i in range(n)] + [" " * n + "return 1"] + [" " * i + f"return f{i}()" for i in range(n - 1, 0, -1)] + ["print(f0())"]
        return "\n".join(L) + "\n"
    if name == "nested-if":
        return "".join("    " * i + "if True:\n" for i in range(n)) + "    " * n + "print('deep')\n"
    if name == "nested-for":
        return "".join("    " * i + f"for i{i} in [0]:\n" for i in range(n)) + "    " * n + "print('deep')\n"
    if name == "list-display":
        return "l = [" + ", ".join(str(i) for i in range(n)) + "]\nprint(len(l))\n"
    if name == "nested-parens-call":
        return "v = " + "abs(" * n + "1" + ")" * n + "\nprint(v)\n"
    if name.startswith("deep-expr-in:"):
        # a long operator chain in every kind of expression position (each position has its own code path)
        e = " + ".join("1" for _ in range(n))
        return DEEP_CONTEXTS[name.split(":", 1)[1]].replace("{E}", e)
    raise ValueError(name)


DEEP_CONTEXTS = {
    "aug-name": "s = 0\ns += {E}\nprint(s)\n",
    "aug-subscript": "d = [0]\nd[0] += {E}\nprint(d)\n",
    "aug-attribute": "class O:\n    a = 0\no = O()\no.a += {E}\nprint(o.a)\n",
    "aug-in-function": "def f():\n    s = 0\n    s += {E}\n    return s\nprint(f())\n",
    "aug-in-class": "class K:\n    s = 0\n    s += {E}\nprint(K.s)\n",
    "ann-assign": "s: int = {E}\nprint(s)\n",
    "chained-assign": "a = b = {E}\nprint(a, b)\n",
    "unpack-value": "a, b = {E}, 2\nprint(a, b)\n",
    "subscript-target-index": "d = {}\nd[{E}] = 1\nprint(d)\n",
    "return": "def f():\n    return {E}\nprint(f())\n",
    "call-arg": "print({E})\n",
    "call-kwarg": "print(1, end=str({E}) + '\\n')\n",
    "if-test": "if {E}:\n    print('t')\n",
    "while-test": "n = 0\nwhile n < {E}:\n    n += 1000000\nprint(n)\n",
    "for-iter": "for i in [{E}]:\n    print(i)\n",
    "default": "def f(a={E}, *, k={E}):\n    return a + k\nprint(f())\n",
    "decorator": "def d(n):\n    return lambda f: f\n@d({E})\ndef f():\n    return 1\nprint(f())\n",
    "class-base-keyword": "class M(type):\n    def __new__(m, n, b, ns, **k):\n        return super().__new__(m, n, b, ns)\n    def __init__(c, n, b, ns, **k):\n        pass\nclass K(metaclass=M, k={E}):\n    pass\nprint(K.__name__)\n",
    "lambda-body": "f = lambda: {E}\nprint(f())\n",
    "comprehension-elt": "print([{E} for _ in range(1)])\n",
    "fstring-field": "print(f'{{E}}')\n",
    "walrus": "print((w := {E}), w)\n",
    "expression-statement": "{E}\nprint('done')\n",
    "class-body-value": "class K:\n    v = {E}\nprint(K.v)\n",
    "nonlocal-store": "def f():\n    v = 0\n    def g():\n        nonlocal v\n        v = {E}\n    g()\n    return v\nprint(f())\n",
    "global-store": "def f():\n    global gv\n    gv = {E}\nf()\nprint(gv)\n",
}

FAMILIES = ["statements", "statements-in-function", "statements-in-loop", "elif-chain", "dispatch-return", "dispatch-continue", "binop-chain", "boolop-chain", "attribute-chain",
            "call-chain", "nested-if", "nested-for", "list-display", "nested-parens-call", "statements-after-break", "statements-after-continue",
            "statements-after-return", "lambda-chain-in-class", "lambda-chain-in-function", "genexp-chain-in-class", "huge-int-literal", "nested-def", "compare-chain", "unary-chain"] + \
           ["op-chain:" + op for op in ("-", "*", "/", "//", "%", "@", "**", "<<", ">>", "&", "|", "^", "and")] + ["deep-expr-in:" + c for c in DEEP_CONTEXTS]
DEEP = {"nested-if": 90, "nested-for": 18, "nested-parens-call": 150, "genexp-chain-in-class": 150, "nested-def": 99}   # CPython's own limits for the source are near these


def run(src, mode):
    buf = io.StringIO()
    try:
        code = compile(src, "<p>", mode)
    except RecursionError:
        return "RecursionError(compile)", ""
    except MemoryError:
        return "MemoryError(compile)", ""
    except SyntaxError as e:
        return "SyntaxError(compile):" + str(e.msg)[:60], ""
    try:
        with contextlib.redirect_stdout(buf):
            (exec if mode == "exec" else eval)(code, {"__name__": "__main__"})
    except RecursionError:
        return "RecursionError(run)", ""
    except Exception as e:
        return type(e).__name__ + "(run)", ""
    return "ok", buf.getvalue()


def work(job):
    fam, n, cfg = job
    src = family(fam, n)
    s0, out0 = run(src, "exec")
    if s0 != "ok":
        return (fam, n, cfg, "source:" + s0, None)
    try:
        text = OL.convert_code_string(src, configs=gen_prog.mk_configs(OL, cfg))
    except RecursionError:
        return (fam, n, cfg, "fail:convert RecursionError", None)
    except Exception as e:
        return (fam, n, cfg, f"fail:convert {type(e).__name__}", None)
    s1, out1 = run(text, "eval")
    if s1 != "ok":
        return (fam, n, cfg, "fail:converted " + s1, None)
    if out0 != out1:
        return (fam, n, cfg, "fail:stdout differs", None)
    return (fam, n, cfg, "ok", len(text))


def known_shape(fam, n, cfg, verdict):
    """attribute a failing run to one of the listed known findings (by option, family and failure kind)"""
    if cfg[1] == "chain_call" and fam in ("statements", "statements-in-function", "statements-in-loop", "statements-after-break", "statements-after-continue",
                                        "statements-after-return") and "RecursionError" in verdict:
        return "KF-D51"     # the chain-call wrapper nests one call per consecutive statement of a block
    if cfg[0] == "ast.unparse" and verdict == "fail:convert RecursionError" and fam in ("elif-chain", "dispatch-return", "dispatch-continue", "binop-chain", "boolop-chain", "attribute-chain", "call-chain", "lambda-chain-in-class", "lambda-chain-in-function", "genexp-chain-in-class", "compare-chain", "unary-chain") + tuple("deep-expr-in:" + c for c in DEEP_CONTEXTS) or (cfg[0] == "ast.unparse" and verdict == "fail:convert RecursionError" and fam.startswith("op-chain:")):
        return "KF-D53"     # the stdlib unparser is recursive: output nested deeper than the recursion limit
    if fam == "huge-int-literal" and "ValueError" in verdict:
        return "KF-D64"     # repr() of an int with more than 4 300 decimal digits is refused by the interpreter (both unparsers use it)
    if fam == "nested-def" and cfg[0] == "ast.unparse" and verdict == "fail:convert RecursionError":
        return "KF-D53"
    if fam == "nested-def" and cfg[1] == "list" and n >= 97 and "MemoryError" in verdict:
        return "KF-D66"     # 97 - 99 nested defs (the source's own limit is 100 levels): the list wrapper's brackets overflow the parser's stack
    if cfg[2] == "short_circuit" and fam in ("elif-chain", "dispatch-return", "dispatch-continue") and ("MemoryError(compile)" in verdict or "RecursionError" in verdict):
        return "KF-D54"     # the short-circuit style adds three operator levels per elif: the parser's stack overflows
    return None


def main(argv):
    global OL
    ck = Check("C17", argv)
    ol = OL = fresh_oneliner()
    if ck.replay_file:
        return replay(ck, ol)
    b = ck.build(["OlVerif.Props.C17"])
    if not b["built"].get("OlVerif.Props.C17", False):
        ck.broken.append("lean: OlVerif.Props.C17 does not build: " + b["log"][-1200:])
    else:
        ck.audit("OlVerif/Audit/C17.lean")
    sched = [10, 60, 300, 1200] if ck.tier == "quick" else [10, 60, 300, 1200, 3000, 8000, 20000]
    jobs = []
    for fam in FAMILIES:
        for n in sched:
            n2 = min(n, DEEP.get(fam, n))
            cfgs = gen_prog.CONFIGS if ck.tier == "thorough" else [gen_prog.CONFIGS[(len(fam) + n2 + j * 3) % 8] for j in range(3)] + [("oneliner", "list", "if_expr")]
            for cfg in sorted(set(cfgs)):
                if (fam, n2, cfg) not in [(j[0], j[1], j[2]) for j in jobs]:
                    jobs.append((fam, n2, cfg))
    results = par.pmap_isolated(work, jobs)
    failing = []
    thresholds = {}
    kf_hit = {}
    for fam, n, cfg, verdict, size in results:
        ck.case(f"{fam}|{n}|{cfg}", nontrivial=n >= 60)
        ck.count("family:" + fam)
        ck.count("verdict:" + verdict.split(":")[0])
        if verdict.startswith("fail"):
            kf = known_shape(fam, n, cfg, verdict)
            if kf:
                kf_hit.setdefault(kf, []).append((fam, n, cfg, verdict))
                key = f"{kf}|{fam}|{cfg[0]}|{cfg[1]}|{cfg[2]}"
                thresholds[key] = min(thresholds.get(key, 10 ** 9), n)
            else:
                failing.append((fam, n, cfg, verdict))
        if len(ck.samples) < 6 and n == sched[1]:
            ck.sample({"family": fam, "N": n, "config": list(cfg), "verdict": verdict, "output_chars": size})
    # K: the model's emitted tree for small members of every family
    k_bad = []
    if b["driver_ok"]:
        pairs = [(family(f, min(25, DEEP.get(f, 25))), (w, i)) for f in FAMILIES for (w, i) in (("list", "if_expr"), ("chain_call", "short_circuit"))]
        for src, cfg, ok, detail in lower_common.compare(ol, pairs):
            if ok:
                ck.count("K_agree")
            else:
                k_bad.append((src, cfg, detail))
    if k_bad:
        ck.broken.append(f"correspondence K(lowerFull = convert): {len(k_bad)} family members differ, first: {k_bad[0][2][:300]}")
    kfs = {k["kf"]: k for k in __import__("common").load_known_findings("C17")}
    for kf, hits in sorted(kf_hit.items()):
        if kf not in kfs:
            for h in hits[:2]:
                failing.append(h)
            continue
        ck.known(kf, kfs[kf]["what"] + " -- smallest failing N seen on this run: " + str(min(h[1] for h in hits)))
    failing.sort(key=lambda f: f[1])
    for fam, n, cfg, verdict in failing[:3]:
        ck.violation({"kind": "size", "family": fam, "N": n, "config": list(cfg), "observed": verdict,
                      "expected": "source compiles and runs, so conversion + compile + eval must succeed with the same output", "broken_obligations": ck.broken})
    if ck.broken and not failing:
        ck.violation({"kind": "obligation", "broken_obligations": ck.broken, "searched": f"{len(jobs)} (family, N, config) runs"}, no_input=True)
    return ck.finish(
        rule="program families parameterised by N (consecutive statements at module / function / loop level, elif chains, chained binary and boolean operators, "
             "attribute and call chains, nested if / for blocks, long displays, nested calls) for N in a geometric schedule (capped near CPython's own limit for "
             "the nested families) x option combinations; each run in its own forked process; observed: source compile+run vs convert+compile+eval+stdout; "
             "distinct by (family, N, config); non-trivial = N >= 60",
        extra={"R_failures": len(failing), "K_disagreements": len(k_bad), "runs": len(jobs), "known_thresholds": thresholds},
        assumptions=["whether a given nesting height exhausts the interpreter's recursion limit or C stack is run-time behaviour that no model here derives; it is measured"])


def replay(ck, ol):
    global OL
    OL = ol
    r = json.load(open(ck.replay_file))
    if "family" not in r:
        print("replay file names a broken obligation, no input:", r.get("broken_obligations")); return 0
    res = work((r["family"], r["N"], tuple(r["config"])))
    print(res)
    return 1 if res[3].startswith("fail") else 0


if __name__ == "__main__":
    sys.exit(main(sys.argv[1:]))
