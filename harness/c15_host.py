"""Executed by each *host* interpreter (3.10 .. 3.13): convert the programs under all option combinations.
usage: python c15_host.py <repo> in.json out.json"""
import json, sys
sys.path.insert(0, sys.argv[1])
import oneliner
from oneliner.config import Configs

progs = json.load(open(sys.argv[2]))
out = []
for src in progs:
    texts = {}
    for u in ("ast.unparse", "oneliner"):
        for w in ("list", "chain_call"):
            for i in ("if_expr", "short_circuit"):
                c = Configs(); c.unparser = u; c.expr_wrapper = w; c.if_style = i
                try:
                    texts["%s|%s|%s" % (u, w, i)] = oneliner.convert_code_string(src, configs=c)
                except Exception as e:
                    texts["%s|%s|%s" % (u, w, i)] = {"raised": type(e).__name__}
    out.append(texts)
json.dump({"version": list(sys.version_info[:3]), "texts": out}, open(sys.argv[3], "w"))
