"""Run the Lean driver (native executable, fallback: interpreter) on a batch of requests."""
import json, os, subprocess

ROOT = os.path.dirname(os.path.dirname(os.path.abspath(__file__)))
LEAN = os.path.join(ROOT, "lean")
EXE = os.path.join(LEAN, ".lake", "build", "bin", "driver")


def run_batch(reqs, timeout=1800):
    """reqs: list of JSON-able objects; returns list of decoded replies (same length)."""
    if not reqs:
        return []
    data = "\n".join(json.dumps(r, ensure_ascii=True, separators=(",", ":")) for r in reqs) + "\n"
    if os.path.exists(EXE):
        cmd = [EXE]
    else:
        cmd = ["lake", "env", "lean", "--run", "Driver.lean"]
    p = subprocess.run(cmd, input=data.encode("utf8"), stdout=subprocess.PIPE, stderr=subprocess.PIPE, cwd=LEAN, timeout=timeout)
    if p.returncode != 0:
        raise RuntimeError(f"lean driver failed rc={p.returncode}: {p.stderr.decode('utf8', 'replace')[-2000:]}")
    lines = p.stdout.decode("utf8").split("\n")
    if lines and lines[-1] == "":
        lines.pop()
    if len(lines) != len(reqs):
        raise RuntimeError(f"lean driver: {len(reqs)} requests, {len(lines)} replies; stderr={p.stderr.decode('utf8','replace')[-1000:]}")
    return [json.loads(l) for l in lines]


def cps(x):
    """decode a code-point string as sent by the driver (string, or list of ints when it holds surrogates)"""
    if isinstance(x, str):
        return x
    return "".join(chr(c) for c in x)
