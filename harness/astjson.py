"""ast <-> JSON encoding shared with lean/OlVerif/Json.lean."""
import ast


def const_to_json(v):
    if v is None: return ["N", None]
    if v is True: return ["T", None]
    if v is False: return ["F", None]
    if v is ...: return ["E", None]
    if isinstance(v, int): return ["i", str(v)]
    if isinstance(v, str): return ["s", [ord(c) for c in v]]
    if isinstance(v, bytes): return ["b", repr(v)]
    if isinstance(v, float): return ["f", repr(v)]
    if isinstance(v, complex): return ["c", repr(v)]
    raise TypeError(f"constant {v!r}")


def args_to_json(a):
    return [
        [x.arg for x in a.posonlyargs], [x.arg for x in a.args],
        a.vararg.arg if getattr(a, "vararg", None) else None,
        [x.arg for x in a.kwonlyargs],
        [None if d is None else expr_to_json(d) for d in a.kw_defaults],
        a.kwarg.arg if getattr(a, "kwarg", None) else None,
        [expr_to_json(d) for d in a.defaults],
    ]


def comp_to_json(g):
    return [expr_to_json(g.target), expr_to_json(g.iter), [expr_to_json(i) for i in g.ifs], 1 if g.is_async else 0]


def opt(e):
    return None if e is None else expr_to_json(e)


def expr_to_json(e):
    # explicit stack would be safer for very deep trees; recursion is fine for the sizes used
    t = type(e).__name__
    L = lambda xs: [expr_to_json(x) for x in xs]
    if t == "Name": return ["Name", e.id]
    if t == "Constant": return ["Constant"] + const_to_json(e.value)
    if t == "JoinedStr": return ["JoinedStr", L(e.values)]
    if t == "FormattedValue": return ["FormattedValue", expr_to_json(e.value), e.conversion, opt(e.format_spec)]
    if t in ("List", "Tuple", "Set"): return [t, L(e.elts)]
    if t == "Dict": return ["Dict", [opt(k) for k in e.keys], L(e.values)]
    if t == "Starred": return ["Starred", expr_to_json(e.value)]
    if t == "Attribute": return ["Attribute", expr_to_json(e.value), e.attr]
    if t == "Subscript": return ["Subscript", expr_to_json(e.value), expr_to_json(e.slice)]
    if t == "Slice": return ["Slice", opt(getattr(e, "lower", None)), opt(getattr(e, "upper", None)), opt(getattr(e, "step", None))]
    if t == "Call": return ["Call", expr_to_json(e.func), L(e.args), [[k.arg, expr_to_json(k.value)] for k in e.keywords]]
    if t == "BinOp": return ["BinOp", expr_to_json(e.left), type(e.op).__name__, expr_to_json(e.right)]
    if t == "BoolOp": return ["BoolOp", type(e.op).__name__, L(e.values)]
    if t == "UnaryOp": return ["UnaryOp", type(e.op).__name__, expr_to_json(e.operand)]
    if t == "Compare": return ["Compare", expr_to_json(e.left), [type(o).__name__ for o in e.ops], L(e.comparators)]
    if t == "IfExp": return ["IfExp", expr_to_json(e.test), expr_to_json(e.body), expr_to_json(e.orelse)]
    if t == "Lambda": return ["Lambda", args_to_json(e.args), expr_to_json(e.body)]
    if t == "NamedExpr": return ["NamedExpr", e.target.id, expr_to_json(e.value)]
    if t in ("ListComp", "SetComp", "GeneratorExp"): return [t, expr_to_json(e.elt), [comp_to_json(g) for g in e.generators]]
    if t == "DictComp": return ["DictComp", expr_to_json(e.key), expr_to_json(e.value), [comp_to_json(g) for g in e.generators]]
    if t == "Yield": return ["Yield", opt(e.value)]
    if t == "YieldFrom": return ["YieldFrom", expr_to_json(e.value)]
    if t == "Await": return ["Await", expr_to_json(e.value)]
    raise TypeError(f"expr kind {t}")


def alias_to_json(a):
    return [a.name, a.asname]


OTHER_BODY_FIELDS = ("body", "orelse", "finalbody")


def stmt_to_json(s):
    t = type(s).__name__
    B = lambda xs: [stmt_to_json(x) for x in xs]
    if t == "Expr": return ["Expr", expr_to_json(s.value)]
    if t == "If": return ["If", expr_to_json(s.test), B(s.body), B(s.orelse)]
    if t == "While": return ["While", expr_to_json(s.test), B(s.body), B(s.orelse)]
    if t == "For": return ["For", expr_to_json(s.target), expr_to_json(s.iter), B(s.body), B(s.orelse)]
    if t in ("Break", "Continue", "Pass"): return [t]
    if t == "Assign": return ["Assign", [expr_to_json(x) for x in s.targets], expr_to_json(s.value)]
    if t == "AnnAssign": return ["AnnAssign", expr_to_json(s.target), expr_to_json(s.annotation), opt(s.value)]
    if t == "AugAssign": return ["AugAssign", expr_to_json(s.target), type(s.op).__name__, expr_to_json(s.value)]
    if t == "FunctionDef": return ["FunctionDef", s.name, args_to_json(s.args), B(s.body), [expr_to_json(d) for d in s.decorator_list], s.lineno]
    if t == "Return": return ["Return", opt(s.value)]
    if t == "Global": return ["Global", list(s.names)]
    if t == "Nonlocal": return ["Nonlocal", list(s.names)]
    if t == "ClassDef": return ["ClassDef", s.name, [expr_to_json(b) for b in s.bases], [[k.arg, expr_to_json(k.value)] for k in s.keywords], B(s.body), [expr_to_json(d) for d in s.decorator_list], s.lineno]
    if t == "Import": return ["Import", [alias_to_json(a) for a in s.names]]
    if t == "ImportFrom": return ["ImportFrom", s.module, [alias_to_json(a) for a in s.names], s.level]
    # every other statement kind: keep bodies and directly contained expressions
    bodies = []
    exprs = []
    for f in s._fields:
        v = getattr(s, f, None)
        if isinstance(v, list) and v and isinstance(v[0], ast.stmt):
            bodies.append(B(v))
        elif isinstance(v, list):
            for x in v:
                if isinstance(x, ast.expr):
                    exprs.append(x)
                elif isinstance(x, ast.excepthandler):
                    bodies.append(B(x.body))
                elif isinstance(x, ast.withitem):
                    exprs.append(x.context_expr)
                elif type(x).__name__ == "match_case":
                    bodies.append(B(x.body))
        elif isinstance(v, ast.expr):
            exprs.append(v)
    out_exprs = []
    for x in exprs:
        try:
            out_exprs.append(expr_to_json(x))
        except TypeError:
            pass
    return ["Other", t, bodies, out_exprs]


# ---------------------------------------------------------------- decoding

def const_from_json(tag, p):
    if tag == "N": return None
    if tag == "T": return True
    if tag == "F": return False
    if tag == "E": return ...
    if tag == "i": return int(p)
    if tag == "s": return "".join(chr(c) for c in p)
    if tag in ("b", "f", "c"):
        return eval(p, {"inf": float("inf"), "nan": float("nan"), "infj": complex(0, float("inf")), "nanj": complex(0, float("nan"))})
    raise ValueError(tag)


def args_from_json(a):
    mk = lambda n: ast.arg(arg=n)
    return ast.arguments(
        posonlyargs=[mk(n) for n in a[0]], args=[mk(n) for n in a[1]],
        vararg=mk(a[2]) if a[2] is not None else None,
        kwonlyargs=[mk(n) for n in a[3]],
        kw_defaults=[None if d is None else expr_from_json(d) for d in a[4]],
        kwarg=mk(a[5]) if a[5] is not None else None,
        defaults=[expr_from_json(d) for d in a[6]])


def comp_from_json(g):
    return ast.comprehension(target=expr_from_json(g[0]), iter=expr_from_json(g[1]), ifs=[expr_from_json(i) for i in g[2]], is_async=g[3])


def expr_from_json(j):
    if j is None: return None
    k = j[0]
    E = expr_from_json
    L = lambda xs: [E(x) for x in xs]
    ld = ast.Load()
    if k == "Name": return ast.Name(id=j[1], ctx=ld)
    if k == "Constant": return ast.Constant(value=const_from_json(j[1], j[2]))
    if k == "JoinedStr": return ast.JoinedStr(values=L(j[1]))
    if k == "FormattedValue": return ast.FormattedValue(value=E(j[1]), conversion=int(j[2]), format_spec=E(j[3]))
    if k in ("List", "Tuple"): return getattr(ast, k)(elts=L(j[1]), ctx=ld)
    if k == "Set": return ast.Set(elts=L(j[1]))
    if k == "Dict": return ast.Dict(keys=[E(x) for x in j[1]], values=L(j[2]))
    if k == "Starred": return ast.Starred(value=E(j[1]), ctx=ld)
    if k == "Attribute": return ast.Attribute(value=E(j[1]), attr=j[2], ctx=ld)
    if k == "Subscript": return ast.Subscript(value=E(j[1]), slice=E(j[2]), ctx=ld)
    if k == "Slice": return ast.Slice(lower=E(j[1]), upper=E(j[2]), step=E(j[3]))
    if k == "Call": return ast.Call(func=E(j[1]), args=L(j[2]), keywords=[ast.keyword(arg=a, value=E(v)) for a, v in j[3]])
    if k == "BinOp": return ast.BinOp(left=E(j[1]), op=getattr(ast, j[2])(), right=E(j[3]))
    if k == "BoolOp": return ast.BoolOp(op=getattr(ast, j[1])(), values=L(j[2]))
    if k == "UnaryOp": return ast.UnaryOp(op=getattr(ast, j[1])(), operand=E(j[2]))
    if k == "Compare": return ast.Compare(left=E(j[1]), ops=[getattr(ast, o)() for o in j[2]], comparators=L(j[3]))
    if k == "IfExp": return ast.IfExp(test=E(j[1]), body=E(j[2]), orelse=E(j[3]))
    if k == "Lambda": return ast.Lambda(args=args_from_json(j[1]), body=E(j[2]))
    if k == "NamedExpr": return ast.NamedExpr(target=ast.Name(id=j[1], ctx=ast.Store()), value=E(j[2]))
    if k in ("ListComp", "SetComp", "GeneratorExp"): return getattr(ast, k)(elt=E(j[1]), generators=[comp_from_json(g) for g in j[2]])
    if k == "DictComp": return ast.DictComp(key=E(j[1]), value=E(j[2]), generators=[comp_from_json(g) for g in j[3]])
    if k == "Yield": return ast.Yield(value=E(j[1]))
    if k == "YieldFrom": return ast.YieldFrom(value=E(j[1]))
    if k == "Await": return ast.Await(value=E(j[1]))
    raise ValueError(k)
