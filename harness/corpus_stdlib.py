"""Expressions / modules of the standard library of the interpreter running the harness."""
import ast, os, sysconfig


def files(limit=None):
    root = sysconfig.get_paths()["stdlib"]
    out = []
    for dp, dn, fn in os.walk(root):
        dn[:] = [d for d in dn if d not in ("test", "tests", "idlelib", "lib2to3", "site-packages", "__pycache__")]
        for f in sorted(fn):
            if f.endswith(".py"):
                out.append(os.path.join(dp, f))
    out.sort()
    return out[:limit] if limit else out


def expressions(limit=None, maxnodes=400):
    """maximal expression trees of the stdlib, de-duplicated by shape"""
    seen = set()
    n = 0
    for p in files():
        try:
            tree = ast.parse(open(p, encoding="utf8", errors="ignore").read())
        except Exception:
            continue
        stack = [tree]
        while stack:
            node = stack.pop()
            for ch in ast.iter_child_nodes(node):
                if isinstance(ch, ast.expr):
                    try:
                        d = ast.dump(ch)
                    except RecursionError:
                        continue
                    if len(d) > 40000 or d in seen:
                        continue
                    seen.add(d)
                    n += 1
                    yield f"stdlib:{os.path.basename(p)}:{getattr(ch, 'lineno', 0)}", ch
                    if limit and n >= limit:
                        return
                    # also descend: subexpressions in non-expression children only
                else:
                    stack.append(ch)
