#!/usr/bin/env python3
"""Confirm a seeded change (tests pass with it, demo fails with it, demo passes without it) in a
scratch worktree, then run the given checks against /repo with the change applied and undo it.
usage: tools/seedtest.py <dir with patch.diff and demo.py> <ID> [<ID> ...] [--tier quick|thorough] [--skip-confirm]"""
import json, os, shutil, subprocess, sys, time

VERIF = os.path.dirname(os.path.dirname(os.path.abspath(__file__)))
PY = "/venv/bin/python"


def sh(cmd, cwd=None, env=None, timeout=3600):
    p = subprocess.run(cmd, shell=isinstance(cmd, str), cwd=cwd, env=env, capture_output=True, text=True, timeout=timeout)
    return p.returncode, p.stdout + p.stderr


def confirm(d):
    wt = "/tmp/seedconfirm_%d" % os.getpid()
    sh(f"git -C /repo worktree add --detach {wt} HEAD -f")
    try:
        env = dict(os.environ, PYTHONPATH=wt)
        rc0, out0 = sh([PY, os.path.join(d, "demo.py")], cwd=wt, env=env)
        rc, out = sh(f"git apply {os.path.join(d, 'patch.diff')}", cwd=wt)
        if rc != 0:
            return {"applies": False, "detail": out[-300:]}
        rct, outt = sh([PY, "-m", "pytest", "-q", "-p", "no:cacheprovider", "-x"], cwd=wt, env=env)
        rc1, out1 = sh([PY, os.path.join(d, "demo.py")], cwd=wt, env=env)
        return {"applies": True, "tests_pass_with_change": rct == 0, "tests_tail": outt.strip().split("\n")[-1],
                "demo_fails_with_change": rc1 != 0, "demo_passes_without": rc0 == 0, "demo_output": out1[-400:]}
    finally:
        sh(f"git -C /repo worktree remove --force {wt}")


def main():
    args = sys.argv[1:]
    tier = "quick"
    skip = False
    if "--tier" in args:
        i = args.index("--tier"); tier = args[i + 1]; del args[i:i + 2]
    if "--skip-confirm" in args:
        args.remove("--skip-confirm"); skip = True
    d = os.path.abspath(args[0]); ids = args[1:]
    res = {"dir": d, "ids": ids, "tier": tier}
    if not skip:
        res["confirm"] = confirm(d)
    rc, out = sh("git -C /repo status --porcelain")
    if out.strip():
        print("REFUSING: /repo working tree is not clean:", out); sys.exit(2)
    rc, out = sh(f"git -C /repo apply {os.path.join(d, 'patch.diff')}")
    if rc != 0:
        print("patch does not apply to /repo:", out); sys.exit(2)
    res["checks"] = {}
    try:
        for pid in ids:
            t0 = time.time()
            try:
                rc, out = sh([os.path.join(VERIF, "check"), pid, "--tier", tier], cwd=VERIF, timeout=1500)
            except subprocess.TimeoutExpired:
                rc, out = 2, "TIMEOUT: the check did not finish within 1500 s"
            viol = [l for l in out.split("\n") if l.startswith("VIOLATION")]
            res["checks"][pid] = {"exit": rc, "violations": viol[:3], "no_input": any("no-failing-input-found" in v for v in viol),
                                  "wall": round(time.time() - t0, 1), "tail": out.strip().split("\n")[-1][:200]}
    finally:
        sh("git -C /repo checkout -- .")
        sh("git -C /repo clean -fdq oneliner")
    print(json.dumps(res, indent=1))


if __name__ == "__main__":
    main()
