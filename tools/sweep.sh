#!/bin/bash
# run the given checks (default: all with a harness) under several seeds on the current tree; print one line each
cd "$(dirname "$0")/.."
ids="${IDS:-$(ls harness | grep -E '^c[0-9]+\.py$' | sed 's/\.py//' | tr 'a-z' 'A-Z')}"
seeds="${SEEDS:-1 2 3}"
for s in $seeds; do for id in $ids; do
  out=$(VERIF_SEED=$s ./check $id --tier ${TIER:-quick} 2>&1); rc=$?
  echo "seed=$s $id rc=$rc $(echo "$out" | grep -c '^VIOLATION') viol :: $(echo "$out" | tail -1 | cut -c1-150)"
done; done
