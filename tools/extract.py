#!/venv/bin/python
"""Translator /repo -> lean/OlVerif/Gen/*.lean  (the "T" tie of DESIGN.md §3.2).

Everything here is *read off the current working tree of /repo on every run*:
module globals are imported from the source files and the real functions are driven
with sentinel inputs.  Files are only rewritten when their content changes, so that
`lake build` re-elaborates exactly the dependants.

Exit status: 0 ok, 3 = extraction impossible (the code was refactored beyond the
patterns used here); the caller treats that as a broken tie, not as a violation.
"""
import ast, importlib, io, json, os, sys, types

REPO = os.environ.get("OLVERIF_REPO", "/repo")
GEN = os.path.join(os.path.dirname(os.path.abspath(__file__)), "..", "lean", "OlVerif", "Gen")
sys.path.insert(0, REPO)


class ExtractError(Exception):
    pass


def fresh_import():
    for k in list(sys.modules):
        if k == "oneliner" or k.startswith("oneliner."):
            del sys.modules[k]
    import oneliner  # noqa
    importlib.import_module("oneliner.expr_unparse")
    return sys.modules["oneliner.expr_unparse"]


def write_if_changed(path, text):
    old = None
    if os.path.exists(path):
        with open(path, encoding="utf8") as f:
            old = f.read()
    if old != text:
        with open(path, "w", encoding="utf8") as f:
            f.write(text)
        return True
    return False


BINOPS = ["Add", "Sub", "Mult", "MatMult", "Div", "Mod", "Pow", "LShift", "RShift", "BitOr", "BitXor", "BitAnd", "FloorDiv"]
BINOPS_L = ["add", "sub", "mult", "matMult", "div", "mod", "pow", "lShift", "rShift", "bitOr", "bitXor", "bitAnd", "floorDiv"]
BOOLOPS = ["And", "Or"]; BOOLOPS_L = ["and_", "or_"]
UNOPS = ["Invert", "Not", "UAdd", "USub"]; UNOPS_L = ["invert", "not_", "uAdd", "uSub"]
CMPOPS = ["Eq", "NotEq", "Lt", "LtE", "Gt", "GtE", "Is", "IsNot", "In", "NotIn"]
CMPOPS_L = ["eq", "notEq", "lt", "ltE", "gt", "gtE", "is_", "isNot", "in_", "notIn"]


def S(i):
    """sentinel child"""
    return ast.Name(id=f"s{i}", ctx=ast.Load())


def drive(eu, node, qm='"'):
    """Run the real unparse generator of `node`, answering every child request with a
    placeholder; return the list of (precedence, child) requests and the final text."""
    n = eu._Node(0, node, qm)
    reqs = []
    try:
        r = next(n.gen)
        while True:
            reqs.append(r)
            r = n.gen.send("\x00%d\x00" % (len(reqs) - 1))
    except StopIteration as st:
        return reqs, st.value


def slot_probe(eu):
    """slot name -> precedence number, by driving each generator with sentinel children."""
    A = ast
    out = {}

    def rec(name, node, child, qm='"'):
        reqs, _ = drive(eu, node, qm)
        hits = [p for (p, c) in reqs if c is child]
        if len(hits) != 1:
            raise ExtractError(f"slot {name}: child requested {len(hits)} times")
        out[name] = hits[0]

    out["top"] = eu.PREC_EXPR_SLOT  # expr_unparse pushes the root with this constant; checked below
    src = open(os.path.join(REPO, "oneliner", "expr_unparse.py"), encoding="utf8").read()
    tree = ast.parse(src)
    found = False
    for fn in ast.walk(tree):
        if isinstance(fn, ast.FunctionDef) and fn.name == "expr_unparse":
            for c in ast.walk(fn):
                if isinstance(c, ast.Call) and getattr(c.func, "id", None) == "_Node" and c.args and isinstance(c.args[0], ast.Name):
                    if c.args[0].id.startswith("PREC_"):
                        out["top"] = getattr(eu, c.args[0].id); found = True
    if not found:
        raise ExtractError("cannot find the root slot precedence in expr_unparse()")

    c = S(0)
    rec("fvValue", A.FormattedValue(value=c, conversion=-1, format_spec=None), c)
    fv = A.FormattedValue(value=S(1), conversion=-1, format_spec=None)
    rec("jsValue", A.JoinedStr(values=[fv]), fv)
    fv2 = A.FormattedValue(value=S(1), conversion=-1, format_spec=None)
    rec("specValue", A.FormattedValue(value=S(2), conversion=-1, format_spec=A.JoinedStr(values=[fv2])), fv2)
    rec("starredValue", A.Starred(value=c, ctx=A.Load()), c)
    rec("attrValue", A.Attribute(value=c, attr="a", ctx=A.Load()), c)
    rec("subValue", A.Subscript(value=c, slice=S(1), ctx=A.Load()), c)
    rec("subSlice", A.Subscript(value=S(1), slice=c, ctx=A.Load()), c)
    rec("subTupleElt", A.Subscript(value=S(1), slice=A.Tuple(elts=[A.Slice(), c], ctx=A.Load()), ctx=A.Load()), c)
    rec("sliceLower", A.Slice(lower=c, upper=S(1), step=S(2)), c)
    rec("sliceUpper", A.Slice(lower=S(1), upper=c, step=S(2)), c)
    rec("sliceStep", A.Slice(lower=S(1), upper=S(2), step=c), c)
    rec("callFunc", A.Call(func=c, args=[S(1), S(2)], keywords=[]), c)
    rec("callOnlyArg", A.Call(func=S(1), args=[c], keywords=[]), c)
    rec("callArg", A.Call(func=S(1), args=[S(2), c], keywords=[]), c)
    rec("callArgKw", A.Call(func=S(1), args=[c], keywords=[A.keyword(arg="k", value=S(2))]), c)
    rec("callKwValue", A.Call(func=S(1), args=[], keywords=[A.keyword(arg="k", value=c)]), c)
    rec("callStarKwValue", A.Call(func=S(1), args=[], keywords=[A.keyword(arg=None, value=c)]), c)
    for op, l in zip(BINOPS, BINOPS_L):
        rec(f"binL .{l}", A.BinOp(left=c, op=getattr(A, op)(), right=S(1)), c)
        rec(f"binR .{l}", A.BinOp(left=S(1), op=getattr(A, op)(), right=c), c)
    for op, l in zip(BOOLOPS, BOOLOPS_L):
        rec(f"boolVal .{l}", A.BoolOp(op=getattr(A, op)(), values=[S(1), c, S(2)]), c)
        # every position must get the same precedence
        for pos in range(3):
            vals = [S(1), S(2), S(3)]
            reqs, _ = drive(eu, A.BoolOp(op=getattr(A, op)(), values=vals))
            if [p for p, _ in reqs] != [out[f"boolVal .{l}"]] * 3:
                raise ExtractError("BoolOp slots differ by position")
    for op, l in zip(UNOPS, UNOPS_L):
        rec(f"unary .{l}", A.UnaryOp(op=getattr(A, op)(), operand=c), c)
    rec("listElt", A.List(elts=[S(1), c], ctx=A.Load()), c)
    rec("setElt", A.Set(elts=[S(1), c]), c)
    rec("tupleElt", A.Tuple(elts=[S(1), c], ctx=A.Load()), c)
    rec("dictKey", A.Dict(keys=[c], values=[S(1)]), c)
    rec("dictValue", A.Dict(keys=[S(1)], values=[c]), c)
    rec("dictStarValue", A.Dict(keys=[None], values=[c]), c)
    rec("cmpLeft", A.Compare(left=c, ops=[A.Eq()], comparators=[S(1)]), c)
    rec("cmpRight", A.Compare(left=S(1), ops=[A.Eq(), A.Lt()], comparators=[S(2), c]), c)
    rec("namedValue", A.NamedExpr(target=A.Name(id="t", ctx=A.Store()), value=c), c)
    noargs = A.arguments(posonlyargs=[], args=[], vararg=None, kwonlyargs=[], kw_defaults=[], kwarg=None, defaults=[])
    rec("lambdaBody", A.Lambda(args=noargs, body=c), c)
    rec("lambdaDefault", A.Lambda(args=A.arguments(posonlyargs=[], args=[A.arg(arg="a")], vararg=None, kwonlyargs=[], kw_defaults=[], kwarg=None, defaults=[c]), body=S(1)), c)
    rec("lambdaKwDefault", A.Lambda(args=A.arguments(posonlyargs=[], args=[], vararg=None, kwonlyargs=[A.arg(arg="a")], kw_defaults=[c], kwarg=None, defaults=[]), body=S(1)), c)

    def gen(t, i, ifs):
        return A.comprehension(target=t, iter=i, ifs=ifs, is_async=0)
    for kind in ("ListComp", "SetComp", "GeneratorExp"):
        rec(f"compElt#{kind}", getattr(A, kind)(elt=c, generators=[gen(S(1), S(2), [])]), c)
    rec("compKey", A.DictComp(key=c, value=S(3), generators=[gen(S(1), S(2), [])]), c)
    rec("compValue", A.DictComp(key=S(3), value=c, generators=[gen(S(1), S(2), [])]), c)
    for kind in ("ListComp", "SetComp", "GeneratorExp", "DictComp"):
        def mk(g):
            if kind == "DictComp":
                return A.DictComp(key=S(7), value=S(8), generators=g)
            return getattr(A, kind)(elt=S(7), generators=g)
        rec(f"compTarget#{kind}", mk([gen(S(1), S(2), []), gen(c, S(3), [])]), c)
        rec(f"compIter#{kind}", mk([gen(S(1), S(2), []), gen(S(3), c, [])]), c)
        rec(f"compIf#{kind}", mk([gen(S(1), S(2), [S(4), c])]), c)
    for base in ("compElt", "compTarget", "compIter", "compIf"):
        vals = {out[k] for k in list(out) if k.startswith(base + "#")}
        if len(vals) != 1:
            raise ExtractError(f"{base} differs between comprehension kinds")
        out[base] = vals.pop()
        for k in [k for k in out if k.startswith(base + "#")]:
            del out[k]
    rec("ifBody", A.IfExp(test=S(1), body=c, orelse=S(2)), c)
    rec("ifTest", A.IfExp(test=c, body=S(1), orelse=S(2)), c)
    rec("ifOrelse", A.IfExp(test=S(1), body=S(2), orelse=c), c)
    rec("yieldValue", A.Yield(value=c), c)
    rec("yieldFromValue", A.YieldFrom(value=c), c)
    rec("awaitValue", A.Await(value=c), c)
    if out["callArg"] != out["callArgKw"]:
        raise ExtractError("positional argument slot depends on presence of keywords")
    del out["callArgKw"]
    return out


def kind_probe(eu):
    A = ast
    noargs = A.arguments(posonlyargs=[], args=[], vararg=None, kwonlyargs=[], kw_defaults=[], kwarg=None, defaults=[])
    g = [A.comprehension(target=S(1), iter=S(2), ifs=[], is_async=0)]
    probes = {
        "name": A.Name(id="x", ctx=A.Load()),
        "const": A.Constant(value=1),
        "joinedStr": A.JoinedStr(values=[]),
        "formattedValue": A.FormattedValue(value=S(0), conversion=-1, format_spec=None),
        "list": A.List(elts=[], ctx=A.Load()),
        "listComp": A.ListComp(elt=S(0), generators=g),
        "tuple": A.Tuple(elts=[], ctx=A.Load()),
        "dict": A.Dict(keys=[], values=[]),
        "dictComp": A.DictComp(key=S(0), value=S(3), generators=g),
        "set": A.Set(elts=[S(0)]),
        "setComp": A.SetComp(elt=S(0), generators=g),
        "starred": A.Starred(value=S(0), ctx=A.Load()),
        "attribute": A.Attribute(value=S(0), attr="a", ctx=A.Load()),
        "subscript": A.Subscript(value=S(0), slice=S(1), ctx=A.Load()),
        "call": A.Call(func=S(0), args=[], keywords=[]),
        "await": A.Await(value=S(0)),
        "compare": A.Compare(left=S(0), ops=[A.Eq()], comparators=[S(1)]),
        "ifExp": A.IfExp(test=S(0), body=S(1), orelse=S(2)),
        "lambda": A.Lambda(args=noargs, body=S(0)),
        "slice": A.Slice(),
        "namedExpr": A.NamedExpr(target=A.Name(id="t", ctx=A.Store()), value=S(0)),
        "generatorExp": A.GeneratorExp(elt=S(0), generators=g),
        "yield_": A.Yield(value=None),
        "yieldFrom": A.YieldFrom(value=S(0)),
    }
    out = {}
    for k, n in probes.items():
        out[k] = eu.get_node_precedence(n)
    for op, l in zip(BINOPS, BINOPS_L):
        out[f"binOp .{l}"] = eu.get_node_precedence(A.BinOp(left=S(0), op=getattr(A, op)(), right=S(1)))
    for op, l in zip(BOOLOPS, BOOLOPS_L):
        out[f"boolOp .{l}"] = eu.get_node_precedence(A.BoolOp(op=getattr(A, op)(), values=[S(0), S(1)]))
    for op, l in zip(UNOPS, UNOPS_L):
        out[f"unaryOp .{l}"] = eu.get_node_precedence(A.UnaryOp(op=getattr(A, op)(), operand=S(0)))
    for k, v in out.items():
        if not isinstance(v, int) or v >= eu.INF:
            raise ExtractError(f"no precedence for node kind {k}")
    return out


def lean_str(s):
    out = ['"']
    for ch in s:
        o = ord(ch)
        if ch == '"': out.append('\\"')
        elif ch == "\\": out.append("\\\\")
        elif ch == "\n": out.append("\\n")
        elif ch == "\t": out.append("\\t")
        elif ch == "\r": out.append("\\r")
        elif 32 <= o < 127: out.append(ch)
        else: out.append("\\u{%x}" % o)
    out.append('"')
    return "".join(out)


def gen_prec(eu):
    slots = slot_probe(eu)
    kinds = kind_probe(eu)
    L = []
    L.append("/- GENERATED by tools/extract.py from /repo/oneliner/expr_unparse.py -- do not edit. -/")
    L.append("import OlVerif.Ast")
    L.append("namespace OlVerif")
    L.append("")
    L.append("/-- node kinds as the unparser distinguishes them -/")
    L.append("inductive Kind")
    simple = [k for k in kinds if " " not in k]
    L.append("  | " + " | ".join(simple))
    L.append("  | binOp (op : BinOpK) | boolOp (op : BoolOpK) | unaryOp (op : UnaryOpK)")
    L.append("  deriving DecidableEq, Repr")
    L.append("")
    L.append("/-- child positions (\"slots\") of the unparser -/")
    L.append("inductive Slot")
    simple_s = [k for k in slots if " " not in k]
    L.append("  | " + " | ".join(simple_s))
    L.append("  | binL (op : BinOpK) | binR (op : BinOpK) | boolVal (op : BoolOpK) | unary (op : UnaryOpK)")
    L.append("  deriving DecidableEq, Repr")
    L.append("")
    L.append("/-- `get_node_precedence`, probed on one node of every kind -/")
    L.append("def nodePrec : Kind → Nat")
    for k, v in kinds.items():
        pat = f".{k}" if " " not in k else "." + k.split(" ")[0] + " " + k.split(" ")[1]
        L.append(f"  | {pat} => {v}")
    L.append("")
    L.append("/-- the precedence constant each `unparse_X` yields for each child, probed -/")
    L.append("def slotPrec : Slot → Nat")
    for k, v in slots.items():
        pat = f".{k}" if " " not in k else "." + k.split(" ")[0] + " " + k.split(" ")[1]
        L.append(f"  | {pat} => {v}")
    L.append("")
    # operator spellings
    def spell(name, mapping, ops, ls, ty):
        L.append(f"def {name} : {ty} → String")
        for op, l in zip(ops, ls):
            cls = getattr(ast, op)
            if cls not in mapping:
                raise ExtractError(f"{name}: no spelling for {op}")
            L.append(f"  | .{l} => {lean_str(mapping[cls])}")
        L.append("")
    spell("binOpText", eu.operator_map, BINOPS, BINOPS_L, "BinOpK")
    spell("boolOpText", eu.boolop_map, BOOLOPS, BOOLOPS_L, "BoolOpK")
    spell("unaryOpText", eu.unaryop_map, UNOPS, UNOPS_L, "UnaryOpK")
    spell("cmpOpText", eu.cmpop_map, CMPOPS, CMPOPS_L, "CmpOpK")
    # the same spellings split into words (tokens), so that the model need not split strings
    L.append("def cmpOpWords : CmpOpK → List String")
    for op, l in zip(CMPOPS, CMPOPS_L):
        L.append(f"  | .{l} => [" + ", ".join(lean_str(w) for w in eu.cmpop_map[getattr(ast, op)].split()) + "]")
    L.append("")
    L.append("def unaryOpWord : UnaryOpK → String")
    for op, l in zip(UNOPS, UNOPS_L):
        L.append(f"  | .{l} => {lean_str(eu.unaryop_map[getattr(ast, op)].strip())}")
    L.append("")
    # every piece of text the unparser module can write of its own: all string constants of
    # expr_unparse.py (docstrings excluded), i.e. separators, brackets, keywords with their blanks
    src = open(os.path.join(REPO, "oneliner", "expr_unparse.py"), encoding="utf-8").read()
    tree = ast.parse(src)
    doc = set()
    for n in ast.walk(tree):
        if isinstance(n, ast.Expr) and isinstance(n.value, ast.Constant) and isinstance(n.value.value, str):
            doc.add(id(n.value))
    texts = []
    for n in ast.walk(tree):
        if isinstance(n, ast.Constant) and isinstance(n.value, str) and id(n) not in doc and n.value not in texts:
            texts.append(n.value)
    for m in (eu.operator_map, eu.boolop_map, eu.unaryop_map, eu.cmpop_map):
        for v in m.values():
            if v not in texts:
                texts.append(v)
    L.append("/-- all string constants of expr_unparse.py (docstrings excluded) and the operator tables -/")
    L.append("def unparserTexts : List String := [")
    L.append("  " + ",\n  ".join(lean_str(t) for t in texts))
    L.append("]")
    L.append("")
    L.append("end OlVerif")
    return "\n".join(L) + "\n"


def gen_escape(eu):
    """escTab q c for c < 256 by calling the real get_unescaped_str on every code point;
    and the behaviour class for code points >= 256, probed on a spread."""
    L = ["/- GENERATED by tools/extract.py: the real `get_unescaped_str` called on every",
         "   code point 0..255 with both quote characters, and probed above 255. -/",
         "namespace OlVerif", ""]
    for qname, q in (("Sq", "'"), ("Dq", '"')):
        rows = []
        for c in range(256):
            t = eu.get_unescaped_str(chr(c), q)
            rows.append("[" + ",".join(str(ord(x)) for x in t) + "]")
        L.append(f"def escTab{qname} : List (List Nat) := [")
        for i in range(0, 256, 8):
            L.append("  " + ", ".join(rows[i:i + 8]) + ("," if i + 8 < 256 else ""))
        L.append("]")
        L.append("")
    # above 255: classify behaviour: raw | ascii-escape ; for surrogates and others
    def cls(c, q):
        t = eu.get_unescaped_str(chr(c), q)
        if t == chr(c): return "raw"
        if t == ascii(chr(c))[1:-1]: return "esc"
        raise ExtractError(f"unrecognised escaping of U+{c:04X}: {t!r}")
    spread_non = [256, 257, 0x2FF, 0x300, 0x7FF, 0x800, 0x2028, 0x2029, 0xD7FF, 0xE000, 0xFFFD, 0xFFFF, 0x10000, 0x1F600, 0x10FFFF] + list(range(0x100, 0x10FFFF, 4099))
    spread_non = [c for c in spread_non if not 0xD800 <= c <= 0xDFFF]
    spread_sur = [0xD800, 0xD801, 0xDBFF, 0xDC00, 0xDFFE, 0xDFFF] + list(range(0xD800, 0xE000, 61))
    res = {}
    for nm, sp in (("High", spread_non), ("Sur", spread_sur)):
        v = {cls(c, q) for c in sp for q in "'\""}
        if len(v) != 1:
            raise ExtractError(f"escaping above 255 is not uniform on class {nm}: {v}")
        res[nm] = v.pop()
    L.append("/-- how a non-surrogate code point ≥ 256 is written: `true` = as itself -/")
    L.append(f"def escHighRaw : Bool := {'true' if res['High'] == 'raw' else 'false'}")
    L.append("/-- how a surrogate code point is written: `true` = as itself (not encodable!) -/")
    L.append(f"def escSurRaw : Bool := {'true' if res['Sur'] == 'raw' else 'false'}")
    L.append("")
    L.append("end OlVerif")
    return "\n".join(L) + "\n"


def main():
    """every table is extracted on its own: a table that cannot be read is reported as
    `EXTRACT-ERROR <Table> ...` (its old file stays) and does not stop the others"""
    os.makedirs(GEN, exist_ok=True)
    changed = []
    failed = []
    try:
        eu = fresh_import()
    except Exception as e:
        import traceback; traceback.print_exc()
        print("EXTRACT-ERROR ALL cannot import the package:", type(e).__name__, e)
        return 3
    import extract_more
    jobs = [("Prec", lambda: gen_prec(eu)), ("Escape", lambda: gen_escape(eu))] + extract_more.jobs(REPO, lean_str, ExtractError)
    for name, fn in jobs:
        try:
            if write_if_changed(os.path.join(GEN, name + ".lean"), fn()):
                changed.append(name)
        except ExtractError as e:
            failed.append(name)
            print(f"EXTRACT-ERROR {name} {e}")
        except Exception as e:  # attribute errors etc. after a refactoring
            failed.append(name)
            print(f"EXTRACT-ERROR {name} {type(e).__name__}: {e}")
    print("extract done; changed:", changed, "failed:", failed)
    return 3 if failed else 0


if __name__ == "__main__":
    sys.path.insert(0, os.path.dirname(os.path.abspath(__file__)))
    sys.exit(main())
