import json
props=[json.loads(l) for l in open('/verif/properties.jsonl')]
claimed=json.load(open('/verif/harness/claims.json'))
checks=[]; na=[]
for p in props:
    pid=p['id']
    if pid in claimed:
        c=claimed[pid]
        checks.append({
          "property_id":pid,
          "quick_cmd":f"./check {pid} --tier quick",
          "thorough_cmd":f"./check {pid} --tier thorough",
          "evidence_file":f"/verif/evidence/{pid}.json",
          "replay_cmd_template":f"./check {pid} --replay {{path}}",
          "engine":"olverif-lean",
          "level_claimed":{"category":"proof","text":c["text"],"design_ref":c["design_ref"]},
          "level_note":c["note"],
          "technique":c["technique"]})
    else:
        na.append({"property_id":pid,"reason":"check not built yet in this revision of /verif (work in progress, see DESIGN.md section 9 for the build order); no claim is made"})
m={"version":1,
 "setup_cmd":"cd lean && lake build driver OlVerif OlVerif.All",
 "hooks":{"guard":"ONELINER_PY_VERIF","enable":"no hooks: every observation point is reachable by importing the package; checks import /repo's working tree directly","baseline_off_cmd":"cd /repo && /venv/bin/python -m pytest -ra -q -p no:cacheprovider --timeout=900 --continue-on-collection-errors","source_commits":[],"add_only":True},
 "engines":[{"name":"olverif-lean","path":"/verif/lean","serves_properties":sorted(claimed),"kind_free_text":"Lean 4 models + theorems (lake project OlVerif), translator tools/extract.py regenerating Gen/*.lean from /repo on every run, correspondence harness in harness/*.py driving the native Lean driver through a JSON line protocol"}],
 "checks":checks,
 "not_applicable":na,
 "notes":"See DESIGN.md. Genuine defects repaired in /repo are 'fix:' commits listed as fixed records in known_findings.jsonl; open ones are KNOWN-FINDING lines."}
json.dump(m,open('/verif/MANIFEST.json','w'),indent=1)
print(len(checks),"claimed",len(na),"not claimed")
