"""Further generated tables (dispatch, config, ...) -- filled in as the models grow."""
def run(REPO, GEN, write_if_changed, lean_str, ExtractError):
    return []
