#!/usr/bin/env python3
"""Re-evaluate every archived seeded change against the *current* tree, in parallel and without touching /repo:
each worker owns a scratch copy of /repo and of /verif (outside both), applies one patch at a time to its copy of the
repository, runs the seed's own check (quick) on it through OLVERIF_REPO, and undoes the patch.
usage: tools/reseed_all.py [--workers N] [--only <prefix>] [--out <json>]
Writes seeded/REEVAL.json: per seed {applies, exit, violation, no_input, wall}."""
import concurrent.futures as cf, json, os, shutil, subprocess, sys, time

VERIF = os.path.dirname(os.path.dirname(os.path.abspath(__file__)))
REPO = os.environ.get("OLVERIF_REPO", "/repo")
SCRATCH = "/var/tmp/olverif_reseed_%d" % os.getpid()
ROOT = os.path.join(VERIF, "seeded")
CONFIRM = False
PY = "/venv/bin/python"


def sh(cmd, cwd=None, env=None, timeout=1800):
    p = subprocess.run(cmd, shell=isinstance(cmd, str), cwd=cwd, env=env, capture_output=True, text=True, timeout=timeout)
    return p.returncode, p.stdout + p.stderr


def worker(w, seeds):
    base = os.path.join(SCRATCH, "w%d" % w)
    shutil.rmtree(base, ignore_errors=True)
    os.makedirs(base)
    repo, verif = os.path.join(base, "repo"), os.path.join(base, "verif")
    sh(f"git clone -q {REPO} {repo}")
    sh(f"rsync -a --exclude .git --exclude replays --exclude seeded {VERIF}/ {verif}/")
    out = {}
    for sid in seeds:
        d = os.path.join(ROOT, sid)
        patch = os.path.join(d, "patch.diff")
        pid = sid.split("-")[0]
        sh("git reset -q --hard && git clean -fdq", cwd=repo)
        how = None
        for name, cmd in (("apply", f"git apply {patch}"), ("3way", f"git apply --3way {patch}"), ("fuzz", f"patch -p1 -F3 --no-backup-if-mismatch < {patch}")):
            rc, o = sh(cmd, cwd=repo)
            if rc == 0:
                how = name
                break
            sh("git reset -q --hard && git clean -fdq", cwd=repo)
        if how is None:
            out[sid] = {"applies": False}
            continue
        conf = None
        if CONFIRM:
            # the change keeps the suite green, the demo fails with it and passes without it
            penv = dict(os.environ, PYTHONPATH=repo)
            rct, ot = sh([PY, "-m", "pytest", "-q", "-p", "no:cacheprovider", "-x", "-n", "4"], cwd=repo, env=penv)
            rc1, _ = sh([PY, os.path.join(d, "demo.py")], cwd=repo, env=penv)
            sh("git stash -q", cwd=repo)
            rc0, _ = sh([PY, os.path.join(d, "demo.py")], cwd=repo, env=penv)
            sh("git stash pop -q", cwd=repo)
            conf = {"tests_pass_with_change": rct == 0, "tests_tail": ot.strip().split("\n")[-1][:80], "demo_fails_with_change": rc1 != 0, "demo_passes_without": rc0 == 0}
        t0 = time.time()
        env = dict(os.environ, OLVERIF_REPO=repo, VERIF_SEED=os.environ.get("VERIF_SEED", "1"))
        try:
            rc, o = sh([os.path.join(verif, "check"), pid, "--tier", "quick"], cwd=verif, env=env, timeout=1500)
        except subprocess.TimeoutExpired:
            rc, o = 2, "TIMEOUT"
        viol = [l for l in o.split("\n") if l.startswith("VIOLATION")]
        out[sid] = {"applies": how, "exit": rc, "violation": bool(viol), "no_input": bool(viol) and all("no-failing-input-found" in v for v in viol),
                    "wall": round(time.time() - t0, 1), "tail": o.strip().split("\n")[-1][:160]}
        if conf:
            out[sid]["confirm"] = conf
        print(sid, out[sid], flush=True)
    shutil.rmtree(base, ignore_errors=True)
    return out


def main():
    args = sys.argv[1:]
    nw = 4
    only = None
    outp = os.path.join(VERIF, "seeded", "REEVAL.json")
    if "--workers" in args:
        i = args.index("--workers"); nw = int(args[i + 1]); del args[i:i + 2]
    if "--only" in args:
        i = args.index("--only"); only = args[i + 1]; del args[i:i + 2]
    global ROOT, CONFIRM
    if "--root" in args:
        i = args.index("--root"); ROOT = os.path.abspath(args[i + 1]); del args[i:i + 2]
    if "--confirm" in args:
        args.remove("--confirm"); CONFIRM = True
    if "--out" in args:
        i = args.index("--out"); outp = args[i + 1]; del args[i:i + 2]
    seeds = sorted(s for s in os.listdir(ROOT) if os.path.isfile(os.path.join(ROOT, s, "patch.diff")))
    if only:
        seeds = [s for s in seeds if s.startswith(only)]
    done = {}
    if "--resume" in args:
        # lines "<seed> {result}" of an earlier log: keep the seeds that were evaluated (a check ran to its summary line)
        import ast
        i = args.index("--resume")
        for line in open(args[i + 1]):
            sid, _, rest = line.partition(" ")
            if rest.startswith("{"):
                r = ast.literal_eval(rest.strip())
                if r.get("tail", "").startswith("["):
                    done[sid] = r
        seeds = [s for s in seeds if s not in done]
    rc, head = sh(f"git -C {REPO} rev-parse --short HEAD")
    shares = [seeds[i::nw] for i in range(nw)]
    res = dict(done)
    with cf.ThreadPoolExecutor(nw) as ex:
        for r in ex.map(worker, range(nw), shares):
            res.update(r)
    shutil.rmtree(SCRATCH, ignore_errors=True)
    summary = {"repo_head": head.strip(), "seeds": len(res),
               "applied": sum(1 for r in res.values() if r.get("applies")),
               "reported": sum(1 for r in res.values() if r.get("violation")),
               "reported_with_input": sum(1 for r in res.values() if r.get("violation") and not r.get("no_input")),
               "not_applicable_to_this_tree": sorted(s for s, r in res.items() if not r.get("applies")),
               "missed": sorted(s for s, r in res.items() if r.get("applies") and not r.get("violation"))}
    json.dump({"summary": summary, "results": dict(sorted(res.items()))}, open(outp, "w"), indent=1)
    print(json.dumps(summary, indent=1))


if __name__ == "__main__":
    main()
