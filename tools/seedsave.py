#!/usr/bin/env python3
"""archive a confirmed seeded change under /verif/seeded/<name>/ (patch.diff, demo.py, meta.json)"""
import json, os, shutil, sys
src, name, prop = sys.argv[1], sys.argv[2], sys.argv[3]
caught = json.loads(sys.argv[4]) if len(sys.argv) > 4 else {}
d = os.path.join(os.path.dirname(os.path.dirname(os.path.abspath(__file__))), "seeded", name)
os.makedirs(d, exist_ok=True)
shutil.copy(os.path.join(src, "patch.diff"), d)
shutil.copy(os.path.join(src, "demo.py"), d)
notes = open(os.path.join(src, "notes.txt")).read() if os.path.exists(os.path.join(src, "notes.txt")) else ""
meta = {"breaks_property": prop, "origin": "independent sub-agent given only the property text and a scratch worktree",
        "what_and_what_it_needs_to_manifest": notes.strip(),
        "confirmed": "in a scratch worktree of /repo HEAD: full test suite passes with the change, demo.py fails with it and passes without it (tools/seedtest.py)",
        "checks_run": caught}
json.dump(meta, open(os.path.join(d, "meta.json"), "w"), indent=1)
print("saved", d)
