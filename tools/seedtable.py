#!/usr/bin/env python3
"""regenerate the table of DESIGN.md section 9 from seeded/*/meta.json"""
import glob, json, os, re
V = os.path.dirname(os.path.dirname(os.path.abspath(__file__)))
rows = []
for d in sorted(x for x in glob.glob(os.path.join(V, "seeded", "*")) if os.path.isdir(x)):
    m = json.load(open(os.path.join(d, "meta.json")))
    note = (m.get("what_and_what_it_needs_to_manifest") or "").strip().split("\n")[0][:150].replace("|", "/")
    did = "; ".join(f"{k}: {v}" for k, v in m.get("checks_run", {}).items()).replace("|", "/").replace("\n", " ")
    rows.append(f"| {os.path.basename(d)} | {m['breaks_property']} | {note} | {did} |")
table = "| seed | property | change (first line of the author's note) | what the checks did |\n|---|---|---|---|\n" + "\n".join(rows) + "\n"
p = os.path.join(V, "DESIGN.md")
s = open(p).read()
a = s.index("| seed | property | change (first line of the author's note)")
b = s.index("\n\n", a)
s = s[:a] + table.rstrip("\n") + s[b:]
open(p, "w").write(s)
print(len(rows), "rows")
