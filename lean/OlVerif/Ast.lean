/-
  Shared vocabulary: Python expression / statement trees as the `ast` module has them
  (ctx and source positions dropped; annotations of parameters dropped because the
  converter drops them).  Core Lean only.
-/
namespace OlVerif

inductive BinOpK
  | add | sub | mult | matMult | div | mod | pow | lShift | rShift | bitOr | bitXor | bitAnd | floorDiv
  deriving DecidableEq, Repr, Inhabited

inductive BoolOpK | and_ | or_
  deriving DecidableEq, Repr, Inhabited

inductive UnaryOpK | invert | not_ | uAdd | uSub
  deriving DecidableEq, Repr, Inhabited

inductive CmpOpK | eq | notEq | lt | ltE | gt | gtE | is_ | isNot | in_ | notIn
  deriving DecidableEq, Repr, Inhabited

/-- Constants.  Strings are lists of *code points* (Python strings may hold lone
    surrogates, which `Char` cannot).  Floats / complex numbers / bytes carry the text
    CPython's `repr` gives them: `repr` is CPython's, not the repository's. -/
inductive Const
  | none | true_ | false_ | ellipsis
  | int (n : Int)
  | str (cps : List Nat)
  | bytes (repr : String)
  | float (repr : String)
  | complex (repr : String)
  deriving DecidableEq, Repr, Inhabited

mutual
  inductive Expr
    | name (id : String)
    | const (c : Const)
    | joinedStr (values : List Expr)
    | formattedValue (value : Expr) (conversion : Int) (spec : Option Expr)
    | list (elts : List Expr)
    | tuple (elts : List Expr)
    | set (elts : List Expr)
    | dict (items : List DictItem)
    | starred (value : Expr)
    | attribute (value : Expr) (attr : String)
    | subscript (value : Expr) (slice : Expr)
    | slice (lower upper step : Option Expr)
    | call (func : Expr) (args : List Expr) (keywords : List Keyword)
    | binOp (left : Expr) (op : BinOpK) (right : Expr)
    | boolOp (op : BoolOpK) (values : List Expr)
    | unaryOp (op : UnaryOpK) (operand : Expr)
    | compare (left : Expr) (ops : List CmpOpK) (comparators : List Expr)
    | ifExp (test body orelse : Expr)
    | lambda (args : Arguments) (body : Expr)
    | namedExpr (target : String) (value : Expr)
    | listComp (elt : Expr) (gens : List Comp)
    | setComp (elt : Expr) (gens : List Comp)
    | dictComp (key value : Expr) (gens : List Comp)
    | generatorExp (elt : Expr) (gens : List Comp)
    | yield_ (value : Option Expr)
    | yieldFrom (value : Expr)
    | await (value : Expr)
  inductive Keyword
    | mk (arg : Option String) (value : Expr)
  /-- `keys[i], values[i]` of a `Dict` node (`key = none` for `**value`) -/
  inductive DictItem
    | mk (key : Option Expr) (value : Expr)
  inductive Comp
    | mk (target iter : Expr) (ifs : List Expr) (isAsync : Bool)
  inductive Arguments
    | mk (posonly args : List String) (vararg : Option String) (kwonly : List String)
         (kwDefaults : List (Option Expr)) (kwarg : Option String) (defaults : List Expr)
end

instance : Inhabited Expr := ⟨.const .ellipsis⟩
instance : Inhabited Keyword := ⟨.mk none default⟩
instance : Inhabited DictItem := ⟨.mk none default⟩
instance : Inhabited Comp := ⟨.mk default default [] false⟩
instance : Inhabited Arguments := ⟨.mk [] [] none [] [] none []⟩

def Arguments.empty : Arguments := .mk [] [] none [] [] none []
def Arguments.simple (names : List String) : Arguments := .mk [] names none [] [] none []

structure Alias where
  name : String
  asname : Option String
  deriving DecidableEq, Repr, Inhabited

/-- Statements: the kinds the converter dispatches on, with full sub-structure, and
    `other` for every kind it does not (try, with, raise, assert, del, match, async …),
    keeping their statement bodies and expressions so that "an unsupported construct at
    any position" is expressible. -/
inductive Stmt
  | expr (value : Expr)
  | if_ (test : Expr) (body orelse : List Stmt)
  | while_ (test : Expr) (body orelse : List Stmt)
  | for_ (target iter : Expr) (body orelse : List Stmt)
  | break_
  | continue_
  | pass_
  | assign (targets : List Expr) (value : Expr)
  | annAssign (target : Expr) (annotation : Expr) (value : Option Expr)
  | augAssign (target : Expr) (op : BinOpK) (value : Expr)
  | functionDef (name : String) (args : Arguments) (body : List Stmt)
      (decorators : List Expr) (lineno : Nat)
  | return_ (value : Option Expr)
  | global_ (names : List String)
  | nonlocal_ (names : List String)
  | classDef (name : String) (bases : List Expr) (keywords : List Keyword)
      (body : List Stmt) (decorators : List Expr) (lineno : Nat)
  | import_ (names : List Alias)
  | importFrom (module : Option String) (names : List Alias) (level : Nat)
  | other (kind : String) (bodies : List (List Stmt)) (exprs : List Expr)

instance : Inhabited Stmt := ⟨.pass_⟩

/-- The three options. -/
inductive Unparser | astUnparse | oneliner deriving DecidableEq, Repr, Inhabited
inductive Wrapper | list | chainCall deriving DecidableEq, Repr, Inhabited
inductive IfStyle | ifExpr | shortCircuit deriving DecidableEq, Repr, Inhabited

structure Cfg where
  unparser : Unparser := .astUnparse
  wrapper : Wrapper := .chainCall
  ifStyle : IfStyle := .ifExpr
  deriving DecidableEq, Repr, Inhabited

/- Small expression builders used by the lowering model. -/
namespace Expr
def str (s : String) : Expr := .const (.str (s.toList.map Char.toNat))
def int (n : Int) : Expr := .const (.int n)
def none_ : Expr := .const .none
def true_ : Expr := .const .true_
def false_ : Expr := .const .false_
def ellipsis : Expr := .const .ellipsis
def call0 (f : Expr) (args : List Expr) : Expr := .call f args []
def callN (f : String) (args : List Expr) : Expr := .call (.name f) args []
def not_ (e : Expr) : Expr := .unaryOp .not_ e
def neg1 : Expr := .unaryOp .uSub (.const (.int 1))
end Expr

end OlVerif
