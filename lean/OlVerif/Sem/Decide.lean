/-
  Decidable (Bool) versions of the hypotheses of the M-EVAL theorems, proved sound, so that the
  correspondence check can evaluate them on real programs.
-/
import OlVerif.Sem.Frame

namespace OlVerif.Sem

def isTempB (x : String) : Bool := decide (isTemp x)

mutual
  def cleanB : Expr → Bool
    | .const _ => true
    | .name x => !isTempB x
    | .namedExpr x e => !isTempB x && cleanB e
    | .list es => cleanBL es
    | .attribute o _ => cleanB o
    | .subscript o i => cleanB o && cleanB i
    | .call f as ks => (cleanB f && cleanBL as) || !isGlue (.call f as ks)
    | e => !isGlue e
  def cleanBL : List Expr → Bool
    | [] => true
    | e :: es => cleanB e && cleanBL es
end

mutual
  theorem cleanB_sound : ∀ (e : Expr), cleanB e = true → Clean e
    | .const c, _ => .const c
    | .name x, h => .name x (by simpa [cleanB, isTempB] using h)
    | .namedExpr x e, h => by
        simp only [cleanB, Bool.and_eq_true, Bool.not_eq_true', isTempB, decide_eq_false_iff_not] at h
        exact .walrus x e h.1 (cleanB_sound e h.2)
    | .list es, h => .list es (cleanBL_sound es (by simpa [cleanB] using h))
    | .attribute o a, h => .attr o a (cleanB_sound o (by simpa [cleanB] using h))
    | .subscript o i, h => by
        simp only [cleanB, Bool.and_eq_true] at h
        exact .sub o i (cleanB_sound o h.1) (cleanB_sound i h.2)
    | .call f as ks, h => by
        simp only [cleanB, Bool.or_eq_true, Bool.and_eq_true, Bool.not_eq_true'] at h
        rcases h with ⟨h1, h2⟩ | h
        · exact .call f as ks (cleanB_sound f h1) (cleanBL_sound as h2)
        · exact .other _ h
    | .joinedStr _, h => .other _ (by simpa [cleanB] using h)
    | .formattedValue .., h => .other _ (by simpa [cleanB] using h)
    | .tuple _, h => .other _ (by simpa [cleanB] using h)
    | .set _, h => .other _ (by simpa [cleanB] using h)
    | .dict _, h => .other _ (by simpa [cleanB] using h)
    | .starred _, h => .other _ (by simpa [cleanB] using h)
    | .slice .., h => .other _ (by simpa [cleanB] using h)
    | .binOp .., h => .other _ (by simpa [cleanB] using h)
    | .boolOp .., h => .other _ (by simpa [cleanB] using h)
    | .unaryOp .., h => .other _ (by simpa [cleanB] using h)
    | .compare .., h => .other _ (by simpa [cleanB] using h)
    | .ifExp .., h => .other _ (by simpa [cleanB] using h)
    | .lambda .., h => .other _ (by simpa [cleanB] using h)
    | .listComp .., h => .other _ (by simpa [cleanB] using h)
    | .setComp .., h => .other _ (by simpa [cleanB] using h)
    | .dictComp .., h => .other _ (by simpa [cleanB] using h)
    | .generatorExp .., h => .other _ (by simpa [cleanB] using h)
    | .yield_ _, h => .other _ (by simpa [cleanB] using h)
    | .yieldFrom _, h => .other _ (by simpa [cleanB] using h)
    | .await _, h => .other _ (by simpa [cleanB] using h)
  termination_by structural x => x
  theorem cleanBL_sound : ∀ (es : List Expr), cleanBL es = true → ∀ e ∈ es, Clean e
    | [], _ => by intro e he; cases he
    | e :: es, h => by
        simp only [cleanBL, Bool.and_eq_true] at h
        intro x hx
        simp only [List.mem_cons] at hx
        rcases hx with hx | hx
        · rw [hx]; exact cleanB_sound e h.1
        · exact cleanBL_sound es h.2 x hx
  termination_by structural x => x
end

def plainIndexB : Expr → Bool
  | .slice .. => false
  | .tuple _ => false
  | _ => true

theorem plainIndexB_sound (i : Expr) (h : plainIndexB i = true) : plainIndex i := by
  cases i <;> simp [plainIndexB] at h <;> simp [plainIndex]

def simpleTB : Expr → Bool
  | .name _ => true
  | .attribute o _ => cleanB o
  | .subscript o i => cleanB o && cleanB i && plainIndexB i
  | _ => false

theorem simpleTB_sound (t : Expr) (h : simpleTB t = true) : SimpleT t := by
  cases t <;> simp only [simpleTB, Bool.and_eq_true, Bool.false_eq_true] at h
  · exact .name _
  · exact .attr _ _ (cleanB_sound _ h)
  · exact .sub _ _ (cleanB_sound _ h.1.1) (cleanB_sound _ h.1.2) (plainIndexB_sound _ h.2)

def simpleSB : Stmt → Bool
  | .expr e => cleanB e
  | .pass_ => true
  | .global_ _ => true
  | .assign ts value => !ts.isEmpty && ts.all simpleTB && cleanB value
  | .augAssign t _ value => simpleTB t && cleanB value
  | _ => false

theorem simpleSB_sound (s : Stmt) (h : simpleSB s = true) : SimpleS s := by
  cases s <;> simp only [simpleSB, Bool.and_eq_true, Bool.false_eq_true] at h
  · exact .expr _ (cleanB_sound _ h)
  · exact .pass
  · rename_i ts value
    refine .assign ts value ?_ ?_ (cleanB_sound _ h.2)
    · intro he; simp [he] at h
    · intro t ht
      exact simpleTB_sound t (List.all_eq_true.mp h.1.2 t ht)
  · exact .aug _ _ _ (simpleTB_sound _ h.1) (cleanB_sound _ h.2)
  · exact .global_ _

/-- the whole module falls under `C01.module_straightline_semantics` -/
def simpleModuleB (body : List Stmt) : Bool := body.all simpleSB

theorem simpleModuleB_sound (body : List Stmt) (h : simpleModuleB body = true) : ∀ s ∈ body, SimpleS s :=
  fun s hs => simpleSB_sound s (List.all_eq_true.mp h s hs)

end OlVerif.Sem
