/-
  Decidable (Bool) versions of the hypotheses of the M-EVAL theorems, proved sound, so that the
  correspondence check can evaluate them on real programs.
-/
import OlVerif.Sem.Frame

namespace OlVerif.Sem

def isTempB (x : String) : Bool := decide (isTemp x)

mutual
  def cleanB : Expr → Bool
    | .const _ => true
    | .name x => !isTempB x
    | .namedExpr x e => !isTempB x && cleanB e
    | .list es => cleanBL es
    | .attribute o _ => cleanB o
    | .subscript o i => cleanB o && cleanB i
    | .call f as ks => (cleanB f && cleanBL as) || !isGlue (.call f as ks)
    | .unaryOp .uSub (.const (.int _)) => true
    | .ifExp c a b => cleanB c && cleanB a && cleanB b
    | .boolOp op [a, b] => cleanB a && cleanB b
    | e => !isGlue e
  def cleanBL : List Expr → Bool
    | [] => true
    | e :: es => cleanB e && cleanBL es
end

mutual
  theorem cleanB_sound : ∀ (e : Expr), cleanB e = true → Clean e
    | .const c, _ => .const c
    | .name x, h => .name x (by simpa [cleanB, isTempB] using h)
    | .namedExpr x e, h => by
        simp only [cleanB, Bool.and_eq_true, Bool.not_eq_true', isTempB, decide_eq_false_iff_not] at h
        exact .walrus x e h.1 (cleanB_sound e h.2)
    | .list es, h => .list es (cleanBL_sound es (by simpa [cleanB] using h))
    | .attribute o a, h => .attr o a (cleanB_sound o (by simpa [cleanB] using h))
    | .subscript o i, h => by
        simp only [cleanB, Bool.and_eq_true] at h
        exact .sub o i (cleanB_sound o h.1) (cleanB_sound i h.2)
    | .call f as ks, h => by
        simp only [cleanB, Bool.or_eq_true, Bool.and_eq_true, Bool.not_eq_true'] at h
        rcases h with ⟨h1, h2⟩ | h
        · exact .call f as ks (cleanB_sound f h1) (cleanBL_sound as h2)
        · exact .other _ h
    | .joinedStr _, h => .other _ (by simpa [cleanB] using h)
    | .formattedValue .., h => .other _ (by simpa [cleanB] using h)
    | .tuple _, h => .other _ (by simpa [cleanB] using h)
    | .set _, h => .other _ (by simpa [cleanB] using h)
    | .dict _, h => .other _ (by simpa [cleanB] using h)
    | .starred _, h => .other _ (by simpa [cleanB] using h)
    | .slice .., h => .other _ (by simpa [cleanB] using h)
    | .binOp .., h => .other _ (by simpa [cleanB] using h)
    | .boolOp op [a, b], h => by
        simp only [cleanB, Bool.and_eq_true] at h
        exact .boolOp2 op a b (cleanB_sound a h.1) (cleanB_sound b h.2)
    | .boolOp op [], h => .other _ (by simpa [cleanB] using h)
    | .boolOp op [_], h => .other _ (by simpa [cleanB] using h)
    | .boolOp op (_ :: _ :: _ :: _), h => .other _ (by simpa [cleanB] using h)
    | .unaryOp .uSub (.const (.int n)), _ => .negInt n
    | .unaryOp .uSub (.const .none), h => .other _ (by simpa [cleanB] using h)
    | .unaryOp .uSub (.const .true_), h => .other _ (by simpa [cleanB] using h)
    | .unaryOp .uSub (.const .false_), h => .other _ (by simpa [cleanB] using h)
    | .unaryOp .uSub (.const .ellipsis), h => .other _ (by simpa [cleanB] using h)
    | .unaryOp .uSub (.const (.str _)), h => .other _ (by simpa [cleanB] using h)
    | .unaryOp .uSub (.const (.bytes _)), h => .other _ (by simpa [cleanB] using h)
    | .unaryOp .uSub (.const (.float _)), h => .other _ (by simpa [cleanB] using h)
    | .unaryOp .uSub (.const (.complex _)), h => .other _ (by simpa [cleanB] using h)
    | .unaryOp .invert _, h => .other _ (by simpa [cleanB] using h)
    | .unaryOp .not_ _, h => .other _ (by simpa [cleanB] using h)
    | .unaryOp .uAdd _, h => .other _ (by simpa [cleanB] using h)
    | .unaryOp .uSub (.name _), h => .other _ (by simpa [cleanB] using h)
    | .unaryOp .uSub (.joinedStr _), h => .other _ (by simpa [cleanB] using h)
    | .unaryOp .uSub (.formattedValue ..), h => .other _ (by simpa [cleanB] using h)
    | .unaryOp .uSub (.list _), h => .other _ (by simpa [cleanB] using h)
    | .unaryOp .uSub (.tuple _), h => .other _ (by simpa [cleanB] using h)
    | .unaryOp .uSub (.set _), h => .other _ (by simpa [cleanB] using h)
    | .unaryOp .uSub (.dict _), h => .other _ (by simpa [cleanB] using h)
    | .unaryOp .uSub (.starred _), h => .other _ (by simpa [cleanB] using h)
    | .unaryOp .uSub (.attribute ..), h => .other _ (by simpa [cleanB] using h)
    | .unaryOp .uSub (.subscript ..), h => .other _ (by simpa [cleanB] using h)
    | .unaryOp .uSub (.slice ..), h => .other _ (by simpa [cleanB] using h)
    | .unaryOp .uSub (.call ..), h => .other _ (by simpa [cleanB] using h)
    | .unaryOp .uSub (.binOp ..), h => .other _ (by simpa [cleanB] using h)
    | .unaryOp .uSub (.boolOp ..), h => .other _ (by simpa [cleanB] using h)
    | .unaryOp .uSub (.unaryOp ..), h => .other _ (by simpa [cleanB] using h)
    | .unaryOp .uSub (.compare ..), h => .other _ (by simpa [cleanB] using h)
    | .unaryOp .uSub (.ifExp ..), h => .other _ (by simpa [cleanB] using h)
    | .unaryOp .uSub (.lambda ..), h => .other _ (by simpa [cleanB] using h)
    | .unaryOp .uSub (.namedExpr ..), h => .other _ (by simpa [cleanB] using h)
    | .unaryOp .uSub (.listComp ..), h => .other _ (by simpa [cleanB] using h)
    | .unaryOp .uSub (.setComp ..), h => .other _ (by simpa [cleanB] using h)
    | .unaryOp .uSub (.dictComp ..), h => .other _ (by simpa [cleanB] using h)
    | .unaryOp .uSub (.generatorExp ..), h => .other _ (by simpa [cleanB] using h)
    | .unaryOp .uSub (.yield_ _), h => .other _ (by simpa [cleanB] using h)
    | .unaryOp .uSub (.yieldFrom _), h => .other _ (by simpa [cleanB] using h)
    | .unaryOp .uSub (.await _), h => .other _ (by simpa [cleanB] using h)
    | .compare .., h => .other _ (by simpa [cleanB] using h)
    | .ifExp c a b, h => by
        simp only [cleanB, Bool.and_eq_true] at h
        exact .ifExp c a b (cleanB_sound c h.1.1) (cleanB_sound a h.1.2) (cleanB_sound b h.2)
    | .lambda .., h => .other _ (by simpa [cleanB] using h)
    | .listComp .., h => .other _ (by simpa [cleanB] using h)
    | .setComp .., h => .other _ (by simpa [cleanB] using h)
    | .dictComp .., h => .other _ (by simpa [cleanB] using h)
    | .generatorExp .., h => .other _ (by simpa [cleanB] using h)
    | .yield_ _, h => .other _ (by simpa [cleanB] using h)
    | .yieldFrom _, h => .other _ (by simpa [cleanB] using h)
    | .await _, h => .other _ (by simpa [cleanB] using h)
  termination_by structural x => x
  theorem cleanBL_sound : ∀ (es : List Expr), cleanBL es = true → ∀ e ∈ es, Clean e
    | [], _ => by intro e he; cases he
    | e :: es, h => by
        simp only [cleanBL, Bool.and_eq_true] at h
        intro x hx
        simp only [List.mem_cons] at hx
        rcases hx with hx | hx
        · rw [hx]; exact cleanB_sound e h.1
        · exact cleanBL_sound es h.2 x hx
  termination_by structural x => x
end

def plainIndexB : Expr → Bool
  | .slice .. => false
  | .tuple _ => false
  | _ => true

theorem plainIndexB_sound (i : Expr) (h : plainIndexB i = true) : plainIndex i := by
  cases i <;> simp [plainIndexB] at h <;> simp [plainIndex]

mutual
  def simpleTB : Expr → Bool
    | .name _ => true
    | .attribute o _ => cleanB o
    | .subscript o i => cleanB o && cleanB i && plainIndexB i
    | .tuple es => simpleTBL es && decide (starCount es ≤ 1)
    | .list es => simpleTBL es && decide (starCount es ≤ 1)
    | .starred sub => simpleTB sub
    | _ => false
  def simpleTBL : List Expr → Bool
    | [] => true
    | e :: es => simpleTB e && simpleTBL es
end

mutual
  theorem simpleTB_sound : ∀ (t : Expr), simpleTB t = true → SimpleT t
    | .name _, _ => .name _
    | .attribute o a, h => .attr _ _ (cleanB_sound _ (by simpa [simpleTB] using h))
    | .subscript o i, h => by
        simp only [simpleTB, Bool.and_eq_true] at h
        exact .sub _ _ (cleanB_sound _ h.1.1) (cleanB_sound _ h.1.2) (plainIndexB_sound _ h.2)
    | .tuple es, h => by
        simp only [simpleTB, Bool.and_eq_true, decide_eq_true_eq] at h
        exact .tuple es (simpleTBL_sound es h.1) h.2
    | .list es, h => by
        simp only [simpleTB, Bool.and_eq_true, decide_eq_true_eq] at h
        exact .list es (simpleTBL_sound es h.1) h.2
    | .starred sub, h => .starred sub (simpleTB_sound sub (by simpa [simpleTB] using h))
    | .const _, h => by simp [simpleTB] at h
    | .joinedStr _, h => by simp [simpleTB] at h
    | .formattedValue .., h => by simp [simpleTB] at h
    | .set _, h => by simp [simpleTB] at h
    | .dict _, h => by simp [simpleTB] at h
    | .slice .., h => by simp [simpleTB] at h
    | .call .., h => by simp [simpleTB] at h
    | .binOp .., h => by simp [simpleTB] at h
    | .boolOp .., h => by simp [simpleTB] at h
    | .unaryOp .., h => by simp [simpleTB] at h
    | .compare .., h => by simp [simpleTB] at h
    | .ifExp .., h => by simp [simpleTB] at h
    | .lambda .., h => by simp [simpleTB] at h
    | .namedExpr .., h => by simp [simpleTB] at h
    | .listComp .., h => by simp [simpleTB] at h
    | .setComp .., h => by simp [simpleTB] at h
    | .dictComp .., h => by simp [simpleTB] at h
    | .generatorExp .., h => by simp [simpleTB] at h
    | .yield_ _, h => by simp [simpleTB] at h
    | .yieldFrom _, h => by simp [simpleTB] at h
    | .await _, h => by simp [simpleTB] at h
  termination_by structural x => x
  theorem simpleTBL_sound : ∀ (es : List Expr), simpleTBL es = true → ∀ e ∈ es, SimpleT e
    | [], _ => by intro e he; cases he
    | e :: es, h => by
        simp only [simpleTBL, Bool.and_eq_true] at h
        intro x hx
        simp only [List.mem_cons] at hx
        rcases hx with hx | hx
        · rw [hx]; exact simpleTB_sound e h.1
        · exact simpleTBL_sound es h.2 x hx
  termination_by structural x => x
end

mutual
  def simpleSB (w : Bool) : Stmt → Bool
    | .expr e => cleanB e
    | .pass_ => true
    | .global_ _ => true
    | .assign ts value => !ts.isEmpty && ts.all simpleTB && cleanB value
    | .augAssign t _ value => simpleTB t && cleanB value
    | .if_ test body orelse => cleanB test && simpleLB w body && simpleLB w orelse
    | .for_ target iter body orelse => simpleTB target && cleanB iter && simpleLB w body && simpleLB w orelse
    | .while_ test body orelse => w && cleanB test && noWalrus test && simpleLB w body && simpleLB w orelse
    | _ => false
  def simpleLB (w : Bool) : List Stmt → Bool
    | [] => true
    | s :: ss => simpleSB w s && simpleLB w ss
end

mutual
  theorem simpleSB_sound (w : Bool) : ∀ (s : Stmt), simpleSB w s = true → SimpleS w s
    | .expr e, h => .expr _ (cleanB_sound _ (by simpa [simpleSB] using h))
    | .pass_, _ => .pass
    | .global_ _, _ => .global_ _
    | .assign ts value, h => by
        simp only [simpleSB, Bool.and_eq_true] at h
        refine .assign ts value ?_ ?_ (cleanB_sound _ h.2)
        · intro he; simp [he] at h
        · intro t ht
          exact simpleTB_sound t (List.all_eq_true.mp h.1.2 t ht)
    | .augAssign t _ value, h => by
        simp only [simpleSB, Bool.and_eq_true] at h
        exact .aug _ _ _ (simpleTB_sound _ h.1) (cleanB_sound _ h.2)
    | .if_ test body orelse, h => by
        simp only [simpleSB, Bool.and_eq_true] at h
        exact .if_ test body orelse (cleanB_sound _ h.1.1) (simpleLB_sound w body h.1.2) (simpleLB_sound w orelse h.2)
    | .for_ target iter body orelse, h => by
        simp only [simpleSB, Bool.and_eq_true] at h
        exact .for_ target iter body orelse (simpleTB_sound _ h.1.1.1) (cleanB_sound _ h.1.1.2) (simpleLB_sound w body h.1.2) (simpleLB_sound w orelse h.2)
    | .while_ test body orelse, h => by
        simp only [simpleSB, Bool.and_eq_true] at h
        exact .while_ test body orelse h.1.1.1.1 (cleanB_sound _ h.1.1.1.2) h.1.1.2 (simpleLB_sound w body h.1.2) (simpleLB_sound w orelse h.2)
    | .break_, h => by simp [simpleSB] at h
    | .continue_, h => by simp [simpleSB] at h
    | .annAssign .., h => by simp [simpleSB] at h
    | .functionDef .., h => by simp [simpleSB] at h
    | .return_ _, h => by simp [simpleSB] at h
    | .nonlocal_ _, h => by simp [simpleSB] at h
    | .classDef .., h => by simp [simpleSB] at h
    | .import_ _, h => by simp [simpleSB] at h
    | .importFrom .., h => by simp [simpleSB] at h
    | .other .., h => by simp [simpleSB] at h
  theorem simpleLB_sound (w : Bool) : ∀ (ss : List Stmt), simpleLB w ss = true → ∀ s ∈ ss, SimpleS w s
    | [], _ => by intro s hs; cases hs
    | s :: ss, h => by
        simp only [simpleLB, Bool.and_eq_true] at h
        intro x hx
        simp only [List.mem_cons] at hx
        rcases hx with hx | hx
        · rw [hx]; exact simpleSB_sound w s h.1
        · exact simpleLB_sound w ss h.2 x hx
end

/-- the whole module falls under `C01.module_straightline_semantics` -/
def simpleModuleB (body : List Stmt) : Bool := simpleLB false body

theorem simpleModuleB_sound (body : List Stmt) (h : simpleModuleB body = true) : ∀ s ∈ body, SimpleS false s :=
  simpleLB_sound false body h

/-- ... under `C01.module_with_while_semantics` (the fragment that also has `while`) -/
def simpleModuleWB (body : List Stmt) : Bool := simpleLB true body

theorem simpleModuleWB_sound (body : List Stmt) (h : simpleModuleWB body = true) : ∀ s ∈ body, SimpleS true s :=
  simpleLB_sound true body h

end OlVerif.Sem
