/-
  Simulation: a straight-line module-level program and the expression it is converted to reach the
  same user state, for every world.
-/
import OlVerif.Sem.Frame
import OlVerif.Lower.ModuleId
import OlVerif.Lower.Binder
import OlVerif.Lower.Reject

namespace OlVerif.Sem
variable {U V : Type}

/-- a sequence of expressions evaluated left to right, values dropped -/
def Seq (W : World U V) (es : List Expr) (u : U) (t : T V) (u' : U) (t' : T V) : Prop :=
  ∃ vs, EvL W es u t vs u' t'

theorem Seq.nil (W : World U V) (u : U) (t : T V) : Seq W [] u t u t := ⟨[], .nil u t⟩

theorem Seq.cons {W : World U V} {e : Expr} {es : List Expr} {u u1 u2 : U} {t t1 t2 : T V} {v : V}
    (h : Ev W e u t v u1 t1) (hs : Seq W es u1 t1 u2 t2) : Seq W (e :: es) u t u2 t2 := by
  obtain ⟨vs, hvs⟩ := hs
  exact ⟨v :: vs, .cons h hvs⟩

theorem evL_append {W : World U V} : ∀ {a b : List Expr} {u u1 u2 : U} {t t1 t2 : T V} {va vb : List V},
    EvL W a u t va u1 t1 → EvL W b u1 t1 vb u2 t2 → EvL W (a ++ b) u t (va ++ vb) u2 t2
  | _, _, _, _, _, _, _, _, _, _, .nil _ _, hb => hb
  | _, _, _, _, _, _, _, _, _, _, .cons h hs, hb => .cons h (evL_append hs hb)

theorem Seq.append {W : World U V} {a b : List Expr} {u u1 u2 : U} {t t1 t2 : T V}
    (ha : Seq W a u t u1 t1) (hb : Seq W b u1 t1 u2 t2) : Seq W (a ++ b) u t u2 t2 := by
  obtain ⟨va, ha⟩ := ha
  obtain ⟨vb, hb⟩ := hb
  exact ⟨va ++ vb, evL_append ha hb⟩

theorem lookup_head (x : String) (v : V) (t : T V) : List.lookup x ((x, v) :: t) = some v := by
  simp [List.lookup]

theorem lookup_skip {x y : String} (h : x ≠ y) (v : V) (t : T V) : List.lookup x ((y, v) :: t) = List.lookup x t := by
  have : (x == y) = false := by simpa using h
  simp [List.lookup, this]

theorem getAssign_module {n : Nsp} (hn : n.kind = .module) (x : String) (v : Expr) :
    n.getAssign x v = .ok (.namedExpr x v) := by simp [Nsp.getAssign, hn]

theorem getLoad_module {n : Nsp} (hn : n.kind = .module) (b : List String) (x : String) :
    n.getLoad b x = .ok (.name x) := by simp [Nsp.getLoad, hn]

theorem convertIndex_plain {i : Expr} (h : plainIndex i) : convertIndex i = i := by
  cases i <;> simp [plainIndex] at h <;> simp [convertIndex]

theorem isTemp_fresh (st : St) (p : String) : isTemp (st.fresh p).1 := by
  unfold isTemp St.fresh
  exact C09aux st.sup p
where
  C09aux (s : Supply) (p : String) : (s.fresh p).1.toList.take 5 = "__ol_".toList := by
    rw [fresh_eq]; simp [String.toList_append]

theorem fresh_ne (st st2 : St) (p q : String) (h : st.sup.next ≠ st2.sup.next) : (st.fresh p).1 ≠ (st2.fresh q).1 := by
  intro he
  exact h (fresh_inj st.sup st2.sup p q he)

theorem fresh_next (st : St) (p : String) : (st.fresh p).2.sup.next = st.sup.next + 1 := rfl

theorem ite_cases {α : Type} {c : Prop} [Decidable c] {a b : Except Err α} {r : α}
    (h : (if c then a else b) = .ok r) : (c ∧ a = .ok r) ∨ (¬ c ∧ b = .ok r) := by
  split at h
  · rename_i hc; exact Or.inl ⟨hc, h⟩
  · rename_i hc; exact Or.inr ⟨hc, h⟩

/-- the flags that make the module prelude import helper modules -/
def sameFlags (a b : St) : Prop :=
  a.useItertools = b.useItertools ∧ a.useImportlib = b.useImportlib ∧ a.usePreset = b.usePreset

theorem sameFlags_refl (a : St) : sameFlags a a := ⟨rfl, rfl, rfl⟩
theorem sameFlags_fresh (a : St) (p : String) : sameFlags (a.fresh p).2 a := ⟨rfl, rfl, rfl⟩
theorem sameFlags_trans {a b c : St} (h1 : sameFlags a b) (h2 : sameFlags b c) : sameFlags a c :=
  ⟨h1.1.trans h2.1, h1.2.1.trans h2.2.1, h1.2.2.trans h2.2.2⟩

/-! ### assignment targets fed from a helper variable -/

theorem assignAuto_sim (W : World U V) {n : Nsp} (hn : n.kind = .module) {tg : Expr} (hs : SimpleT tg)
    {v : V} {u u' : U} (ha : AssignT W tg v u u') (tmp : String) (htmp : isTemp tmp)
    (t : T V) (hl : t.lookup tmp = some v) (st : St) (es : List Expr) (st' : St)
    (h : assignAuto n false tg (.name tmp) st = .ok (es, st')) : Seq W es u t u' t ∧ st' = st := by
  cases ha with
  | name x v u hx =>
      simp only [assignAuto] at h
      obtain ⟨r, hr, h⟩ := bind_ok h
      rw [getAssign_module hn] at hr
      cases hr
      cases pure_ok h
      exact ⟨Seq.cons (.walrus x _ hx (.temp tmp u t v htmp hl)) (Seq.nil W _ _), rfl⟩
  | attr o a ho hset =>
      cases hs with
      | attr _ _ hco =>
        simp only [assignAuto] at h
        obtain ⟨o', ho', h⟩ := bind_ok h
        cases pure_ok h
        rw [transf_module_id n hn [] o o' ho']
        have f1 := (frame W ho hco).2 t
        exact ⟨Seq.cons (.setattr o a _ f1 (.temp tmp _ t v htmp hl) hset) (Seq.nil W _ _), rfl⟩
  | sub o i ho hi hset =>
      cases hs with
      | sub _ _ hco hci hp =>
        simp only [assignAuto] at h
        obtain ⟨i', hi', h⟩ := bind_ok h
        obtain ⟨o', ho', h⟩ := bind_ok h
        cases pure_ok h
        rw [transf_module_id n hn [] o o' ho', transf_module_id n hn [] i i' hi', convertIndex_plain hp]
        have f1 := (frame W ho hco).2 t
        have f2 := (frame W hi hci).2 t
        exact ⟨Seq.cons (.setitem o i _ f1 f2 (.temp tmp _ t v htmp hl) hset) (Seq.nil W _ _), rfl⟩

theorem assignTargets_sim (W : World U V) {n : Nsp} (hn : n.kind = .module) (tmp : String) (htmp : isTemp tmp) {v : V} (t : T V)
    (hl : t.lookup tmp = some v) : ∀ (ts : List Expr), (∀ tg ∈ ts, SimpleT tg) → ∀ {u u' : U}, AssignAll W ts v u u' →
    ∀ (st : St) (es : List Expr) (st' : St), assignTargets n (.name tmp) ts st = .ok (es, st') → Seq W es u t u' t ∧ st' = st
  | [], _, _, _, .nil _ _, st, es, st', h => by
      simp only [assignTargets] at h; cases h; exact ⟨Seq.nil W _ _, rfl⟩
  | tg :: ts, hs, _, _, .cons h1 h2, st, es, st', h => by
      simp only [assignTargets] at h
      obtain ⟨⟨a, st1⟩, ha, h⟩ := bind_ok h
      obtain ⟨⟨b, st2⟩, hb, h⟩ := bind_ok h
      cases pure_ok h
      have r1 := assignAuto_sim W hn (hs tg (by simp)) h1 tmp htmp t hl st a st1 ha
      have r2 := assignTargets_sim W hn tmp htmp t hl ts (fun x hx => hs x (by simp [hx])) h2 st1 b st2 hb
      exact ⟨Seq.append r1.1 r2.1, r2.2.trans r1.2⟩

/-! ### statements -/

theorem lowerSimple_sim (W : World U V) (cx : Ctx) (hn : cx.nsp.kind = .module) {s : Stmt} (hs : SimpleS s)
    (hnif : ∀ c b e, s ≠ .if_ c b e)
    {u u' : U} (hx : ExecS W s u u') (t : T V) (st : St) (es : List Expr) (st' : St)
    (h : lowerStmt cx s st = .ok (es, st')) : (∃ t', Seq W es u t u' t') ∧ sameFlags st' st := by
  cases hx with
  | ifTrue c b e => exact absurd rfl (hnif c b e)
  | ifFalse c b e => exact absurd rfl (hnif c b e)
  | expr e he =>
      cases hs with
      | expr _ hc =>
        simp only [lowerStmt] at h
        obtain ⟨e', he', h⟩ := bind_ok h
        cases pure_ok h
        rw [transf_module_id _ hn [] e e' he']
        exact ⟨⟨t, Seq.cons ((frame W he hc).2 t) (Seq.nil W _ _)⟩, sameFlags_refl _⟩
  | pass u =>
      simp only [lowerStmt] at h
      cases ok_ok h
      exact ⟨⟨t, Seq.cons (.const .ellipsis u t) (Seq.nil W _ _)⟩, sameFlags_refl _⟩
  | global_ ns u =>
      simp only [lowerStmt] at h
      cases ok_ok h
      exact ⟨⟨t, Seq.nil W _ _⟩, sameFlags_refl _⟩
  | assign ts value hv hall =>
      cases hs with
      | assign _ _ hne hts hcv =>
        simp only [lowerStmt] at h
        obtain ⟨v', hv', h⟩ := bind_ok h
        rw [transf_module_id _ hn [] value v' hv'] at h
        have fv := (frame W hv hcv).2 t
        rcases ite_cases h with ⟨_, h⟩ | ⟨hcond, h⟩
        · -- through a helper variable
          obtain ⟨⟨r, st2⟩, hr, h⟩ := bind_ok h
          cases pure_ok h
          have htmp := isTemp_fresh st "assign"
          have r1 := assignTargets_sim W hn (st.fresh "assign").1 htmp ((_, _) :: t) (lookup_head _ _ t) ts hts hall _ r st2 hr
          obtain ⟨r1a, rfl⟩ := r1
          exact ⟨⟨_, Seq.cons (.walrusT _ value htmp fv) r1a⟩, sameFlags_fresh st "assign"⟩
        · -- a single name target
          match ts, hne, hts, hall, hcond, h with
          | [tg], _, hts, hall, hcond, h =>
            cases hall with
            | cons h1 h2 =>
              cases h2
              cases h1 with
              | name x v u hxn =>
                simp only [assignTargets, assignAuto] at h
                obtain ⟨⟨a, st1⟩, ha, h⟩ := bind_ok h
                obtain ⟨r, hr, ha⟩ := bind_ok ha
                rw [getAssign_module hn] at hr
                cases hr
                cases pure_ok ha
                obtain ⟨⟨b, st2⟩, hb, h⟩ := bind_ok h
                cases ok_ok hb
                cases pure_ok h
                exact ⟨⟨t, Seq.cons (.walrus x value hxn fv) (Seq.nil W _ _)⟩, sameFlags_refl _⟩
              | attr o a _ _ => simp at hcond
              | sub o i _ _ _ => simp at hcond
          | t1 :: t2 :: rest, _, _, _, hcond, _ => simp at hcond
  | augName x op value hxn hload hval hiop =>
      cases hs with
      | aug _ _ _ _ hcv =>
        simp only [lowerStmt, lowerAugAssign] at h
        obtain ⟨v', hv', h⟩ := bind_ok h
        rw [transf_module_id _ hn [] value v' hv'] at h
        obtain ⟨l, hl, h⟩ := bind_ok h
        rw [getLoad_module hn] at hl
        cases hl
        obtain ⟨r, hr, h⟩ := bind_ok h
        rw [getAssign_module hn] at hr
        cases hr
        cases pure_ok h
        have f1 := (frame W hload (.name x hxn)).2 t
        have f2 := (frame W hval hcv).2 t
        exact ⟨⟨t, Seq.cons (.walrus x _ hxn (.iop _ op _ f1 f2 hiop)) (Seq.nil W _ _)⟩, sameFlags_fresh _ _⟩
  | augAttr o a op value ho hget hval hiop hset =>
      cases hs with
      | aug _ _ _ hst hcv =>
        cases hst with
        | attr _ _ hco =>
          simp only [lowerStmt, lowerAugAssign] at h
          obtain ⟨v', hv', h⟩ := bind_ok h
          rw [transf_module_id _ hn [] value v' hv'] at h
          obtain ⟨o', ho', h⟩ := bind_ok h
          rw [transf_module_id _ hn [] o o' ho'] at h
          cases pure_ok h
          -- the two helper variables
          have hT := isTemp_fresh st "augass"
          have hO := isTemp_fresh (st.fresh "augass").2 "augobj"
          have hne : ((st.fresh "augass").2.fresh "augobj").1 ≠ (st.fresh "augass").1 :=
            fresh_ne _ _ _ _ (by rw [fresh_next]; omega)
          have f1 := (frame W ho hco).2 t
          refine ⟨⟨_, Seq.cons (.walrusT _ o hO f1) (Seq.cons (.walrusT _ _ hT
            (.attr _ a (.temp _ _ _ _ hO (lookup_head _ _ _)) hget)) (Seq.cons
            (.setattr _ a _ (.temp _ _ _ _ hO ((lookup_skip hne _ _).trans (lookup_head _ _ _)))
              (.iop _ op _ (.temp _ _ _ _ hT (lookup_head _ _ _)) ((frame W hval hcv).2 _) hiop) hset) (Seq.nil W _ _)))⟩, ?_⟩
          exact sameFlags_trans (sameFlags_fresh _ _) (sameFlags_fresh _ _)
  | augSub o i op value ho hi hget hval hiop hset =>
      cases hs with
      | aug _ _ _ hst hcv =>
        cases hst with
        | sub _ _ hco hci hp =>
          simp only [lowerStmt, lowerAugAssign] at h
          obtain ⟨v', hv', h⟩ := bind_ok h
          rw [transf_module_id _ hn [] value v' hv'] at h
          obtain ⟨o', ho', h⟩ := bind_ok h
          rw [transf_module_id _ hn [] o o' ho'] at h
          obtain ⟨i', hi', h⟩ := bind_ok h
          rw [transf_module_id _ hn [] i i' hi', convertIndex_plain hp] at h
          cases pure_ok h
          have hT := isTemp_fresh st "augass"
          have hS := isTemp_fresh (st.fresh "augass").2 "sllice"
          have hO := isTemp_fresh ((st.fresh "augass").2.fresh "sllice").2 "augobj"
          have hOT : (((st.fresh "augass").2.fresh "sllice").2.fresh "augobj").1 ≠ (st.fresh "augass").1 :=
            fresh_ne _ _ _ _ (by rw [fresh_next, fresh_next]; omega)
          have hOS : (((st.fresh "augass").2.fresh "sllice").2.fresh "augobj").1 ≠ ((st.fresh "augass").2.fresh "sllice").1 :=
            fresh_ne _ _ _ _ (by rw [fresh_next]; omega)
          have hST : ((st.fresh "augass").2.fresh "sllice").1 ≠ (st.fresh "augass").1 :=
            fresh_ne _ _ _ _ (by rw [fresh_next]; omega)
          have f1 := (frame W ho hco).2 t
          have f2 := (frame W hi hci).2
          refine ⟨⟨_, Seq.cons (.walrusT _ o hO f1) (Seq.cons (.walrusT _ i hS (f2 _)) (Seq.cons (.walrusT _ _ hT
            (.sub _ _ (.temp _ _ _ _ hO ((lookup_skip hOS _ _).trans (lookup_head _ _ _))) (.temp _ _ _ _ hS (lookup_head _ _ _)) hget))
            (Seq.cons (.setitem _ _ _
              (.temp _ _ _ _ hO ((lookup_skip hOT _ _).trans ((lookup_skip hOS _ _).trans (lookup_head _ _ _))))
              (.temp _ _ _ _ hS ((lookup_skip hST _ _).trans (lookup_head _ _ _)))
              (.iop _ op _ (.temp _ _ _ _ hT (lookup_head _ _ _)) ((frame W hval hcv).2 _) hiop) hset) (Seq.nil W _ _))))⟩, ?_⟩
          exact sameFlags_trans (sameFlags_fresh _ _) (sameFlags_trans (sameFlags_fresh _ _) (sameFlags_fresh _ _))


/-! ### wrappers -/

theorem isChain_call {f a : Expr} (h : isChain f = true) : isChain (.call f [a] []) = true := by
  unfold isChain
  split <;> simp_all

theorem isChain_base (e : Expr) : isChain (.call chainRunner [e] []) = true := by
  simp [isChain, chainRunner, Arguments.empty, Arguments.simple]

theorem chain_fold (W : World U V) : ∀ (es : List Expr) (acc : Expr) {u u1 u2 : U} {t t1 t2 : T V} {vs : List V},
    isChain acc = true → Ev W acc u t W.runner u1 t1 → EvL W es u1 t1 vs u2 t2 →
    Ev W (es.foldl (fun acc x => .call acc [x] []) acc) u t W.runner u2 t2
  | [], acc, _, _, _, _, _, _, _, _, hacc, .nil _ _ => hacc
  | e :: es, acc, _, _, _, _, _, _, _, hc, hacc, .cons h hs =>
      chain_fold W es (.call acc [e] []) (isChain_call hc) (.chain acc e (isChain_call hc) hacc h) hs

/-- either wrapper evaluates the statement expressions left to right and nothing else -/
theorem wrap_sim (W : World U V) (cfg : Cfg) {es : List Expr} {u u' : U} {t t' : T V}
    (h : Seq W es u t u' t') : ∃ v, Ev W (wrapExprs cfg es) u t v u' t' := by
  obtain ⟨vs, h⟩ := h
  match es, h with
  | [], .nil _ _ => exact ⟨_, .const .ellipsis _ _⟩
  | [e], .cons h1 (.nil _ _) => exact ⟨_, h1⟩
  | e1 :: e2 :: rest, h =>
    simp only [wrapExprs]
    cases cfg.wrapper with
    | list => exact ⟨_, .list _ h⟩
    | chainCall =>
      cases h with
      | cons h1 hs =>
        simp only [chainCallWrapper]
        exact ⟨_, chain_fold W _ _ (isChain_base e1) (.chain _ e1 (isChain_base e1) (.runner _ _) h1) hs⟩

theorem seq_nil_inv {W : World U V} {u u' : U} {t t' : T V} (h : Seq W [] u t u' t') : u' = u ∧ t' = t := by
  obtain ⟨vs, h⟩ := h
  cases h
  exact ⟨rfl, rfl⟩

theorem flowKind_module {cx : Ctx} (hn : cx.nsp.kind = .module) (hl : cx.loops = []) : cx.flowKind = .none := by
  simp [Ctx.flowKind, hn, hl]

theorem simple_not_direct {s : Stmt} (hs : SimpleS s) : s.isDirect = false := by
  cases hs <;> rfl

/-! ### the fragment never requests helper imports (static) -/

theorem assignAuto_st {n : Nsp} (hn : n.kind = .module) {tg : Expr} (hs : SimpleT tg) (v : Expr) (st : St) (es : List Expr) (st' : St)
    (h : assignAuto n false tg v st = .ok (es, st')) : st' = st := by
  cases hs with
  | name x =>
      simp only [assignAuto] at h
      obtain ⟨r, _, h⟩ := bind_ok h
      cases pure_ok h; rfl
  | attr o a _ =>
      simp only [assignAuto] at h
      obtain ⟨o', _, h⟩ := bind_ok h
      cases pure_ok h; rfl
  | sub o i _ _ _ =>
      simp only [assignAuto] at h
      obtain ⟨i', _, h⟩ := bind_ok h
      obtain ⟨o', _, h⟩ := bind_ok h
      cases pure_ok h; rfl

theorem assignTargets_st {n : Nsp} (hn : n.kind = .module) (v : Expr) : ∀ (ts : List Expr), (∀ tg ∈ ts, SimpleT tg) →
    ∀ (st : St) (es : List Expr) (st' : St), assignTargets n v ts st = .ok (es, st') → st' = st
  | [], _, st, es, st', h => by simp only [assignTargets] at h; cases h; rfl
  | tg :: ts, hs, st, es, st', h => by
      simp only [assignTargets] at h
      obtain ⟨⟨a, st1⟩, ha, h⟩ := bind_ok h
      obtain ⟨⟨b, st2⟩, hb, h⟩ := bind_ok h
      cases pure_ok h
      have e1 := assignAuto_st hn (hs tg (by simp)) v st a st1 ha
      have e2 := assignTargets_st hn v ts (fun x hx => hs x (by simp [hx])) st1 b st2 hb
      exact e2.trans e1

mutual
  theorem lowerStmt_flags : ∀ (s : Stmt) (cx : Ctx), cx.nsp.kind = .module → cx.loops = [] →
      SimpleS s → ∀ (st : St) (es : List Expr) (st' : St), lowerStmt cx s st = .ok (es, st') → sameFlags st' st
    | .if_ test body orelse, cx, hn, hl, hs, st, es, st', h => by
        cases hs with
        | if_ _ _ _ hct hsb hso =>
          simp only [lowerStmt] at h
          obtain ⟨⟨b, st1⟩, hb, h⟩ := bind_ok h
          obtain ⟨⟨o, st2⟩, ho, h⟩ := bind_ok h
          obtain ⟨t', ht', h⟩ := bind_ok h
          have hfl : sameFlags st2 st :=
            sameFlags_trans (lowerBlock_flags orelse cx hn hl hso st1 o st2 ho) (lowerBlock_flags body cx hn hl hsb st b st1 hb)
          cases hst : cx.cfg.ifStyle with
          | ifExpr => simp only [hst] at h; cases pure_ok h; exact hfl
          | shortCircuit =>
            simp only [hst] at h
            rcases ite_cases h with ⟨_, h⟩ | ⟨_, h⟩ <;> (cases pure_ok h; exact hfl)
    | .expr e, cx, hn, _, hs, st, es, st', h => by
        simp only [lowerStmt] at h
        obtain ⟨e', _, h⟩ := bind_ok h
        cases pure_ok h; exact sameFlags_refl _
    | .pass_, cx, hn, _, hs, st, es, st', h => by simp only [lowerStmt] at h; cases ok_ok h; exact sameFlags_refl _
    | .global_ _, cx, hn, _, hs, st, es, st', h => by simp only [lowerStmt] at h; cases ok_ok h; exact sameFlags_refl _
    | .assign ts value, cx, hn, _, hs, st, es, st', h => by
        cases hs with
        | assign _ _ hne hts hcv =>
          simp only [lowerStmt] at h
          obtain ⟨v', _, h⟩ := bind_ok h
          rcases ite_cases h with ⟨_, h⟩ | ⟨_, h⟩
          · obtain ⟨⟨r, st2⟩, hr, h⟩ := bind_ok h
            cases pure_ok h
            have e := assignTargets_st hn _ ts hts _ r st2 hr
            subst e
            exact sameFlags_fresh st "assign"
          · have e := assignTargets_st hn _ ts hts _ _ _ h
            subst e
            exact sameFlags_refl _
    | .augAssign tg op value, cx, hn, _, hs, st, es, st', h => by
        cases hs with
        | aug _ _ _ hst hcv =>
          simp only [lowerStmt, lowerAugAssign] at h
          obtain ⟨v', _, h⟩ := bind_ok h
          cases hst with
          | name x =>
            obtain ⟨l, _, h⟩ := bind_ok h
            obtain ⟨r, _, h⟩ := bind_ok h
            cases pure_ok h
            exact sameFlags_fresh _ _
          | attr o a _ =>
            obtain ⟨o', _, h⟩ := bind_ok h
            cases pure_ok h
            exact sameFlags_trans (sameFlags_fresh _ _) (sameFlags_fresh _ _)
          | sub o i _ _ _ =>
            obtain ⟨o', _, h⟩ := bind_ok h
            obtain ⟨i', _, h⟩ := bind_ok h
            cases pure_ok h
            exact sameFlags_trans (sameFlags_fresh _ _) (sameFlags_trans (sameFlags_fresh _ _) (sameFlags_fresh _ _))
    | .while_ .., _, _, _, hs, _, _, _, _ => by cases hs
    | .for_ .., _, _, _, hs, _, _, _, _ => by cases hs
    | .break_, _, _, _, hs, _, _, _, _ => by cases hs
    | .continue_, _, _, _, hs, _, _, _, _ => by cases hs
    | .annAssign .., _, _, _, hs, _, _, _, _ => by cases hs
    | .functionDef .., _, _, _, hs, _, _, _, _ => by cases hs
    | .return_ _, _, _, _, hs, _, _, _, _ => by cases hs
    | .nonlocal_ _, _, _, _, hs, _, _, _, _ => by cases hs
    | .classDef .., _, _, _, hs, _, _, _, _ => by cases hs
    | .import_ _, _, _, _, hs, _, _, _, _ => by cases hs
    | .importFrom .., _, _, _, hs, _, _, _, _ => by cases hs
    | .other .., _, _, _, hs, _, _, _, _ => by cases hs

  theorem lowerBlock_flags : ∀ (ss : List Stmt) (cx : Ctx), cx.nsp.kind = .module → cx.loops = [] →
      (∀ s ∈ ss, SimpleS s) → ∀ (st : St) (es : List Expr) (st' : St), lowerBlock cx ss st = .ok (es, st') → sameFlags st' st
    | [], cx, _, _, _, st, es, st', h => by simp only [lowerBlock] at h; cases h; exact sameFlags_refl _
    | s :: ss, cx, hn, hl, hs, st, es, st', h => by
        simp only [lowerBlock] at h
        obtain ⟨⟨a, st1⟩, ha, h⟩ := bind_ok h
        have f1 := lowerStmt_flags s cx hn hl (hs s (by simp)) st a st1 ha
        simp only [simple_not_direct (hs s (by simp)), Bool.false_or, flowKind_module hn hl, mayInt] at h
        rcases ite_cases h with ⟨_, h⟩ | ⟨_, h⟩
        · cases pure_ok h; exact f1
        · simp only [Bool.false_eq_true, if_false] at h
          obtain ⟨⟨rest, st2⟩, hr, h⟩ := bind_ok h
          cases pure_ok h
          exact sameFlags_trans (lowerBlock_flags ss cx hn hl (fun x hx => hs x (by simp [hx])) st1 rest st2 hr) f1
end

/-! ### statements and blocks, with `if` at any nesting -/

mutual
  theorem lowerStmt_sim (W : World U V) (hW : Lawful W) : ∀ (s : Stmt) (cx : Ctx), cx.nsp.kind = .module → cx.loops = [] →
      SimpleS s → ∀ {u u' : U}, ExecS W s u u' → ∀ (t : T V) (st : St) (es : List Expr) (st' : St),
      lowerStmt cx s st = .ok (es, st') → (∃ t', Seq W es u t u' t') ∧ sameFlags st' st
    | .if_ test body orelse, cx, hn, hl, hs, u, u', hx, t, st, es, st', h => by
        cases hs with
        | if_ _ _ _ hct hsb hso =>
          simp only [lowerStmt] at h
          obtain ⟨⟨b, st1⟩, hb, h⟩ := bind_ok h
          obtain ⟨⟨o, st2⟩, ho, h⟩ := bind_ok h
          obtain ⟨t', ht', h⟩ := bind_ok h
          rw [transf_module_id _ hn [] test t' ht'] at h
          have hfl : sameFlags st2 st := by
            cases hx with
            | ifTrue _ _ _ _ _ hxb => exact sameFlags_trans (lowerBlock_flags orelse cx hn hl hso st1 o st2 ho) (lowerBlock_flags body cx hn hl hsb st b st1 hb)
            | ifFalse _ _ _ _ _ hxb => exact sameFlags_trans (lowerBlock_flags orelse cx hn hl hso st1 o st2 ho) (lowerBlock_flags body cx hn hl hsb st b st1 hb)
          cases hx with
          | ifTrue _ _ _ htest htr hxb =>
            have ft := (frame W htest hct).2 t
            obtain ⟨⟨tb, rb⟩, _⟩ := lowerBlock_sim W hW body cx hn hl hsb hxb t st b st1 hb
            obtain ⟨v, hv⟩ := wrap_sim W cx.cfg rb
            cases hst : cx.cfg.ifStyle with
            | ifExpr =>
              simp only [hst] at h
              cases pure_ok h
              exact ⟨⟨tb, Seq.cons (.ifT _ _ _ ft htr hv) (Seq.nil W _ _)⟩, hfl⟩
            | shortCircuit =>
              simp only [hst] at h
              rcases ite_cases h with ⟨_, h⟩ | ⟨_, h⟩
              · cases pure_ok h
                exact ⟨⟨tb, Seq.cons (.andT _ _ ft htr hv) (Seq.nil W _ _)⟩, hfl⟩
              · cases pure_ok h
                -- `test and [body] or else`: the one-element list is true, whatever the body's value is
                have hlist : Ev W (.list [wrapExprs cx.cfg b]) _ t (W.listOf [v]) _ tb := .list _ (.cons hv (.nil _ _))
                have hand := Ev.andT (W := W) test (.list [wrapExprs cx.cfg b]) ft htr hlist
                exact ⟨⟨tb, Seq.cons (.orT _ _ hand (hW.list _ _ _)) (Seq.nil W _ _)⟩, hfl⟩
          | ifFalse _ _ _ htest htr hxb =>
            have ft := (frame W htest hct).2 t
            obtain ⟨⟨to, ro⟩, _⟩ := lowerBlock_sim W hW orelse cx hn hl hso hxb t st1 o st2 ho
            obtain ⟨v, hv⟩ := wrap_sim W cx.cfg ro
            cases hst : cx.cfg.ifStyle with
            | ifExpr =>
              simp only [hst] at h
              cases pure_ok h
              exact ⟨⟨to, Seq.cons (.ifF _ _ _ ft htr hv) (Seq.nil W _ _)⟩, hfl⟩
            | shortCircuit =>
              simp only [hst] at h
              rcases ite_cases h with ⟨hoe, h⟩ | ⟨_, h⟩
              · cases pure_ok h
                have : o = [] := by simpa using hoe
                subst this
                obtain ⟨rfl, rfl⟩ := seq_nil_inv ro
                exact ⟨⟨_, Seq.cons (.andF _ _ ft htr) (Seq.nil W _ _)⟩, hfl⟩
              · cases pure_ok h
                -- the test is false: `and` yields its value, `or` takes its truth value again (the same, by `retest`)
                have hand := Ev.andF (W := W) test (.list [wrapExprs cx.cfg b]) ft htr
                exact ⟨⟨to, Seq.cons (.orF _ _ hand (hW.retest _ _ _ _ htr) hv) (Seq.nil W _ _)⟩, hfl⟩
    | .expr e, cx, hn, _, hs, _, _, hx, t, st, es, st', h => lowerSimple_sim W cx hn hs (by intro c b e h; cases h) hx t st es st' h
    | .pass_, cx, hn, _, hs, _, _, hx, t, st, es, st', h => lowerSimple_sim W cx hn hs (by intro c b e h; cases h) hx t st es st' h
    | .global_ _, cx, hn, _, hs, _, _, hx, t, st, es, st', h => lowerSimple_sim W cx hn hs (by intro c b e h; cases h) hx t st es st' h
    | .assign _ _, cx, hn, _, hs, _, _, hx, t, st, es, st', h => lowerSimple_sim W cx hn hs (by intro c b e h; cases h) hx t st es st' h
    | .augAssign _ _ _, cx, hn, _, hs, _, _, hx, t, st, es, st', h => lowerSimple_sim W cx hn hs (by intro c b e h; cases h) hx t st es st' h
    | .while_ .., _, _, _, hs, _, _, _, _, _, _, _, _ => by cases hs
    | .for_ .., _, _, _, hs, _, _, _, _, _, _, _, _ => by cases hs
    | .break_, _, _, _, hs, _, _, _, _, _, _, _, _ => by cases hs
    | .continue_, _, _, _, hs, _, _, _, _, _, _, _, _ => by cases hs
    | .annAssign .., _, _, _, hs, _, _, _, _, _, _, _, _ => by cases hs
    | .functionDef .., _, _, _, hs, _, _, _, _, _, _, _, _ => by cases hs
    | .return_ _, _, _, _, hs, _, _, _, _, _, _, _, _ => by cases hs
    | .nonlocal_ _, _, _, _, hs, _, _, _, _, _, _, _, _ => by cases hs
    | .classDef .., _, _, _, hs, _, _, _, _, _, _, _, _ => by cases hs
    | .import_ _, _, _, _, hs, _, _, _, _, _, _, _, _ => by cases hs
    | .importFrom .., _, _, _, hs, _, _, _, _, _, _, _, _ => by cases hs
    | .other .., _, _, _, hs, _, _, _, _, _, _, _, _ => by cases hs

  theorem lowerBlock_sim (W : World U V) (hW : Lawful W) : ∀ (ss : List Stmt) (cx : Ctx), cx.nsp.kind = .module → cx.loops = [] →
      (∀ s ∈ ss, SimpleS s) → ∀ {u u' : U}, ExecB W ss u u' → ∀ (t : T V) (st : St) (es : List Expr) (st' : St),
      lowerBlock cx ss st = .ok (es, st') → (∃ t', Seq W es u t u' t') ∧ sameFlags st' st
    | [], cx, _, _, _, _, _, .nil _, t, st, es, st', h => by
        simp only [lowerBlock] at h; cases h; exact ⟨⟨t, Seq.nil W _ _⟩, sameFlags_refl _⟩
    | s :: ss, cx, hn, hl, hs, _, _, .cons h1 h2, t, st, es, st', h => by
        simp only [lowerBlock] at h
        obtain ⟨⟨a, st1⟩, ha, h⟩ := bind_ok h
        obtain ⟨⟨t1, r1⟩, f1⟩ := lowerStmt_sim W hW s cx hn hl (hs s (by simp)) h1 t st a st1 ha
        simp only [simple_not_direct (hs s (by simp)), Bool.false_or, flowKind_module hn hl, mayInt] at h
        rcases ite_cases h with ⟨hemp, h⟩ | ⟨_, h⟩
        · cases pure_ok h
          have : ss = [] := by simpa using hemp
          subst this
          cases h2
          exact ⟨⟨t1, r1⟩, f1⟩
        · simp only [Bool.false_eq_true, if_false] at h
          obtain ⟨⟨rest, st2⟩, hr, h⟩ := bind_ok h
          cases pure_ok h
          obtain ⟨⟨t2, r2⟩, f2⟩ := lowerBlock_sim W hW ss cx hn hl (fun x hx => hs x (by simp [hx])) h2 t1 st1 rest st2 hr
          exact ⟨⟨t2, Seq.append r1 r2⟩, sameFlags_trans f2 f1⟩
end

/-! ### the module -/

theorem goModule_sim (W : World U V) (hW : Lawful W) (cx : Ctx) (hn : cx.nsp.kind = .module) (hl : cx.loops = []) :
    ∀ (ss : List Stmt), (∀ s ∈ ss, SimpleS s) → ∀ {u u' : U}, ExecB W ss u u' → ∀ (t : T V) (st : St) (es : List Expr) (st' : St),
      lowerFull.goModule cx ss st = .ok (es, st') → (∃ t', Seq W es u t u' t') ∧ sameFlags st' st
  | [], _, _, _, .nil _, t, st, es, st', h => by
      simp only [lowerFull.goModule] at h; cases h; exact ⟨⟨t, Seq.nil W _ _⟩, sameFlags_refl _⟩
  | s :: ss, hs, _, _, .cons h1 h2, t, st, es, st', h => by
      simp only [lowerFull.goModule] at h
      obtain ⟨⟨a, st1⟩, ha, h⟩ := bind_ok h
      obtain ⟨⟨b, st2⟩, hb, h⟩ := bind_ok h
      cases pure_ok h
      obtain ⟨⟨t1, r1⟩, f1⟩ := lowerStmt_sim W hW s cx hn hl (hs s (by simp)) h1 t st a st1 ha
      obtain ⟨⟨t2, r2⟩, f2⟩ := goModule_sim W hW cx hn hl ss (fun x hx => hs x (by simp [hx])) h2 t1 st1 b st2 hb
      exact ⟨⟨t2, Seq.append r1 r2⟩, sameFlags_trans f2 f1⟩

/-- **Module code of the fragment means the same after conversion - for every lawful world.**  Whenever
    the source statements run from user state `u` to `u'`, the one expression the conversion returns
    evaluates from `u` to `u'` (the helper variables it creates are in `t'`, apart from the user
    state), under either wrapper and either if-style. -/
theorem module_sim (W : World U V) (hW : Lawful W) (cfg : Cfg) (root : SymScope) (body : List Stmt) (hs : ∀ s ∈ body, SimpleS s)
    (e : Expr) (h : lowerFull cfg root body = .ok e) {u u' : U} (hx : ExecB W body u u') :
    ∃ v t', Ev W e u [] v u' t' := by
  unfold lowerFull at h
  obtain ⟨⟨g, sup⟩, hg, h⟩ := bind_ok h
  simp only [] at h
  obtain ⟨⟨b, st⟩, hb, h⟩ := bind_ok h
  cases pure_ok h
  have hk : g.kind = .module := generateNsp_kind hg
  obtain ⟨⟨t', r⟩, fl⟩ := goModule_sim W hW { cfg := cfg, nsp := g, loops := [], fnUsed := false } hk rfl body hs hx [] _ b st hb
  obtain ⟨f1, f2, f3⟩ := fl
  simp only [] at f1 f2 f3
  simp only [f1, f2, f3, Bool.false_eq_true, if_false]
  obtain ⟨v, hv⟩ := wrap_sim W cfg r
  exact ⟨v, t', hv⟩

end OlVerif.Sem
