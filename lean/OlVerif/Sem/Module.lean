/-
  Simulation: a straight-line module-level program and the expression it is converted to reach the
  same user state, for every world.
-/
import OlVerif.Sem.Pattern
import OlVerif.Lower.ModuleId
import OlVerif.Lower.Binder
import OlVerif.Lower.Reject

namespace OlVerif.Sem
variable {U V : Type}

/-- what lowering the fragment may do to the flags that make the module prelude import helper modules: nothing,
    except that a `while` (fragment `w = true`) asks for `itertools` -/
def okFlags (w : Bool) (a b : St) : Prop :=
  a.useImportlib = b.useImportlib ∧ a.usePreset = b.usePreset ∧ (w = false → a.useItertools = b.useItertools)

theorem okFlags_of_same {w : Bool} {a b : St} (h : sameFlags a b) : okFlags w a b := ⟨h.2.1, h.2.2, fun _ => h.1⟩
theorem okFlags_refl {w : Bool} (a : St) : okFlags w a a := ⟨rfl, rfl, fun _ => rfl⟩
theorem okFlags_fresh {w : Bool} (a : St) (p : String) : okFlags w (a.fresh p).2 a := ⟨rfl, rfl, fun _ => rfl⟩
theorem okFlags_trans {w : Bool} {a b c : St} (h1 : okFlags w a b) (h2 : okFlags w b c) : okFlags w a c :=
  ⟨h1.1.trans h2.1, h1.2.1.trans h2.2.1, fun hw => (h1.2.2 hw).trans (h2.2.2 hw)⟩

theorem ite_cases {α : Type} {c : Prop} [Decidable c] {a b : Except Err α} {r : α}
    (h : (if c then a else b) = .ok r) : (c ∧ a = .ok r) ∨ (¬ c ∧ b = .ok r) := by
  split at h
  · rename_i hc; exact Or.inl ⟨hc, h⟩
  · rename_i hc; exact Or.inr ⟨hc, h⟩

/-! ### assignment targets fed from a helper variable -/

theorem assignTargets_sim (W : World U V) (hS : LawfulSeq W) {n : Nsp} (hn : n.kind = .module) (tmp : String) (htmp : isTemp tmp) {v : V} :
    ∀ (ts : List Expr), (∀ tg ∈ ts, SimpleT tg) → ∀ {u u' : U}, AssignAll W ts v u u' →
    ∀ (t : T V) (st : St), LiveOk [tmp] st.sup.next → t.lookup tmp = some v →
    ∀ (es : List Expr) (st' : St), assignTargets n (.name tmp) ts st = .ok (es, st') → (∃ t', Seq W es u t u' t') ∧ sameFlags st' st
  | [], _, _, _, .nil _ _, t, st, _, _, es, st', h => by
      simp only [assignTargets] at h; cases h; exact ⟨⟨t, Seq.nil W _ _⟩, sameFlags_refl _⟩
  | tg :: ts, hs, _, _, .cons h1 h2, t, st, hlive, hl, es, st', h => by
      simp only [assignTargets] at h
      obtain ⟨⟨a, st1⟩, ha, h⟩ := bind_ok h
      obtain ⟨⟨b, st2⟩, hb, h⟩ := bind_ok h
      cases pure_ok h
      obtain ⟨t1, r1, hx1, hm1, hf1⟩ := assignAuto_pure W hS hn tg (hs tg (by simp)) false h1 (.name tmp) [tmp] t st hlive
        (pureOn_temp W (by simp) htmp hl) a st1 ha
      have hl1 : t1.lookup tmp = some v := (hx1 tmp (by simp)).trans hl
      obtain ⟨⟨t2, r2⟩, hf2⟩ := assignTargets_sim W hS hn tmp htmp ts (fun x hx => hs x (by simp [hx])) h2 t1 st1 (hlive.mono hm1) hl1 b st2 hb
      exact ⟨⟨t2, Seq.append r1 r2⟩, sameFlags_trans hf2 hf1⟩

theorem liveOk_single (st : St) (p : String) : LiveOk [(st.fresh p).1] (st.fresh p).2.sup.next := by
  intro x hx
  simp only [List.mem_singleton] at hx
  exact ⟨st.sup.next, p, by rw [fresh_next]; omega, hx⟩

/-! ### statements -/

theorem lowerSimple_sim {w : Bool} (W : World U V) (hS : LawfulSeq W) (cx : Ctx) (hn : cx.nsp.kind = .module) {s : Stmt} (hs : SimpleS w s)
    (hnif : ∀ c b e, s ≠ .if_ c b e) (hnfor : ∀ tg i b e, s ≠ .for_ tg i b e) (hnwh : ∀ c b e, s ≠ .while_ c b e)
    {u u' : U} (hx : ExecS W s u u') (t : T V) (st : St) (es : List Expr) (st' : St)
    (h : lowerStmt cx s st = .ok (es, st')) : (∃ t', Seq W es u t u' t') ∧ okFlags w st' st := by
  cases hx with
  | ifTrue c b e => exact absurd rfl (hnif c b e)
  | ifFalse c b e => exact absurd rfl (hnif c b e)
  | for_ tg i b e => exact absurd rfl (hnfor tg i b e)
  | while_ c b e => exact absurd rfl (hnwh c b e)
  | expr e he =>
      cases hs with
      | expr _ hc =>
        simp only [lowerStmt] at h
        obtain ⟨e', he', h⟩ := bind_ok h
        cases pure_ok h
        rw [transf_module_id _ hn [] e e' he']
        exact ⟨⟨t, Seq.cons ((frame W he hc).2 t) (Seq.nil W _ _)⟩, okFlags_refl _⟩
  | pass u =>
      simp only [lowerStmt] at h
      cases ok_ok h
      exact ⟨⟨t, Seq.cons (.const .ellipsis u t) (Seq.nil W _ _)⟩, okFlags_refl _⟩
  | global_ ns u =>
      simp only [lowerStmt] at h
      cases ok_ok h
      exact ⟨⟨t, Seq.nil W _ _⟩, okFlags_refl _⟩
  | assign ts value hv hall =>
      cases hs with
      | assign _ _ hne hts hcv =>
        simp only [lowerStmt] at h
        obtain ⟨v', hv', h⟩ := bind_ok h
        rw [transf_module_id _ hn [] value v' hv'] at h
        have fv := (frame W hv hcv).2 t
        rcases ite_cases h with ⟨_, h⟩ | ⟨hcond, h⟩
        · -- through a helper variable
          obtain ⟨⟨r, st2⟩, hr, h⟩ := bind_ok h
          cases pure_ok h
          have htmp := isTemp_fresh st "assign"
          obtain ⟨⟨t', r1⟩, hf⟩ := assignTargets_sim W hS hn (st.fresh "assign").1 htmp ts hts hall ((_, _) :: t) _ (liveOk_single st "assign")
            (lookup_head _ _ t) r st2 hr
          exact ⟨⟨t', Seq.cons (.walrusT _ value htmp fv) r1⟩, okFlags_trans (okFlags_of_same hf) (okFlags_fresh st "assign")⟩
        · -- a single target that is a name or a pattern: the value expression is evaluated in place
          match ts, hne, hts, hall, hcond, h with
          | [tg], _, hts, hall, hcond, h =>
            cases hall with
            | cons h1 h2 =>
              cases h2
              simp only [assignTargets] at h
              obtain ⟨⟨a, st1⟩, ha, h⟩ := bind_ok h
              obtain ⟨⟨b, st2⟩, hb, h⟩ := bind_ok h
              cases ok_ok hb
              cases pure_ok h
              simp only [List.append_nil]
              have hst := hts tg (by simp)
              cases h1 with
              | name x v u hxn =>
                simp only [assignAuto] at ha
                obtain ⟨r, hr, ha⟩ := bind_ok ha
                rw [getAssign_module hn] at hr
                cases hr
                cases pure_ok ha
                exact ⟨⟨t, Seq.cons (.walrus x value hxn fv) (Seq.nil W _ _)⟩, okFlags_refl _⟩
              | attr o a _ _ => simp at hcond
              | sub o i _ _ _ => simp at hcond
              | @tuple elts _ items vals _ u1 _ hit hvals heach =>
                cases hst with
                | tuple _ hallE hsc =>
                  simp only [assignAuto] at ha
                  obtain ⟨⟨rest, st3⟩, hr, ha⟩ := bind_ok ha
                  cases pure_ok ha
                  have htmp := isTemp_fresh st "assign"
                  obtain ⟨t', hseq, _, _, hfl⟩ := assignElts_pure W hS hn elts hallE heach (st.fresh "assign").1 htmp items vals elts.length (starIndex elts)
                    hvals 0 (by simp) (starAt_init elts hsc) (fun j => by simp) false (by simp)
                    [(st.fresh "assign").1] (((st.fresh "assign").1, W.tupleOf items) :: t) (st.fresh "assign").2 (liveOk_single st "assign")
                    (by simp) (lookup_head _ _ _) rest st3 hr
                  exact ⟨⟨t', Seq.cons (.walrusT _ _ htmp (.tupleCall value fv hit)) hseq⟩, okFlags_trans (okFlags_of_same hfl) (okFlags_fresh _ _)⟩
              | @list elts _ items vals _ u1 _ hit hvals heach =>
                cases hst with
                | list _ hallE hsc =>
                  simp only [assignAuto] at ha
                  obtain ⟨⟨rest, st3⟩, hr, ha⟩ := bind_ok ha
                  cases pure_ok ha
                  have htmp := isTemp_fresh st "assign"
                  obtain ⟨t', hseq, _, _, hfl⟩ := assignElts_pure W hS hn elts hallE heach (st.fresh "assign").1 htmp items vals elts.length (starIndex elts)
                    hvals 0 (by simp) (starAt_init elts hsc) (fun j => by simp) false (by simp)
                    [(st.fresh "assign").1] (((st.fresh "assign").1, W.tupleOf items) :: t) (st.fresh "assign").2 (liveOk_single st "assign")
                    (by simp) (lookup_head _ _ _) rest st3 hr
                  exact ⟨⟨t', Seq.cons (.walrusT _ _ htmp (.tupleCall value fv hit)) hseq⟩, okFlags_trans (okFlags_of_same hfl) (okFlags_fresh _ _)⟩
              | starred sub hin =>
                simp only [assignAuto] at ha
                cases ha
          | t1 :: t2 :: rest, _, _, _, hcond, _ => simp at hcond
  | augName x op value hxn hload hval hiop =>
      cases hs with
      | aug _ _ _ _ hcv =>
        simp only [lowerStmt, lowerAugAssign] at h
        obtain ⟨v', hv', h⟩ := bind_ok h
        rw [transf_module_id _ hn [] value v' hv'] at h
        obtain ⟨l, hl, h⟩ := bind_ok h
        rw [getLoad_module hn] at hl
        cases hl
        obtain ⟨r, hr, h⟩ := bind_ok h
        rw [getAssign_module hn] at hr
        cases hr
        cases pure_ok h
        have f1 := (frame W hload (.name x hxn)).2 t
        have f2 := (frame W hval hcv).2 t
        exact ⟨⟨t, Seq.cons (.walrus x _ hxn (.iop _ op _ f1 f2 hiop)) (Seq.nil W _ _)⟩, okFlags_fresh _ _⟩
  | augAttr o a op value ho hget hval hiop hset =>
      cases hs with
      | aug _ _ _ hst hcv =>
        cases hst with
        | attr _ _ hco =>
          simp only [lowerStmt, lowerAugAssign] at h
          obtain ⟨v', hv', h⟩ := bind_ok h
          rw [transf_module_id _ hn [] value v' hv'] at h
          obtain ⟨o', ho', h⟩ := bind_ok h
          rw [transf_module_id _ hn [] o o' ho'] at h
          cases pure_ok h
          -- the two helper variables
          have hT := isTemp_fresh st "augass"
          have hO := isTemp_fresh (st.fresh "augass").2 "augobj"
          have hne : ((st.fresh "augass").2.fresh "augobj").1 ≠ (st.fresh "augass").1 :=
            fresh_ne _ _ _ _ (by rw [fresh_next]; omega)
          have f1 := (frame W ho hco).2 t
          refine ⟨⟨_, Seq.cons (.walrusT _ o hO f1) (Seq.cons (.walrusT _ _ hT
            (.attr _ a (.temp _ _ _ _ hO (lookup_head _ _ _)) hget)) (Seq.cons
            (.setattr _ a _ (.temp _ _ _ _ hO ((lookup_skip hne _ _).trans (lookup_head _ _ _)))
              (.iop _ op _ (.temp _ _ _ _ hT (lookup_head _ _ _)) ((frame W hval hcv).2 _) hiop) hset) (Seq.nil W _ _)))⟩, ?_⟩
          exact okFlags_trans (okFlags_fresh _ _) (okFlags_fresh _ _)
  | augSub o i op value ho hi hget hval hiop hset =>
      cases hs with
      | aug _ _ _ hst hcv =>
        cases hst with
        | sub _ _ hco hci hp =>
          simp only [lowerStmt, lowerAugAssign] at h
          obtain ⟨v', hv', h⟩ := bind_ok h
          rw [transf_module_id _ hn [] value v' hv'] at h
          obtain ⟨o', ho', h⟩ := bind_ok h
          rw [transf_module_id _ hn [] o o' ho'] at h
          obtain ⟨i', hi', h⟩ := bind_ok h
          rw [transf_module_id _ hn [] i i' hi', convertIndex_plain hp] at h
          cases pure_ok h
          have hT := isTemp_fresh st "augass"
          have hS := isTemp_fresh (st.fresh "augass").2 "sllice"
          have hO := isTemp_fresh ((st.fresh "augass").2.fresh "sllice").2 "augobj"
          have hOT : (((st.fresh "augass").2.fresh "sllice").2.fresh "augobj").1 ≠ (st.fresh "augass").1 :=
            fresh_ne _ _ _ _ (by rw [fresh_next, fresh_next]; omega)
          have hOS : (((st.fresh "augass").2.fresh "sllice").2.fresh "augobj").1 ≠ ((st.fresh "augass").2.fresh "sllice").1 :=
            fresh_ne _ _ _ _ (by rw [fresh_next]; omega)
          have hST : ((st.fresh "augass").2.fresh "sllice").1 ≠ (st.fresh "augass").1 :=
            fresh_ne _ _ _ _ (by rw [fresh_next]; omega)
          have f1 := (frame W ho hco).2 t
          have f2 := (frame W hi hci).2
          refine ⟨⟨_, Seq.cons (.walrusT _ o hO f1) (Seq.cons (.walrusT _ i hS (f2 _)) (Seq.cons (.walrusT _ _ hT
            (.sub _ _ rfl (.temp _ _ _ _ hO ((lookup_skip hOS _ _).trans (lookup_head _ _ _))) (.temp _ _ _ _ hS (lookup_head _ _ _)) hget))
            (Seq.cons (.setitem _ _ _
              (.temp _ _ _ _ hO ((lookup_skip hOT _ _).trans ((lookup_skip hOS _ _).trans (lookup_head _ _ _))))
              (.temp _ _ _ _ hS ((lookup_skip hST _ _).trans (lookup_head _ _ _)))
              (.iop _ op _ (.temp _ _ _ _ hT (lookup_head _ _ _)) ((frame W hval hcv).2 _) hiop) hset) (Seq.nil W _ _))))⟩, ?_⟩
          exact okFlags_trans (okFlags_fresh _ _) (okFlags_trans (okFlags_fresh _ _) (okFlags_fresh _ _))


/-! ### wrappers -/

theorem isChain_call {f a : Expr} (h : isChain f = true) : isChain (.call f [a] []) = true := by
  unfold isChain
  split <;> simp_all

theorem isChain_base (e : Expr) : isChain (.call chainRunner [e] []) = true := by
  simp [isChain, chainRunner, Arguments.empty, Arguments.simple]

theorem chain_fold (W : World U V) : ∀ (es : List Expr) (acc : Expr) {u u1 u2 : U} {t t1 t2 : T V} {vs : List V},
    isChain acc = true → Ev W acc u t W.runner u1 t1 → EvL W es u1 t1 vs u2 t2 →
    Ev W (es.foldl (fun acc x => .call acc [x] []) acc) u t W.runner u2 t2
  | [], acc, _, _, _, _, _, _, _, _, hacc, .nil _ _ => hacc
  | e :: es, acc, _, _, _, _, _, _, _, hc, hacc, .cons h hs =>
      chain_fold W es (.call acc [e] []) (isChain_call hc) (.chain acc e (isChain_call hc) hacc h) hs

/-- either wrapper evaluates the statement expressions left to right and nothing else -/
theorem wrap_sim (W : World U V) (cfg : Cfg) {es : List Expr} {u u' : U} {t t' : T V}
    (h : Seq W es u t u' t') : ∃ v, Ev W (wrapExprs cfg es) u t v u' t' := by
  obtain ⟨vs, h⟩ := h
  match es, h with
  | [], .nil _ _ => exact ⟨_, .const .ellipsis _ _⟩
  | [e], .cons h1 (.nil _ _) => exact ⟨_, h1⟩
  | e1 :: e2 :: rest, h =>
    simp only [wrapExprs]
    cases cfg.wrapper with
    | list => exact ⟨_, .list _ h⟩
    | chainCall =>
      cases h with
      | cons h1 hs =>
        simp only [chainCallWrapper]
        exact ⟨_, chain_fold W _ _ (isChain_base e1) (.chain _ e1 (isChain_base e1) (.runner _ _) h1) hs⟩

theorem seq_nil_inv {W : World U V} {u u' : U} {t t' : T V} (h : Seq W [] u t u' t') : u' = u ∧ t' = t := by
  obtain ⟨vs, h⟩ := h
  cases h
  exact ⟨rfl, rfl⟩

theorem flowKind_module {cx : Ctx} (hn : cx.nsp.kind = .module) (hl : cx.loops = []) : cx.flowKind = .none := by
  simp [Ctx.flowKind, hn, hl]

theorem simple_not_direct {w : Bool} {s : Stmt} (hs : SimpleS w s) : s.isDirect = false := by
  cases hs <;> rfl

mutual
  theorem simple_hasRet {w : Bool} : ∀ (s : Stmt), SimpleS w s → hasRet s = false
    | .if_ _ b e, hs => by
        cases hs with
        | if_ _ _ _ _ hb he => simp [hasRet, simpleL_hasRetL b hb, simpleL_hasRetL e he]
    | .for_ _ _ b e, hs => by
        cases hs with
        | for_ _ _ _ _ _ _ hb he => simp [hasRet, simpleL_hasRetL b hb, simpleL_hasRetL e he]
    | .while_ _ b e, hs => by
        cases hs with
        | while_ _ _ _ _ _ _ hb he => simp [hasRet, simpleL_hasRetL b hb, simpleL_hasRetL e he]
    | .expr _, _ => rfl
    | .pass_, _ => rfl
    | .global_ _, _ => rfl
    | .assign .., _ => rfl
    | .augAssign .., _ => rfl
    | .break_, hs => by cases hs
    | .continue_, hs => by cases hs
    | .annAssign .., hs => by cases hs
    | .functionDef .., hs => by cases hs
    | .return_ _, hs => by cases hs
    | .nonlocal_ _, hs => by cases hs
    | .classDef .., hs => by cases hs
    | .import_ _, hs => by cases hs
    | .importFrom .., hs => by cases hs
    | .other .., hs => by cases hs
  theorem simpleL_hasRetL {w : Bool} : ∀ (ss : List Stmt), (∀ s ∈ ss, SimpleS w s) → hasRetL ss = false
    | [], _ => rfl
    | s :: ss, hs => by
        simp [hasRetL, simple_hasRet s (hs s (by simp)), simpleL_hasRetL ss (fun x hx => hs x (by simp [hx]))]
end

mutual
  theorem simple_hasBC {w : Bool} (bo : Bool) : ∀ (s : Stmt), SimpleS w s → hasBC bo s = false
    | .if_ _ b e, hs => by
        cases hs with
        | if_ _ _ _ _ hb he => simp [hasBC, simpleL_hasBCL bo b hb, simpleL_hasBCL bo e he]
    | .for_ _ _ b e, hs => by
        cases hs with
        | for_ _ _ _ _ _ _ hb he => simp [hasBC, simpleL_hasBCL bo e he]
    | .while_ _ b e, hs => by
        cases hs with
        | while_ _ _ _ _ _ _ hb he => simp [hasBC, simpleL_hasBCL bo e he]
    | .expr _, _ => rfl
    | .pass_, _ => rfl
    | .global_ _, _ => rfl
    | .assign .., _ => rfl
    | .augAssign .., _ => rfl
    | .break_, hs => by cases hs
    | .continue_, hs => by cases hs
    | .annAssign .., hs => by cases hs
    | .functionDef .., hs => by cases hs
    | .return_ _, hs => by cases hs
    | .nonlocal_ _, hs => by cases hs
    | .classDef .., hs => by cases hs
    | .import_ _, hs => by cases hs
    | .importFrom .., hs => by cases hs
    | .other .., hs => by cases hs
  theorem simpleL_hasBCL {w : Bool} (bo : Bool) : ∀ (ss : List Stmt), (∀ s ∈ ss, SimpleS w s) → hasBCL bo ss = false
    | [], _ => rfl
    | s :: ss, hs => by
        simp [hasBCL, simple_hasBC bo s (hs s (by simp)), simpleL_hasBCL bo ss (fun x hx => hs x (by simp [hx]))]
end

theorem simple_mayInt {w : Bool} (fk : FlowKind) {s : Stmt} (hs : SimpleS w s) : mayInt fk s = false := by
  cases fk <;> simp [mayInt, simple_hasRet s hs, simple_hasBC false s hs]

theorem simpleL_anyIntL {w : Bool} : ∀ (ss : List Stmt), (∀ s ∈ ss, SimpleS w s) → anyIntL ss = false
  | [], _ => rfl
  | s :: ss, hs => by simp [anyIntL, simple_mayInt .loop (hs s (by simp)), simpleL_anyIntL ss (fun x hx => hs x (by simp [hx]))]

theorem simpleL_hasBreakL {w : Bool} : ∀ (ss : List Stmt), (∀ s ∈ ss, SimpleS w s) → hasBreakL ss = false
  | [], _ => rfl
  | s :: ss, hs => by
      simp [hasBreakL, simple_hasRet s (hs s (by simp)), simple_hasBC true s (hs s (by simp)), simpleL_hasBreakL ss (fun x hx => hs x (by simp [hx]))]

mutual
  theorem simple_guardsInS {w : Bool} (fk : FlowKind) : ∀ (s : Stmt), SimpleS w s → guardsInS fk s = false
    | .if_ _ b e, hs => by
        cases hs with
        | if_ _ _ _ _ hb he => simp [guardsInS, simpleL_guardsInL fk b hb, simpleL_guardsInL fk e he]
    | .for_ _ _ b e, hs => by
        cases hs with
        | for_ _ _ _ _ _ _ hb he => simp [guardsInS, simpleL_guardsInL fk e he]
    | .while_ _ b e, hs => by
        cases hs with
        | while_ _ _ _ _ _ _ hb he => simp [guardsInS, simpleL_guardsInL fk e he]
    | .expr _, _ => rfl
    | .pass_, _ => rfl
    | .global_ _, _ => rfl
    | .assign .., _ => rfl
    | .augAssign .., _ => rfl
    | .break_, hs => by cases hs
    | .continue_, hs => by cases hs
    | .annAssign .., hs => by cases hs
    | .functionDef .., hs => by cases hs
    | .return_ _, hs => by cases hs
    | .nonlocal_ _, hs => by cases hs
    | .classDef .., hs => by cases hs
    | .import_ _, hs => by cases hs
    | .importFrom .., hs => by cases hs
    | .other .., hs => by cases hs
  theorem simpleL_guardsInL {w : Bool} (fk : FlowKind) : ∀ (ss : List Stmt), (∀ s ∈ ss, SimpleS w s) → guardsInL fk ss = false
    | [], _ => rfl
    | s :: ss, hs => by
        simp [guardsInL, simple_not_direct (hs s (by simp)), simple_mayInt fk (hs s (by simp)), simple_guardsInS fk s (hs s (by simp)),
          simpleL_guardsInL fk ss (fun x hx => hs x (by simp [hx]))]
end

/-! ### the fragment never requests helper imports (static) -/

theorem assignTargets_flags {n : Nsp} (hn : n.kind = .module) (v : Expr) : ∀ (ts : List Expr), (∀ tg ∈ ts, SimpleT tg) →
    ∀ (st : St) (es : List Expr) (st' : St), assignTargets n v ts st = .ok (es, st') → okFlags w st' st
  | [], _, st, es, st', h => by simp only [assignTargets] at h; cases h; exact okFlags_refl _
  | tg :: ts, hs, st, es, st', h => by
      simp only [assignTargets] at h
      obtain ⟨⟨a, st1⟩, ha, h⟩ := bind_ok h
      obtain ⟨⟨b, st2⟩, hb, h⟩ := bind_ok h
      cases pure_ok h
      exact okFlags_trans (assignTargets_flags hn v ts (fun x hx => hs x (by simp [hx])) st1 b st2 hb)
        (okFlags_of_same (assignAuto_flags hn tg (hs tg (by simp)) false v st a st1 ha))

mutual
  theorem lowerStmt_flags {w : Bool} : ∀ (s : Stmt) (cx : Ctx), cx.nsp.kind = .module →
      SimpleS w s → ∀ (st : St) (es : List Expr) (st' : St), lowerStmt cx s st = .ok (es, st') → okFlags w st' st
    | .if_ test body orelse, cx, hn, hs, st, es, st', h => by
        cases hs with
        | if_ _ _ _ hct hsb hso =>
          simp only [lowerStmt] at h
          obtain ⟨⟨b, st1⟩, hb, h⟩ := bind_ok h
          obtain ⟨⟨o, st2⟩, ho, h⟩ := bind_ok h
          obtain ⟨t', ht', h⟩ := bind_ok h
          have hfl : okFlags w st2 st :=
            okFlags_trans (lowerBlock_flags orelse cx hn hso st1 o st2 ho) (lowerBlock_flags body cx hn hsb st b st1 hb)
          cases hst : cx.cfg.ifStyle with
          | ifExpr => simp only [hst] at h; cases pure_ok h; exact hfl
          | shortCircuit =>
            simp only [hst] at h
            rcases ite_cases h with ⟨_, h⟩ | ⟨_, h⟩ <;> (cases pure_ok h; exact hfl)
    | .while_ test body orelse, cx, hn, hs, st, es, st', h => by
        cases hs with
        | while_ _ _ _ hw hct hnw hsb hso =>
          simp only [lowerStmt, simpleL_hasBreakL body hsb, simpleL_guardsInL .loop body hsb] at h
          obtain ⟨⟨b, st1⟩, hb, h⟩ := bind_ok h
          obtain ⟨⟨o, st2⟩, ho, h⟩ := bind_ok h
          obtain ⟨t', _, h⟩ := bind_ok h
          cases pure_ok h
          have h1 := lowerBlock_flags body _ (by exact hn) hsb _ b st1 hb
          have h2 := lowerBlock_flags orelse cx hn hso st1 o st2 ho
          have h12 := okFlags_trans h2 h1
          exact ⟨h12.1, h12.2.1, fun hf => by rw [hw] at hf; cases hf⟩
    | .for_ target iter body orelse, cx, hn, hs, st, es, st', h => by
        cases hs with
        | for_ _ _ _ _ hst hci hsb hso =>
          simp only [lowerStmt, simpleL_anyIntL body hsb, simpleL_hasBreakL body hsb, simpleL_guardsInL .loop body hsb] at h
          obtain ⟨⟨b, st1⟩, hb, h⟩ := bind_ok h
          obtain ⟨⟨o, st2⟩, ho, h⟩ := bind_ok h
          obtain ⟨⟨asg, st4⟩, ha, h⟩ := bind_ok h
          obtain ⟨itr, _, h⟩ := bind_ok h
          have hfl : okFlags w st4 st :=
            okFlags_trans (okFlags_of_same (assignAuto_flags hn target hst false _ _ asg st4 ha)) (okFlags_trans (okFlags_fresh _ _)
              (okFlags_trans (lowerBlock_flags orelse cx hn hso st1 o st2 ho)
                (okFlags_trans (lowerBlock_flags body _ (by exact hn) hsb _ b st1 hb) (okFlags_trans (okFlags_fresh _ _) (okFlags_fresh _ _)))))
          rcases ite_cases h with ⟨_, h⟩ | ⟨_, h⟩ <;> (cases pure_ok h; exact hfl)
    | .expr e, cx, hn, hs, st, es, st', h => by
        simp only [lowerStmt] at h
        obtain ⟨e', _, h⟩ := bind_ok h
        cases pure_ok h; exact okFlags_refl _
    | .pass_, cx, hn, hs, st, es, st', h => by simp only [lowerStmt] at h; cases ok_ok h; exact okFlags_refl _
    | .global_ _, cx, hn, hs, st, es, st', h => by simp only [lowerStmt] at h; cases ok_ok h; exact okFlags_refl _
    | .assign ts value, cx, hn, hs, st, es, st', h => by
        cases hs with
        | assign _ _ hne hts hcv =>
          simp only [lowerStmt] at h
          obtain ⟨v', _, h⟩ := bind_ok h
          rcases ite_cases h with ⟨_, h⟩ | ⟨_, h⟩
          · obtain ⟨⟨r, st2⟩, hr, h⟩ := bind_ok h
            cases pure_ok h
            exact okFlags_trans (assignTargets_flags hn _ ts hts _ r st2 hr) (okFlags_fresh st "assign")
          · exact assignTargets_flags hn _ ts hts _ _ _ h
    | .augAssign tg op value, cx, hn, hs, st, es, st', h => by
        cases hs with
        | aug _ _ _ hst hcv =>
          simp only [lowerStmt, lowerAugAssign] at h
          obtain ⟨v', _, h⟩ := bind_ok h
          cases hst with
          | name x =>
            obtain ⟨l, _, h⟩ := bind_ok h
            obtain ⟨r, _, h⟩ := bind_ok h
            cases pure_ok h
            exact okFlags_fresh _ _
          | attr o a _ =>
            obtain ⟨o', _, h⟩ := bind_ok h
            cases pure_ok h
            exact okFlags_trans (okFlags_fresh _ _) (okFlags_fresh _ _)
          | sub o i _ _ _ =>
            obtain ⟨o', _, h⟩ := bind_ok h
            obtain ⟨i', _, h⟩ := bind_ok h
            cases pure_ok h
            exact okFlags_trans (okFlags_fresh _ _) (okFlags_trans (okFlags_fresh _ _) (okFlags_fresh _ _))
          | tuple _ _ _ => cases h
          | list _ _ _ => cases h
          | starred _ _ => cases h
    | .break_, _, _, hs, _, _, _, _ => by cases hs
    | .continue_, _, _, hs, _, _, _, _ => by cases hs
    | .annAssign .., _, _, hs, _, _, _, _ => by cases hs
    | .functionDef .., _, _, hs, _, _, _, _ => by cases hs
    | .return_ _, _, _, hs, _, _, _, _ => by cases hs
    | .nonlocal_ _, _, _, hs, _, _, _, _ => by cases hs
    | .classDef .., _, _, hs, _, _, _, _ => by cases hs
    | .import_ _, _, _, hs, _, _, _, _ => by cases hs
    | .importFrom .., _, _, hs, _, _, _, _ => by cases hs
    | .other .., _, _, hs, _, _, _, _ => by cases hs

  theorem lowerBlock_flags {w : Bool} : ∀ (ss : List Stmt) (cx : Ctx), cx.nsp.kind = .module →
      (∀ s ∈ ss, SimpleS w s) → ∀ (st : St) (es : List Expr) (st' : St), lowerBlock cx ss st = .ok (es, st') → okFlags w st' st
    | [], cx, _, _, st, es, st', h => by simp only [lowerBlock] at h; cases h; exact okFlags_refl _
    | s :: ss, cx, hn, hs, st, es, st', h => by
        simp only [lowerBlock] at h
        obtain ⟨⟨a, st1⟩, ha, h⟩ := bind_ok h
        have f1 := lowerStmt_flags s cx hn (hs s (by simp)) st a st1 ha
        simp only [simple_not_direct (hs s (by simp)), Bool.false_or, simple_mayInt _ (hs s (by simp))] at h
        rcases ite_cases h with ⟨_, h⟩ | ⟨_, h⟩
        · cases pure_ok h; exact f1
        · simp only [Bool.false_eq_true, if_false] at h
          obtain ⟨⟨rest, st2⟩, hr, h⟩ := bind_ok h
          cases pure_ok h
          exact okFlags_trans (lowerBlock_flags ss cx hn (fun x hx => hs x (by simp [hx])) st1 rest st2 hr) f1
end

/-- the iterations of the takewhile comprehension follow the iterations of the `while` statement -/
theorem whileIter_sim (W : World U V) (elt : Expr) {test : Expr} {body : List Stmt} (hct : Clean test)
    (hstep : ∀ {u2 u3 : U}, ExecB W body u2 u3 → ∀ (t : T V), ∃ ev t', Ev W elt u2 t ev u3 t') :
    ∀ {u u' : U}, WhileIter W test body u u' → ∀ (t : T V), ∃ vs t', WIter W test elt u t vs u' t'
  | _, _, .done _ _ ht hf, t => ⟨[], t, .done test elt ((frame W ht hct).2 t) hf⟩
  | _, _, .step _ _ ht htr hb hrest, t => by
      obtain ⟨ev, t1, he⟩ := hstep hb t
      obtain ⟨vs, t2, hi⟩ := whileIter_sim W elt hct hstep hrest t1
      exact ⟨ev :: vs, t2, .step test elt ((frame W ht hct).2 t) htr he hi⟩

/-- the iterations of the comprehension follow the iterations of the `for` statement -/
theorem forIter_sim (W : World U V) (elt : Expr) (item : String) {target : Expr} {body : List Stmt} {it : V}
    (hstep : ∀ (v : V) {u1 u2 u3 : U}, AssignT W target v u1 u2 → ExecB W body u2 u3 → ∀ (t : T V), ∃ ev t', Ev W elt u1 ((item, v) :: t) ev u3 t') :
    ∀ {u u' : U}, ForIter W target body it u u' → ∀ (t : T V), ∃ vs t', Iter W elt item it u t vs u' t'
  | _, _, .done _ _ _ hn, t => ⟨[], t, .done elt item it t hn⟩
  | _, _, .step _ _ _ hn ha hb hrest, t => by
      obtain ⟨ev, t1, he⟩ := hstep _ ha hb t
      obtain ⟨vs, t2, hi⟩ := forIter_sim W elt item hstep hrest t1
      exact ⟨ev :: vs, t2, .step elt item it hn he hi⟩

/-! ### statements and blocks, with `if` and `for` at any nesting -/

mutual
  theorem lowerStmt_sim {w : Bool} (W : World U V) (hW : Lawful W) (hS : LawfulSeq W) : ∀ (s : Stmt) (cx : Ctx), cx.nsp.kind = .module →
      SimpleS w s → ∀ {u u' : U}, ExecS W s u u' → ∀ (t : T V) (st : St) (es : List Expr) (st' : St),
      lowerStmt cx s st = .ok (es, st') → (∃ t', Seq W es u t u' t') ∧ okFlags w st' st
    | .if_ test body orelse, cx, hn, hs, u, u', hx, t, st, es, st', h => by
        cases hs with
        | if_ _ _ _ hct hsb hso =>
          simp only [lowerStmt] at h
          obtain ⟨⟨b, st1⟩, hb, h⟩ := bind_ok h
          obtain ⟨⟨o, st2⟩, ho, h⟩ := bind_ok h
          obtain ⟨t', ht', h⟩ := bind_ok h
          rw [transf_module_id _ hn [] test t' ht'] at h
          have hfl : okFlags w st2 st := by
            cases hx with
            | ifTrue _ _ _ _ _ hxb => exact okFlags_trans (lowerBlock_flags orelse cx hn hso st1 o st2 ho) (lowerBlock_flags body cx hn hsb st b st1 hb)
            | ifFalse _ _ _ _ _ hxb => exact okFlags_trans (lowerBlock_flags orelse cx hn hso st1 o st2 ho) (lowerBlock_flags body cx hn hsb st b st1 hb)
          cases hx with
          | ifTrue _ _ _ htest htr hxb =>
            have ft := (frame W htest hct).2 t
            obtain ⟨⟨tb, rb⟩, _⟩ := lowerBlock_sim W hW hS body cx hn hsb hxb t st b st1 hb
            obtain ⟨v, hv⟩ := wrap_sim W cx.cfg rb
            cases hst : cx.cfg.ifStyle with
            | ifExpr =>
              simp only [hst] at h
              cases pure_ok h
              exact ⟨⟨tb, Seq.cons (.ifT _ _ _ ft htr hv) (Seq.nil W _ _)⟩, hfl⟩
            | shortCircuit =>
              simp only [hst] at h
              rcases ite_cases h with ⟨_, h⟩ | ⟨_, h⟩
              · cases pure_ok h
                exact ⟨⟨tb, Seq.cons (.andT _ _ ft htr hv) (Seq.nil W _ _)⟩, hfl⟩
              · cases pure_ok h
                -- `test and [body] or else`: the one-element list is true, whatever the body's value is
                have hlist : Ev W (.list [wrapExprs cx.cfg b]) _ t (W.listOf [v]) _ tb := .list _ (.cons hv (.nil _ _))
                have hand := Ev.andT (W := W) test (.list [wrapExprs cx.cfg b]) ft htr hlist
                exact ⟨⟨tb, Seq.cons (.orT _ _ hand (hW.list _ _ _)) (Seq.nil W _ _)⟩, hfl⟩
          | ifFalse _ _ _ htest htr hxb =>
            have ft := (frame W htest hct).2 t
            obtain ⟨⟨to, ro⟩, _⟩ := lowerBlock_sim W hW hS orelse cx hn hso hxb t st1 o st2 ho
            obtain ⟨v, hv⟩ := wrap_sim W cx.cfg ro
            cases hst : cx.cfg.ifStyle with
            | ifExpr =>
              simp only [hst] at h
              cases pure_ok h
              exact ⟨⟨to, Seq.cons (.ifF _ _ _ ft htr hv) (Seq.nil W _ _)⟩, hfl⟩
            | shortCircuit =>
              simp only [hst] at h
              rcases ite_cases h with ⟨hoe, h⟩ | ⟨_, h⟩
              · cases pure_ok h
                have : o = [] := by simpa using hoe
                subst this
                obtain ⟨rfl, rfl⟩ := seq_nil_inv ro
                exact ⟨⟨_, Seq.cons (.andF _ _ ft htr) (Seq.nil W _ _)⟩, hfl⟩
              · cases pure_ok h
                -- the test is false: `and` yields its value, `or` takes its truth value again (the same, by `retest`)
                have hand := Ev.andF (W := W) test (.list [wrapExprs cx.cfg b]) ft htr
                exact ⟨⟨to, Seq.cons (.orF _ _ hand (hW.retest _ _ _ _ htr) hv) (Seq.nil W _ _)⟩, hfl⟩
    | .while_ test body orelse, cx, hn, hs, u, u', hx, t, st, es, st', h => by
        cases hs with
        | while_ _ _ _ hw hct hnw hsb hso =>
          cases hx with
          | @while_ _ _ _ _ u1 _ hiter horelse =>
            have hflags := lowerStmt_flags (.while_ test body orelse) cx hn (.while_ _ _ _ hw hct hnw hsb hso) st es st' h
            simp only [lowerStmt, simpleL_hasBreakL body hsb, simpleL_guardsInL .loop body hsb] at h
            obtain ⟨⟨b, st1⟩, hb, h⟩ := bind_ok h
            obtain ⟨⟨o, st2⟩, ho, h⟩ := bind_ok h
            obtain ⟨t', ht', h⟩ := bind_ok h
            rw [transf_module_id _ hn [] test t' ht'] at h
            cases pure_ok h
            have hstep : ∀ {w2 w3 : U}, ExecB W body w2 w3 → ∀ (t0 : T V), ∃ ev t1, Ev W (wrapExprs cx.cfg b) w2 t0 ev w3 t1 := by
              intro w2 w3 hbody t0
              obtain ⟨⟨t1, hs1⟩, _⟩ := lowerBlock_sim W hW hS body _ (by exact hn) hsb hbody t0 _ b st1 hb
              obtain ⟨ev, hev⟩ := wrap_sim W cx.cfg hs1
              exact ⟨ev, t1, hev⟩
            obtain ⟨vs, t3, hit⟩ := whileIter_sim W (wrapExprs cx.cfg b) hct hstep hiter t
            have hloop : Ev W (.listComp (wrapExprs cx.cfg b) [.mk (.name whileCounter) (takewhileIter test) [] false]) u t (W.listOf vs) u1 t3 :=
              .whileComp _ _ hit
            obtain ⟨⟨t4, ro⟩, _⟩ := lowerBlock_sim W hW hS orelse cx hn hso horelse t3 st1 o st2 ho
            simp only [Bool.false_eq_true, if_false, List.nil_append]
            by_cases hoi : o.isEmpty = true
            · have : o = [] := by simpa using hoi
              subst this
              obtain ⟨rfl, rfl⟩ := seq_nil_inv ro
              simp only [List.isEmpty_nil, if_true, List.append_nil]
              exact ⟨⟨_, Seq.cons hloop (Seq.nil W _ _)⟩, hflags⟩
            · obtain ⟨v, hv⟩ := wrap_sim W cx.cfg ro
              simp only [hoi, Bool.false_eq_true, if_false]
              exact ⟨⟨t4, Seq.cons hloop (Seq.cons hv (Seq.nil W _ _))⟩, hflags⟩
    | .for_ target iter body orelse, cx, hn, hs, u, u', hx, t, st, es, st', h => by
        cases hs with
        | for_ _ _ _ _ hst hci hsb hso =>
          cases hx with
          | @for_ _ _ _ _ iv it _ u1 u2 u3 _ hiter hget hfor horelse =>
            have hflags := lowerStmt_flags (.for_ target iter body orelse) cx hn (.for_ _ _ _ _ hst hci hsb hso) st es st' h
            simp only [lowerStmt, simpleL_anyIntL body hsb, simpleL_hasBreakL body hsb, simpleL_guardsInL .loop body hsb] at h
            obtain ⟨⟨b, st1⟩, hb, h⟩ := bind_ok h
            obtain ⟨⟨o, st2⟩, ho, h⟩ := bind_ok h
            obtain ⟨⟨asg, st4⟩, ha, h⟩ := bind_ok h
            obtain ⟨itr, hitr, h⟩ := bind_ok h
            rw [transf_module_id _ hn [] iter itr hitr] at h
            have hitem := isTemp_fresh st2 "item"
            have fi := (frame W hiter hci).2 t
            -- one iteration: bind the target from the comprehension variable, then the body
            have hstep : ∀ (v : V) {w1 w2 w3 : U}, AssignT W target v w1 w2 → ExecB W body w2 w3 → ∀ (t0 : T V),
                ∃ ev t', Ev W (wrapExprs cx.cfg (asg ++ b)) w1 (((st2.fresh "item").1, v) :: t0) ev w3 t' := by
              intro v w1 w2 w3 hat hbody t0
              obtain ⟨t1, hs1, _, _, _⟩ := assignAuto_pure W hS hn target hst false hat (.name (st2.fresh "item").1) [(st2.fresh "item").1]
                (((st2.fresh "item").1, v) :: t0) (st2.fresh "item").2 (liveOk_single st2 "item") (pureOn_temp W (by simp) hitem (lookup_head _ _ _)) asg st4 ha
              obtain ⟨⟨t2, hs2⟩, _⟩ := lowerBlock_sim W hW hS body _ (by exact hn) hsb hbody t1 _ b st1 hb
              obtain ⟨ev, hev⟩ := wrap_sim W cx.cfg (Seq.append hs1 hs2)
              exact ⟨ev, t2, hev⟩
            obtain ⟨vs, t3, hiterT⟩ := forIter_sim W (wrapExprs cx.cfg (asg ++ b)) (st2.fresh "item").1 hstep hfor t
            have hloop : Ev W (.listComp (wrapExprs cx.cfg (asg ++ b)) [.mk (.name (st2.fresh "item").1) iter [] false]) u t (W.listOf vs) u3 t3 :=
              .forComp _ _ _ hitem fi hget hiterT
            obtain ⟨⟨t4, ro⟩, _⟩ := lowerBlock_sim W hW hS orelse cx hn hso horelse t3 st1 o st2 ho
            rcases ite_cases h with ⟨hoe, h⟩ | ⟨hoe, h⟩
            · cases pure_ok h
              have : orelse = [] := by simpa using hoe
              subst this
              cases horelse
              exact ⟨⟨t3, Seq.cons hloop (Seq.nil W _ _)⟩, hflags⟩
            · cases pure_ok h
              simp only [List.nil_append, List.append_nil, Bool.false_eq_true, if_false]
              by_cases hoi : o.isEmpty = true
              · have : o = [] := by simpa using hoi
                subst this
                obtain ⟨rfl, rfl⟩ := seq_nil_inv ro
                simp only [List.isEmpty_nil, if_true, List.append_nil]
                exact ⟨⟨_, Seq.cons hloop (Seq.nil W _ _)⟩, hflags⟩
              · obtain ⟨v, hv⟩ := wrap_sim W cx.cfg ro
                simp only [hoi, Bool.false_eq_true, if_false]
                exact ⟨⟨t4, Seq.cons hloop (Seq.cons hv (Seq.nil W _ _))⟩, hflags⟩
    | .expr e, cx, hn, hs, _, _, hx, t, st, es, st', h => lowerSimple_sim W hS cx hn hs (by intro c b e h; cases h) (by intro tg i b e h; cases h) (by intro c b e h; cases h) hx t st es st' h
    | .pass_, cx, hn, hs, _, _, hx, t, st, es, st', h => lowerSimple_sim W hS cx hn hs (by intro c b e h; cases h) (by intro tg i b e h; cases h) (by intro c b e h; cases h) hx t st es st' h
    | .global_ _, cx, hn, hs, _, _, hx, t, st, es, st', h => lowerSimple_sim W hS cx hn hs (by intro c b e h; cases h) (by intro tg i b e h; cases h) (by intro c b e h; cases h) hx t st es st' h
    | .assign _ _, cx, hn, hs, _, _, hx, t, st, es, st', h => lowerSimple_sim W hS cx hn hs (by intro c b e h; cases h) (by intro tg i b e h; cases h) (by intro c b e h; cases h) hx t st es st' h
    | .augAssign _ _ _, cx, hn, hs, _, _, hx, t, st, es, st', h => lowerSimple_sim W hS cx hn hs (by intro c b e h; cases h) (by intro tg i b e h; cases h) (by intro c b e h; cases h) hx t st es st' h
    | .break_, _, _, hs, _, _, _, _, _, _, _, _ => by cases hs
    | .continue_, _, _, hs, _, _, _, _, _, _, _, _ => by cases hs
    | .annAssign .., _, _, hs, _, _, _, _, _, _, _, _ => by cases hs
    | .functionDef .., _, _, hs, _, _, _, _, _, _, _, _ => by cases hs
    | .return_ _, _, _, hs, _, _, _, _, _, _, _, _ => by cases hs
    | .nonlocal_ _, _, _, hs, _, _, _, _, _, _, _, _ => by cases hs
    | .classDef .., _, _, hs, _, _, _, _, _, _, _, _ => by cases hs
    | .import_ _, _, _, hs, _, _, _, _, _, _, _, _ => by cases hs
    | .importFrom .., _, _, hs, _, _, _, _, _, _, _, _ => by cases hs
    | .other .., _, _, hs, _, _, _, _, _, _, _, _ => by cases hs

  theorem lowerBlock_sim {w : Bool} (W : World U V) (hW : Lawful W) (hS : LawfulSeq W) : ∀ (ss : List Stmt) (cx : Ctx), cx.nsp.kind = .module →
      (∀ s ∈ ss, SimpleS w s) → ∀ {u u' : U}, ExecB W ss u u' → ∀ (t : T V) (st : St) (es : List Expr) (st' : St),
      lowerBlock cx ss st = .ok (es, st') → (∃ t', Seq W es u t u' t') ∧ okFlags w st' st
    | [], cx, _, _, _, _, .nil _, t, st, es, st', h => by
        simp only [lowerBlock] at h; cases h; exact ⟨⟨t, Seq.nil W _ _⟩, okFlags_refl _⟩
    | s :: ss, cx, hn, hs, _, _, .cons h1 h2, t, st, es, st', h => by
        simp only [lowerBlock] at h
        obtain ⟨⟨a, st1⟩, ha, h⟩ := bind_ok h
        obtain ⟨⟨t1, r1⟩, f1⟩ := lowerStmt_sim W hW hS s cx hn (hs s (by simp)) h1 t st a st1 ha
        simp only [simple_not_direct (hs s (by simp)), Bool.false_or, simple_mayInt _ (hs s (by simp))] at h
        rcases ite_cases h with ⟨hemp, h⟩ | ⟨_, h⟩
        · cases pure_ok h
          have : ss = [] := by simpa using hemp
          subst this
          cases h2
          exact ⟨⟨t1, r1⟩, f1⟩
        · simp only [Bool.false_eq_true, if_false] at h
          obtain ⟨⟨rest, st2⟩, hr, h⟩ := bind_ok h
          cases pure_ok h
          obtain ⟨⟨t2, r2⟩, f2⟩ := lowerBlock_sim W hW hS ss cx hn (fun x hx => hs x (by simp [hx])) h2 t1 st1 rest st2 hr
          exact ⟨⟨t2, Seq.append r1 r2⟩, okFlags_trans f2 f1⟩
end

/-! ### the module -/

theorem goModule_sim {w : Bool} (W : World U V) (hW : Lawful W) (hS : LawfulSeq W) (cx : Ctx) (hn : cx.nsp.kind = .module) :
    ∀ (ss : List Stmt), (∀ s ∈ ss, SimpleS w s) → ∀ {u u' : U}, ExecB W ss u u' → ∀ (t : T V) (st : St) (es : List Expr) (st' : St),
      lowerFull.goModule cx ss st = .ok (es, st') → (∃ t', Seq W es u t u' t') ∧ okFlags w st' st
  | [], _, _, _, .nil _, t, st, es, st', h => by
      simp only [lowerFull.goModule] at h; cases h; exact ⟨⟨t, Seq.nil W _ _⟩, okFlags_refl _⟩
  | s :: ss, hs, _, _, .cons h1 h2, t, st, es, st', h => by
      simp only [lowerFull.goModule] at h
      obtain ⟨⟨a, st1⟩, ha, h⟩ := bind_ok h
      obtain ⟨⟨b, st2⟩, hb, h⟩ := bind_ok h
      cases pure_ok h
      obtain ⟨⟨t1, r1⟩, f1⟩ := lowerStmt_sim W hW hS s cx hn (hs s (by simp)) h1 t st a st1 ha
      obtain ⟨⟨t2, r2⟩, f2⟩ := goModule_sim W hW hS cx hn ss (fun x hx => hs x (by simp [hx])) h2 t1 st1 b st2 hb
      exact ⟨⟨t2, Seq.append r1 r2⟩, okFlags_trans f2 f1⟩

/-- **Module code of the fragment means the same after conversion - for every lawful world.**  Whenever
    the source statements run from user state `u` to `u'`, the one expression the conversion returns
    evaluates from `u` to `u'` (the helper variables it creates are in `t'`, apart from the user
    state), under either wrapper and either if-style. -/
theorem module_sim (W : World U V) (hW : Lawful W) (hS : LawfulSeq W) (cfg : Cfg) (root : SymScope) (body : List Stmt) (hs : ∀ s ∈ body, SimpleS false s)
    (e : Expr) (h : lowerFull cfg root body = .ok e) {u u' : U} (hx : ExecB W body u u') :
    ∃ v t', Ev W e u [] v u' t' := by
  unfold lowerFull at h
  obtain ⟨⟨g, sup⟩, hg, h⟩ := bind_ok h
  simp only [] at h
  obtain ⟨⟨b, st⟩, hb, h⟩ := bind_ok h
  cases pure_ok h
  have hk : g.kind = .module := generateNsp_kind hg
  obtain ⟨⟨t', r⟩, fl⟩ := goModule_sim W hW hS { cfg := cfg, nsp := g, loops := [], fnUsed := false } hk body hs hx [] _ b st hb
  obtain ⟨f1, f2, f3⟩ := fl
  simp only [] at f1 f2 f3
  simp only [f1, f2, f3, Bool.false_eq_true, if_false]
  obtain ⟨v, hv⟩ := wrap_sim W cfg r
  exact ⟨v, t', hv⟩

/-- the helper import the module prelude puts in front when a `while` was lowered -/
def itertoolsImport : Expr := .namedExpr "itertools" (.call (.name "__import__") [Expr.str "itertools"] [])

/-- **With `while`.**  The converted expression is the wrapper around the lowered statements `b`, possibly
    preceded by the one helper import `itertools := __import__('itertools')` (a name the property allows
    the converted program to add; its effect is not modelled: the rule for the takewhile comprehension
    assumes `itertools` names the module); evaluated from `u`, the lowered statements reach `u'`. -/
theorem module_sim_while (W : World U V) (hW : Lawful W) (hS : LawfulSeq W) (cfg : Cfg) (root : SymScope) (body : List Stmt)
    (hs : ∀ s ∈ body, SimpleS true s) (e : Expr) (h : lowerFull cfg root body = .ok e) {u u' : U} (hx : ExecB W body u u') :
    ∃ b t', (e = wrapExprs cfg b ∨ e = wrapExprs cfg (itertoolsImport :: b)) ∧ Seq W b u [] u' t' := by
  unfold lowerFull at h
  obtain ⟨⟨g, sup⟩, hg, h⟩ := bind_ok h
  simp only [] at h
  obtain ⟨⟨b, st⟩, hb, h⟩ := bind_ok h
  cases pure_ok h
  have hk : g.kind = .module := generateNsp_kind hg
  obtain ⟨⟨t', r⟩, fl⟩ := goModule_sim W hW hS { cfg := cfg, nsp := g, loops := [], fnUsed := false } hk body hs hx [] _ b st hb
  obtain ⟨f1, f2, _⟩ := fl
  simp only [] at f1 f2
  refine ⟨b, t', ?_, r⟩
  simp only [f1, f2, Bool.false_eq_true, if_false]
  cases st.useItertools
  · left; simp
  · right; simp [itertoolsImport]

end OlVerif.Sem
