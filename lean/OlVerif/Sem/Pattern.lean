/-
  Assignment targets fed from a value expression that is *pure glue* (a helper variable, or an item of
  one): names, attributes, subscripts and nested tuple / list patterns.  Helper variables created on the
  way never shadow the ones still in use (`Ext` over the live names; the supply is injective).
-/
import OlVerif.Sem.Frame
import OlVerif.Lower.ModuleId
import OlVerif.Lower.Binder

namespace OlVerif.Sem
variable {U V : Type}

/-- a sequence of expressions evaluated left to right, values dropped -/
def Seq (W : World U V) (es : List Expr) (u : U) (t : T V) (u' : U) (t' : T V) : Prop :=
  ∃ vs, EvL W es u t vs u' t'

theorem Seq.nil (W : World U V) (u : U) (t : T V) : Seq W [] u t u t := ⟨[], .nil u t⟩

theorem Seq.cons {W : World U V} {e : Expr} {es : List Expr} {u u1 u2 : U} {t t1 t2 : T V} {v : V}
    (h : Ev W e u t v u1 t1) (hs : Seq W es u1 t1 u2 t2) : Seq W (e :: es) u t u2 t2 := by
  obtain ⟨vs, hvs⟩ := hs
  exact ⟨v :: vs, .cons h hvs⟩

theorem evL_append {W : World U V} : ∀ {a b : List Expr} {u u1 u2 : U} {t t1 t2 : T V} {va vb : List V},
    EvL W a u t va u1 t1 → EvL W b u1 t1 vb u2 t2 → EvL W (a ++ b) u t (va ++ vb) u2 t2
  | _, _, _, _, _, _, _, _, _, _, .nil _ _, hb => hb
  | _, _, _, _, _, _, _, _, _, _, .cons h hs, hb => .cons h (evL_append hs hb)

theorem Seq.append {W : World U V} {a b : List Expr} {u u1 u2 : U} {t t1 t2 : T V}
    (ha : Seq W a u t u1 t1) (hb : Seq W b u1 t1 u2 t2) : Seq W (a ++ b) u t u2 t2 := by
  obtain ⟨va, ha⟩ := ha
  obtain ⟨vb, hb⟩ := hb
  exact ⟨va ++ vb, evL_append ha hb⟩

theorem lookup_head (x : String) (v : V) (t : T V) : List.lookup x ((x, v) :: t) = some v := by
  simp [List.lookup]

theorem lookup_skip {x y : String} (h : x ≠ y) (v : V) (t : T V) : List.lookup x ((y, v) :: t) = List.lookup x t := by
  have : (x == y) = false := by simpa using h
  simp [List.lookup, this]

theorem getAssign_module {n : Nsp} (hn : n.kind = .module) (x : String) (v : Expr) :
    n.getAssign x v = .ok (.namedExpr x v) := by simp [Nsp.getAssign, hn]

theorem getLoad_module {n : Nsp} (hn : n.kind = .module) (b : List String) (x : String) :
    n.getLoad b x = .ok (.name x) := by simp [Nsp.getLoad, hn]

theorem convertIndex_plain {i : Expr} (h : plainIndex i) : convertIndex i = i := by
  cases i <;> simp [plainIndex] at h <;> simp [convertIndex]

theorem isTemp_supply (s : Supply) (p : String) : isTemp (s.fresh p).1 := by
  unfold isTemp
  rw [fresh_eq]; simp [String.toList_append]

theorem isTemp_fresh (st : St) (p : String) : isTemp (st.fresh p).1 := isTemp_supply st.sup p

theorem fresh_ne (st st2 : St) (p q : String) (h : st.sup.next ≠ st2.sup.next) : (st.fresh p).1 ≠ (st2.fresh q).1 := by
  intro he
  exact h (fresh_inj st.sup st2.sup p q he)

theorem fresh_next (st : St) (p : String) : (st.fresh p).2.sup.next = st.sup.next + 1 := rfl

/-- the flags that make the module prelude import helper modules -/
def sameFlags (a b : St) : Prop :=
  a.useItertools = b.useItertools ∧ a.useImportlib = b.useImportlib ∧ a.usePreset = b.usePreset

theorem sameFlags_refl (a : St) : sameFlags a a := ⟨rfl, rfl, rfl⟩
theorem sameFlags_fresh (a : St) (p : String) : sameFlags (a.fresh p).2 a := ⟨rfl, rfl, rfl⟩
theorem sameFlags_trans {a b c : St} (h1 : sameFlags a b) (h2 : sameFlags b c) : sameFlags a c :=
  ⟨h1.1.trans h2.1, h1.2.1.trans h2.2.1, h1.2.2.trans h2.2.2⟩

/-! ### live helper variables -/

/-- the helper variables in `live` hold in `t'` what they hold in `t` -/
def Ext (live : List String) (t t' : T V) : Prop := ∀ x ∈ live, t'.lookup x = t.lookup x

theorem Ext.refl (live : List String) (t : T V) : Ext live t t := fun _ _ => rfl
theorem Ext.trans {live : List String} {t t1 t2 : T V} (h1 : Ext live t t1) (h2 : Ext live t1 t2) : Ext live t t2 :=
  fun x hx => (h2 x hx).trans (h1 x hx)
theorem Ext.sub {live live' : List String} {t t' : T V} (h : Ext live' t t') (hs : ∀ x ∈ live, x ∈ live') : Ext live t t' :=
  fun x hx => h x (hs x hx)

/-- every live helper variable was handed out by the supply before counter `k` -/
def LiveOk (live : List String) (k : Nat) : Prop := ∀ x ∈ live, ∃ j q, j < k ∧ x = ((Supply.mk j).fresh q).1

theorem LiveOk.mono {live : List String} {k k' : Nat} (h : LiveOk live k) (hk : k ≤ k') : LiveOk live k' := by
  intro x hx
  obtain ⟨j, q, hj, he⟩ := h x hx
  exact ⟨j, q, by omega, he⟩

theorem LiveOk.cons_fresh {live : List String} (st : St) (p : String) (h : LiveOk live st.sup.next) :
    LiveOk ((st.fresh p).1 :: live) (st.fresh p).2.sup.next := by
  intro x hx
  simp only [List.mem_cons] at hx
  rcases hx with rfl | hx
  · exact ⟨st.sup.next, p, by rw [fresh_next]; omega, rfl⟩
  · exact (h.mono (by rw [fresh_next]; omega)) x hx

/-- a fresh helper variable shadows no live one -/
theorem Ext.cons_fresh {live : List String} (st : St) (p : String) (v : V) (t : T V) (h : LiveOk live st.sup.next) :
    Ext live t (((st.fresh p).1, v) :: t) := by
  intro x hx
  obtain ⟨j, q, hj, he⟩ := h x hx
  have hne : x ≠ (st.fresh p).1 := by
    intro heq
    rw [he] at heq
    have := fresh_inj (Supply.mk j) st.sup q p heq
    simp at this
    omega
  exact lookup_skip hne v t

/-- `ve` evaluates to `v`, without effect, in every state in which the live helper variables are intact -/
def PureOn (W : World U V) (ve : Expr) (live : List String) (t : T V) (v : V) : Prop :=
  ∀ (u : U) (t' : T V), Ext live t t' → Ev W ve u t' v u t'

theorem pureOn_temp (W : World U V) {live : List String} {t : T V} {tmp : String} {v : V} (hm : tmp ∈ live) (ht : isTemp tmp)
    (hl : t.lookup tmp = some v) : PureOn W (.name tmp) live t v :=
  fun u t' hx => .temp tmp u t' v ht ((hx tmp hm).trans hl)

theorem intConstant_ev (W : World U V) (i : Int) (u : U) (t : T V) : Ev W (intConstant i) u t (W.const (.int i)) u t := by
  unfold intConstant
  split
  · have := Ev.negInt (W := W) (-i) u t
    rwa [Int.neg_neg] at this
  · exact .const _ u t

theorem isSliceE_intConstant (i : Int) : isSliceE (intConstant i) = false := by
  unfold intConstant; split <;> rfl

theorem pureOn_index (W : World U V) (hW : LawfulSeq W) {live : List String} {t : T V} {tmp : String} {items : List V} {i : Int} {v : V}
    (hm : tmp ∈ live) (ht : isTemp tmp) (hl : t.lookup tmp = some (W.tupleOf items)) (hi : pyIndexG items i = some v) :
    PureOn W (.subscript (.name tmp) (intConstant i)) live t v := by
  intro u t' hx
  exact .sub _ _ (isSliceE_intConstant i) (.temp tmp u t' _ ht ((hx tmp hm).trans hl)) (intConstant_ev W i u t') (hW.index items i v u hi)

theorem pureOn_star (W : World U V) (hW : LawfulSeq W) {live : List String} {t : T V} {tmp : String} {items : List V} (lo : Nat) (hi : Option Int)
    (hm : tmp ∈ live) (ht : isTemp tmp) (hl : t.lookup tmp = some (W.tupleOf items)) :
    PureOn W (.call (.name "list") [.subscript (.name tmp) (.slice (some (.const (.int (lo : Int)))) (hi.map intConstant) none)] []) live t
      (W.listOf (pySliceG items lo hi)) := by
  intro u t' hx
  exact .listCall _ (.subSlice _ _ _ _ (.temp tmp u t' _ ht ((hx tmp hm).trans hl)) (hW.slice items lo hi u)) (hW.iter _ u)

theorem PureOn.weaken {W : World U V} {ve : Expr} {live live' : List String} {t t1 : T V} {v : V}
    (h : PureOn W ve live t v) (hs : ∀ x ∈ live, x ∈ live') (hx : Ext live' t t1) : PureOn W ve live' t1 v :=
  fun u t' hx' => h u t' (Ext.trans (hx.sub hs) (hx'.sub hs))

/-! ### which item of a pattern is the starred one -/

def StarAt (star : Option Nat) (index : Nat) (elts : List Expr) : Prop :=
  ∀ j e, elts[j]? = some e → (e.isStarred = true ↔ star = some (index + j))

theorem starCount_zero : ∀ (es : List Expr), starCount es = 0 → ∀ e ∈ es, e.isStarred = false
  | [], _, e, he => by cases he
  | e0 :: es, h, e, he => by
      simp only [starCount] at h
      simp only [List.mem_cons] at he
      rcases he with rfl | he
      · cases hs : e.isStarred
        · rfl
        · simp [hs] at h
      · exact starCount_zero es (by omega) e he

theorem starAt_init : ∀ (es : List Expr), starCount es ≤ 1 → StarAt (starIndex es) 0 es
  | [], _ => by intro j e he; simp at he
  | e0 :: es, h => by
      intro j e he
      simp only [starCount] at h
      simp only [starIndex]
      cases hs : e0.isStarred
      · -- the first item is not the starred one
        simp only [hs, Bool.false_eq_true, if_false, Nat.zero_add] at h ⊢
        cases j with
        | zero =>
          simp only [List.getElem?_cons_zero, Option.some.injEq] at he
          subst he
          simp only [hs, Bool.false_eq_true, false_iff]
          cases starIndex es <;> simp
        | succ j =>
          simp only [List.getElem?_cons_succ] at he
          have ih := starAt_init es (by omega) j e he
          simp only [Nat.zero_add] at ih
          rw [ih]
          cases starIndex es <;> simp
      · simp only [hs, if_true, Nat.zero_add] at h ⊢
        have hz := starCount_zero es (by omega)
        cases j with
        | zero =>
          simp only [List.getElem?_cons_zero, Option.some.injEq] at he
          subst he
          simp [hs]
        | succ j =>
          simp only [List.getElem?_cons_succ] at he
          have := hz e (List.mem_of_getElem? he)
          simp [this]

theorem StarAt.head {star : Option Nat} {index : Nat} {e : Expr} {elts : List Expr} (h : StarAt star index (e :: elts)) :
    (e.isStarred = true ↔ star = some index) := by
  have := h 0 e (by simp)
  simpa using this

theorem StarAt.tail {star : Option Nat} {index : Nat} {e : Expr} {elts : List Expr} (h : StarAt star index (e :: elts)) :
    StarAt star (index + 1) elts := by
  intro j x hx
  have := h (j + 1) x (by simpa using hx)
  rw [this]
  constructor <;> intro hh <;> rw [hh] <;> congr 1 <;> omega

theorem isStarred_eq {e : Expr} (h : e.isStarred = true) : ∃ sub, e = .starred sub := by
  cases e <;> simp [Expr.isStarred] at h
  exact ⟨_, rfl⟩

/-! ### targets -/

mutual
  /-- **One target, pure value expression.**  The emitted expressions take the user state where the
      assignment takes it; the live helper variables survive; the supply only moves forward. -/
  theorem assignAuto_pure (W : World U V) (hW : LawfulSeq W) {n : Nsp} (hn : n.kind = .module) :
      ∀ (tg : Expr), SimpleT tg → ∀ (inPat : Bool) {v : V} {u u' : U}, AssignT W tg v u u' →
      ∀ (ve : Expr) (live : List String) (t : T V) (st : St), LiveOk live st.sup.next → PureOn W ve live t v →
      ∀ (es : List Expr) (st' : St), assignAuto n inPat tg ve st = .ok (es, st') →
        ∃ t', Seq W es u t u' t' ∧ Ext live t t' ∧ st.sup.next ≤ st'.sup.next ∧ sameFlags st' st
    | .name x, _, inPat, v, u, u', ha, ve, live, t, st, hlive, hp, es, st', h => by
        cases ha with
        | name _ _ _ hx =>
          simp only [assignAuto] at h
          obtain ⟨r, hr, h⟩ := bind_ok h
          rw [getAssign_module hn] at hr
          cases hr
          cases pure_ok h
          exact ⟨t, Seq.cons (.walrus x _ hx (hp u t (Ext.refl _ _))) (Seq.nil W _ _), Ext.refl _ _, Nat.le_refl _, sameFlags_refl _⟩
    | .attribute o a, hs, inPat, v, u, u', ha, ve, live, t, st, hlive, hp, es, st', h => by
        cases hs with
        | attr _ _ hco =>
          cases ha with
          | attr _ _ ho hset =>
            simp only [assignAuto] at h
            obtain ⟨o', ho', h⟩ := bind_ok h
            cases pure_ok h
            rw [transf_module_id n hn [] o o' ho']
            have f1 := (frame W ho hco).2 t
            exact ⟨t, Seq.cons (.setattr o a _ f1 (hp _ t (Ext.refl _ _)) hset) (Seq.nil W _ _), Ext.refl _ _, Nat.le_refl _, sameFlags_refl _⟩
    | .subscript o i, hs, inPat, v, u, u', ha, ve, live, t, st, hlive, hp, es, st', h => by
        cases hs with
        | sub _ _ hco hci hpi =>
          cases ha with
          | sub _ _ ho hi hset =>
            simp only [assignAuto] at h
            obtain ⟨i', hi', h⟩ := bind_ok h
            obtain ⟨o', ho', h⟩ := bind_ok h
            cases pure_ok h
            rw [transf_module_id n hn [] o o' ho', transf_module_id n hn [] i i' hi', convertIndex_plain hpi]
            have f1 := (frame W ho hco).2 t
            have f2 := (frame W hi hci).2 t
            exact ⟨t, Seq.cons (.setitem o i _ f1 f2 (hp _ t (Ext.refl _ _)) hset) (Seq.nil W _ _), Ext.refl _ _, Nat.le_refl _, sameFlags_refl _⟩
    | .tuple elts, hs, inPat, v, u, u', ha, ve, live, t, st, hlive, hp, es, st', h => by
        cases hs with
        | tuple _ hall hsc =>
          cases ha with
          | @tuple _ _ items vals _ u1 _ hit hvals heach =>
            simp only [assignAuto] at h
            obtain ⟨⟨rest, st2⟩, hr, h⟩ := bind_ok h
            cases pure_ok h
            have htmp := isTemp_fresh st "assign"
            have hlive1 := LiveOk.cons_fresh st "assign" hlive
            have r := assignElts_pure W hW hn elts hall heach (st.fresh "assign").1 htmp items vals elts.length (starIndex elts) hvals 0 (by simp)
              (starAt_init elts hsc) (fun j => by simp) false (by simp)
              ((st.fresh "assign").1 :: live) (((st.fresh "assign").1, W.tupleOf items) :: t) (st.fresh "assign").2 hlive1 (by simp) (lookup_head _ _ _)
              rest st2 hr
            obtain ⟨t', hseq, hext, hmono, hfl⟩ := r
            refine ⟨t', Seq.cons (.walrusT _ _ htmp (.tupleCall ve (hp u t (Ext.refl _ _)) hit)) hseq, ?_, ?_, sameFlags_trans hfl (sameFlags_fresh _ _)⟩
            · exact Ext.trans (Ext.cons_fresh st "assign" _ t hlive) (hext.sub (fun x hx => by simp [hx]))
            · have := fresh_next st "assign"; dsimp only; omega
    | .list elts, hs, inPat, v, u, u', ha, ve, live, t, st, hlive, hp, es, st', h => by
        cases hs with
        | list _ hall hsc =>
          cases ha with
          | @list _ _ items vals _ u1 _ hit hvals heach =>
            simp only [assignAuto] at h
            obtain ⟨⟨rest, st2⟩, hr, h⟩ := bind_ok h
            cases pure_ok h
            have htmp := isTemp_fresh st "assign"
            have hlive1 := LiveOk.cons_fresh st "assign" hlive
            have r := assignElts_pure W hW hn elts hall heach (st.fresh "assign").1 htmp items vals elts.length (starIndex elts) hvals 0 (by simp)
              (starAt_init elts hsc) (fun j => by simp) false (by simp)
              ((st.fresh "assign").1 :: live) (((st.fresh "assign").1, W.tupleOf items) :: t) (st.fresh "assign").2 hlive1 (by simp) (lookup_head _ _ _)
              rest st2 hr
            obtain ⟨t', hseq, hext, hmono, hfl⟩ := r
            refine ⟨t', Seq.cons (.walrusT _ _ htmp (.tupleCall ve (hp u t (Ext.refl _ _)) hit)) hseq, ?_, ?_, sameFlags_trans hfl (sameFlags_fresh _ _)⟩
            · exact Ext.trans (Ext.cons_fresh st "assign" _ t hlive) (hext.sub (fun x hx => by simp [hx]))
            · have := fresh_next st "assign"; dsimp only; omega
    | .starred sub, hs, inPat, v, u, u', ha, ve, live, t, st, hlive, hp, es, st', h => by
        cases hs with
        | starred _ hsub =>
          cases ha with
          | starred _ hin =>
            cases inPat with
            | false => simp only [assignAuto] at h; cases h
            | true =>
              simp only [assignAuto, if_true] at h
              exact assignAuto_pure W hW hn sub hsub false hin ve live t st hlive hp es st' h
    | .const _, hs, _, _, _, _, _, _, _, _, _, _, _, _, _, _ => by cases hs
    | .joinedStr _, hs, _, _, _, _, _, _, _, _, _, _, _, _, _, _ => by cases hs
    | .formattedValue .., hs, _, _, _, _, _, _, _, _, _, _, _, _, _, _ => by cases hs
    | .set _, hs, _, _, _, _, _, _, _, _, _, _, _, _, _, _ => by cases hs
    | .dict _, hs, _, _, _, _, _, _, _, _, _, _, _, _, _, _ => by cases hs
    | .slice .., hs, _, _, _, _, _, _, _, _, _, _, _, _, _, _ => by cases hs
    | .call .., hs, _, _, _, _, _, _, _, _, _, _, _, _, _, _ => by cases hs
    | .binOp .., hs, _, _, _, _, _, _, _, _, _, _, _, _, _, _ => by cases hs
    | .boolOp .., hs, _, _, _, _, _, _, _, _, _, _, _, _, _, _ => by cases hs
    | .unaryOp .., hs, _, _, _, _, _, _, _, _, _, _, _, _, _, _ => by cases hs
    | .compare .., hs, _, _, _, _, _, _, _, _, _, _, _, _, _, _ => by cases hs
    | .ifExp .., hs, _, _, _, _, _, _, _, _, _, _, _, _, _, _ => by cases hs
    | .lambda .., hs, _, _, _, _, _, _, _, _, _, _, _, _, _, _ => by cases hs
    | .namedExpr .., hs, _, _, _, _, _, _, _, _, _, _, _, _, _, _ => by cases hs
    | .listComp .., hs, _, _, _, _, _, _, _, _, _, _, _, _, _, _ => by cases hs
    | .setComp .., hs, _, _, _, _, _, _, _, _, _, _, _, _, _, _ => by cases hs
    | .dictComp .., hs, _, _, _, _, _, _, _, _, _, _, _, _, _, _ => by cases hs
    | .generatorExp .., hs, _, _, _, _, _, _, _, _, _, _, _, _, _, _ => by cases hs
    | .yield_ _, hs, _, _, _, _, _, _, _, _, _, _, _, _, _, _ => by cases hs
    | .yieldFrom _, hs, _, _, _, _, _, _, _, _, _, _, _, _, _, _ => by cases hs
    | .await _, hs, _, _, _, _, _, _, _, _, _, _, _, _, _, _ => by cases hs

  /-- the items of a pattern from position `index` on: each receives the index / slice expression
      `assign_tuple_list` emits for it, which evaluates to the value Python's unpacking gives it (C13.unpack) -/
  theorem assignElts_pure (W : World U V) (hW : LawfulSeq W) {n : Nsp} (hn : n.kind = .module) :
      ∀ (elts : List Expr), (∀ e ∈ elts, SimpleT e) → ∀ {valsS : List V} {u u' : U}, AssignEach W elts valsS u u' →
      ∀ (tmp : String), isTemp tmp → ∀ (items vals : List V) (len : Nat) (star : Option Nat), pyValuesG W.listOf len star items = some vals →
      ∀ (index : Nat), index + elts.length = len → StarAt star index elts → (∀ j, valsS[j]? = vals[index + j]?) →
      ∀ (hs : Bool), (hs = true ↔ ∃ k, star = some k ∧ k < index) →
      ∀ (live : List String) (t : T V) (st : St), LiveOk live st.sup.next → tmp ∈ live → t.lookup tmp = some (W.tupleOf items) →
      ∀ (out : List Expr) (st' : St), assignElts n tmp len index hs elts st = .ok (out, st') →
        ∃ t', Seq W out u t u' t' ∧ Ext live t t' ∧ st.sup.next ≤ st'.sup.next ∧ sameFlags st' st
    | [], _, _, _, _, .nil _, tmp, _, items, vals, len, star, _, index, _, _, _, hs, _, live, t, st, _, _, _, out, st', h => by
        simp only [assignElts] at h
        cases h
        exact ⟨t, Seq.nil W _ _, Ext.refl _ _, Nat.le_refl _, sameFlags_refl _⟩
    | e :: elts, hall, _, _, _, .cons (v := v0) (vs := vs) h1 h2, tmp, htmp, items, vals, len, star, hpv, index, hlen, hstar, hvals, hs, hhs,
        live, t, st, hlive, hm, hl, out, st', h => by
        have hse := hall e (by simp)
        have hidx : index < len := by simp only [List.length_cons] at hlen; omega
        have hv0 : vals[index]? = some v0 := by
          have := hvals 0
          simpa using this.symm
        have hol := unpackG W.listOf len star items vals hpv index hidx
        rw [hv0] at hol
        have hvals' : ∀ j, vs[j]? = vals[index + 1 + j]? := by
          intro j
          have := hvals (j + 1)
          simpa [Nat.add_assoc, Nat.add_comm 1 j] using this
        have hlen' : index + 1 + elts.length = len := by simp only [List.length_cons] at hlen; omega
        have hhead := hstar.head
        simp only [assignElts] at h
        cases hes : e.isStarred
        · -- an ordinary item: `tmp[index]`, or `tmp[index - len]` behind the star
          have hne : star ≠ some index := fun hh => by rw [hhead.mpr hh] at hes; cases hes
          simp only [hes, Bool.false_and, Bool.false_eq_true, if_false, Bool.or_false] at h
          obtain ⟨⟨a, st1⟩, ha, h⟩ := bind_ok h
          obtain ⟨⟨b, st2⟩, hb, h⟩ := bind_ok h
          cases pure_ok h
          have hpi : pyIndexG items (if hs = true then (index : Int) - (len : Int) else (index : Int)) = some v0 := by
            rw [← hol]
            cases star with
            | none =>
              have : hs = false := by
                cases hs with
                | false => rfl
                | true => obtain ⟨k, hk, _⟩ := hhs.mp rfl; cases hk
              simp [olValueG, this]
            | some k =>
              have hk : k ≠ index := fun hh => hne (by rw [hh])
              simp only [olValueG]
              by_cases hlt : index < k
              · have : hs = false := by
                  cases hs with
                  | false => rfl
                  | true => obtain ⟨k', hk', hlt'⟩ := hhs.mp rfl; cases hk'; omega
                simp [this, hlt]
              · have : hs = true := hhs.mpr ⟨k, rfl, by omega⟩
                have hne' : ¬ index = k := fun hh => hk hh.symm
                simp [this, hlt, hne']
          have hp := pureOn_index W hW hm htmp hl hpi
          obtain ⟨t1, hs1, hx1, hm1, hf1⟩ := assignAuto_pure W hW hn e hse true h1 _ live t st hlive hp a st1 ha
          have hl1 : t1.lookup tmp = some (W.tupleOf items) := (hx1 tmp hm).trans hl
          have hhs' : (hs = true ↔ ∃ k, star = some k ∧ k < index + 1) := by
            rw [hhs]
            constructor
            · rintro ⟨k, hk, hlt⟩; exact ⟨k, hk, by omega⟩
            · rintro ⟨k, hk, hlt⟩
              refine ⟨k, hk, ?_⟩
              have : k ≠ index := fun hh => hne (by rw [hk, hh])
              omega
          obtain ⟨t2, hs2, hx2, hm2, hf2⟩ := assignElts_pure W hW hn elts (fun x hx => hall x (by simp [hx])) h2 tmp htmp items vals len star hpv
            (index + 1) hlen' hstar.tail hvals' hs hhs' live t1 st1 (hlive.mono hm1) hm hl1 b st2 hb
          exact ⟨t2, Seq.append hs1 hs2, Ext.trans hx1 hx2, Nat.le_trans hm1 hm2, sameFlags_trans hf2 hf1⟩
        · -- the starred item: `list(tmp[index : index - len + 1])`
          have hst : star = some index := hhead.mp hes
          have hsf : hs = false := by
            cases hs with
            | false => rfl
            | true => obtain ⟨k, hk, hlt⟩ := hhs.mp rfl; rw [hst] at hk; cases hk; omega
          subst hsf
          simp only [hes, Bool.and_false, Bool.false_eq_true, if_false, if_true, Bool.false_or] at h
          obtain ⟨⟨a, st1⟩, ha, h⟩ := bind_ok h
          obtain ⟨⟨b, st2⟩, hb, h⟩ := bind_ok h
          cases pure_ok h
          obtain ⟨sub, rfl⟩ := isStarred_eq hes
          have hv : v0 = W.listOf (pySliceG items index (if (index : Int) - (len : Int) + 1 = 0 then none else some ((index : Int) - (len : Int) + 1))) := by
            have := hol
            simp only [hst, olValueG, Nat.lt_irrefl, if_false, if_true, Option.some.injEq] at this
            exact this.symm
          have hp : PureOn W (.call (.name "list") [.subscript (.name tmp) (.slice (some (.const (.int (index : Int))))
              (if (index : Int) - (len : Int) + 1 = 0 then none else some (intConstant ((index : Int) - (len : Int) + 1))) none)] []) live t v0 := by
            rw [hv]
            have := pureOn_star W hW index (if (index : Int) - (len : Int) + 1 = 0 then none else some ((index : Int) - (len : Int) + 1)) hm htmp hl
            by_cases h0 : (index : Int) - (len : Int) + 1 = 0
            · simpa [h0] using this
            · simpa [h0] using this
          obtain ⟨t1, hs1, hx1, hm1, hf1⟩ := assignAuto_pure W hW hn (.starred sub) hse true h1 _ live t st hlive hp a st1 ha
          have hl1 : t1.lookup tmp = some (W.tupleOf items) := (hx1 tmp hm).trans hl
          have hhs' : (true = true ↔ ∃ k, star = some k ∧ k < index + 1) := by
            simp only [true_iff]
            exact ⟨index, hst, by omega⟩
          obtain ⟨t2, hs2, hx2, hm2, hf2⟩ := assignElts_pure W hW hn elts (fun x hx => hall x (by simp [hx])) h2 tmp htmp items vals len star hpv
            (index + 1) hlen' hstar.tail hvals' true hhs' live t1 st1 (hlive.mono hm1) hm hl1 b st2 hb
          exact ⟨t2, Seq.append hs1 hs2, Ext.trans hx1 hx2, Nat.le_trans hm1 hm2, sameFlags_trans hf2 hf1⟩
end

/-! ### targets never request helper imports (static) -/

mutual
  theorem assignAuto_flags {n : Nsp} (hn : n.kind = .module) : ∀ (tg : Expr), SimpleT tg → ∀ (inPat : Bool) (ve : Expr) (st : St)
      (es : List Expr) (st' : St), assignAuto n inPat tg ve st = .ok (es, st') → sameFlags st' st
    | .name x, _, inPat, ve, st, es, st', h => by
        simp only [assignAuto] at h
        obtain ⟨r, _, h⟩ := bind_ok h
        cases pure_ok h; exact sameFlags_refl _
    | .attribute o a, _, inPat, ve, st, es, st', h => by
        simp only [assignAuto] at h
        obtain ⟨o', _, h⟩ := bind_ok h
        cases pure_ok h; exact sameFlags_refl _
    | .subscript o i, _, inPat, ve, st, es, st', h => by
        simp only [assignAuto] at h
        obtain ⟨i', _, h⟩ := bind_ok h
        obtain ⟨o', _, h⟩ := bind_ok h
        cases pure_ok h; exact sameFlags_refl _
    | .tuple elts, hs, inPat, ve, st, es, st', h => by
        cases hs with
        | tuple _ hall _ =>
          simp only [assignAuto] at h
          obtain ⟨⟨rest, st2⟩, hr, h⟩ := bind_ok h
          cases pure_ok h
          exact sameFlags_trans (assignElts_flags hn elts hall _ _ _ _ _ _ _ hr) (sameFlags_fresh _ _)
    | .list elts, hs, inPat, ve, st, es, st', h => by
        cases hs with
        | list _ hall _ =>
          simp only [assignAuto] at h
          obtain ⟨⟨rest, st2⟩, hr, h⟩ := bind_ok h
          cases pure_ok h
          exact sameFlags_trans (assignElts_flags hn elts hall _ _ _ _ _ _ _ hr) (sameFlags_fresh _ _)
    | .starred sub, hs, inPat, ve, st, es, st', h => by
        cases hs with
        | starred _ hsub =>
          cases inPat with
          | false => simp only [assignAuto] at h; cases h
          | true =>
            simp only [assignAuto, if_true] at h
            exact assignAuto_flags hn sub hsub false ve st es st' h
    | .const _, hs, _, _, _, _, _, _ => by cases hs
    | .joinedStr _, hs, _, _, _, _, _, _ => by cases hs
    | .formattedValue .., hs, _, _, _, _, _, _ => by cases hs
    | .set _, hs, _, _, _, _, _, _ => by cases hs
    | .dict _, hs, _, _, _, _, _, _ => by cases hs
    | .slice .., hs, _, _, _, _, _, _ => by cases hs
    | .call .., hs, _, _, _, _, _, _ => by cases hs
    | .binOp .., hs, _, _, _, _, _, _ => by cases hs
    | .boolOp .., hs, _, _, _, _, _, _ => by cases hs
    | .unaryOp .., hs, _, _, _, _, _, _ => by cases hs
    | .compare .., hs, _, _, _, _, _, _ => by cases hs
    | .ifExp .., hs, _, _, _, _, _, _ => by cases hs
    | .lambda .., hs, _, _, _, _, _, _ => by cases hs
    | .namedExpr .., hs, _, _, _, _, _, _ => by cases hs
    | .listComp .., hs, _, _, _, _, _, _ => by cases hs
    | .setComp .., hs, _, _, _, _, _, _ => by cases hs
    | .dictComp .., hs, _, _, _, _, _, _ => by cases hs
    | .generatorExp .., hs, _, _, _, _, _, _ => by cases hs
    | .yield_ _, hs, _, _, _, _, _, _ => by cases hs
    | .yieldFrom _, hs, _, _, _, _, _, _ => by cases hs
    | .await _, hs, _, _, _, _, _, _ => by cases hs

  theorem assignElts_flags {n : Nsp} (hn : n.kind = .module) : ∀ (elts : List Expr), (∀ e ∈ elts, SimpleT e) → ∀ (tmp : String) (len index : Nat)
      (hs : Bool) (st : St) (out : List Expr) (st' : St), assignElts n tmp len index hs elts st = .ok (out, st') → sameFlags st' st
    | [], _, tmp, len, index, hs, st, out, st', h => by simp only [assignElts] at h; cases h; exact sameFlags_refl _
    | e :: elts, hall, tmp, len, index, hs, st, out, st', h => by
        have hse := hall e (by simp)
        simp only [assignElts] at h
        by_cases hc : (e.isStarred && hs) = true
        · rw [if_pos hc] at h; cases h
        · rw [if_neg hc] at h
          obtain ⟨⟨a, st1⟩, ha, h⟩ := bind_ok h
          obtain ⟨⟨b, st2⟩, hb, h⟩ := bind_ok h
          cases pure_ok h
          exact sameFlags_trans (assignElts_flags hn elts (fun x hx => hall x (by simp [hx])) tmp len (index + 1) _ st1 b st2 hb)
            (assignAuto_flags hn e hse true _ st a st1 ha)
end

end OlVerif.Sem
