/-
  M-EVAL.  A value-level semantics of the *glue* the converter emits around user expressions at
  module level, over an arbitrary interpretation of everything else.

  `World U V` - any user state `U` and value type `V`, any meaning `eval` of the expression forms
  the rules below do not fix, any meaning of the primitive operations (bind a global name, get /
  set an attribute, get / set an item, the in-place operators).  `T` - the helper variables
  (`__ol_*`), kept apart from the user state: an expression that does not mention them cannot
  observe them (`frame`, proved, not assumed).

  `Ev W e u t v u' t'` - expression `e`, evaluated in user state `u` and helper variables `t`,
  yields value `v`, user state `u'`, helper variables `t'`.  The rules are Python's documented
  evaluation rules for these forms *at module level* (language reference 6.3.1, 6.3.2, 6.12, 6.2.5;
  `setattr`, `object.__setitem__`, `operator.i<op>` as documented, under the built-in names'
  usual meaning); every other form is given to `W.eval`.  Source statements (`ExecS`) use the same
  `Ev` for their subexpressions, so the theorems hold for *every* world.
-/
import OlVerif.Lower.Stmt
import OlVerif.Assign.Unpack

namespace OlVerif.Sem

/-- a helper variable: the reserved prefix -/
def isTemp (x : String) : Prop := x.toList.take 5 = "__ol_".toList
instance : DecidablePred isTemp := fun x => inferInstanceAs (Decidable (x.toList.take 5 = "__ol_".toList))

structure World (U V : Type) where
  eval    : Expr → U → Option (V × U)
  const   : Const → V
  store   : String → V → U → U
  getattr : V → String → U → Option (V × U)
  setattr : V → String → V → U → Option U
  getitem : V → V → U → Option (V × U)
  setitem : V → V → V → U → Option U
  iop     : BinOpK → V → V → U → Option (V × U)
  listOf  : List V → V
  noneV   : V
  runner  : V
  /-- the truth test (`__bool__` / `__len__`): may run user code -/
  truthy  : V → U → Option (Bool × U)
  /-- iterate to exhaustion (`tuple(x)`, `list(x)`, unpacking): may run user code -/
  iter    : V → U → Option (List V × U)
  tupleOf : List V → V
  /-- `o[lo:up:step]`; the bound expressions are the world's to interpret -/
  getslice : V → Option Expr → Option Expr → Option Expr → U → Option (V × U)
  /-- `iter(x)` and one `next(it)` (`none` = StopIteration): may run user code -/
  getiter : V → U → Option (V × U)
  next    : V → U → Option (Option V × U)

abbrev T (V : Type) := List (String × V)

/-- the chain-call runner applied to statement expressions: `runner(e0)(e1)...` -/
def isChain : Expr → Bool
  | .call (.call (.lambda (.mk [] [] none [] [] none []) (.namedExpr "_" (.lambda (.mk [] ["__"] none [] [] none []) (.name "_")))) [] []) [_] [] => true
  | .call f [_] [] => isChain f
  | _ => false

/-- the forms whose meaning the rules fix (everything else belongs to `W.eval`) -/
def isGlue' : Expr → Bool
  | .const _ => true
  | .name x => decide (isTemp x)
  | .namedExpr _ _ => true
  | .list _ => true
  | .attribute _ _ => true
  | .subscript _ _ => true
  | .ifExp _ _ _ => true
  | .boolOp _ [_, _] => true
  | .unaryOp .uSub (.const (.int _)) => true
  | .listComp _ [.mk (.name x) _ [] false] => decide (isTemp x)
  | .call (.name "tuple") [_] [] => true
  | .call (.name "list") [_] [] => true
  | .call (.name "setattr") [_, .const (.str _), _] [] => true
  | .call (.attribute _ "__setitem__") [_, _] [] => true
  | .call (.attribute (.call (.name "__import__") [.const (.str _)] []) _) [_, _] [] => true
  | .call (.lambda (.mk [] [] none [] [] none []) (.namedExpr "_" (.lambda (.mk [] ["__"] none [] [] none []) (.name "_")))) [] [] => true
  | _ => false

def isGlue (e : Expr) : Bool := isChain e || isGlue' e

mutual
  /-- no assignment expression anywhere inside (the test of a `while` ends up in a lambda in the iterable of a
      comprehension, where CPython refuses one: KF-D16) -/
  def noWalrus : Expr → Bool
    | .namedExpr _ _ => false
    | .name _ | .const _ => true
    | .joinedStr vs => noWalrusL vs
    | .formattedValue v _ s => noWalrus v && noWalrusO s
    | .list es | .tuple es | .set es => noWalrusL es
    | .dict items => noWalrusD items
    | .starred v => noWalrus v
    | .attribute v _ => noWalrus v
    | .subscript v s => noWalrus v && noWalrus s
    | .slice a b c => noWalrusO a && noWalrusO b && noWalrusO c
    | .call f as ks => noWalrus f && noWalrusL as && noWalrusK ks
    | .binOp a _ b => noWalrus a && noWalrus b
    | .boolOp _ vs => noWalrusL vs
    | .unaryOp _ v => noWalrus v
    | .compare l _ cs => noWalrus l && noWalrusL cs
    | .ifExp t b e => noWalrus t && noWalrus b && noWalrus e
    | .lambda (.mk _ _ _ _ kd _ ds) b => noWalrus b && noWalrusL ds && noWalrusOL kd
    | .listComp e gs | .setComp e gs | .generatorExp e gs => noWalrus e && noWalrusC gs
    | .dictComp k v gs => noWalrus k && noWalrus v && noWalrusC gs
    | .yield_ v => noWalrusO v
    | .yieldFrom v => noWalrus v
    | .await v => noWalrus v
  def noWalrusL : List Expr → Bool
    | [] => true
    | e :: es => noWalrus e && noWalrusL es
  def noWalrusO : Option Expr → Bool
    | none => true
    | some e => noWalrus e
  def noWalrusOL : List (Option Expr) → Bool
    | [] => true
    | none :: es => noWalrusOL es
    | some e :: es => noWalrus e && noWalrusOL es
  def noWalrusD : List DictItem → Bool
    | [] => true
    | .mk k v :: its => noWalrusO k && noWalrus v && noWalrusD its
  def noWalrusK : List Keyword → Bool
    | [] => true
    | .mk _ v :: ks => noWalrus v && noWalrusK ks
  def noWalrusC : List Comp → Bool
    | [] => true
    | .mk t i ifs _ :: gs => noWalrus t && noWalrus i && noWalrusL ifs && noWalrusC gs
end

def isSliceE : Expr → Bool
  | .slice .. => true
  | _ => false

variable {U V : Type}

mutual
  inductive Ev (W : World U V) : Expr → U → T V → V → U → T V → Prop
    | const (c : Const) (u : U) (t : T V) : Ev W (.const c) u t (W.const c) u t
    | temp (x : String) (u : U) (t : T V) (v : V) : isTemp x → t.lookup x = some v → Ev W (.name x) u t v u t
    | walrusT (x : String) (e : Expr) {u u' : U} {t t' : T V} {v : V} :
        isTemp x → Ev W e u t v u' t' → Ev W (.namedExpr x e) u t v u' ((x, v) :: t')
    | walrus (x : String) (e : Expr) {u u' : U} {t t' : T V} {v : V} :
        ¬ isTemp x → Ev W e u t v u' t' → Ev W (.namedExpr x e) u t v (W.store x v u') t'
    | list (es : List Expr) {u u' : U} {t t' : T V} {vs : List V} :
        EvL W es u t vs u' t' → Ev W (.list es) u t (W.listOf vs) u' t'
    | attr (o : Expr) (a : String) {u u1 u2 : U} {t t1 : T V} {ov v : V} :
        Ev W o u t ov u1 t1 → W.getattr ov a u1 = some (v, u2) → Ev W (.attribute o a) u t v u2 t1
    | sub (o i : Expr) {u u1 u2 u3 : U} {t t1 t2 : T V} {ov iv v : V} : isSliceE i = false →
        Ev W o u t ov u1 t1 → Ev W i u1 t1 iv u2 t2 → W.getitem ov iv u2 = some (v, u3) →
        Ev W (.subscript o i) u t v u3 t2
    | subSlice (o : Expr) (a b c : Option Expr) {u u1 u2 : U} {t t1 : T V} {ov v : V} :
        Ev W o u t ov u1 t1 → W.getslice ov a b c u1 = some (v, u2) → Ev W (.subscript o (.slice a b c)) u t v u2 t1
    | negInt (n : Int) (u : U) (t : T V) : Ev W (.unaryOp .uSub (.const (.int n))) u t (W.const (.int (-n))) u t
    | tupleCall (e : Expr) {u u1 u2 : U} {t t1 : T V} {ev : V} {items : List V} :
        Ev W e u t ev u1 t1 → W.iter ev u1 = some (items, u2) → Ev W (.call (.name "tuple") [e] []) u t (W.tupleOf items) u2 t1
    | listCall (e : Expr) {u u1 u2 : U} {t t1 : T V} {ev : V} {items : List V} :
        Ev W e u t ev u1 t1 → W.iter ev u1 = some (items, u2) → Ev W (.call (.name "list") [e] []) u t (W.listOf items) u2 t1
    | setattr (o : Expr) (a : String) (e : Expr) {u u1 u2 u3 : U} {t t1 t2 : T V} {ov v : V} :
        Ev W o u t ov u1 t1 → Ev W e u1 t1 v u2 t2 → W.setattr ov a v u2 = some u3 →
        Ev W (.call (.name "setattr") [o, Expr.str a, e] []) u t W.noneV u3 t2
    | setitem (o i e : Expr) {u u1 u2 u3 u4 : U} {t t1 t2 t3 : T V} {ov iv v : V} :
        Ev W o u t ov u1 t1 → Ev W i u1 t1 iv u2 t2 → Ev W e u2 t2 v u3 t3 → W.setitem ov iv v u3 = some u4 →
        Ev W (.call (.attribute o "__setitem__") [i, e] []) u t W.noneV u4 t3
    | iop (a : Expr) (op : BinOpK) (b : Expr) {u u1 u2 u3 : U} {t t1 t2 : T V} {av bv r : V} :
        Ev W a u t av u1 t1 → Ev W b u1 t1 bv u2 t2 → W.iop op av bv u2 = some (r, u3) →
        Ev W (augAssignExpr a op b) u t r u3 t2
    | ifT (c a b : Expr) {u u1 u2 u3 : U} {t t1 t2 : T V} {cv v : V} :
        Ev W c u t cv u1 t1 → W.truthy cv u1 = some (true, u2) → Ev W a u2 t1 v u3 t2 → Ev W (.ifExp c a b) u t v u3 t2
    | ifF (c a b : Expr) {u u1 u2 u3 : U} {t t1 t2 : T V} {cv v : V} :
        Ev W c u t cv u1 t1 → W.truthy cv u1 = some (false, u2) → Ev W b u2 t1 v u3 t2 → Ev W (.ifExp c a b) u t v u3 t2
    | andF (a b : Expr) {u u1 u2 : U} {t t1 : T V} {av : V} :
        Ev W a u t av u1 t1 → W.truthy av u1 = some (false, u2) → Ev W (.boolOp .and_ [a, b]) u t av u2 t1
    | andT (a b : Expr) {u u1 u2 u3 : U} {t t1 t2 : T V} {av bv : V} :
        Ev W a u t av u1 t1 → W.truthy av u1 = some (true, u2) → Ev W b u2 t1 bv u3 t2 →
        Ev W (.boolOp .and_ [a, b]) u t bv u3 t2
    | orT (a b : Expr) {u u1 u2 : U} {t t1 : T V} {av : V} :
        Ev W a u t av u1 t1 → W.truthy av u1 = some (true, u2) → Ev W (.boolOp .or_ [a, b]) u t av u2 t1
    | orF (a b : Expr) {u u1 u2 u3 : U} {t t1 t2 : T V} {av bv : V} :
        Ev W a u t av u1 t1 → W.truthy av u1 = some (false, u2) → Ev W b u2 t1 bv u3 t2 →
        Ev W (.boolOp .or_ [a, b]) u t bv u3 t2
    | forComp (elt : Expr) (x : String) (itr : Expr) {u u1 u2 u3 : U} {t t1 t3 : T V} {iv it : V} {vs : List V} :
        isTemp x → Ev W itr u t iv u1 t1 → W.getiter iv u1 = some (it, u2) → Iter W elt x it u2 t1 vs u3 t3 →
        Ev W (.listComp elt [.mk (.name x) itr [] false]) u t (W.listOf vs) u3 t3
    | whileComp (elt test : Expr) {u u' : U} {t t' : T V} {vs : List V} :
        WIter W test elt u t vs u' t' →
        Ev W (.listComp elt [.mk (.name whileCounter) (takewhileIter test) [] false]) u t (W.listOf vs) u' t'
    | runner (u : U) (t : T V) : Ev W chainRunner u t W.runner u t
    | chain (f a : Expr) {u u1 u2 : U} {t t1 t2 : T V} {v : V} :
        isChain (.call f [a] []) = true → Ev W f u t W.runner u1 t1 → Ev W a u1 t1 v u2 t2 →
        Ev W (.call f [a] []) u t W.runner u2 t2
    | user (e : Expr) {u u' : U} (t : T V) {v : V} : isGlue e = false → W.eval e u = some (v, u') → Ev W e u t v u' t
  inductive EvL (W : World U V) : List Expr → U → T V → List V → U → T V → Prop
    | nil (u : U) (t : T V) : EvL W [] u t [] u t
    | cons {e : Expr} {es : List Expr} {u u1 u2 : U} {t t1 t2 : T V} {v : V} {vs : List V} :
        Ev W e u t v u1 t1 → EvL W es u1 t1 vs u2 t2 → EvL W (e :: es) u t (v :: vs) u2 t2
  /-- the iterations of a comprehension over the iterator `it`: `next`, bind the (helper) variable, evaluate
      the element, again - until StopIteration (language reference 6.2.4) -/
  inductive Iter (W : World U V) : Expr → String → V → U → T V → List V → U → T V → Prop
    | done (elt : Expr) (x : String) (it : V) {u u' : U} (t : T V) : W.next it u = some (none, u') → Iter W elt x it u t [] u' t
    | step (elt : Expr) (x : String) (it : V) {u u1 u2 u3 : U} {t t2 t3 : T V} {v ev : V} {vs : List V} :
        W.next it u = some (some v, u1) → Ev W elt u1 ((x, v) :: t) ev u2 t2 → Iter W elt x it u2 t2 vs u3 t3 →
        Iter W elt x it u t (ev :: vs) u3 t3
  /-- `[elt for __ol_cnt in itertools.takewhile(lambda __ol_cnt: test, itertools.count())]`: the test (a
      walrus-free expression, evaluated as the body of a lambda at module level: the same names), its truth
      value, the element, again - by the documented contracts of `takewhile` and `count`, with `itertools`
      naming the module (the helper import in front of the converted program binds it) -/
  inductive WIter (W : World U V) : Expr → Expr → U → T V → List V → U → T V → Prop
    | done (test elt : Expr) {u u1 u2 : U} {t t1 : T V} {tv : V} :
        Ev W test u t tv u1 t1 → W.truthy tv u1 = some (false, u2) → WIter W test elt u t [] u2 t1
    | step (test elt : Expr) {u u1 u2 u3 u4 : U} {t t1 t2 t3 : T V} {tv ev : V} {vs : List V} :
        Ev W test u t tv u1 t1 → W.truthy tv u1 = some (true, u2) → Ev W elt u2 t1 ev u3 t2 → WIter W test elt u3 t2 vs u4 t3 →
        WIter W test elt u t (ev :: vs) u4 t3
end

/-- an expression that never names a helper variable where the rules would look at it -/
inductive Clean : Expr → Prop
  | const (c : Const) : Clean (.const c)
  | name (x : String) : ¬ isTemp x → Clean (.name x)
  | walrus (x : String) (e : Expr) : ¬ isTemp x → Clean e → Clean (.namedExpr x e)
  | list (es : List Expr) : (∀ e ∈ es, Clean e) → Clean (.list es)
  | attr (o : Expr) (a : String) : Clean o → Clean (.attribute o a)
  | sub (o i : Expr) : Clean o → Clean i → Clean (.subscript o i)
  | call (f : Expr) (as : List Expr) (ks : List Keyword) : Clean f → (∀ a ∈ as, Clean a) → Clean (.call f as ks)
  | negInt (n : Int) : Clean (.unaryOp .uSub (.const (.int n)))
  | ifExp (c a b : Expr) : Clean c → Clean a → Clean b → Clean (.ifExp c a b)
  | boolOp2 (op : BoolOpK) (a b : Expr) : Clean a → Clean b → Clean (.boolOp op [a, b])
  | other (e : Expr) : isGlue e = false → Clean e

/-! ### source statements (module level, straight line) -/

/-- position of the (first) starred item of a pattern -/
def starIndex : List Expr → Option Nat
  | [] => none
  | e :: es => if e.isStarred then some 0 else (starIndex es).map (· + 1)

def starCount : List Expr → Nat
  | [] => 0
  | e :: es => (if e.isStarred then 1 else 0) + starCount es

mutual
  /-- one target of an assignment receives `v` (language reference 7.2); a tuple / list pattern iterates
      `v` to exhaustion, demands as many items as it has targets (at least one less when one target is
      starred; the starred target receives the list of the surplus - `pyValuesG`, Python's rule) and
      assigns left to right (patterns nest) -/
  inductive AssignT (W : World U V) : Expr → V → U → U → Prop
    | name (x : String) (v : V) (u : U) : ¬ isTemp x → AssignT W (.name x) v u (W.store x v u)
    | attr (o : Expr) (a : String) {v ov : V} {u u1 u2 : U} :
        Ev W o u [] ov u1 [] → W.setattr ov a v u1 = some u2 → AssignT W (.attribute o a) v u u2
    | sub (o i : Expr) {v ov iv : V} {u u1 u2 u3 : U} :
        Ev W o u [] ov u1 [] → Ev W i u1 [] iv u2 [] → W.setitem ov iv v u2 = some u3 → AssignT W (.subscript o i) v u u3
    | tuple (es : List Expr) {v : V} {items vals : List V} {u u1 u2 : U} :
        W.iter v u = some (items, u1) → pyValuesG W.listOf es.length (starIndex es) items = some vals →
        AssignEach W es vals u1 u2 → AssignT W (.tuple es) v u u2
    | list (es : List Expr) {v : V} {items vals : List V} {u u1 u2 : U} :
        W.iter v u = some (items, u1) → pyValuesG W.listOf es.length (starIndex es) items = some vals →
        AssignEach W es vals u1 u2 → AssignT W (.list es) v u u2
    | starred (sub : Expr) {v : V} {u u' : U} : AssignT W sub v u u' → AssignT W (.starred sub) v u u'
  inductive AssignEach (W : World U V) : List Expr → List V → U → U → Prop
    | nil (u : U) : AssignEach W [] [] u u
    | cons {t : Expr} {ts : List Expr} {v : V} {vs : List V} {u u1 u2 : U} :
        AssignT W t v u u1 → AssignEach W ts vs u1 u2 → AssignEach W (t :: ts) (v :: vs) u u2
end

/-- tuples are what they are made of: indexing (negative indices from the end), slicing with the
    bounds the converter emits, and iterating a tuple built from `items` give the items -/
structure LawfulSeq (W : World U V) : Prop where
  index : ∀ (items : List V) (i : Int) (v : V) (u : U), pyIndexG items i = some v →
    W.getitem (W.tupleOf items) (W.const (.int i)) u = some (v, u)
  slice : ∀ (items : List V) (lo : Nat) (hi : Option Int) (u : U),
    W.getslice (W.tupleOf items) (some (.const (.int (lo : Int)))) (hi.map intConstant) none u =
      some (W.tupleOf (pySliceG items lo hi), u)
  iter : ∀ (items : List V) (u : U), W.iter (W.tupleOf items) u = some (items, u)

inductive AssignAll (W : World U V) : List Expr → V → U → U → Prop
  | nil (v : V) (u : U) : AssignAll W [] v u u
  | cons {t : Expr} {ts : List Expr} {v : V} {u u1 u2 : U} :
      AssignT W t v u u1 → AssignAll W ts v u1 u2 → AssignAll W (t :: ts) v u u2

/-- what the glue relies on: a non-empty list is true, and taking the truth value of an object again,
    right away, gives the same answer and changes nothing.  (Where an `if` statement tests `a and b`,
    CPython tests the deciding operand once; an expression that yields the chain's value and is then
    tested tests that operand again - and on 3.12+ `c and X or Y` tests a false `c` twice.  A world
    in which that is visible is outside this law; the converter's `short_circuit` style really
    deviates there: KF-D61b.) -/
structure Lawful (W : World U V) : Prop where
  list : ∀ (v : V) (vs : List V) (u : U), W.truthy (W.listOf (v :: vs)) u = some (true, u)
  retest : ∀ (v : V) (u u' : U) (b : Bool), W.truthy v u = some (b, u') → W.truthy v u' = some (b, u')

mutual
  /-- simple statements: the value first, then the targets left to right; augmented assignment loads
      the target (its object and index once), evaluates the operand, applies the in-place operator,
      stores (language reference 7.2, 7.2.1); `if`: the test, its truth value once, one branch (8.1) -/
  inductive ExecS (W : World U V) : Stmt → U → U → Prop
    | expr (e : Expr) {v : V} {u u' : U} : Ev W e u [] v u' [] → ExecS W (.expr e) u u'
    | pass (u : U) : ExecS W .pass_ u u
    | global_ (ns : List String) (u : U) : ExecS W (.global_ ns) u u
    | assign (ts : List Expr) (value : Expr) {v : V} {u u1 u2 : U} :
        Ev W value u [] v u1 [] → AssignAll W ts v u1 u2 → ExecS W (.assign ts value) u u2
    | augName (x : String) (op : BinOpK) (value : Expr) {a b r : V} {u u1 u2 u3 : U} :
        ¬ isTemp x → Ev W (.name x) u [] a u1 [] → Ev W value u1 [] b u2 [] → W.iop op a b u2 = some (r, u3) →
        ExecS W (.augAssign (.name x) op value) u (W.store x r u3)
    | augAttr (o : Expr) (a : String) (op : BinOpK) (value : Expr) {ov cur b r : V} {u u1 u2 u3 u4 u5 : U} :
        Ev W o u [] ov u1 [] → W.getattr ov a u1 = some (cur, u2) → Ev W value u2 [] b u3 [] →
        W.iop op cur b u3 = some (r, u4) → W.setattr ov a r u4 = some u5 →
        ExecS W (.augAssign (.attribute o a) op value) u u5
    | augSub (o i : Expr) (op : BinOpK) (value : Expr) {ov iv cur b r : V} {u u1 u2 u3 u4 u5 u6 : U} :
        Ev W o u [] ov u1 [] → Ev W i u1 [] iv u2 [] → W.getitem ov iv u2 = some (cur, u3) → Ev W value u3 [] b u4 [] →
        W.iop op cur b u4 = some (r, u5) → W.setitem ov iv r u5 = some u6 →
        ExecS W (.augAssign (.subscript o i) op value) u u6
    | ifTrue (test : Expr) (body orelse : List Stmt) {tv : V} {u u1 u2 u3 : U} :
        Ev W test u [] tv u1 [] → W.truthy tv u1 = some (true, u2) → ExecB W body u2 u3 →
        ExecS W (.if_ test body orelse) u u3
    | ifFalse (test : Expr) (body orelse : List Stmt) {tv : V} {u u1 u2 u3 : U} :
        Ev W test u [] tv u1 [] → W.truthy tv u1 = some (false, u2) → ExecB W orelse u2 u3 →
        ExecS W (.if_ test body orelse) u u3

    | for_ (target iter : Expr) (body orelse : List Stmt) {iv it : V} {u u1 u2 u3 u4 : U} :
        Ev W iter u [] iv u1 [] → W.getiter iv u1 = some (it, u2) → ForIter W target body it u2 u3 → ExecB W orelse u3 u4 →
        ExecS W (.for_ target iter body orelse) u u4

    | while_ (test : Expr) (body orelse : List Stmt) {u u1 u2 : U} :
        WhileIter W test body u u1 → ExecB W orelse u1 u2 → ExecS W (.while_ test body orelse) u u2

  inductive ExecB (W : World U V) : List Stmt → U → U → Prop
    | nil (u : U) : ExecB W [] u u
    | cons {s : Stmt} {ss : List Stmt} {u u1 u2 : U} : ExecS W s u u1 → ExecB W ss u1 u2 → ExecB W (s :: ss) u u2

  /-- the iterations of a `while` statement without break / continue (8.2): the test, its truth value, the body -/
  inductive WhileIter (W : World U V) : Expr → List Stmt → U → U → Prop
    | done (test : Expr) (body : List Stmt) {u u1 u2 : U} {tv : V} :
        Ev W test u [] tv u1 [] → W.truthy tv u1 = some (false, u2) → WhileIter W test body u u2
    | step (test : Expr) (body : List Stmt) {u u1 u2 u3 u4 : U} {tv : V} :
        Ev W test u [] tv u1 [] → W.truthy tv u1 = some (true, u2) → ExecB W body u2 u3 → WhileIter W test body u3 u4 →
        WhileIter W test body u u4

  /-- the iterations of a `for` statement without break / continue (8.3): `next`, assign the target, run the body -/
  inductive ForIter (W : World U V) : Expr → List Stmt → V → U → U → Prop
    | done (target : Expr) (body : List Stmt) (it : V) {u u' : U} : W.next it u = some (none, u') → ForIter W target body it u u'
    | step (target : Expr) (body : List Stmt) (it : V) {u u1 u2 u3 u4 : U} {v : V} :
        W.next it u = some (some v, u1) → AssignT W target v u1 u2 → ExecB W body u2 u3 → ForIter W target body it u3 u4 →
        ForIter W target body it u u4
end

/-- a plain index: not a slice and not a tuple (those are rewritten by `convert_index`) -/
def plainIndex : Expr → Prop
  | .slice .. => False
  | .tuple _ => False
  | _ => True

/-- the targets the fragment allows: names, attributes, plain subscripts, and tuple / list patterns of
    such targets with at most one starred item, nested to any depth -/
inductive SimpleT : Expr → Prop
  | name (x : String) : SimpleT (.name x)
  | attr (o : Expr) (a : String) : Clean o → SimpleT (.attribute o a)
  | sub (o i : Expr) : Clean o → Clean i → plainIndex i → SimpleT (.subscript o i)
  | tuple (es : List Expr) : (∀ e ∈ es, SimpleT e) → starCount es ≤ 1 → SimpleT (.tuple es)
  | list (es : List Expr) : (∀ e ∈ es, SimpleT e) → starCount es ≤ 1 → SimpleT (.list es)
  | starred (sub : Expr) : SimpleT sub → SimpleT (.starred sub)

/-- the statements of the fragment: expression statements, `pass`, `global`, assignments with any
    number of name / attribute / subscript targets, augmented assignments on the same targets,
    `if` / `elif` / `else`, `for` and - with `w = true` - `while` (with `else`, without break / continue) over such
    statements at any nesting; all their expressions free of helper names -/
inductive SimpleS (w : Bool) : Stmt → Prop
  | expr (e : Expr) : Clean e → SimpleS w (.expr e)
  | pass : SimpleS w .pass_
  | global_ (ns : List String) : SimpleS w (.global_ ns)
  | assign (ts : List Expr) (value : Expr) : ts ≠ [] → (∀ t ∈ ts, SimpleT t) → Clean value → SimpleS w (.assign ts value)
  | aug (t : Expr) (op : BinOpK) (value : Expr) : SimpleT t → Clean value → SimpleS w (.augAssign t op value)
  | if_ (test : Expr) (body orelse : List Stmt) : Clean test → (∀ s ∈ body, SimpleS w s) → (∀ s ∈ orelse, SimpleS w s) →
      SimpleS w (.if_ test body orelse)
  | for_ (target iter : Expr) (body orelse : List Stmt) : SimpleT target → Clean iter → (∀ s ∈ body, SimpleS w s) →
      (∀ s ∈ orelse, SimpleS w s) → SimpleS w (.for_ target iter body orelse)
  /-- only in the fragment with `w = true`: lowering a `while` asks for the helper import of `itertools` -/
  | while_ (test : Expr) (body orelse : List Stmt) : w = true → Clean test → noWalrus test = true → (∀ s ∈ body, SimpleS w s) →
      (∀ s ∈ orelse, SimpleS w s) → SimpleS w (.while_ test body orelse)

end OlVerif.Sem
