/-
  The frame property of M-EVAL: an expression free of helper names neither reads nor writes the
  helper variables.
-/
import OlVerif.Sem.Eval

namespace OlVerif.Sem
variable {U V : Type}

theorem isGlue_of_chain {e : Expr} (h : isChain e = true) : isGlue e = true := by simp [isGlue, h]

theorem clean_walrus {x : String} {e : Expr} (h : Clean (.namedExpr x e)) : ¬ isTemp x ∧ Clean e := by
  cases h with
  | walrus _ _ h1 h2 => exact ⟨h1, h2⟩
  | other _ h => simp [isGlue, isGlue'] at h

theorem clean_name {x : String} (h : Clean (.name x)) : ¬ isTemp x := by
  cases h with
  | name _ h => exact h
  | other _ h => simp [isGlue, isGlue', isChain] at h; exact h

theorem clean_list {es : List Expr} (h : Clean (.list es)) : ∀ e ∈ es, Clean e := by
  cases h with
  | list _ h => exact h
  | other _ h => simp [isGlue, isGlue'] at h

theorem clean_attr {o : Expr} {a : String} (h : Clean (.attribute o a)) : Clean o := by
  cases h with
  | attr _ _ h => exact h
  | other _ h => simp [isGlue, isGlue'] at h

theorem clean_sub {o i : Expr} (h : Clean (.subscript o i)) : Clean o ∧ Clean i := by
  cases h with
  | sub _ _ h1 h2 => exact ⟨h1, h2⟩
  | other _ h => simp [isGlue, isGlue'] at h

theorem clean_setattr {o e : Expr} {a : String} (h : Clean (.call (.name "setattr") [o, Expr.str a, e] [])) : Clean o ∧ Clean e := by
  cases h with
  | call _ _ _ _ h => exact ⟨h o (by simp), h e (by simp)⟩
  | other _ h => simp [isGlue, isGlue', Expr.str] at h

theorem clean_setitem {o i e : Expr} (h : Clean (.call (.attribute o "__setitem__") [i, e] [])) : Clean o ∧ Clean i ∧ Clean e := by
  cases h with
  | call _ _ _ hf h => exact ⟨clean_attr hf, h i (by simp), h e (by simp)⟩
  | other _ h => simp [isGlue, isGlue'] at h

theorem clean_iop {a b : Expr} {op : BinOpK} (h : Clean (augAssignExpr a op b)) : Clean a ∧ Clean b := by
  unfold augAssignExpr at h
  cases h with
  | call _ _ _ _ h => exact ⟨h a (by simp), h b (by simp)⟩
  | other _ h => cases op <;> simp [isGlue, isGlue', Expr.str, augOpName] at h

theorem clean_ifExp {c a b : Expr} (h : Clean (.ifExp c a b)) : Clean c ∧ Clean a ∧ Clean b := by
  cases h with
  | ifExp _ _ _ h1 h2 h3 => exact ⟨h1, h2, h3⟩
  | other _ h => simp [isGlue, isGlue'] at h

theorem clean_boolOp2 {op : BoolOpK} {a b : Expr} (h : Clean (.boolOp op [a, b])) : Clean a ∧ Clean b := by
  cases h with
  | boolOp2 _ _ _ h1 h2 => exact ⟨h1, h2⟩
  | other _ h => simp [isGlue, isGlue'] at h

theorem clean_call1 {f e : Expr} (hg : isGlue (.call f [e] []) = true) (h : Clean (.call f [e] [])) : Clean e := by
  cases h with
  | call _ _ _ _ h => exact h e (by simp)
  | other _ h => rw [hg] at h; cases h

theorem isGlue_tupleCall (e : Expr) : isGlue (.call (.name "tuple") [e] []) = true := by simp [isGlue, isGlue']
theorem isGlue_listCall (e : Expr) : isGlue (.call (.name "list") [e] []) = true := by simp [isGlue, isGlue']

theorem not_clean_forComp {elt itr : Expr} {x : String} (hx : isTemp x) (h : Clean (.listComp elt [.mk (.name x) itr [] false])) : False := by
  cases h with
  | other _ h => simp [isGlue, isGlue', isChain, hx] at h

theorem clean_chain {f a : Expr} (hc : isChain (.call f [a] []) = true) (h : Clean (.call f [a] [])) : Clean f ∧ Clean a := by
  cases h with
  | call _ _ _ hf h => exact ⟨hf, h a (by simp)⟩
  | other _ h => rw [isGlue_of_chain hc] at h; cases h

mutual
  /-- **Frame.**  Evaluating an expression free of helper names leaves the helper variables as they
      are, and goes through unchanged whatever they hold. -/
  theorem frame (W : World U V) : ∀ {e : Expr} {u : U} {t : T V} {v : V} {u' : U} {t' : T V},
      Ev W e u t v u' t' → Clean e → t' = t ∧ ∀ t2 : T V, Ev W e u t2 v u' t2
    | _, _, _, _, _, _, .const c u t, _ => ⟨rfl, fun t2 => .const c u t2⟩
    | _, _, _, _, _, _, .temp x u t v hx _, hc => absurd hx (clean_name hc)
    | _, _, _, _, _, _, .walrusT x e hx _, hc => absurd hx (clean_walrus hc).1
    | _, _, _, _, _, _, .walrus x e hx h, hc =>
        have ih := frame W h (clean_walrus hc).2
        ⟨ih.1, fun t2 => .walrus x e hx (ih.2 t2)⟩
    | _, _, _, _, _, _, .list es h, hc =>
        have ih := frameL W h (clean_list hc)
        ⟨ih.1, fun t2 => .list es (ih.2 t2)⟩
    | _, _, _, _, _, _, .attr o a h hg, hc =>
        have ih := frame W h (clean_attr hc)
        ⟨ih.1, fun t2 => .attr o a (ih.2 t2) hg⟩
    | _, _, _, _, _, _, .sub o i hns h1 h2 hg, hc => by
        have ih1 := frame W h1 (clean_sub hc).1
        have ih2 := frame W h2 (clean_sub hc).2
        exact ⟨ih2.1.trans ih1.1, fun t2 => .sub o i hns (ih1.2 t2) (ih2.2 t2) hg⟩
    | _, _, _, _, _, _, .subSlice o a b c h1 hg, hc =>
        have ih1 := frame W h1 (clean_sub hc).1
        ⟨ih1.1, fun t2 => .subSlice o a b c (ih1.2 t2) hg⟩
    | _, _, _, _, _, _, .negInt n u t, _ => ⟨rfl, fun t2 => .negInt n u t2⟩
    | _, _, _, _, _, _, .tupleCall e h1 hi, hc =>
        have ih1 := frame W h1 (clean_call1 (isGlue_tupleCall e) hc)
        ⟨ih1.1, fun t2 => .tupleCall e (ih1.2 t2) hi⟩
    | _, _, _, _, _, _, .listCall e h1 hi, hc =>
        have ih1 := frame W h1 (clean_call1 (isGlue_listCall e) hc)
        ⟨ih1.1, fun t2 => .listCall e (ih1.2 t2) hi⟩
    | _, _, _, _, _, _, .setattr o a e h1 h2 hg, hc => by
        have ih1 := frame W h1 (clean_setattr hc).1
        have ih2 := frame W h2 (clean_setattr hc).2
        exact ⟨ih2.1.trans ih1.1, fun t2 => .setattr o a e (ih1.2 t2) (ih2.2 t2) hg⟩
    | _, _, _, _, _, _, .setitem o i e h1 h2 h3 hg, hc => by
        have ih1 := frame W h1 (clean_setitem hc).1
        have ih2 := frame W h2 (clean_setitem hc).2.1
        have ih3 := frame W h3 (clean_setitem hc).2.2
        exact ⟨ih3.1.trans (ih2.1.trans ih1.1), fun t2 => .setitem o i e (ih1.2 t2) (ih2.2 t2) (ih3.2 t2) hg⟩
    | _, _, _, _, _, _, .iop a op b h1 h2 hg, hc => by
        have ih1 := frame W h1 (clean_iop hc).1
        have ih2 := frame W h2 (clean_iop hc).2
        exact ⟨ih2.1.trans ih1.1, fun t2 => .iop a op b (ih1.2 t2) (ih2.2 t2) hg⟩
    | _, _, _, _, _, _, .ifT c a b h1 hb h2, hc => by
        have ih1 := frame W h1 (clean_ifExp hc).1
        have ih2 := frame W h2 (clean_ifExp hc).2.1
        exact ⟨ih2.1.trans ih1.1, fun t2 => .ifT c a b (ih1.2 t2) hb (ih2.2 t2)⟩
    | _, _, _, _, _, _, .ifF c a b h1 hb h2, hc => by
        have ih1 := frame W h1 (clean_ifExp hc).1
        have ih2 := frame W h2 (clean_ifExp hc).2.2
        exact ⟨ih2.1.trans ih1.1, fun t2 => .ifF c a b (ih1.2 t2) hb (ih2.2 t2)⟩
    | _, _, _, _, _, _, .andF a b h1 hb, hc =>
        have ih1 := frame W h1 (clean_boolOp2 hc).1
        ⟨ih1.1, fun t2 => .andF a b (ih1.2 t2) hb⟩
    | _, _, _, _, _, _, .andT a b h1 hb h2, hc => by
        have ih1 := frame W h1 (clean_boolOp2 hc).1
        have ih2 := frame W h2 (clean_boolOp2 hc).2
        exact ⟨ih2.1.trans ih1.1, fun t2 => .andT a b (ih1.2 t2) hb (ih2.2 t2)⟩
    | _, _, _, _, _, _, .orT a b h1 hb, hc =>
        have ih1 := frame W h1 (clean_boolOp2 hc).1
        ⟨ih1.1, fun t2 => .orT a b (ih1.2 t2) hb⟩
    | _, _, _, _, _, _, .orF a b h1 hb h2, hc => by
        have ih1 := frame W h1 (clean_boolOp2 hc).1
        have ih2 := frame W h2 (clean_boolOp2 hc).2
        exact ⟨ih2.1.trans ih1.1, fun t2 => .orF a b (ih1.2 t2) hb (ih2.2 t2)⟩
    | _, _, _, _, _, _, .forComp elt x itr hx _ _ _, hc => (not_clean_forComp hx hc).elim
    | _, _, _, _, _, _, .whileComp elt test _, hc => (not_clean_forComp (by decide) hc).elim
    | _, _, _, _, _, _, .runner u t, _ => ⟨rfl, fun t2 => .runner u t2⟩
    | _, _, _, _, _, _, .chain f a hch h1 h2, hc => by
        have ih1 := frame W h1 (clean_chain hch hc).1
        have ih2 := frame W h2 (clean_chain hch hc).2
        exact ⟨ih2.1.trans ih1.1, fun t2 => .chain f a hch (ih1.2 t2) (ih2.2 t2)⟩
    | _, _, _, _, _, _, .user e t hg he, _ => ⟨rfl, fun t2 => .user e t2 hg he⟩

  theorem frameL (W : World U V) : ∀ {es : List Expr} {u : U} {t : T V} {vs : List V} {u' : U} {t' : T V},
      EvL W es u t vs u' t' → (∀ e ∈ es, Clean e) → t' = t ∧ ∀ t2 : T V, EvL W es u t2 vs u' t2
    | _, _, _, _, _, _, .nil u t, _ => ⟨rfl, fun t2 => .nil u t2⟩
    | _, _, _, _, _, _, .cons h1 h2, hc => by
        have ih1 := frame W h1 (hc _ (by simp))
        have ih2 := frameL W h2 (fun e he => hc e (by simp [he]))
        exact ⟨ih2.1.trans ih1.1, fun t2 => .cons (ih1.2 t2) (ih2.2 t2)⟩
end

end OlVerif.Sem
