/-
  M-API: the library API as a state machine over histories
    {create an options object, set an option on some object, convert p with object o,
     convert p with no options, reseed the random generator}
  and the command line as a function  arguments × file system → file system × exit × stdout.
  The option table, the storage kind of option values (per object or shared, *probed* on the
  real `Configs` class), and the order of effects of `__main__.py` come from Gen/Config.lean.
-/
import OlVerif.Gen.Config

namespace OlVerif

abbrev Opts := List (String × String)      -- option name ↦ value, in table order

def defaultOpts : Opts := optionTable.map fun (n, _, d) => (n, d)

def optLegal (name value : String) : Bool :=
  match optionTable.find? (fun (n, _, _) => n == name) with
  | some (_, choices, _) => choices.contains value
  | none => false

def optKnown (name : String) : Bool := optionTable.any fun (n, _, _) => n == name

def Opts.set (o : Opts) (name value : String) : Opts :=
  o.map fun (n, v) => if n == name then (n, value) else (n, v)

inductive ApiOp
  | new                                   -- Configs()
  | set (obj : Nat) (name value : String) -- setattr(objs[obj], name, value)
  | convert (p : Nat) (obj : Nat)         -- convert_code_string(prog p, configs=objs[obj])
  | convertDefault (p : Nat)              -- convert_code_string(prog p)
  | reseed (r : Nat)                      -- random.seed(r)
  deriving Repr, DecidableEq

inductive ApiOut
  | none
  | valueError
  | noSuchObject
  | text (p : Nat) (opts : Opts)          -- the text F(p, opts), up to the choice of fresh names
  deriving Repr, DecidableEq

/-- State: the option objects created so far, and (only meaningful when storage is shared) the
    one shared cell per option. -/
structure ApiState where
  objs : List Opts := []
  shared : Opts := defaultOpts
  deriving Repr

/-- effective options of object `i` -/
def ApiState.read (s : ApiState) (i : Nat) : Option Opts :=
  if storagePerInstance then s.objs[i]? else (s.objs[i]?).map fun _ => s.shared

def ApiState.defaults (s : ApiState) : Opts :=
  if storagePerInstance then defaultOpts else s.shared

def apiStep (s : ApiState) : ApiOp → ApiState × ApiOut
  | .new => ({ s with objs := s.objs ++ [s.defaults] }, .none)
  | .set i name value =>
    match s.objs[i]? with
    | none => (s, .noSuchObject)
    | some o =>
      if !optLegal name value then (s, .valueError)
      else if storagePerInstance then ({ s with objs := s.objs.set i (o.set name value) }, .none)
      else ({ s with shared := s.shared.set name value }, .none)
  | .convert p i =>
    match s.read i with
    | none => (s, .noSuchObject)
    | some o => (s, .text p o)
  | .convertDefault p => (s, .text p s.defaults)
  | .reseed _ => (s, .none)

def apiRun (s : ApiState) : List ApiOp → ApiState × List ApiOut
  | [] => (s, [])
  | op :: ops =>
    let (s', o) := apiStep s op
    let (s'', os) := apiRun s' ops
    (s'', o :: os)

/-! ### specification: what each object's *own* settings are after a history -/

/-- one step of the specification: (number of objects created so far, settings of object `i`) -/
def specStep (i : Nat) (op : ApiOp) (n : Nat) (cur : Option Opts) : Nat × Option Opts :=
  match op with
  | .new => (n + 1, if n = i then some defaultOpts else cur)
  | .set j name value => (n, if j = i ∧ optLegal name value = true then cur.map (·.set name value) else cur)
  | _ => (n, cur)

/-- the settings of object `i` according to the history alone: defaults at creation, then every
    legal `set` addressed to `i`, in order -/
def ownSettings (i : Nat) : List ApiOp → Nat → Option Opts → Option Opts
  | [], _, cur => cur
  | op :: ops, n, cur => ownSettings i ops (specStep i op n cur).1 (specStep i op n cur).2

/-! ### command line -/

structure CliArgs where
  input : String
  output : Option String := none
  cOpts : List String := []            -- the raw `-C` arguments
  unparserFlag : Option String := none -- deprecated `--unparser`
  deriving Repr

abbrev Fs := List (String × String)      -- file name ↦ contents

inductive CliExit | ok | error (what : String)
  deriving Repr, DecidableEq

/-- parse and validate the `-C name=value` arguments against the option table, in order -/
def cliOptions : List String → Opts → Except String Opts
  | [], o => .ok o
  | c :: cs, o =>
    match c.splitOn "=" with
    | [name, value] =>
      if !optKnown name then .error "unknown option"
      else if !optLegal name value then .error "illegal value"
      else cliOptions cs (o.set name value)
    | _ => .error "malformed -C"

structure CliResult where
  fs : Fs
  exit : CliExit
  stdout : Option (Nat × Opts) := none   -- the text F(input contents, opts) + newline
  written : Option (String × Opts) := none

/-- the command line, following the generated order of effects: an effect that fails stops
    the run, later effects do not happen -/
def cliRun (a : CliArgs) (fs : Fs) : List CliEffect → Opts → CliResult
  | [], _ => { fs := fs, exit := .ok }
  | .parseArgs :: es, o => cliRun a fs es o
  | .validateAndSetOptions :: es, o =>
    match cliOptions a.cOpts o with
    | .error w => { fs := fs, exit := .error w }
    | .ok o' => cliRun a fs es o'
  | .deprecatedUnparser :: es, o =>
    match a.unparserFlag with
    | none => cliRun a fs es o
    | some v => if optLegal "unparser" v then cliRun a fs es (o.set "unparser" v)
                else { fs := fs, exit := .error "illegal value" }
  | .readInput :: es, o =>
    match fs.lookup a.input with
    | none => { fs := fs, exit := .error "no such file" }
    | some _ => cliRun a fs es o
  | .convert :: es, o => cliRun a fs es o
  | .openWrite :: es, o =>
    match a.output with
    | none => cliRun a fs es o
    | some out =>
      -- opening for writing creates / truncates the file; the text written is F(contents, o)
      let r := cliRun a ((out, "<F>") :: fs.filter (·.1 != out)) es o
      { r with written := some (out, o) }
  | .printResult :: es, o =>
    match a.output with
    | some _ => cliRun a fs es o
    | none => let r := cliRun a fs es o; { r with stdout := some (0, o) }

def cli (a : CliArgs) (fs : Fs) : CliResult := cliRun a fs cliEffects defaultOpts

end OlVerif
