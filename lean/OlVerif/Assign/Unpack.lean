/-
  M-ASSIGN, destructuring.  Python's sequence unpacking (one optional starred target at any
  position) against the index / slice expressions `assign_tuple_list` emits:
     tmp = tuple(v);  tmp[i]  |  list(tmp[k : (k-n+1) or None])  |  tmp[i-n]
  with Python's rules for negative indices and slice bounds.
-/
namespace OlVerif

inductive Val
  | atom (n : Nat)
  | seq (vs : List Val)
  deriving Repr, Inhabited

/-- `l[i]` for a Python sequence: negative indices count from the end, out of range fails -/
def pyIndex (l : List Val) (i : Int) : Option Val :=
  if 0 ≤ i then l[i.toNat]?
  else if (-i).toNat ≤ l.length then l[l.length - (-i).toNat]?
  else none

/-- `l[lo:hi]` for `0 ≤ lo` and `hi` absent (None) or negative, the only forms emitted -/
def pySlice (l : List Val) (lo : Nat) (hi : Option Int) : List Val :=
  match hi with
  | none => l.drop lo
  | some h => (l.take (l.length - (-h).toNat)).drop lo

/-- **Reference**: what Python's unpacking gives to each of the `n` targets (the starred one
    receives a list); `none` = ValueError (wrong number of values). -/
def pyValues (n : Nat) (star : Option Nat) (vs : List Val) : Option (List Val) :=
  match star with
  | none => if vs.length = n then some vs else none
  | some k =>
    if k < n ∧ n - 1 ≤ vs.length then
      some (vs.take k ++ [Val.seq ((vs.drop k).take (vs.length - (n - 1)))] ++ vs.drop (vs.length - (n - 1 - k)))
    else none

/-- **Code**: the value expression emitted for target `i` of `n` (`assign_tuple_list`) -/
def olValue (n : Nat) (star : Option Nat) (vs : List Val) (i : Nat) : Option Val :=
  match star with
  | none => pyIndex vs i
  | some k =>
    if i < k then pyIndex vs i
    else if i = k then
      some (Val.seq (pySlice vs k (if (k : Int) - n + 1 = 0 then none else some ((k : Int) - n + 1))))
    else pyIndex vs ((i : Int) - n)

end OlVerif
