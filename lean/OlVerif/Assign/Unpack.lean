/-
  M-ASSIGN, destructuring.  Python's sequence unpacking (one optional starred target at any
  position) against the index / slice expressions `assign_tuple_list` emits:
     tmp = tuple(v);  tmp[i]  |  list(tmp[k : (k-n+1) or None])  |  tmp[i-n]
  with Python's rules for negative indices and slice bounds.
-/
namespace OlVerif

inductive Val
  | atom (n : Nat)
  | seq (vs : List Val)
  deriving Repr, Inhabited

section generic
variable {α : Type}

/-- `l[i]` for a Python sequence: negative indices count from the end, out of range fails -/
def pyIndexG (l : List α) (i : Int) : Option α :=
  if 0 ≤ i then l[i.toNat]?
  else if (-i).toNat ≤ l.length then l[l.length - (-i).toNat]?
  else none

/-- `l[lo:hi]` for `0 ≤ lo` and `hi` absent (None) or negative, the only forms emitted -/
def pySliceG (l : List α) (lo : Nat) (hi : Option Int) : List α :=
  match hi with
  | none => l.drop lo
  | some h => (l.take (l.length - (-h).toNat)).drop lo

/-- **Reference**: what Python's unpacking gives to each of the `n` targets (the starred one
    receives a list, built by `mk`); `none` = ValueError (wrong number of values). -/
def pyValuesG (mk : List α → α) (n : Nat) (star : Option Nat) (vs : List α) : Option (List α) :=
  match star with
  | none => if vs.length = n then some vs else none
  | some k =>
    if k < n ∧ n - 1 ≤ vs.length then
      some (vs.take k ++ [mk ((vs.drop k).take (vs.length - (n - 1)))] ++ vs.drop (vs.length - (n - 1 - k)))
    else none

/-- **Code**: the value expression emitted for target `i` of `n` (`assign_tuple_list`) -/
def olValueG (mk : List α → α) (n : Nat) (star : Option Nat) (vs : List α) (i : Nat) : Option α :=
  match star with
  | none => pyIndexG vs i
  | some k =>
    if i < k then pyIndexG vs i
    else if i = k then
      some (mk (pySliceG vs k (if (k : Int) - n + 1 = 0 then none else some ((k : Int) - n + 1))))
    else pyIndexG vs ((i : Int) - n)

/-- whenever Python's unpacking succeeds, every target receives from the emitted index / slice
    expression exactly the value Python gives it (any element type, any list constructor) -/
theorem unpackG (mk : List α → α) (n : Nat) (star : Option Nat) (vs r : List α)
    (h : pyValuesG mk n star vs = some r) : ∀ i, i < n → olValueG mk n star vs i = r[i]? := by
  intro i hi
  cases star with
  | none =>
    simp only [pyValuesG] at h
    split at h
    · rename_i hl
      cases h
      simp only [olValueG, pyIndexG]
      have : (0 : Int) ≤ (i : Int) := Int.natCast_nonneg i
      simp [this]
    · cases h
  | some k =>
    simp only [pyValuesG] at h
    split at h
    · rename_i hk
      obtain ⟨hk1, hk2⟩ := hk
      cases h
      simp only [olValueG]
      by_cases h1 : i < k
      · -- before the star
        simp only [h1, ↓reduceIte, pyIndexG]
        have : (0 : Int) ≤ (i : Int) := Int.natCast_nonneg i
        have hlen : (List.take k vs).length = k := by simp; omega
        simp only [this, ↓reduceIte, Int.toNat_natCast, List.append_assoc]
        rw [List.getElem?_append_left (by omega)]
        simp [h1]
      · by_cases h2 : i = k
        · -- the starred target
          subst h2
          have hlen : (List.take i vs).length = i := by simp; omega
          simp only [Nat.lt_irrefl, ↓reduceIte, List.append_assoc]
          rw [List.getElem?_append_right (by omega)]
          simp only [hlen, Nat.sub_self, List.cons_append, List.nil_append, List.getElem?_cons_zero, Option.some.injEq]
          congr 1
          by_cases h3 : (i : Int) - n + 1 = 0
          · have : n - 1 = i := by omega
            simp only [h3, ↓reduceIte, pySliceG]
            rw [List.take_of_length_le (by simp; omega)]
          · simp only [h3, ↓reduceIte, pySliceG]
            have e : (-((i : Int) - n + 1)).toNat = n - 1 - i := by omega
            rw [e, List.drop_take]
            congr 1
            omega
        · -- after the star
          have h3 : k < i := by omega
          simp only [h1, h2, ↓reduceIte, pyIndexG]
          have hneg : ¬ (0 : Int) ≤ (i : Int) - n := by omega
          have e : (-((i : Int) - n)).toNat = n - i := by omega
          simp only [hneg, ↓reduceIte, e]
          have hle : n - i ≤ vs.length := by omega
          simp only [hle, ↓reduceIte, List.append_assoc]
          have hlen : (List.take k vs).length = k := by simp; omega
          rw [List.getElem?_append_right (by omega)]
          simp only [hlen, List.cons_append, List.nil_append]
          have : i - k = (i - k - 1) + 1 := by omega
          rw [this, List.getElem?_cons_succ, List.getElem?_drop]
          congr 1
          omega
    · cases h

end generic

abbrev pyIndex (l : List Val) (i : Int) : Option Val := pyIndexG l i
abbrev pySlice (l : List Val) (lo : Nat) (hi : Option Int) : List Val := pySliceG l lo hi
abbrev pyValues (n : Nat) (star : Option Nat) (vs : List Val) : Option (List Val) := pyValuesG Val.seq n star vs
abbrev olValue (n : Nat) (star : Option Nat) (vs : List Val) (i : Nat) : Option Val := olValueG Val.seq n star vs i

end OlVerif
