/-
  M-ORDER: the order in which an expression evaluates its *probes*.

  A probe `P k` is the call `__probe(k)`: the stand-in for "a source subexpression with a visible
  effect" (the correspondence check replaces every subexpression of every statement template by
  such a logging call).  `tr ρ e` lists the probes `e` evaluates, in Python's evaluation order
  (language reference 6.16: left to right; call: callee, positional arguments, keyword arguments;
  subscript: object, index; slice: lower, upper, step; dict display: key, value pairs in order;
  conditional expression: test, then one branch; `and` / `or` / comparison chains: left to right
  until decided).  `ρ` is the oracle for truth values (which branch of a conditional expression
  runs, where a chain stops): the theorems hold for every oracle.
-/
import OlVerif.Lower.Stmt

namespace OlVerif

def probeName : String := "__probe"
def P (k : Nat) : Expr := .call (.name probeName) [.const (.int k)] []

mutual
  def tr (ρ : Expr → Bool) : Expr → List Nat
    | .call (.name f) [.const (.int k)] [] => if f = probeName then [k.toNat] else []
    | .call f as ks => tr ρ f ++ trL ρ as ++ trK ρ ks
    | .name _ => []
    | .const _ => []
    | .joinedStr vs => trL ρ vs
    | .formattedValue v _ s => tr ρ v ++ trO ρ s
    | .list es => trL ρ es
    | .tuple es => trL ρ es
    | .set es => trL ρ es
    | .dict items => trD ρ items
    | .starred v => tr ρ v
    | .attribute v _ => tr ρ v
    | .subscript v s => tr ρ v ++ tr ρ s
    | .slice a b c => trO ρ a ++ trO ρ b ++ trO ρ c
    | .binOp a _ b => tr ρ a ++ tr ρ b
    | .boolOp op vs => trB ρ op vs
    | .unaryOp _ v => tr ρ v
    | .compare l _ cs => tr ρ l ++ trC ρ cs
    | .ifExp t b e => tr ρ t ++ (if ρ t then tr ρ b else tr ρ e)
    | .lambda (.mk _ _ _ _ kd _ ds) _ => trL ρ ds ++ trOL ρ kd     -- the body runs at call time
    | .namedExpr _ v => tr ρ v
    | .listComp _ gs => trG ρ gs
    | .setComp _ gs => trG ρ gs
    | .dictComp _ _ gs => trG ρ gs
    | .generatorExp _ gs => trG ρ gs
    | .yield_ v => trO ρ v
    | .yieldFrom v => tr ρ v
    | .await v => tr ρ v
  def trL (ρ : Expr → Bool) : List Expr → List Nat
    | [] => []
    | e :: es => tr ρ e ++ trL ρ es
  def trO (ρ : Expr → Bool) : Option Expr → List Nat
    | none => []
    | some e => tr ρ e
  def trOL (ρ : Expr → Bool) : List (Option Expr) → List Nat
    | [] => []
    | none :: es => trOL ρ es
    | some e :: es => tr ρ e ++ trOL ρ es
  def trK (ρ : Expr → Bool) : List Keyword → List Nat
    | [] => []
    | .mk _ v :: ks => tr ρ v ++ trK ρ ks
  def trD (ρ : Expr → Bool) : List DictItem → List Nat
    | [] => []
    | .mk none v :: its => tr ρ v ++ trD ρ its
    | .mk (some k) v :: its => tr ρ k ++ tr ρ v ++ trD ρ its
  /-- `a and b and c` / `a or b or c`: the next operand runs only if the chain is not decided -/
  def trB (ρ : Expr → Bool) (op : BoolOpK) : List Expr → List Nat
    | [] => []
    | v :: vs => tr ρ v ++ (if (match op with | .and_ => ρ v | .or_ => !ρ v) then trB ρ op vs else [])
  /-- comparison chain: the next comparator runs only while the comparisons so far hold -/
  def trC (ρ : Expr → Bool) : List Expr → List Nat
    | [] => []
    | c :: cs => tr ρ c ++ (if ρ c then trC ρ cs else [])
  /-- a comprehension evaluates the iterable of its first clause when it is created; what its
      body does is the loop's business (C05), not modelled here -/
  def trG (ρ : Expr → Bool) : List Comp → List Nat
    | [] => []
    | .mk _ i _ _ :: _ => tr ρ i
end

end OlVerif
