/-
  Evaluation order of the lowered simple statements (C07): helper lemmas.
-/
import OlVerif.Order.Trace
import OlVerif.Lower.WfOut

set_option linter.unusedVariables false
set_option linter.unusedSimpArgs false

namespace OlVerif

/-! ### the trace function on the shapes the templates use -/

theorem tr_P (ρ : Expr → Bool) (k : Nat) : tr ρ (P k) = [k] := by
  simp [P, tr, probeName]

/-- a call whose callee is not the probe function: callee, arguments, keywords -/
theorem tr_call (ρ : Expr → Bool) (f : Expr) (as : List Expr) (ks : List Keyword)
    (h : ∀ x, f = .name x → x ≠ probeName) :
    tr ρ (.call f as ks) = tr ρ f ++ trL ρ as ++ trK ρ ks := by
  cases f with
  | name x =>
    have hx := h x rfl
    match as, ks with
    | [.const (.int k)], [] => simp [tr, trL, trK, hx]
    | [], ks => simp [tr, trL]
    | [.const .none], ks => simp [tr, trL]
    | [.const .true_], ks => simp [tr, trL]
    | [.const .false_], ks => simp [tr, trL]
    | [.const .ellipsis], ks => simp [tr, trL]
    | [.const (.str _)], ks => simp [tr, trL]
    | [.const (.bytes _)], ks => simp [tr, trL]
    | [.const (.float _)], ks => simp [tr, trL]
    | [.const (.complex _)], ks => simp [tr, trL]
    | [.const (.int k)], k1 :: ks => simp [tr, trL]
    | a :: b :: rest, ks => simp [tr, trL]
    | [.name _], ks => simp [tr, trL]
    | [.joinedStr _], ks => simp [tr, trL]
    | [.formattedValue ..], ks => simp [tr, trL]
    | [.list _], ks => simp [tr, trL]
    | [.tuple _], ks => simp [tr, trL]
    | [.set _], ks => simp [tr, trL]
    | [.dict _], ks => simp [tr, trL]
    | [.starred _], ks => simp [tr, trL]
    | [.attribute ..], ks => simp [tr, trL]
    | [.subscript ..], ks => simp [tr, trL]
    | [.slice ..], ks => simp [tr, trL]
    | [.call ..], ks => simp [tr, trL]
    | [.binOp ..], ks => simp [tr, trL]
    | [.boolOp ..], ks => simp [tr, trL]
    | [.unaryOp ..], ks => simp [tr, trL]
    | [.compare ..], ks => simp [tr, trL]
    | [.ifExp ..], ks => simp [tr, trL]
    | [.lambda ..], ks => simp [tr, trL]
    | [.namedExpr ..], ks => simp [tr, trL]
    | [.listComp ..], ks => simp [tr, trL]
    | [.setComp ..], ks => simp [tr, trL]
    | [.dictComp ..], ks => simp [tr, trL]
    | [.generatorExp ..], ks => simp [tr, trL]
    | [.yield_ _], ks => simp [tr, trL]
    | [.yieldFrom _], ks => simp [tr, trL]
    | [.await _], ks => simp [tr, trL]
  | _ => simp [tr]


theorem tr_name_call (ρ : Expr → Bool) (f : String) (as : List Expr) (hf : f ≠ probeName) :
    tr ρ (.call (.name f) as []) = trL ρ as := by
  rw [tr_call ρ _ _ _ (by intro x hx; cases hx; exact hf)]
  simp [tr, trK]

theorem tr_str (ρ : Expr → Bool) (s : String) : tr ρ (Expr.str s) = [] := by simp [Expr.str, tr]
theorem tr_intConstant (ρ : Expr → Bool) (v : Int) : tr ρ (intConstant v) = [] := by
  unfold intConstant; split <;> simp [tr]

theorem trL_append (ρ : Expr → Bool) : ∀ (a b : List Expr), trL ρ (a ++ b) = trL ρ a ++ trL ρ b
  | [], b => by simp [trL]
  | x :: a, b => by simp [trL, trL_append ρ a b]

/-! ### module level: loads and stores are plain names, probes stay probes -/

theorem getAssign_module {n : Nsp} (h : n.kind = .module) (x : String) (v : Expr) :
    n.getAssign x v = .ok (.namedExpr x v) := by
  unfold Nsp.getAssign; rw [h]

theorem getLoad_module {n : Nsp} (h : n.kind = .module) (b : List String) (x : String) :
    n.getLoad b x = .ok (.name x) := by
  unfold Nsp.getLoad; rw [h]

theorem transf_P {n : Nsp} (h : n.kind = .module) (b : List String) (k : Nat) : transf n b (P k) = .ok (P k) := by
  simp only [P, transf, transfList, transfKeywords, getLoad_module h]
  rfl

theorem transfOptP {n : Nsp} (h : n.kind = .module) (b : List String) (o : Option Nat) :
    transfOpt n b (o.map P) = .ok (o.map P) := by
  cases o with
  | none => simp [transfOpt]
  | some k => simp only [Option.map, transfOpt, transf_P h]; rfl

/-! ### assignment targets built from probes -/

/-- a source assignment target whose object / index / bound expressions are probes -/
inductive Tgt
  | name (x : String)
  | attr (o : Nat) (a : String)
  | sub (o i : Nat)
  | subSlice (o : Nat) (lo hi st : Option Nat)
  | tuple (ts : List Tgt)
  | list (ts : List Tgt)
  | star (t : Tgt)

mutual
  def Tgt.toExpr : Tgt → Expr
    | .name x => .name x
    | .attr o a => .attribute (P o) a
    | .sub o i => .subscript (P o) (P i)
    | .subSlice o lo hi st => .subscript (P o) (.slice (lo.map P) (hi.map P) (st.map P))
    | .tuple ts => .tuple (Tgt.toExprs ts)
    | .list ts => .list (Tgt.toExprs ts)
    | .star t => .starred t.toExpr
  def Tgt.toExprs : List Tgt → List Expr
    | [] => []
    | t :: ts => t.toExpr :: Tgt.toExprs ts
end

mutual
  /-- Python's order for the target itself: object, then index / bounds; elements left to right -/
  def Tgt.order : Tgt → List Nat
    | .name _ => []
    | .attr o _ => [o]
    | .sub o i => [o, i]
    | .subSlice o lo hi st => o :: (lo.toList ++ hi.toList ++ st.toList)
    | .tuple ts => Tgt.orders ts
    | .list ts => Tgt.orders ts
    | .star t => t.order
  def Tgt.orders : List Tgt → List Nat
    | [] => []
    | t :: ts => t.order ++ Tgt.orders ts
end

/-- what the emitted stores of a target do, given what its value expression does (`vs`):
    a name or a pattern takes the value first; an attribute / subscript store evaluates the
    target's own parts and then the value -/
def Tgt.emitOrder (vs : List Nat) : Tgt → List Nat
  | .name _ => vs
  | .attr o _ => o :: vs
  | .sub o i => o :: i :: vs
  | .subSlice o lo hi st => o :: (lo.toList ++ hi.toList ++ st.toList) ++ vs
  | .tuple ts => vs ++ Tgt.orders ts
  | .list ts => vs ++ Tgt.orders ts
  | .star t => t.emitOrder vs

theorem Tgt.emitOrder_nil : ∀ (t : Tgt), t.emitOrder [] = t.order
  | .name _ => rfl
  | .attr _ _ => rfl
  | .sub _ _ => rfl
  | .subSlice .. => by simp [Tgt.emitOrder, Tgt.order]
  | .tuple _ => by simp [Tgt.emitOrder, Tgt.order]
  | .list _ => by simp [Tgt.emitOrder, Tgt.order]
  | .star t => by simp only [Tgt.emitOrder, Tgt.order]; exact Tgt.emitOrder_nil t

theorem tr_convertSlice_P (ρ : Expr → Bool) (lo hi st : Option Nat) :
    tr ρ (convertSlice (lo.map P) (hi.map P) (st.map P)) = lo.toList ++ hi.toList ++ st.toList := by
  unfold convertSlice
  rw [tr_name_call ρ _ _ (by decide)]
  cases lo <;> cases hi <;> cases st <;> simp [trL, tr_P, Expr.none_, tr, Option.getD]

mutual
  theorem assignAuto_order (ρ : Expr → Bool) (n : Nsp) (hn : n.kind = .module) :
      ∀ (t : Tgt) (inP : Bool) (v : Expr) (st : St) (es : List Expr) (st' : St),
        assignAuto n inP t.toExpr v st = .ok (es, st') → trL ρ es = t.emitOrder (tr ρ v)
    | .name x, inP, v, st, es, st', h => by
        simp only [Tgt.toExpr, assignAuto, getAssign_module hn] at h
        cases h
        simp [trL, tr, Tgt.emitOrder]
    | .attr o a, inP, v, st, es, st', h => by
        simp only [Tgt.toExpr, assignAuto, transf_P hn] at h
        cases h
        simp [trL, tr_name_call ρ "setattr" _ (by decide), tr_P, tr_str, Tgt.emitOrder]
    | .sub o i, inP, v, st, es, st', h => by
        simp only [Tgt.toExpr, assignAuto, transf_P hn] at h
        cases h
        have : ∀ x, Expr.attribute (P o) "__setitem__" = .name x → x ≠ probeName := by intro x hx; cases hx
        simp [trL, tr_call ρ _ _ _ this, tr, tr_P, trK, convertIndex, P, Tgt.emitOrder, probeName]
    | .subSlice o lo hi st0, inP, v, st, es, st', h => by
        have hs : transf n [] (.slice (lo.map P) (hi.map P) (st0.map P)) = .ok (.slice (lo.map P) (hi.map P) (st0.map P)) := by
          simp only [transf, transfOptP hn]; rfl
        simp only [Tgt.toExpr, assignAuto, transf_P hn, hs] at h
        cases h
        have : ∀ x, Expr.attribute (P o) "__setitem__" = .name x → x ≠ probeName := by intro x hx; cases hx
        simp [trL, tr_call ρ _ _ _ this, tr, tr_P, trK, convertIndex, tr_convertSlice_P, Tgt.emitOrder]
    | .tuple ts, inP, v, st, es, st', h => by
        simp only [Tgt.toExpr, assignAuto] at h
        obtain ⟨⟨rest, st2⟩, hr, h⟩ := bind_ok h
        cases pure_ok h
        have := assignElts_order ρ n hn ts _ _ _ _ _ rest st2 hr
        simp [trL, tr, tr_name_call ρ "tuple" _ (by decide), this, Tgt.emitOrder]
    | .list ts, inP, v, st, es, st', h => by
        simp only [Tgt.toExpr, assignAuto] at h
        obtain ⟨⟨rest, st2⟩, hr, h⟩ := bind_ok h
        cases pure_ok h
        have := assignElts_order ρ n hn ts _ _ _ _ _ rest st2 hr
        simp [trL, tr, tr_name_call ρ "tuple" _ (by decide), this, Tgt.emitOrder]
    | .star t, inP, v, st, es, st', h => by
        simp only [Tgt.toExpr, assignAuto] at h
        split at h
        · simp only [Tgt.emitOrder]
          exact assignAuto_order ρ n hn t false v st es st' h
        · cases h

  theorem assignElts_order (ρ : Expr → Bool) (n : Nsp) (hn : n.kind = .module) :
      ∀ (ts : List Tgt) (tmp : String) (len index : Nat) (hs : Bool) (st : St) (es : List Expr) (st' : St),
        assignElts n tmp len index hs (Tgt.toExprs ts) st = .ok (es, st') → trL ρ es = Tgt.orders ts
    | [], tmp, len, index, hs, st, es, st', h => by
        simp only [Tgt.toExprs, assignElts] at h; cases h; simp [trL, Tgt.orders]
    | t :: ts, tmp, len, index, hs, st, es, st', h => by
        simp only [Tgt.toExprs, assignElts] at h
        split at h
        · cases h
        · obtain ⟨⟨a, st1⟩, ha, h⟩ := bind_ok h
          obtain ⟨⟨b, st2⟩, hb, h⟩ := bind_ok h
          cases pure_ok h
          have h1 := assignAuto_order ρ n hn t true _ st a st1 ha
          have h2 := assignElts_order ρ n hn ts tmp len _ _ st1 b st2 hb
          have hv : tr ρ (if t.toExpr.isStarred = true then
              Expr.call (.name "list") [.subscript (.name tmp) (.slice (some (.const (.int index)))
                (if (index : Int) - (len : Int) + 1 = 0 then none else some (intConstant ((index : Int) - (len : Int) + 1))) none)] []
              else .subscript (.name tmp) (intConstant (if hs = true then (index : Int) - (len : Int) else (index : Int)))) = [] := by
            split
            · rw [tr_name_call ρ "list" _ (by decide)]
              simp only [trL, tr, trO, List.append_nil]
              split <;> simp [trO, tr_intConstant]
            · simp [tr, tr_intConstant]
          simp only [trL_append, h1, h2, Tgt.orders]
          rw [hv, Tgt.emitOrder_nil]
end


/-! ### statements -/

theorem ite_ok' {α : Type} {c : Prop} [Decidable c] {a b : Except Err α} {r : α}
    (h : (if c then a else b) = .ok r) : (c ∧ a = .ok r) ∨ (¬ c ∧ b = .ok r) := by
  split at h
  · rename_i hc; exact Or.inl ⟨hc, h⟩
  · rename_i hc; exact Or.inr ⟨hc, h⟩

def Tgt.emitOrders (vs : List Nat) : List Tgt → List Nat
  | [] => []
  | t :: ts => t.emitOrder vs ++ Tgt.emitOrders vs ts

theorem Tgt.emitOrders_nil : ∀ (ts : List Tgt), Tgt.emitOrders [] ts = Tgt.orders ts
  | [] => rfl
  | t :: ts => by simp [Tgt.emitOrders, Tgt.orders, Tgt.emitOrder_nil, Tgt.emitOrders_nil ts]

theorem assignTargets_order (ρ : Expr → Bool) (n : Nsp) (hn : n.kind = .module) (v : Expr) :
    ∀ (ts : List Tgt) (st : St) (es : List Expr) (st' : St),
      assignTargets n v (Tgt.toExprs ts) st = .ok (es, st') → trL ρ es = Tgt.emitOrders (tr ρ v) ts
  | [], st, es, st', h => by simp only [Tgt.toExprs, assignTargets] at h; cases h; simp [trL, Tgt.emitOrders]
  | t :: ts, st, es, st', h => by
      simp only [Tgt.toExprs, assignTargets] at h
      obtain ⟨⟨a, st1⟩, ha, h⟩ := bind_ok h
      obtain ⟨⟨b, st2⟩, hb, h⟩ := bind_ok h
      cases pure_ok h
      simp only [trL_append, assignAuto_order ρ n hn t false v st a st1 ha,
        assignTargets_order ρ n hn v ts st1 b st2 hb, Tgt.emitOrders]

theorem Tgt.length_toExprs : ∀ (ts : List Tgt), (Tgt.toExprs ts).length = ts.length
  | [] => rfl
  | _ :: ts => by simp [Tgt.toExprs, Tgt.length_toExprs ts]

/-- **Assignment**: the value first, then every target from left to right, each evaluating its
    object and index / bound expressions in order; any number of chained targets, any nesting of
    tuple / list patterns with starred elements. -/
theorem assign_order (ρ : Expr → Bool) (cx : Ctx) (hn : cx.nsp.kind = .module) (ts : List Tgt) (hts : ts ≠ [])
    (v : Nat) (st : St) (es : List Expr) (st' : St)
    (h : lowerStmt cx (.assign (Tgt.toExprs ts) (P v)) st = .ok (es, st')) :
    trL ρ es = v :: Tgt.orders ts := by
  simp only [lowerStmt, transf_P hn] at h
  obtain ⟨v', hv, h⟩ := bind_ok h
  cases ok_ok hv
  rcases ite_ok' h with ⟨_, h⟩ | ⟨hc, h⟩
  · obtain ⟨⟨r, st1⟩, hr, h⟩ := bind_ok h
    cases pure_ok h
    have := assignTargets_order ρ cx.nsp hn (.name (st.fresh "assign").1) ts _ r st1 hr
    simp [trL, tr, tr_P, this, Tgt.emitOrders_nil]
  · have := assignTargets_order ρ cx.nsp hn (P v) ts st es st' h
    rw [this, tr_P]
    match ts, hts, hc with
    | [t], _, hc =>
      simp only [Tgt.emitOrders, Tgt.orders, List.append_nil]
      cases t with
      | name x => rfl
      | attr o a => simp [Tgt.toExprs, Tgt.toExpr] at hc
      | sub o i => simp [Tgt.toExprs, Tgt.toExpr] at hc
      | subSlice o lo hi st0 => simp [Tgt.toExprs, Tgt.toExpr] at hc
      | tuple ts' => simp [Tgt.emitOrder, Tgt.order]
      | list ts' => simp [Tgt.emitOrder, Tgt.order]
      | star t' =>
        -- a star outside a pattern is refused
        simp only [Tgt.toExprs, Tgt.toExpr, assignTargets, assignAuto] at h
        simp at h
        cases h
    | t1 :: t2 :: rest, _, hc =>
      simp [Tgt.toExprs] at hc

/-- **Annotated assignment with a value**: the value, then the target's parts (the annotation is
    not evaluated by the emitted code: KF-D33). -/
theorem annAssign_order (ρ : Expr → Bool) (cx : Ctx) (hn : cx.nsp.kind = .module) (t : Tgt) (ann : Expr)
    (v : Nat) (st : St) (es : List Expr) (st' : St)
    (h : lowerStmt cx (.annAssign t.toExpr ann (some (P v))) st = .ok (es, st')) :
    trL ρ es = v :: t.order := by
  simp only [lowerStmt, transf_P hn] at h
  obtain ⟨v', hv, h⟩ := bind_ok h
  cases ok_ok hv
  rcases ite_ok' h with ⟨_, h⟩ | ⟨hc, h⟩
  · obtain ⟨⟨r, st1⟩, hr, h⟩ := bind_ok h
    cases pure_ok h
    have := assignAuto_order ρ cx.nsp hn t false (.name (st.fresh "assign").1) _ r st1 hr
    simp [trL, tr, tr_P, this, Tgt.emitOrder_nil]
  · have := assignAuto_order ρ cx.nsp hn t false (P v) st es st' h
    rw [this, tr_P]
    cases t with
    | name x => rfl
    | attr o a => simp [Tgt.toExpr] at hc
    | sub o i => simp [Tgt.toExpr] at hc
    | subSlice o lo hi st0 => simp [Tgt.toExpr] at hc
    | tuple ts' => simp [Tgt.emitOrder, Tgt.order]
    | list ts' => simp [Tgt.emitOrder, Tgt.order]
    | star t' =>
      simp only [Tgt.toExpr, assignAuto] at h
      simp at h

theorem tr_augAssignExpr (ρ : Expr → Bool) (t : Expr) (op : BinOpK) (v : Nat) :
    tr ρ (augAssignExpr t op (P v)) = tr ρ t ++ [v] := by
  unfold augAssignExpr
  rw [tr_call ρ _ _ _ (by intro y hy; cases hy)]
  simp [tr, tr_name_call ρ "__import__" _ (by decide), trL, tr_str, trK, tr_P]

/-- **Augmented assignment** (all 13 operators): a name evaluates the operand once; an attribute
    target its object, then the operand; a subscript target its object, its index, then the operand -
    each exactly once. -/
theorem augAssign_name_order (ρ : Expr → Bool) (cx : Ctx) (hn : cx.nsp.kind = .module) (x : String) (op : BinOpK)
    (v : Nat) (st : St) (es : List Expr) (st' : St)
    (h : lowerStmt cx (.augAssign (.name x) op (P v)) st = .ok (es, st')) : trL ρ es = [v] := by
  simp only [lowerStmt, lowerAugAssign, transf_P hn, getLoad_module hn, getAssign_module hn] at h
  obtain ⟨v', hv, h⟩ := bind_ok h
  cases ok_ok hv
  obtain ⟨t, ht, h⟩ := bind_ok h
  cases ok_ok ht
  obtain ⟨r, hr, h⟩ := bind_ok h
  cases ok_ok hr
  cases pure_ok h
  simp only [trL, tr, List.append_nil]
  rw [tr_augAssignExpr]
  simp [tr]

theorem augAssign_attr_order (ρ : Expr → Bool) (cx : Ctx) (hn : cx.nsp.kind = .module) (o : Nat) (a : String)
    (op : BinOpK) (v : Nat) (st : St) (es : List Expr) (st' : St)
    (h : lowerStmt cx (.augAssign (.attribute (P o) a) op (P v)) st = .ok (es, st')) : trL ρ es = [o, v] := by
  simp only [lowerStmt, lowerAugAssign, transf_P hn] at h
  obtain ⟨v', hv, h⟩ := bind_ok h
  cases ok_ok hv
  obtain ⟨p, hp, h⟩ := bind_ok h
  cases ok_ok hp
  cases pure_ok h
  simp only [trL, tr, tr_P, tr_name_call ρ "setattr" _ (by decide), tr_str, List.append_nil, List.nil_append]
  rw [tr_augAssignExpr]
  simp [tr, trK]

theorem augAssign_sub_order (ρ : Expr → Bool) (cx : Ctx) (hn : cx.nsp.kind = .module) (o i : Nat)
    (op : BinOpK) (v : Nat) (st : St) (es : List Expr) (st' : St)
    (h : lowerStmt cx (.augAssign (.subscript (P o) (P i)) op (P v)) st = .ok (es, st')) : trL ρ es = [o, i, v] := by
  simp only [lowerStmt, lowerAugAssign, transf_P hn] at h
  obtain ⟨v', hv, h⟩ := bind_ok h
  cases ok_ok hv
  obtain ⟨p, hp, h⟩ := bind_ok h
  cases ok_ok hp
  obtain ⟨sl, hsl, h⟩ := bind_ok h
  cases ok_ok hsl
  cases pure_ok h
  have h1 : ∀ (x : String) y, Expr.attribute (.name x) "__setitem__" = .name y → y ≠ probeName := by intro x y hy; cases hy
  simp only [trL, tr, tr_P, tr_call ρ _ _ _ (h1 _), trK, List.append_nil, List.nil_append]
  rw [tr_augAssignExpr]
  simp [convertIndex, P, tr, trK, probeName]

/-- an expression statement evaluates its expression, once -/
theorem expr_order (ρ : Expr → Bool) (cx : Ctx) (hn : cx.nsp.kind = .module) (v : Nat) (st : St)
    (es : List Expr) (st' : St) (h : lowerStmt cx (.expr (P v)) st = .ok (es, st')) : trL ρ es = [v] := by
  simp only [lowerStmt, transf_P hn] at h
  obtain ⟨v', hv, h⟩ := bind_ok h
  cases ok_ok hv
  cases pure_ok h
  simp [trL, tr_P]


/-! ### function definitions: decorators top to bottom, then defaults, then keyword-only defaults -/

theorem transfList_P {n : Nsp} (hn : n.kind = .module) (b : List String) :
    ∀ (ks : List Nat), transfList n b (ks.map P) = .ok (ks.map P)
  | [] => by simp [transfList]
  | k :: ks => by
      simp only [List.map, transfList, transf_P hn, transfList_P hn b ks]
      rfl

theorem transfOptList_P {n : Nsp} (hn : n.kind = .module) (b : List String) :
    ∀ (ks : List (Option Nat)), transfOptList n b (ks.map (Option.map P)) = .ok (ks.map (Option.map P))
  | [] => by simp [transfOptList]
  | none :: ks => by
      simp only [List.map, Option.map, transfOptList, transfOptList_P hn b ks]
      rfl
  | some k :: ks => by
      simp only [List.map, Option.map, transfOptList, transf_P hn, transfOptList_P hn b ks]
      rfl

theorem trL_P (ρ : Expr → Bool) : ∀ (ks : List Nat), trL ρ (ks.map P) = ks
  | [] => by simp [trL]
  | k :: ks => by simp [trL, tr_P, trL_P ρ ks]

def optOrder : List (Option Nat) → List Nat
  | [] => []
  | none :: ks => optOrder ks
  | some k :: ks => k :: optOrder ks

theorem trOL_P (ρ : Expr → Bool) : ∀ (ks : List (Option Nat)), trOL ρ (ks.map (Option.map P)) = optOrder ks
  | [] => by simp [trOL, optOrder]
  | none :: ks => by simp [trOL, optOrder, trOL_P ρ ks]
  | some k :: ks => by simp [trOL, optOrder, tr_P, trOL_P ρ ks]

theorem applyDecorators_order (ρ : Expr → Bool) (n : Nsp) (hn : n.kind = .module) :
    ∀ (ds : List Nat) (body r : Expr), applyDecorators n (ds.map P) body = .ok r → tr ρ r = ds ++ tr ρ body
  | [], body, r, h => by simp only [List.map, applyDecorators] at h; cases h; simp
  | d :: ds, body, r, h => by
      simp only [List.map, applyDecorators, transf_P hn] at h
      obtain ⟨inner, hi, h⟩ := bind_ok h
      obtain ⟨d', hd, h⟩ := bind_ok h
      cases ok_ok hd
      cases pure_ok h
      have ih := applyDecorators_order ρ n hn ds body inner hi
      -- `P d` applied to the inner result: the decorator expression first, then what is inside
      have : tr ρ (Expr.call (P d) [inner] []) = d :: tr ρ inner := by
        rw [tr_call ρ _ _ _ (by intro x hx; simp [P] at hx)]
        simp [tr_P, trL, trK]
      rw [this, ih]; rfl

theorem tr_hookWrap (ρ : Expr → Bool) (f : Expr) : tr ρ (hookWrap f) = tr ρ f := by
  unfold hookWrap
  rw [tr_call ρ _ _ _ (by intro x hx; cases hx)]
  simp [tr, trL, trK, trOL, Arguments.simple]

/-- **Function definition**: the decorator expressions from top to bottom, then the positional
    defaults from left to right, then the keyword-only defaults; nothing of the body. -/
theorem functionDef_order (ρ : Expr → Bool) (cx : Ctx) (hn : cx.nsp.kind = .module)
    (name : String) (po as : List String) (va : Option String) (ko : List String) (kd : List (Option Nat))
    (kw : Option String) (ds : List Nat) (body : List Stmt) (decos : List Nat) (lineno : Nat)
    (st : St) (es : List Expr) (st' : St)
    (h : lowerStmt cx (.functionDef name (.mk po as va ko (kd.map (Option.map P)) kw (ds.map P)) body (decos.map P) lineno) st
      = .ok (es, st')) :
    trL ρ es = decos ++ ds ++ optOrder kd := by
  simp only [lowerStmt, lowerFunctionHead, transfList_P hn, transfOptList_P hn] at h
  obtain ⟨inner, _, h⟩ := bind_ok h
  obtain ⟨args', ha, h⟩ := bind_ok h
  obtain ⟨ds', hds, ha⟩ := bind_ok ha
  cases ok_ok hds
  obtain ⟨kd', hkd, ha⟩ := bind_ok ha
  cases ok_ok hkd
  cases pure_ok ha
  obtain ⟨⟨b, st1⟩, _, h⟩ := bind_ok h
  obtain ⟨lam, hl, h⟩ := bind_ok h
  obtain ⟨r, hr, h⟩ := bind_ok h
  rw [getAssign_module hn] at hr
  cases ok_ok hr
  cases pure_ok h
  have hlam := applyDecorators_order ρ cx.nsp hn decos _ lam hl
  simp only [trL, tr, List.append_nil]
  have : tr ρ (if (inner.isMethod && (name == "__init_subclass__" || name == "__class_getitem__")) = true then hookWrap lam else lam)
      = tr ρ lam := by
    split
    · exact tr_hookWrap ρ lam
    · rfl
  rw [this, hlam]
  simp [tr, trL_P, trOL_P, List.append_assoc]


/-! ### whole programs of simple statements -/

theorem tr_foldl_call (ρ : Expr → Bool) : ∀ (es : List Expr) (acc : Expr), (∀ x, acc ≠ .name x) →
    tr ρ (es.foldl (fun acc x => .call acc [x] []) acc) = tr ρ acc ++ trL ρ es
  | [], acc, _ => by simp [trL]
  | e :: es, acc, hacc => by
      simp only [List.foldl]
      rw [tr_foldl_call ρ es _ (by intro x hx; cases hx)]
      rw [tr_call ρ acc [e] [] (by intro x hx; exact absurd hx (hacc x))]
      simp [trL, trK, List.append_assoc]

theorem tr_chainRunner (ρ : Expr → Bool) : tr ρ chainRunner = [] := by
  unfold chainRunner
  rw [tr_call ρ _ _ _ (by intro x hx; cases hx)]
  simp [tr, trL, trK, trOL, Arguments.empty]

/-- **Both wrappers evaluate the statement expressions in order, each once.** -/
theorem tr_wrapExprs (ρ : Expr → Bool) (cfg : Cfg) (es : List Expr) : tr ρ (wrapExprs cfg es) = trL ρ es := by
  match es with
  | [] => simp [wrapExprs, Expr.ellipsis, tr, trL]
  | [e] => simp [wrapExprs, trL]
  | e1 :: e2 :: rest =>
    simp only [wrapExprs]
    split
    · simp [listWrapper, tr]
    · simp only [chainCallWrapper]
      rw [tr_foldl_call ρ _ _ (by intro x hx; cases hx)]
      rw [tr_call ρ chainRunner [e1] [] (by intro x hx; simp [chainRunner] at hx)]
      simp [tr_chainRunner, trL, trK]

/-- a statement whose subexpressions are probes -/
inductive PStmt
  | assign (ts : List Tgt) (v : Nat)
  | ann (t : Tgt) (annotation : Expr) (v : Nat)
  | augName (x : String) (op : BinOpK) (v : Nat)
  | augAttr (o : Nat) (a : String) (op : BinOpK) (v : Nat)
  | augSub (o i : Nat) (op : BinOpK) (v : Nat)
  | expr (v : Nat)
  | def_ (name : String) (po as : List String) (va : Option String) (ko : List String) (kd : List (Option Nat))
      (kw : Option String) (ds : List Nat) (body : List Stmt) (decos : List Nat) (lineno : Nat)

def PStmt.toStmt : PStmt → Stmt
  | .assign ts v => .assign (Tgt.toExprs ts) (P v)
  | .ann t a v => .annAssign t.toExpr a (some (P v))
  | .augName x op v => .augAssign (.name x) op (P v)
  | .augAttr o a op v => .augAssign (.attribute (P o) a) op (P v)
  | .augSub o i op v => .augAssign (.subscript (P o) (P i)) op (P v)
  | .expr v => .expr (P v)
  | .def_ name po as va ko kd kw ds body decos lineno =>
      .functionDef name (.mk po as va ko (kd.map (Option.map P)) kw (ds.map P)) body (decos.map P) lineno

/-- Python's evaluation order for the statement (language reference 7.2, 7.2.1, 7.2.2, 8.7) -/
def PStmt.order : PStmt → List Nat
  | .assign ts v => v :: Tgt.orders ts
  | .ann t _ v => v :: t.order
  | .augName _ _ v => [v]
  | .augAttr o _ _ v => [o, v]
  | .augSub o i _ v => [o, i, v]
  | .expr v => [v]
  | .def_ _ _ _ _ _ kd _ ds _ decos _ => decos ++ ds ++ optOrder kd

def PStmt.ok : PStmt → Prop
  | .assign ts _ => ts ≠ []
  | _ => True

theorem pstmt_order (ρ : Expr → Bool) (cx : Ctx) (hn : cx.nsp.kind = .module) (p : PStmt) (hp : p.ok)
    (st : St) (es : List Expr) (st' : St) (h : lowerStmt cx p.toStmt st = .ok (es, st')) : trL ρ es = p.order := by
  cases p with
  | assign ts v => exact assign_order ρ cx hn ts hp v st es st' h
  | ann t a v => exact annAssign_order ρ cx hn t a v st es st' h
  | augName x op v => exact augAssign_name_order ρ cx hn x op v st es st' h
  | augAttr o a op v => exact augAssign_attr_order ρ cx hn o a op v st es st' h
  | augSub o i op v => exact augAssign_sub_order ρ cx hn o i op v st es st' h
  | expr v => exact expr_order ρ cx hn v st es st' h
  | def_ name po as va ko kd kw ds body decos lineno =>
    exact functionDef_order ρ cx hn name po as va ko kd kw ds body decos lineno st es st' h

def PStmt.orders : List PStmt → List Nat
  | [] => []
  | p :: ps => p.order ++ PStmt.orders ps

theorem goModule_order (ρ : Expr → Bool) (cx : Ctx) (hn : cx.nsp.kind = .module) :
    ∀ (ps : List PStmt), (∀ p ∈ ps, p.ok) → ∀ (st : St) (es : List Expr) (st' : St),
      lowerFull.goModule cx (ps.map PStmt.toStmt) st = .ok (es, st') → trL ρ es = PStmt.orders ps
  | [], _, st, es, st', h => by simp only [List.map, lowerFull.goModule] at h; cases h; simp [trL, PStmt.orders]
  | p :: ps, hok, st, es, st', h => by
      simp only [List.map, lowerFull.goModule] at h
      obtain ⟨⟨a, st1⟩, ha, h⟩ := bind_ok h
      obtain ⟨⟨b, st2⟩, hb, h⟩ := bind_ok h
      cases pure_ok h
      rw [trL_append, pstmt_order ρ cx hn p (hok p (by simp)) st a st1 ha,
        goModule_order ρ cx hn ps (fun q hq => hok q (by simp [hq])) st1 b st2 hb]
      rfl

/-- **Whole programs.**  For a module made of such statements, the one expression the conversion
    returns evaluates every probe of the program exactly once, in Python's order - under either
    wrapper, either if-style, for every oracle. -/
theorem program_order (ρ : Expr → Bool) (cfg : Cfg) (root : SymScope) (ps : List PStmt) (hok : ∀ p ∈ ps, p.ok)
    (e : Expr) (h : lowerFull cfg root (ps.map PStmt.toStmt) = .ok e) : tr ρ e = PStmt.orders ps := by
  unfold lowerFull at h
  obtain ⟨⟨g, sup⟩, hg, h⟩ := bind_ok h
  simp only [] at h
  obtain ⟨⟨b, st⟩, hb, h⟩ := bind_ok h
  cases pure_ok h
  have hk : g.kind = .module := by
    unfold generateNsp at hg
    obtain ⟨⟨kids, a, b', sup''⟩, _, hg⟩ := bind_ok hg
    cases pure_ok hg
    rfl
  have hbo := goModule_order ρ { cfg := cfg, nsp := g, loops := [], fnUsed := false } hk ps hok _ b st hb
  rw [tr_wrapExprs]
  have himp : ∀ m : String, tr ρ (Expr.namedExpr m (.call (.name "__import__") [Expr.str m] [])) = [] := by
    intro m
    simp [tr, tr_name_call ρ "__import__" _ (by decide), trL, tr_str]
  have hiw : tr ρ iterWrapperBody = [] := by
    simp [iterWrapperBody, iterWrapperName, tr, trL, trK, trD, trO, trOL, tr_name_call ρ "type" _ (by decide),
      tr_name_call ρ "setattr" _ (by decide), tr_name_call ρ "iter" _ (by decide), tr_name_call ρ "next" _ (by decide),
      Arguments.simple, Expr.str, Expr.neg1, Expr.none_, Expr.false_]
  split <;> split <;> split <;> simp [trL, himp, hiw, hbo]

end OlVerif
