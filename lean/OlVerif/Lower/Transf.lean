/-
  M-LOWER, part 2: the expression transformer (oneliner/expr_transform.py): a copy of the tree
  in which names are spelled through the namespace, walrus targets are stored through it,
  comprehension targets and lambda parameters shadow, and yield / await are refused.
-/
import OlVerif.Lower.Nsp

namespace OlVerif

/-- `get_comp_target_names` -/
def compTargetNames : Expr → Except Err (List String)
  | .name id => .ok [id]
  | .tuple es => go es
  | .list es => go es
  | _ => .error (.runtimeError "Unknown comprehension target")
where
  go : List Expr → Except Err (List String)
    | [] => .ok []
    | e :: es => do
        let a ← compTargetNames e
        let b ← go es
        pure (a ++ b)

def compsTargetNames : List Comp → Except Err (List String)
  | [] => .ok []
  | .mk t _ _ _ :: gs => do
      let a ← compTargetNames t
      let b ← compsTargetNames gs
      pure (a ++ b)

def Arguments.paramNames : Arguments → List String
  | .mk posonly args vararg kwonly _ kwarg _ =>
    posonly ++ args ++ kwonly ++ vararg.toList ++ kwarg.toList

/-- marks "inside a lambda / comprehension" on the list of bound names (`comp_stack` is not empty): not an identifier -/
def compMark : String := ""

/-- marks "inside a lambda" (a `PendingLambda` is on `comp_stack`): not an identifier either -/
def lamMark : String := " "

mutual
  /-- the names an assignment expression binds in the scope of a lambda body (PEP 572): those of a nested lambda's
      body are that lambda's own, its defaults are evaluated here; comprehensions bind in the containing scope -/
  def walrusNames : Expr → List String
    | .name _ | .const _ => []
    | .namedExpr t v => t :: walrusNames v
    | .yield_ v => walrusNamesO v
    | .yieldFrom v => walrusNames v
    | .await v => walrusNames v
    | .lambda (.mk _ _ _ _ kd _ ds) _ => walrusNamesL ds ++ walrusNamesOL kd
    | .listComp e gs => walrusNames e ++ walrusNamesC gs
    | .setComp e gs => walrusNames e ++ walrusNamesC gs
    | .generatorExp e gs => walrusNames e ++ walrusNamesC gs
    | .dictComp k v gs => walrusNames k ++ walrusNames v ++ walrusNamesC gs
    | .joinedStr vs => walrusNamesL vs
    | .formattedValue v _ s => walrusNames v ++ walrusNamesO s
    | .list es => walrusNamesL es
    | .tuple es => walrusNamesL es
    | .set es => walrusNamesL es
    | .dict items => walrusNamesD items
    | .starred v => walrusNames v
    | .attribute v _ => walrusNames v
    | .subscript v s => walrusNames v ++ walrusNames s
    | .slice a b c => walrusNamesO a ++ walrusNamesO b ++ walrusNamesO c
    | .call f as ks => walrusNames f ++ walrusNamesL as ++ walrusNamesK ks
    | .binOp a _ b => walrusNames a ++ walrusNames b
    | .boolOp _ vs => walrusNamesL vs
    | .unaryOp _ v => walrusNames v
    | .compare l _ cs => walrusNames l ++ walrusNamesL cs
    | .ifExp t b e => walrusNames t ++ walrusNames b ++ walrusNames e
  def walrusNamesL : List Expr → List String
    | [] => []
    | e :: es => walrusNames e ++ walrusNamesL es
  def walrusNamesO : Option Expr → List String
    | none => []
    | some e => walrusNames e
  def walrusNamesOL : List (Option Expr) → List String
    | [] => []
    | none :: es => walrusNamesOL es
    | some e :: es => walrusNames e ++ walrusNamesOL es
  def walrusNamesD : List DictItem → List String
    | [] => []
    | .mk k v :: its => walrusNamesO k ++ walrusNames v ++ walrusNamesD its
  def walrusNamesK : List Keyword → List String
    | [] => []
    | .mk _ v :: ks => walrusNames v ++ walrusNamesK ks
  def walrusNamesC : List Comp → List String
    | [] => []
    | .mk t i ifs _ :: gs => walrusNames t ++ walrusNames i ++ walrusNamesL ifs ++ walrusNamesC gs
end

def refuse (k : String) : Err := .runtimeError s!"Unable to convert node '{k}'"

mutual
  /-- `expr_transf(nsp, e)` with `bound` the names on `nsp.comp_stack` -/
  def transf (n : Nsp) (bound : List String) : Expr → Except Err Expr
    | .name id => n.getLoad bound id
    | .const c => .ok (.const c)
    | .namedExpr t v => do
        let v' ← transf n bound v
        -- inside a lambda the target is a local variable of that lambda
        if bound.contains lamMark then pure (.namedExpr t v') else do
        let r ← n.getAssign t v'
        match r with
        | .namedExpr .. => pure r
        | _ => do
            let l ← n.getLoad bound t
            pure (.subscript (.list [r, l]) Expr.neg1)
    | .yield_ _ => .error (refuse "Yield")
    | .yieldFrom _ => .error (refuse "YieldFrom")
    | .await _ => .error (refuse "Await")
    | .lambda (.mk po as va ko kd kw ds) body => do
        let ds' ← transfList n bound ds
        let kd' ← transfOptList n bound kd
        let body' ← transf n (lamMark :: (Arguments.paramNames (.mk po as va ko kd kw ds) ++ walrusNames body ++ bound)) body
        pure (.lambda (.mk po as va ko kd' kw ds') body')
    | .listComp elt gens => do
        let names ← compsTargetNames gens
        let elt' ← transf n (compMark :: (names ++ bound)) elt
        let gens' ← transfComps n bound (compMark :: (names ++ bound)) gens
        pure (.listComp elt' gens')
    | .setComp elt gens => do
        let names ← compsTargetNames gens
        let elt' ← transf n (compMark :: (names ++ bound)) elt
        let gens' ← transfComps n bound (compMark :: (names ++ bound)) gens
        pure (.setComp elt' gens')
    | .generatorExp elt gens => do
        let names ← compsTargetNames gens
        let elt' ← transf n (compMark :: (names ++ bound)) elt
        let gens' ← transfComps n bound (compMark :: (names ++ bound)) gens
        pure (.generatorExp elt' gens')
    | .dictComp k v gens => do
        let names ← compsTargetNames gens
        let k' ← transf n (compMark :: (names ++ bound)) k
        let v' ← transf n (compMark :: (names ++ bound)) v
        let gens' ← transfComps n bound (compMark :: (names ++ bound)) gens
        pure (.dictComp k' v' gens')
    | .joinedStr vs => do pure (.joinedStr (← transfList n bound vs))
    | .formattedValue v c s => do pure (.formattedValue (← transf n bound v) c (← transfOpt n bound s))
    | .list es => do pure (.list (← transfList n bound es))
    | .tuple es => do pure (.tuple (← transfList n bound es))
    | .set es => do pure (.set (← transfList n bound es))
    | .dict items => do pure (.dict (← transfItems n bound items))
    | .starred v => do pure (.starred (← transf n bound v))
    | .attribute v a => do pure (.attribute (← transf n bound v) a)
    | .subscript v s => do pure (.subscript (← transf n bound v) (← transf n bound s))
    | .slice a b c => do pure (.slice (← transfOpt n bound a) (← transfOpt n bound b) (← transfOpt n bound c))
    | .call f as ks => do pure (.call (← transf n bound f) (← transfList n bound as) (← transfKeywords n bound ks))
    | .binOp a op b => do pure (.binOp (← transf n bound a) op (← transf n bound b))
    | .boolOp op vs => do pure (.boolOp op (← transfList n bound vs))
    | .unaryOp op v => do pure (.unaryOp op (← transf n bound v))
    | .compare l ops cs => do pure (.compare (← transf n bound l) ops (← transfList n bound cs))
    | .ifExp t b e => do pure (.ifExp (← transf n bound t) (← transf n bound b) (← transf n bound e))

  def transfList (n : Nsp) (bound : List String) : List Expr → Except Err (List Expr)
    | [] => .ok []
    | e :: es => do
        let e' ← transf n bound e
        let es' ← transfList n bound es
        pure (e' :: es')

  def transfOpt (n : Nsp) (bound : List String) : Option Expr → Except Err (Option Expr)
    | none => .ok none
    | some e => do pure (some (← transf n bound e))

  def transfOptList (n : Nsp) (bound : List String) : List (Option Expr) → Except Err (List (Option Expr))
    | [] => .ok []
    | none :: es => do pure (none :: (← transfOptList n bound es))
    | some e :: es => do
        let e' ← transf n bound e
        let es' ← transfOptList n bound es
        pure (some e' :: es')

  def transfItems (n : Nsp) (bound : List String) : List DictItem → Except Err (List DictItem)
    | [] => .ok []
    | .mk none v :: its => do
        let v' ← transf n bound v
        pure (.mk none v' :: (← transfItems n bound its))
    | .mk (some k) v :: its => do
        let k' ← transf n bound k
        let v' ← transf n bound v
        pure (.mk (some k') v' :: (← transfItems n bound its))

  def transfKeywords (n : Nsp) (bound : List String) : List Keyword → Except Err (List Keyword)
    | [] => .ok []
    | .mk a v :: ks => do
        let v' ← transf n bound v
        pure (.mk a v' :: (← transfKeywords n bound ks))

  /-- the generators: the iterable of the first one is evaluated in the enclosing scope, so it is
      transformed with the names bound there (`first`); everything else with `bound` -/
  def transfComps (n : Nsp) (first bound : List String) : List Comp → Except Err (List Comp)
    | [] => .ok []
    | .mk t i ifs a :: gs => do
        let t' ← transfTarget n bound t
        let i' ← transf n first i
        let ifs' ← transfList n bound ifs
        pure (.mk t' i' ifs' a :: (← transfComps n bound bound gs))

  /-- a comprehension target: names in store position are kept -/
  def transfTarget (n : Nsp) (bound : List String) : Expr → Except Err Expr
    | .name id => .ok (.name id)
    | .tuple es => do pure (.tuple (← transfTargets n bound es))
    | .list es => do pure (.list (← transfTargets n bound es))
    | .starred v => do pure (.starred (← transfTarget n bound v))
    | .attribute v a => do pure (.attribute (← transf n bound v) a)
    | .subscript v s => do pure (.subscript (← transf n bound v) (← transf n bound s))
    | e => .ok e

  def transfTargets (n : Nsp) (bound : List String) : List Expr → Except Err (List Expr)
    | [] => .ok []
    | e :: es => do
        let e' ← transfTarget n bound e
        pure (e' :: (← transfTargets n bound es))
end

end OlVerif
