/-
  Nesting height of expression trees: the quantity on which the *recursive* consumers of the
  output depend (stdlib `ast.unparse`, the compiler), and the laws the two wrappers obey.
-/
import OlVerif.Lower.Stmt

namespace OlVerif

mutual
  def height : Expr → Nat
    | .name _ | .const _ => 1
    | .joinedStr vs => 1 + heightL vs
    | .formattedValue v _ s => 1 + max (height v) (heightO s)
    | .list es | .tuple es | .set es => 1 + heightL es
    | .dict items => 1 + heightD items
    | .starred v => 1 + height v
    | .attribute v _ => 1 + height v
    | .subscript v s => 1 + max (height v) (height s)
    | .slice a b c => 1 + max (heightO a) (max (heightO b) (heightO c))
    | .call f as ks => 1 + max (height f) (max (heightL as) (heightK ks))
    | .binOp a _ b => 1 + max (height a) (height b)
    | .boolOp _ vs => 1 + heightL vs
    | .unaryOp _ v => 1 + height v
    | .compare l _ cs => 1 + max (height l) (heightL cs)
    | .ifExp t b e => 1 + max (height t) (max (height b) (height e))
    | .lambda (.mk _ _ _ _ kd _ ds) b => 1 + max (height b) (max (heightL ds) (heightOL kd))
    | .namedExpr _ v => 1 + height v
    | .listComp e gs | .setComp e gs | .generatorExp e gs => 1 + max (height e) (heightC gs)
    | .dictComp k v gs => 1 + max (height k) (max (height v) (heightC gs))
    | .yield_ v => 1 + heightO v
    | .yieldFrom v => 1 + height v
    | .await v => 1 + height v
  def heightL : List Expr → Nat
    | [] => 0
    | e :: es => max (height e) (heightL es)
  def heightO : Option Expr → Nat
    | none => 0
    | some e => height e
  def heightOL : List (Option Expr) → Nat
    | [] => 0
    | none :: es => heightOL es
    | some e :: es => max (height e) (heightOL es)
  def heightD : List DictItem → Nat
    | [] => 0
    | .mk k v :: its => max (max (heightO k) (height v)) (heightD its)
  def heightK : List Keyword → Nat
    | [] => 0
    | .mk _ v :: ks => max (height v) (heightK ks)
  def heightC : List Comp → Nat
    | [] => 0
    | .mk t i ifs _ :: gs => max (max (height t) (max (height i) (heightL ifs))) (heightC gs)
end

theorem height_foldl_call (es : List Expr) (acc : Expr) :
    height (es.foldl (fun acc x => .call acc [x] []) acc) ≥ height acc + es.length := by
  induction es generalizing acc with
  | nil => simp
  | cons e es ih =>
    simp only [List.foldl, List.length_cons]
    have h1 := ih (.call acc [e] [])
    have h2 : height (.call acc [e] []) ≥ height acc + 1 := by
      simp only [height, heightL, heightK]; omega
    omega


theorem heightL_append : ∀ (a b : List Expr), heightL (a ++ b) = max (heightL a) (heightL b)
  | [], b => by simp [heightL]
  | e :: a, b => by simp only [List.cons_append, heightL, heightL_append a b]; omega

/-- the guards a block opens: one per statement that may interrupt and is followed by more statements -/
def guardCount (fk : FlowKind) : List Stmt → Nat
  | [] => 0
  | s :: ss => if s.isDirect || ss.isEmpty then 0 else (if mayInt fk s then 1 else 0) + guardCount fk ss

end OlVerif
