/-
  Rejection at any depth: if a construct the converter does not support (yield / yield from /
  await in an expression; a statement of an unsupported kind; break / continue outside a loop;
  return outside a function; a second starred name in one target pattern; an unknown assignment
  target) occurs in any position the lowering visits, `lowerFull` returns an error - whatever the
  nesting depth, the surrounding statements, the configuration and the symbol tables.

  `IsErr x` = "x is an error"; the proofs walk the monadic definitions bind by bind: either an
  earlier step already failed, or the step that holds the construct fails (induction).
-/
import OlVerif.Lower.Stmt

set_option linter.unusedVariables false
set_option linter.unusedSimpArgs false

namespace OlVerif

def IsErr {α : Type} (x : Except Err α) : Prop := ∃ e, x = .error e

theorem isErr_error {α : Type} (e : Err) : IsErr (.error e : Except Err α) := ⟨e, rfl⟩
theorem isErr_throw {α : Type} (e : Err) : IsErr (throw e : Except Err α) := ⟨e, rfl⟩

theorem isErr_bind_l {α β : Type} {x : Except Err α} {f : α → Except Err β} (h : IsErr x) : IsErr (x >>= f) := by
  obtain ⟨e, rfl⟩ := h; exact ⟨e, rfl⟩

theorem isErr_bind_r {α β : Type} {x : Except Err α} {f : α → Except Err β} (h : ∀ a, IsErr (f a)) :
    IsErr (x >>= f) := by
  cases x with
  | error e => exact ⟨e, rfl⟩
  | ok a => exact h a

theorem isErr_bind_ok {α β : Type} {x : Except Err α} {f : α → Except Err β} (h : ∀ a, x = .ok a → IsErr (f a)) :
    IsErr (x >>= f) := by
  cases x with
  | error e => exact ⟨e, rfl⟩
  | ok a => exact h a rfl

theorem not_isErr_ok {α : Type} (a : α) : ¬ IsErr (.ok a : Except Err α) := by
  intro ⟨e, h⟩; cases h

theorem isErr_ite {α : Type} {c : Prop} [Decidable c] {a b : Except Err α} (ha : IsErr a) (hb : IsErr b) :
    IsErr (if c then a else b) := by split <;> assumption

/-- walk a chain of binds: the failing step is in the context, or this step is skipped -/
syntax "errs" : tactic
macro_rules
  | `(tactic| errs) => `(tactic| repeat (first
      | with_reducible exact isErr_bind_l (by assumption)
      | with_reducible assumption
      | with_reducible exact isErr_error _
      | with_reducible exact isErr_throw _
      | (refine isErr_bind_r (fun x => ?_); try (induction x using Prod.rec); try simp only [])))

/-- the same with a universally quantified fact about the failing step -/
syntax "errsw " term : tactic
macro_rules
  | `(tactic| errsw $t) => `(tactic| repeat (first
      | exact isErr_bind_l ($t)
      | exact isErr_bind_l ($t _)
      | exact isErr_bind_l ($t _ _)
      | exact isErr_bind_l ($t _ _ _)
      | exact ($t)
      | exact ($t _)
      | exact ($t _ _)
      | with_reducible exact isErr_error _
      | (refine isErr_bind_r (fun x => ?_); try (induction x using Prod.rec); try simp only [])))

/-! ### expressions: yield / yield from / await anywhere the transformer walks -/

mutual
  def hasUnsup : Expr → Bool
    | .yield_ _ | .yieldFrom _ | .await _ => true
    | .name _ | .const _ => false
    | .namedExpr _ v => hasUnsup v
    | .lambda (.mk _ _ _ _ kd _ ds) body => hasUnsupL ds || hasUnsupOL kd || hasUnsup body
    | .listComp elt gens => hasUnsup elt || hasUnsupG gens
    | .setComp elt gens => hasUnsup elt || hasUnsupG gens
    | .generatorExp elt gens => hasUnsup elt || hasUnsupG gens
    | .dictComp k v gens => hasUnsup k || hasUnsup v || hasUnsupG gens
    | .joinedStr vs => hasUnsupL vs
    | .formattedValue v _ s => hasUnsup v || hasUnsupO s
    | .list es => hasUnsupL es
    | .tuple es => hasUnsupL es
    | .set es => hasUnsupL es
    | .dict items => hasUnsupD items
    | .starred v => hasUnsup v
    | .attribute v _ => hasUnsup v
    | .subscript v s => hasUnsup v || hasUnsup s
    | .slice a b c => hasUnsupO a || hasUnsupO b || hasUnsupO c
    | .call f as ks => hasUnsup f || hasUnsupL as || hasUnsupK ks
    | .binOp a _ b => hasUnsup a || hasUnsup b
    | .boolOp _ vs => hasUnsupL vs
    | .unaryOp _ v => hasUnsup v
    | .compare l _ cs => hasUnsup l || hasUnsupL cs
    | .ifExp t b e => hasUnsup t || hasUnsup b || hasUnsup e
  def hasUnsupL : List Expr → Bool
    | [] => false
    | e :: es => hasUnsup e || hasUnsupL es
  def hasUnsupO : Option Expr → Bool
    | none => false
    | some e => hasUnsup e
  def hasUnsupOL : List (Option Expr) → Bool
    | [] => false
    | none :: es => hasUnsupOL es
    | some e :: es => hasUnsup e || hasUnsupOL es
  def hasUnsupD : List DictItem → Bool
    | [] => false
    | .mk none v :: its => hasUnsup v || hasUnsupD its
    | .mk (some k) v :: its => hasUnsup k || hasUnsup v || hasUnsupD its
  def hasUnsupK : List Keyword → Bool
    | [] => false
    | .mk _ v :: ks => hasUnsup v || hasUnsupK ks
  def hasUnsupG : List Comp → Bool
    | [] => false
    | .mk t i ifs _ :: gs => hasUnsupT t || hasUnsup i || hasUnsupL ifs || hasUnsupG gs
  /-- a comprehension target -/
  def hasUnsupT : Expr → Bool
    | .tuple es => hasUnsupTs es
    | .list es => hasUnsupTs es
    | .starred v => hasUnsupT v
    | .attribute v _ => hasUnsup v
    | .subscript v s => hasUnsup v || hasUnsup s
    | _ => false
  def hasUnsupTs : List Expr → Bool
    | [] => false
    | e :: es => hasUnsupT e || hasUnsupTs es
end

mutual
  theorem transf_err (n : Nsp) : ∀ (bound : List String) (e : Expr), hasUnsup e = true → IsErr (transf n bound e)
    | bound, .yield_ _, _ => by simp only [transf]; errs
    | bound, .yieldFrom _, _ => by simp only [transf]; errs
    | bound, .await _, _ => by simp only [transf]; errs
    | bound, .name _, h => by simp [hasUnsup] at h
    | bound, .const _, h => by simp [hasUnsup] at h
    | bound, .namedExpr t v, h => by
        simp only [hasUnsup] at h
        have := transf_err n bound v h
        simp only [transf]; errs
    | bound, .lambda (.mk po as va ko kd kw ds) body, h => by
        simp only [hasUnsup, Bool.or_eq_true] at h
        simp only [transf]
        rcases h with (h | h) | h
        · have := transfList_err n bound ds h; errs
        · have := transfOptList_err n bound kd h; errs
        · have := transf_err n (lamMark :: (Arguments.paramNames (.mk po as va ko kd kw ds) ++ walrusNames body ++ bound)) body h; errs
    | bound, .listComp elt gens, h => by
        simp only [hasUnsup, Bool.or_eq_true] at h
        simp only [transf]
        refine isErr_bind_r (fun names => ?_)
        rcases h with h | h
        · have := transf_err n (compMark :: (names ++ bound)) elt h; errs
        · have := transfComps_err n bound (compMark :: (names ++ bound)) gens h; errs
    | bound, .setComp elt gens, h => by
        simp only [hasUnsup, Bool.or_eq_true] at h
        simp only [transf]
        refine isErr_bind_r (fun names => ?_)
        rcases h with h | h
        · have := transf_err n (compMark :: (names ++ bound)) elt h; errs
        · have := transfComps_err n bound (compMark :: (names ++ bound)) gens h; errs
    | bound, .generatorExp elt gens, h => by
        simp only [hasUnsup, Bool.or_eq_true] at h
        simp only [transf]
        refine isErr_bind_r (fun names => ?_)
        rcases h with h | h
        · have := transf_err n (compMark :: (names ++ bound)) elt h; errs
        · have := transfComps_err n bound (compMark :: (names ++ bound)) gens h; errs
    | bound, .dictComp k v gens, h => by
        simp only [hasUnsup, Bool.or_eq_true] at h
        simp only [transf]
        refine isErr_bind_r (fun names => ?_)
        rcases h with (h | h) | h
        · have := transf_err n (compMark :: (names ++ bound)) k h; errs
        · have := transf_err n (compMark :: (names ++ bound)) v h; errs
        · have := transfComps_err n bound (compMark :: (names ++ bound)) gens h; errs
    | bound, .joinedStr vs, h => by
        simp only [hasUnsup] at h
        have := transfList_err n bound vs h
        simp only [transf]; errs
    | bound, .formattedValue v c s, h => by
        simp only [hasUnsup, Bool.or_eq_true] at h
        simp only [transf]
        rcases h with h | h
        · have := transf_err n bound v h; errs
        · have := transfOpt_err n bound s h; errs
    | bound, .list es, h => by
        simp only [hasUnsup] at h
        have := transfList_err n bound es h
        simp only [transf]; errs
    | bound, .tuple es, h => by
        simp only [hasUnsup] at h
        have := transfList_err n bound es h
        simp only [transf]; errs
    | bound, .set es, h => by
        simp only [hasUnsup] at h
        have := transfList_err n bound es h
        simp only [transf]; errs
    | bound, .dict items, h => by
        simp only [hasUnsup] at h
        have := transfItems_err n bound items h
        simp only [transf]; errs
    | bound, .starred v, h => by
        simp only [hasUnsup] at h
        have := transf_err n bound v h
        simp only [transf]; errs
    | bound, .attribute v a, h => by
        simp only [hasUnsup] at h
        have := transf_err n bound v h
        simp only [transf]; errs
    | bound, .subscript v s, h => by
        simp only [hasUnsup, Bool.or_eq_true] at h
        simp only [transf]
        rcases h with h | h
        · have := transf_err n bound v h; errs
        · have := transf_err n bound s h; errs
    | bound, .slice a b c, h => by
        simp only [hasUnsup, Bool.or_eq_true] at h
        simp only [transf]
        rcases h with (h | h) | h
        · have := transfOpt_err n bound a h; errs
        · have := transfOpt_err n bound b h; errs
        · have := transfOpt_err n bound c h; errs
    | bound, .call f as ks, h => by
        simp only [hasUnsup, Bool.or_eq_true] at h
        simp only [transf]
        rcases h with (h | h) | h
        · have := transf_err n bound f h; errs
        · have := transfList_err n bound as h; errs
        · have := transfKeywords_err n bound ks h; errs
    | bound, .binOp a op b, h => by
        simp only [hasUnsup, Bool.or_eq_true] at h
        simp only [transf]
        rcases h with h | h
        · have := transf_err n bound a h; errs
        · have := transf_err n bound b h; errs
    | bound, .boolOp op vs, h => by
        simp only [hasUnsup] at h
        have := transfList_err n bound vs h
        simp only [transf]; errs
    | bound, .unaryOp op v, h => by
        simp only [hasUnsup] at h
        have := transf_err n bound v h
        simp only [transf]; errs
    | bound, .compare l ops cs, h => by
        simp only [hasUnsup, Bool.or_eq_true] at h
        simp only [transf]
        rcases h with h | h
        · have := transf_err n bound l h; errs
        · have := transfList_err n bound cs h; errs
    | bound, .ifExp t b e, h => by
        simp only [hasUnsup, Bool.or_eq_true] at h
        simp only [transf]
        rcases h with (h | h) | h
        · have := transf_err n bound t h; errs
        · have := transf_err n bound b h; errs
        · have := transf_err n bound e h; errs

  theorem transfList_err (n : Nsp) : ∀ (bound : List String) (es : List Expr), hasUnsupL es = true → IsErr (transfList n bound es)
    | bound, [], h => by simp [hasUnsupL] at h
    | bound, e :: es, h => by
        simp only [hasUnsupL, Bool.or_eq_true] at h
        simp only [transfList]
        rcases h with h | h
        · have := transf_err n bound e h; errs
        · have := transfList_err n bound es h; errs

  theorem transfOpt_err (n : Nsp) : ∀ (bound : List String) (o : Option Expr), hasUnsupO o = true → IsErr (transfOpt n bound o)
    | bound, none, h => by simp [hasUnsupO] at h
    | bound, some e, h => by
        simp only [hasUnsupO] at h
        have := transf_err n bound e h
        simp only [transfOpt]; errs

  theorem transfOptList_err (n : Nsp) : ∀ (bound : List String) (es : List (Option Expr)),
      hasUnsupOL es = true → IsErr (transfOptList n bound es)
    | bound, [], h => by simp [hasUnsupOL] at h
    | bound, none :: es, h => by
        simp only [hasUnsupOL] at h
        have := transfOptList_err n bound es h
        simp only [transfOptList]; errs
    | bound, some e :: es, h => by
        simp only [hasUnsupOL, Bool.or_eq_true] at h
        simp only [transfOptList]
        rcases h with h | h
        · have := transf_err n bound e h; errs
        · have := transfOptList_err n bound es h; errs

  theorem transfItems_err (n : Nsp) : ∀ (bound : List String) (its : List DictItem),
      hasUnsupD its = true → IsErr (transfItems n bound its)
    | bound, [], h => by simp [hasUnsupD] at h
    | bound, .mk none v :: its, h => by
        simp only [hasUnsupD, Bool.or_eq_true] at h
        simp only [transfItems]
        rcases h with h | h
        · have := transf_err n bound v h; errs
        · have := transfItems_err n bound its h; errs
    | bound, .mk (some k) v :: its, h => by
        simp only [hasUnsupD, Bool.or_eq_true] at h
        simp only [transfItems]
        rcases h with (h | h) | h
        · have := transf_err n bound k h; errs
        · have := transf_err n bound v h; errs
        · have := transfItems_err n bound its h; errs

  theorem transfKeywords_err (n : Nsp) : ∀ (bound : List String) (ks : List Keyword),
      hasUnsupK ks = true → IsErr (transfKeywords n bound ks)
    | bound, [], h => by simp [hasUnsupK] at h
    | bound, .mk a v :: ks, h => by
        simp only [hasUnsupK, Bool.or_eq_true] at h
        simp only [transfKeywords]
        rcases h with h | h
        · have := transf_err n bound v h; errs
        · have := transfKeywords_err n bound ks h; errs

  theorem transfComps_err (n : Nsp) : ∀ (first bound : List String) (gs : List Comp),
      hasUnsupG gs = true → IsErr (transfComps n first bound gs)
    | first, bound, [], h => by simp [hasUnsupG] at h
    | first, bound, .mk t i ifs a :: gs, h => by
        simp only [hasUnsupG, Bool.or_eq_true] at h
        simp only [transfComps]
        rcases h with ((h | h) | h) | h
        · have := transfTarget_err n bound t h; errs
        · have := transf_err n first i h; errs
        · have := transfList_err n bound ifs h; errs
        · have := transfComps_err n bound bound gs h; errs

  theorem transfTarget_err (n : Nsp) : ∀ (bound : List String) (e : Expr), hasUnsupT e = true → IsErr (transfTarget n bound e)
    | bound, .tuple es, h => by
        simp only [hasUnsupT] at h
        have := transfTargets_err n bound es h
        simp only [transfTarget]; errs
    | bound, .list es, h => by
        simp only [hasUnsupT] at h
        have := transfTargets_err n bound es h
        simp only [transfTarget]; errs
    | bound, .starred v, h => by
        simp only [hasUnsupT] at h
        have := transfTarget_err n bound v h
        simp only [transfTarget]; errs
    | bound, .attribute v a, h => by
        simp only [hasUnsupT] at h
        have := transf_err n bound v h
        simp only [transfTarget]; errs
    | bound, .subscript v s, h => by
        simp only [hasUnsupT, Bool.or_eq_true] at h
        simp only [transfTarget]
        rcases h with h | h
        · have := transf_err n bound v h; errs
        · have := transf_err n bound s h; errs
    | bound, .name _, h => by simp [hasUnsupT] at h
    | bound, .const _, h => by simp [hasUnsupT] at h
    | bound, .joinedStr _, h => by simp [hasUnsupT] at h
    | bound, .formattedValue .., h => by simp [hasUnsupT] at h
    | bound, .set _, h => by simp [hasUnsupT] at h
    | bound, .dict _, h => by simp [hasUnsupT] at h
    | bound, .slice .., h => by simp [hasUnsupT] at h
    | bound, .call .., h => by simp [hasUnsupT] at h
    | bound, .binOp .., h => by simp [hasUnsupT] at h
    | bound, .boolOp .., h => by simp [hasUnsupT] at h
    | bound, .unaryOp .., h => by simp [hasUnsupT] at h
    | bound, .compare .., h => by simp [hasUnsupT] at h
    | bound, .ifExp .., h => by simp [hasUnsupT] at h
    | bound, .lambda .., h => by simp [hasUnsupT] at h
    | bound, .namedExpr .., h => by simp [hasUnsupT] at h
    | bound, .listComp .., h => by simp [hasUnsupT] at h
    | bound, .setComp .., h => by simp [hasUnsupT] at h
    | bound, .dictComp .., h => by simp [hasUnsupT] at h
    | bound, .generatorExp .., h => by simp [hasUnsupT] at h
    | bound, .yield_ _, h => by simp [hasUnsupT] at h
    | bound, .yieldFrom _, h => by simp [hasUnsupT] at h
    | bound, .await _, h => by simp [hasUnsupT] at h

  theorem transfTargets_err (n : Nsp) : ∀ (bound : List String) (es : List Expr),
      hasUnsupTs es = true → IsErr (transfTargets n bound es)
    | bound, [], h => by simp [hasUnsupTs] at h
    | bound, e :: es, h => by
        simp only [hasUnsupTs, Bool.or_eq_true] at h
        simp only [transfTargets]
        rcases h with h | h
        · have := transfTarget_err n bound e h; errs
        · have := transfTargets_err n bound es h; errs
end


/-! ### assignment targets -/

mutual
  /-- `assign_auto` refuses this target: a second star in one pattern, a star outside a pattern, a
      target of an unknown kind, or yield / await inside an attribute / subscript target -/
  def badTarget (inPattern : Bool) : Expr → Bool
    | .name _ => false
    | .attribute v _ => hasUnsup v
    | .subscript v s => hasUnsup v || hasUnsup s
    | .tuple es => badElts false es
    | .list es => badElts false es
    | .starred sub => if inPattern then badTarget false sub else true
    | _ => true
  def badElts (haveStarred : Bool) : List Expr → Bool
    | [] => false
    | e :: es => (e.isStarred && haveStarred) || badTarget true e || badElts (haveStarred || e.isStarred) es
end

mutual
  theorem assignAuto_err (n : Nsp) : ∀ (inP : Bool) (t v : Expr) (st : St),
      badTarget inP t = true → IsErr (assignAuto n inP t v st)
    | inP, .name _, v, st, h => by simp [badTarget] at h
    | inP, .attribute a _, v, st, h => by
        simp only [badTarget] at h
        have := transf_err n [] a h
        simp only [assignAuto]; errs
    | inP, .subscript a b, v, st, h => by
        simp only [badTarget, Bool.or_eq_true] at h
        simp only [assignAuto]
        rcases h with h | h
        · have := transf_err n [] a h; errs
        · have := transf_err n [] b h; errs
    | inP, .tuple es, v, st, h => by
        simp only [badTarget] at h
        simp only [assignAuto]
        have := assignElts_err n (st.fresh "assign").1 es.length 0 false es (st.fresh "assign").2 h
        errs
    | inP, .list es, v, st, h => by
        simp only [badTarget] at h
        simp only [assignAuto]
        have := assignElts_err n (st.fresh "assign").1 es.length 0 false es (st.fresh "assign").2 h
        errs
    | inP, .starred sub, v, st, h => by
        simp only [badTarget] at h
        simp only [assignAuto]
        split
        · rename_i hp
          simp only [hp, if_true] at h
          exact assignAuto_err n false sub v st h
        · errs
    | inP, .const _, v, st, h => by simp only [assignAuto]; errs
    | inP, .joinedStr _, v, st, h => by simp only [assignAuto]; errs
    | inP, .formattedValue .., v, st, h => by simp only [assignAuto]; errs
    | inP, .set _, v, st, h => by simp only [assignAuto]; errs
    | inP, .dict _, v, st, h => by simp only [assignAuto]; errs
    | inP, .slice .., v, st, h => by simp only [assignAuto]; errs
    | inP, .call .., v, st, h => by simp only [assignAuto]; errs
    | inP, .binOp .., v, st, h => by simp only [assignAuto]; errs
    | inP, .boolOp .., v, st, h => by simp only [assignAuto]; errs
    | inP, .unaryOp .., v, st, h => by simp only [assignAuto]; errs
    | inP, .compare .., v, st, h => by simp only [assignAuto]; errs
    | inP, .ifExp .., v, st, h => by simp only [assignAuto]; errs
    | inP, .lambda .., v, st, h => by simp only [assignAuto]; errs
    | inP, .namedExpr .., v, st, h => by simp only [assignAuto]; errs
    | inP, .listComp .., v, st, h => by simp only [assignAuto]; errs
    | inP, .setComp .., v, st, h => by simp only [assignAuto]; errs
    | inP, .dictComp .., v, st, h => by simp only [assignAuto]; errs
    | inP, .generatorExp .., v, st, h => by simp only [assignAuto]; errs
    | inP, .yield_ _, v, st, h => by simp only [assignAuto]; errs
    | inP, .yieldFrom _, v, st, h => by simp only [assignAuto]; errs
    | inP, .await _, v, st, h => by simp only [assignAuto]; errs

  theorem assignElts_err (n : Nsp) : ∀ (tmp : String) (len index : Nat) (hs : Bool) (es : List Expr) (st : St),
      badElts hs es = true → IsErr (assignElts n tmp len index hs es st)
    | tmp, len, index, hs, [], st, h => by simp [badElts] at h
    | tmp, len, index, hs, e :: es, st, h => by
        simp only [badElts, Bool.or_eq_true] at h
        simp only [assignElts]
        split
        · errs
        · rcases h with (h | h) | h
          · rename_i hn; exact absurd h hn
          · refine isErr_bind_l ?_
            exact assignAuto_err n true e _ st h
          · refine isErr_bind_r (fun x => ?_)
            obtain ⟨a, st'⟩ := x
            simp only []
            have := assignElts_err n tmp len (index + 1) (hs || e.isStarred) es st' h
            errs
end


def badTargets : List Expr → Bool
  | [] => false
  | t :: ts => badTarget false t || badTargets ts

theorem assignTargets_err (n : Nsp) (v : Expr) : ∀ (ts : List Expr) (st : St),
    badTargets ts = true → IsErr (assignTargets n v ts st)
  | [], st, h => by simp [badTargets] at h
  | t :: ts, st, h => by
      simp only [badTargets, Bool.or_eq_true] at h
      simp only [assignTargets]
      rcases h with h | h
      · have := assignAuto_err n false t v st h; errs
      · refine isErr_bind_r (fun x => ?_)
        obtain ⟨a, st'⟩ := x
        simp only []
        have := assignTargets_err n v ts st' h
        errs

/-! ### statements -/

def hasUnsupArgs : Arguments → Bool
  | .mk _ _ _ _ kd _ ds => hasUnsupL ds || hasUnsupOL kd

def badAugTarget : Expr → Bool
  | .name _ => false
  | .subscript a b => hasUnsup a || hasUnsup b
  | .attribute a _ => hasUnsup a
  | _ => true

def starImport : List Alias → Bool
  | [] => false
  | a :: as => a.name == "*" || starImport as

mutual
  /-- the statement holds, in a position the lowering visits, something the converter does not
      support; `inLoop` / `inFn`: is the statement inside a loop / directly inside a function of the
      current namespace -/
  def badS (inLoop inFn : Bool) : Stmt → Bool
    | .other .. => true
    | .expr v => hasUnsup v
    | .pass_ => false
    | .global_ _ => false
    | .nonlocal_ _ => false
    | .break_ => !inLoop
    | .continue_ => !inLoop
    | .return_ v => !inFn || hasUnsupO v
    | .if_ t b e => hasUnsup t || badL inLoop inFn b || badL inLoop inFn e
    | .while_ t b e => hasUnsup t || badL true inFn b || badL inLoop inFn e
    | .for_ tg it b e => badTarget false tg || hasUnsup it || badL true inFn b || badL inLoop inFn e
    | .assign ts v => hasUnsup v || badTargets ts
    | .annAssign tg _ v => match v with
        | none => false
        | some v => hasUnsup v || badTarget false tg
    | .augAssign tg _ v => hasUnsup v || badAugTarget tg
    | .import_ _ => false
    | .importFrom _ names _ => starImport names
    | .functionDef _ args body decos _ => hasUnsupArgs args || hasUnsupL decos || badL false true body
    | .classDef _ bases kws body decos _ =>
        hasUnsupL bases || hasUnsupK kws || hasUnsupL decos || badL false false body
  /-- a block, cut after its first direct break / continue / return as the converter cuts it -/
  def badL (inLoop inFn : Bool) : List Stmt → Bool
    | [] => false
    | s :: ss => badS inLoop inFn s || (!s.isDirect && badL inLoop inFn ss)
end

/-- the lowering context agrees with the syntactic position -/
def CtxRel (cx : Ctx) (inLoop inFn : Bool) : Prop :=
  (inLoop = false → cx.loops = []) ∧ (inFn = false → (cx.nsp.kind != .function) = true)

theorem findChild_kind {n : Nsp} {name : String} {lineno : Nat} {k : ScopeKind} {c : Nsp}
    (h : findChild n name lineno k = .ok c) : c.kind = k := by
  unfold findChild at h
  split at h
  · cases h
  · split at h
    · rename_i hk
      cases h
      simpa using hk
    · cases h

theorem applyDecorators_err (n : Nsp) : ∀ (ds : List Expr) (body : Expr), hasUnsupL ds = true →
    IsErr (applyDecorators n ds body)
  | [], body, h => by simp [hasUnsupL] at h
  | d :: ds, body, h => by
      simp only [hasUnsupL, Bool.or_eq_true] at h
      simp only [applyDecorators]
      rcases h with h | h
      · have := transf_err n [] d h; errs
      · have := applyDecorators_err n ds body h; errs

theorem classKeywords_err (n : Nsp) : ∀ (ks : List Keyword), hasUnsupK ks = true → IsErr (classKeywords n ks)
  | [], h => by simp [hasUnsupK] at h
  | .mk a v :: ks, h => by
      simp only [hasUnsupK, Bool.or_eq_true] at h
      simp only [classKeywords]
      rcases h with h | h
      · have := transf_err n [] v h; errs
      · have := classKeywords_err n ks h; errs

theorem lowerFunctionHead_err (n : Nsp) (a : Arguments) (h : hasUnsupArgs a = true) : IsErr (lowerFunctionHead n a) := by
  obtain ⟨po, as, va, ko, kd, kw, ds⟩ := a
  simp only [hasUnsupArgs, Bool.or_eq_true] at h
  simp only [lowerFunctionHead]
  rcases h with h | h
  · have := transfList_err n [] ds h; errs
  · have := transfOptList_err n [] kd h; errs

theorem lowerImportFromNames_err (n : Nsp) (tmp : String) : ∀ (as : List Alias), starImport as = true →
    IsErr (lowerImportFromNames n tmp as)
  | [], h => by simp [starImport] at h
  | a :: as, h => by
      simp only [starImport, Bool.or_eq_true] at h
      simp only [lowerImportFromNames]
      split
      · errs
      · rename_i hn
        rcases h with h | h
        · exact absurd h hn
        · have := lowerImportFromNames_err n tmp as h; errs

theorem lowerAugAssign_err (n : Nsp) (tg : Expr) (op : BinOpK) (v : Expr) (st : St)
    (h : hasUnsup v = true ∨ badAugTarget tg = true) : IsErr (lowerAugAssign n tg op v st) := by
  unfold lowerAugAssign
  simp only []
  rcases h with h | h
  · have := transf_err n [] v h; errs
  · refine isErr_bind_r (fun v' => ?_)
    cases tg <;> simp only [badAugTarget, Bool.or_eq_true] at h <;> try (simp only []; errs; done)
    · cases h
    · have := transf_err n [] _ h; errs
    · rcases h with h | h
      · have := transf_err n [] _ h; errs
      · have := transf_err n [] _ h; errs


mutual
  theorem lowerStmt_err : ∀ (s : Stmt) (cx : Ctx) (st : St) (il ifn : Bool), CtxRel cx il ifn →
      badS il ifn s = true → IsErr (lowerStmt cx s st)
    | .other k b e, cx, st, il, ifn, hr, h => by simp only [lowerStmt]; errs
    | .expr v, cx, st, il, ifn, hr, h => by
        simp only [badS] at h
        have := transf_err cx.nsp [] v h
        simp only [lowerStmt]; errs
    | .pass_, cx, st, il, ifn, hr, h => by simp [badS] at h
    | .global_ _, cx, st, il, ifn, hr, h => by simp [badS] at h
    | .nonlocal_ _, cx, st, il, ifn, hr, h => by simp [badS] at h
    | .import_ _, cx, st, il, ifn, hr, h => by simp [badS] at h
    | .break_, cx, st, il, ifn, hr, h => by
        simp only [badS, Bool.not_eq_true'] at h
        have := hr.1 h
        simp only [lowerStmt, this, List.getLast?_nil]; errs
    | .continue_, cx, st, il, ifn, hr, h => by
        simp only [badS, Bool.not_eq_true'] at h
        have := hr.1 h
        simp only [lowerStmt, this, List.getLast?_nil]; errs
    | .return_ v, cx, st, il, ifn, hr, h => by
        simp only [badS, Bool.or_eq_true, Bool.not_eq_true'] at h
        simp only [lowerStmt]
        split
        · errs
        · rcases h with h | h
          · rename_i hn; exact absurd (hr.2 h) hn
          · cases v with
            | none => simp [hasUnsupO] at h
            | some e =>
              simp only [hasUnsupO] at h
              have := transf_err cx.nsp [] e h
              simp only []
              errs
    | .if_ t b e, cx, st, il, ifn, hr, h => by
        simp only [badS, Bool.or_eq_true] at h
        simp only [lowerStmt]
        rcases h with (h | h) | h
        · have := transf_err cx.nsp [] t h; errs
        · have := lowerBlock_err b cx st il ifn hr h; errs
        · have ih := fun st' => lowerBlock_err e cx st' il ifn hr h; errsw ih
    | .while_ t b e, cx, st, il, ifn, hr, h => by
        simp only [badS, Bool.or_eq_true] at h
        simp only [lowerStmt]
        rcases h with (h | h) | h
        · have := transf_err cx.nsp [] t h; errs
        · have : ∀ l st', IsErr (lowerBlock { cx with loops := cx.loops ++ [l] } b st') :=
            fun l st' => lowerBlock_err b _ st' true ifn ⟨fun hh => (by cases hh), hr.2⟩ h
          errsw this
        · have ih := fun st' => lowerBlock_err e cx st' il ifn hr h; errsw ih
    | .for_ tg it b e, cx, st, il, ifn, hr, h => by
        simp only [badS, Bool.or_eq_true] at h
        simp only [lowerStmt]
        rcases h with ((h | h) | h) | h
        · have ih := fun v st' => assignAuto_err cx.nsp false tg v st' h; errsw ih
        · have := transf_err cx.nsp [] it h; errs
        · have : ∀ l st', IsErr (lowerBlock { cx with loops := cx.loops ++ [l] } b st') :=
            fun l st' => lowerBlock_err b _ st' true ifn ⟨fun hh => (by cases hh), hr.2⟩ h
          errsw this
        · have ih := fun st' => lowerBlock_err e cx st' il ifn hr h; errsw ih
    | .assign ts v, cx, st, il, ifn, hr, h => by
        simp only [badS, Bool.or_eq_true] at h
        simp only [lowerStmt]
        rcases h with h | h
        · have := transf_err cx.nsp [] v h; errs
        · have ih := fun v st' => assignTargets_err cx.nsp v ts st' h
          refine isErr_bind_r (fun v' => ?_)
          refine isErr_ite ?_ ?_ <;> errsw ih
    | .annAssign tg ann v, cx, st, il, ifn, hr, h => by
        cases v with
        | none => simp [badS] at h
        | some v =>
          simp only [badS, Bool.or_eq_true] at h
          simp only [lowerStmt]
          rcases h with h | h
          · have := transf_err cx.nsp [] v h; errs
          · have ih := fun v st' => assignAuto_err cx.nsp false tg v st' h
            refine isErr_bind_r (fun v' => ?_)
            refine isErr_ite ?_ ?_ <;> errsw ih
    | .augAssign tg op v, cx, st, il, ifn, hr, h => by
        simp only [badS, Bool.or_eq_true] at h
        simp only [lowerStmt]
        exact lowerAugAssign_err cx.nsp tg op v st h
    | .importFrom m names level, cx, st, il, ifn, hr, h => by
        simp only [badS] at h
        simp only [lowerStmt, lowerImportFrom]
        have ih := fun tmp => lowerImportFromNames_err cx.nsp tmp names h
        errsw ih
    | .functionDef name args body decos lineno, cx, st, il, ifn, hr, h => by
        simp only [badS, Bool.or_eq_true] at h
        simp only [lowerStmt]
        rcases h with (h | h) | h
        · have := lowerFunctionHead_err cx.nsp args h; errs
        · have ih := fun b => applyDecorators_err cx.nsp decos b h; errsw ih
        · have : ∀ inner fu st', IsErr (lowerBlock { cfg := cx.cfg, nsp := inner, loops := [], fnUsed := fu } body st') :=
            fun inner fu st' => lowerBlock_err body _ st' false true ⟨fun _ => rfl, fun hh => (by cases hh)⟩ h
          errsw this
    | .classDef name bases kws body decos lineno, cx, st, il, ifn, hr, h => by
        simp only [badS, Bool.or_eq_true] at h
        simp only [lowerStmt]
        rcases h with ((h | h) | h) | h
        · have := transfList_err cx.nsp [] bases h; errs
        · have := classKeywords_err cx.nsp kws h; errs
        · have ih := fun b => applyDecorators_err cx.nsp decos b h
          have hne : decos.isEmpty = false := by cases decos <;> simp [hasUnsupL] at h ⊢
          errsw ih
          simp only [hne, Bool.false_eq_true, if_false]
          errsw ih
        · refine isErr_bind_ok (fun inner hfc => ?_)
          have hk := findChild_kind hfc
          have ih := fun st' => lowerBlock_err body { cfg := cx.cfg, nsp := inner, loops := [], fnUsed := false } st' false false
            ⟨fun _ => rfl, fun _ => (by simp [hk])⟩ h
          errsw ih

  theorem lowerBlock_err : ∀ (ss : List Stmt) (cx : Ctx) (st : St) (il ifn : Bool), CtxRel cx il ifn →
      badL il ifn ss = true → IsErr (lowerBlock cx ss st)
    | [], cx, st, il, ifn, hr, h => by simp [badL] at h
    | s :: ss, cx, st, il, ifn, hr, h => by
        simp only [badL, Bool.or_eq_true, Bool.and_eq_true, Bool.not_eq_true'] at h
        simp only [lowerBlock]
        rcases h with h | ⟨hd, h⟩
        · have := lowerStmt_err s cx st il ifn hr h; errs
        · have ih := fun st' => lowerBlock_err ss cx st' il ifn hr h
          have hne : ss.isEmpty = false := by cases ss <;> simp [badL] at h ⊢
          refine isErr_bind_r (fun x => ?_)
          obtain ⟨es, st'⟩ := x
          simp only [hd, hne, Bool.or_self, Bool.false_eq_true, if_false]
          refine isErr_ite ?_ ?_ <;> errsw ih
end


/-! ### the whole conversion -/

/-- module level: every statement is converted (no dead-code cut), outside any loop or function -/
def badModule : List Stmt → Bool
  | [] => false
  | s :: ss => badS false false s || badModule ss

theorem generateNsp_kind {root : SymScope} {sup : Supply} {g : Nsp} {sup' : Supply}
    (h : generateNsp root sup = .ok (g, sup')) : g.kind = .module := by
  unfold generateNsp at h
  cases hb : buildChildren [(.module, root, "")] sup root.children with
  | error e => rw [hb] at h; cases h
  | ok r =>
    rw [hb] at h
    obtain ⟨kids, a, b, sup''⟩ := r
    cases h
    rfl

theorem goModule_err (cx : Ctx) (hr : CtxRel cx false false) : ∀ (ss : List Stmt) (st : St),
    badModule ss = true → IsErr (lowerFull.goModule cx ss st)
  | [], st, h => by simp [badModule] at h
  | s :: ss, st, h => by
      simp only [badModule, Bool.or_eq_true] at h
      simp only [lowerFull.goModule]
      rcases h with h | h
      · have := lowerStmt_err s cx st false false hr h; errs
      · have ih := fun st' => goModule_err cx hr ss st' h
        errsw ih

theorem lowerFull_err (cfg : Cfg) (root : SymScope) (body : List Stmt) (h : badModule body = true) :
    IsErr (lowerFull cfg root body) := by
  unfold lowerFull
  refine isErr_bind_ok (fun r hg => ?_)
  obtain ⟨g, sup⟩ := r
  have hk := generateNsp_kind hg
  have ih := fun st' => goModule_err { cfg := cfg, nsp := g, loops := [], fnUsed := false }
    ⟨fun _ => rfl, fun _ => (by simp [hk])⟩ body st' h
  simp only []
  errsw ih

end OlVerif
