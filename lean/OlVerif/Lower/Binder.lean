/-
  C06, captured variables: the dictionary a free / nonlocal name is read from and written to is
  the dictionary of the function CPython binds the name in, and that function itself uses it.

  Specification side: `pyBinder` - CPython's rule, stated on the symbol tables with CPython's own
  verdict `is_local()` (a flag the code never consults): the binder of a free name is the nearest
  enclosing *function* scope in which the name is local; class scopes are skipped.
  Code side: `findOwner` (the outward walk with the ownership test on `is_assigned` /
  `is_imported` / `is_parameter` / `is_global` / `is_nonlocal`), `claimsOf`, `buildNsp`.
-/
import OlVerif.Lower.Nsp
import OlVerif.Lower.WfOut

set_option linter.unusedVariables false
set_option linter.unusedSimpArgs false

namespace OlVerif

/-- the code's ownership test (`ownsName`) as a function of the flags -/
def SymInfo.owns (i : SymInfo) : Bool :=
  !i.isNonlocal && (i.isAssigned || i.isImported || (i.isParameter && !i.isGlobal))

/-- CPython's rule: the dictionary name of the nearest enclosing function scope in which `x` is local -/
def pyBinder (x : String) : Stack → Option String
  | [] => none
  | (.function, s, d) :: rest =>
    match s.lookup x with
    | some i => if i.isLocal then some d else pyBinder x rest
    | none => pyBinder x rest
  | (.module, _, _) :: _ => none
  | (_, _, _) :: rest => pyBinder x rest

/-- what CPython guarantees about the function scopes between a free use and its binder: the name
    is in their tables (free variables propagate through intermediate scopes) and the code's
    ownership test agrees with `is_local()` on it.  Checked on every symbol table of the corpus by
    the correspondence check (`symtable_invariants`). -/
def WalkOK (x : String) : Stack → Prop
  | [] => True
  | (.function, s, _) :: rest => ∃ i, s.lookup x = some i ∧ i.owns = i.isLocal ∧ (i.isLocal = false → WalkOK x rest)
  | (.module, _, _) :: _ => True
  | (.class_, _, _) :: rest => WalkOK x rest
  | (.other_, _, _) :: rest => WalkOK x rest

/-- **The walk finds CPython's binder.** -/
theorem findOwner_eq_pyBinder (x : String) : ∀ (stack : Stack), WalkOK x stack →
    ∀ d, pyBinder x stack = some d → ∃ p, findOwner x stack = .ok (d, p)
  | [], _, d, h => by simp [pyBinder] at h
  | (.function, s, d0) :: rest, hw, d, h => by
      obtain ⟨i, hi, ho, hrest⟩ := hw
      simp only [pyBinder, hi] at h
      simp only [findOwner, ownsName, hi]
      have ho' : (!i.isNonlocal && (i.isAssigned || i.isImported || (i.isParameter && !i.isGlobal))) = i.isLocal := ho
      by_cases hl : i.isLocal = true
      · simp only [hl, if_true, Option.some.injEq] at h
        subst h
        refine ⟨i.isParameter, ?_⟩
        simp [bind, Except.bind, ho', hl, pure, Except.pure]
      · have hl' : i.isLocal = false := by simpa using hl
        simp only [hl', Bool.false_eq_true, if_false] at h
        obtain ⟨p, hp⟩ := findOwner_eq_pyBinder x rest (hrest hl') d h
        exact ⟨p, by simp [bind, Except.bind, ho', hl', hp]⟩
  | (.module, s, d0) :: rest, _, d, h => by simp [pyBinder] at h
  | (.class_, s, d0) :: rest, hw, d, h => by
      simp only [pyBinder] at h
      simp only [findOwner]
      exact findOwner_eq_pyBinder x rest hw d h
  | (.other_, s, d0) :: rest, hw, d, h => by
      simp only [pyBinder] at h
      simp only [findOwner]
      exact findOwner_eq_pyBinder x rest hw d h

/-- conversely, a name the walk finds an owner for is bound there by CPython -/
theorem pyBinder_of_findOwner (x : String) : ∀ (stack : Stack), WalkOK x stack →
    ∀ d p, findOwner x stack = .ok (d, p) → pyBinder x stack = some d
  | [], _, d, p, h => by simp [findOwner] at h
  | (.function, s, d0) :: rest, hw, d, p, h => by
      obtain ⟨i, hi, ho, hrest⟩ := hw
      have ho' : (!i.isNonlocal && (i.isAssigned || i.isImported || (i.isParameter && !i.isGlobal))) = i.isLocal := ho
      simp only [findOwner, ownsName, hi, bind, Except.bind, ho'] at h
      simp only [pyBinder, hi]
      by_cases hl : i.isLocal = true
      · simp only [hl, if_true, pure, Except.pure, Except.ok.injEq, Prod.mk.injEq] at h
        simp [hl, h.1]
      · have hl' : i.isLocal = false := by simpa using hl
        simp only [hl', Bool.false_eq_true, if_false] at h ⊢
        exact pyBinder_of_findOwner x rest (hrest hl') d p h
  | (.module, s, d0) :: rest, _, d, p, h => by simp [findOwner] at h
  | (.class_, s, d0) :: rest, hw, d, p, h => by
      simp only [findOwner] at h
      simp only [pyBinder]
      exact pyBinder_of_findOwner x rest hw d p h
  | (.other_, s, d0) :: rest, hw, d, p, h => by
      simp only [findOwner] at h
      simp only [pyBinder]
      exact pyBinder_of_findOwner x rest hw d p h


/-! ### the owner knows: claims reach the function that owns the name -/

/-- every (name ↦ dictionary) decision taken in a namespace or below it -/
def Nsp.allOuter : Nsp → List (String × String)
  | .mk _ _ _ _ _ _ _ outerMap _ _ _ children => outerMap ++ allOuterL children
where
  allOuterL : List Nsp → List (String × String)
    | [] => []
    | c :: cs => c.allOuter ++ allOuterL cs

theorem claimsOf_spec (stack : Stack) : ∀ (cands : List String) (cl : List Claim), claimsOf stack cands = .ok cl →
    (∀ c ∈ cl, ∃ p, findOwner c.2.1 stack = .ok (c.1, p)) ∧ cl.map (fun c => c.2.1) = cands
  | [], cl, h => by simp only [claimsOf] at h; cases h; simp
  | x :: xs, cl, h => by
      simp only [claimsOf] at h
      obtain ⟨⟨d, p⟩, hf, h⟩ := bind_ok h
      obtain ⟨rest, hr, h⟩ := bind_ok h
      cases pure_ok h
      have ih := claimsOf_spec stack xs rest hr
      refine ⟨?_, by simp [ih.2]⟩
      intro c hc
      simp only [List.mem_cons] at hc
      rcases hc with rfl | hc
      · exact ⟨p, hf⟩
      · exact ih.1 c hc

mutual
  /-- the claims a subtree reports contain every decision taken in it -/
  theorem buildNsp_claims : ∀ (s : SymScope) (stack : Stack) (sup : Supply) (n : Nsp) (cl : List Claim) (sup' : Supply),
      buildNsp stack sup s = .ok (n, cl, sup') → ∀ xd ∈ n.allOuter, ∃ p, (xd.2, xd.1, p) ∈ cl
    | .mk name kind lineno symbols frees nonlocals params methods children, stack, sup, n, cl, sup', h => by
        simp only [buildNsp] at h
        obtain ⟨own, hown, h⟩ := bind_ok h
        obtain ⟨⟨kids, kidClaims, globs, sup2⟩, hk, h⟩ := bind_ok h
        cases pure_ok h
        intro xd hxd
        simp only [Nsp.allOuter, List.mem_append, List.mem_map] at hxd
        rcases hxd with ⟨c, hc, rfl⟩ | hxd
        · exact ⟨c.2.2, by simp [hc]⟩
        · obtain ⟨p, hp⟩ := buildChildren_claims children _ _ kids kidClaims globs sup2 hk xd hxd
          exact ⟨p, by simp [hp]⟩
  termination_by structural s => s

  theorem buildChildren_claims : ∀ (cs : List SymScope) (stack : Stack) (sup : Supply) (kids : List Nsp) (cl : List Claim)
      (globs : List String) (sup' : Supply), buildChildren stack sup cs = .ok (kids, cl, globs, sup') →
      ∀ xd ∈ Nsp.allOuter.allOuterL kids, ∃ p, (xd.2, xd.1, p) ∈ cl
    | [], stack, sup, kids, cl, globs, sup', h => by
        simp only [buildChildren] at h; cases h
        intro xd hxd; simp [Nsp.allOuter.allOuterL] at hxd
    | c :: cs, stack, sup, kids, cl, globs, sup', h => by
        simp only [buildChildren] at h
        split at h
        · exact buildChildren_claims cs stack sup kids cl globs sup' h
        · split at h
          · obtain ⟨⟨kids0, cl0, globs0, sup0⟩, hk, h⟩ := bind_ok h
            cases pure_ok h
            exact buildChildren_claims cs stack sup _ _ _ _ hk
          · obtain ⟨⟨n, cl1, sup1⟩, hn, h⟩ := bind_ok h
            obtain ⟨⟨kids0, cl0, globs0, sup0⟩, hk, h⟩ := bind_ok h
            cases pure_ok h
            intro xd hxd
            simp only [Nsp.allOuter.allOuterL, List.mem_append] at hxd
            rcases hxd with hxd | hxd
            · obtain ⟨p, hp⟩ := buildNsp_claims c stack sup n cl1 sup1 hn xd hxd
              exact ⟨p, by simp [hp]⟩
            · obtain ⟨p, hp⟩ := buildChildren_claims cs stack sup1 kids0 cl0 globs0 sup0 hk xd hxd
              exact ⟨p, by simp [hp]⟩
  termination_by structural cs => cs
end


/-- **The owner knows.**  Whenever a namespace below `n` decided to keep a name in `n`'s
    dictionary, `n` lists the name among its dictionary-stored names - so `n` itself reads and
    writes it there too (`C06.load_store_same_dict_inner`). -/
theorem owner_knows (s : SymScope) (stack : Stack) (sup : Supply) (n : Nsp) (cl : List Claim) (sup' : Supply)
    (h : buildNsp stack sup s = .ok (n, cl, sup')) :
    ∀ xd ∈ Nsp.allOuter.allOuterL n.children, xd.2 = n.dictName → xd.1 ∈ n.innerNonlocal := by
  obtain ⟨name, kind, lineno, symbols, frees, nonlocals, params, methods, children⟩ := s
  simp only [buildNsp] at h
  obtain ⟨own, hown, h⟩ := bind_ok h
  obtain ⟨⟨kids, kidClaims, globs, sup2⟩, hk, h⟩ := bind_ok h
  cases pure_ok h
  intro xd hxd hd
  obtain ⟨p, hp⟩ := buildChildren_claims children _ _ kids kidClaims globs sup2 hk xd hxd
  simp only [Nsp.children] at hxd
  simp only [Nsp.innerNonlocal, Nsp.dictName] at hd ⊢
  rw [List.mem_eraseDups]
  simp only [List.mem_map, List.mem_filter]
  exact ⟨(xd.2, xd.1, p), ⟨hp, by simp [hd]⟩, rfl⟩

/-- the decisions of a namespace are the walk's: `outerMap` sends every free / nonlocal candidate
    to the dictionary `findOwner` returns for it -/
theorem outerMap_spec (s : SymScope) (stack : Stack) (sup : Supply) (n : Nsp) (cl : List Claim) (sup' : Supply)
    (h : buildNsp stack sup s = .ok (n, cl, sup')) :
    ∀ xd ∈ n.outerMap, ∃ p, findOwner xd.1 stack = .ok (xd.2, p) := by
  obtain ⟨name, kind, lineno, symbols, frees, nonlocals, params, methods, children⟩ := s
  simp only [buildNsp] at h
  obtain ⟨own, hown, h⟩ := bind_ok h
  obtain ⟨⟨kids, kidClaims, globs, sup2⟩, hk, h⟩ := bind_ok h
  cases pure_ok h
  intro xd hxd
  simp only [Nsp.outerMap, List.mem_map] at hxd
  obtain ⟨c, hc, rfl⟩ := hxd
  exact (claimsOf_spec stack _ own hown).1 c hc


theorem mem_candidates (s : SymScope) (x : String) (hx : x ∈ s.frees ++ s.nonlocals) (hc : x ≠ "__class__") (m : Bool) :
    x ∈ (nonlocalCandidates .function s m).1 := by
  simp only [nonlocalCandidates, List.mem_filter]
  exact ⟨hx, by simpa using hc⟩

/-- completeness: every free / nonlocal name of a function scope (other than a method's implicit
    `__class__`) has an entry - no free name is left to Python's own resolution of the generated lambdas -/
theorem outerMap_complete (s : SymScope) (stack : Stack) (sup : Supply) (n : Nsp) (cl : List Claim) (sup' : Supply)
    (h : buildNsp stack sup s = .ok (n, cl, sup')) (hk : s.kind = .function) (x : String)
    (hx : x ∈ s.frees ++ s.nonlocals) (hc : x ≠ "__class__") : ∃ d, (x, d) ∈ n.outerMap := by
  obtain ⟨name, kind, lineno, symbols, frees, nonlocals, params, methods, children⟩ := s
  simp only [SymScope.kind] at hk
  subst hk
  simp only [buildNsp] at h
  obtain ⟨own, hown, h⟩ := bind_ok h
  obtain ⟨⟨kids, kidClaims, globs, sup2⟩, hk, h⟩ := bind_ok h
  cases pure_ok h
  have hall : ∀ (m : Bool) (own : List Claim), claimsOf stack (nonlocalCandidates .function
      (.mk name .function lineno symbols frees nonlocals params methods children) m).1 = .ok own → ∃ c ∈ own, c.2.1 = x := by
    intro m own hown
    have hm := (claimsOf_spec stack _ own hown).2
    have hx' := mem_candidates _ x hx hc m
    rw [← hm, List.mem_map] at hx'
    exact hx'
  obtain ⟨c, hc1, hc2⟩ := hall _ own hown
  refine ⟨c.1, ?_⟩
  simp only [Nsp.outerMap, List.mem_map]
  exact ⟨c, hc1, by rw [← hc2]⟩

/-! ### fresh dictionary names never collide with those of the enclosing scopes -/

theorem fresh_eq (s : Supply) (p : String) : (s.fresh p).1 = ("__ol_" ++ p ++ "_") ++ "#" ++ toString s.next := by
  simp [Supply.fresh, toString, String.append_assoc]

theorem digits_rev (a : Nat) (u : List Char) :
    ((u ++ '#' :: (toString a).toList).reverse.takeWhile Char.isDigit) = (toString a).toList.reverse := by
  rw [List.reverse_append, List.reverse_cons, List.append_assoc, List.takeWhile_append_of_pos]
  · simp
  · intro c hc
    rw [List.mem_reverse, Nat.toString_eq_repr, Nat.toList_repr] at hc
    exact Nat.isDigit_of_mem_toDigits (by decide) (by decide) hc

theorem suffix_inj (u v : String) (a b : Nat) (h : u ++ "#" ++ toString a = v ++ "#" ++ toString b) : a = b := by
  have h1 := congrArg String.toList h
  simp only [String.toList_append] at h1
  have ha := digits_rev a u.toList
  have hb := digits_rev b v.toList
  have e : ("#" : String).toList = ['#'] := rfl
  simp only [e, List.append_assoc, List.singleton_append] at h1
  rw [h1] at ha
  rw [ha] at hb
  have := congrArg List.reverse hb
  simp only [List.reverse_reverse] at this
  rw [Nat.toString_eq_repr, Nat.toString_eq_repr, Nat.toList_repr, Nat.toList_repr] at this
  have ha' := Nat.ofDigitChars_ten_toDigits (n := a)
  have hb' := Nat.ofDigitChars_ten_toDigits (n := b)
  rw [this] at ha'
  omega

/-- the name supply is injective in its counter, whatever the purposes -/
theorem fresh_inj (s t : Supply) (p q : String) (h : (s.fresh p).1 = (t.fresh q).1) : s.next = t.next := by
  rw [fresh_eq, fresh_eq] at h
  exact suffix_inj _ _ _ _ h

/-- a dictionary name handed out earlier: the module's empty name, or a fresh name with a smaller counter -/
def EarlierName (d : String) (m : Nat) : Prop := d = "" ∨ ∃ k p, k < m ∧ d = ((Supply.mk k).fresh p).1

theorem fresh_ne_empty (s : Supply) (p : String) : (s.fresh p).1 ≠ "" := by
  rw [fresh_eq]
  intro h
  have := congrArg String.length h
  simp [String.length_append] at this

/-- **The dictionary of a namespace is new**: it differs from the dictionary of every enclosing
    scope, so a name kept in an enclosing function's dictionary is never mistaken for one of its own. -/
theorem dict_new (s : SymScope) (stack : Stack) (sup : Supply) (n : Nsp) (cl : List Claim) (sup' : Supply)
    (h : buildNsp stack sup s = .ok (n, cl, sup'))
    (hst : ∀ e ∈ stack, EarlierName e.2.2 sup.next) : ∀ e ∈ stack, e.2.2 ≠ n.dictName := by
  obtain ⟨name, kind, lineno, symbols, frees, nonlocals, params, methods, children⟩ := s
  simp only [buildNsp] at h
  obtain ⟨own, hown, h⟩ := bind_ok h
  obtain ⟨⟨kids, kidClaims, globs, sup2⟩, hk, h⟩ := bind_ok h
  cases pure_ok h
  intro e he heq
  simp only [Nsp.dictName] at heq
  have key : ∀ p, e.2.2 ≠ (({ next := sup.next + 2 } : Supply).fresh p).1 := by
    intro p hp
    rcases hst e he with h0 | ⟨k, q, hk', hd⟩
    · rw [h0] at hp; exact fresh_ne_empty _ _ hp.symm
    · rw [hd] at hp
      have := fresh_inj _ _ _ _ hp
      simp at this
      omega
  split at heq
  · exact key _ heq
  · exact key _ heq

end OlVerif
