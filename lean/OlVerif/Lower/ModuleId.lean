/-
  At module level the expression transformer is the identity: names are spelled as plain names
  and walrus targets stay walrus targets, so every expression it accepts comes out unchanged.
-/
import OlVerif.Lower.WfOut

namespace OlVerif

mutual
  theorem transf_module_id (n : Nsp) (hn : n.kind = .module) : ∀ (b : List String) (e e' : Expr), transf n b e = .ok e' → e' = e
    | b, .name id, e', h => by simp only [transf, Nsp.getLoad, hn] at h; cases h; rfl
    | b, .const c, e', h => by simp only [transf] at h; cases h; rfl
    | b, .namedExpr t v, e', h => by
        simp only [transf] at h
        obtain ⟨v', hv, h⟩ := bind_ok h
        by_cases hm : b.contains lamMark = true
        · rw [if_pos hm] at h; cases pure_ok h
          rw [transf_module_id n hn b v v' hv]
        rw [if_neg hm] at h
        obtain ⟨r, hr, h⟩ := bind_ok h
        simp only [Nsp.getAssign, hn] at hr
        cases hr
        simp only [] at h
        cases pure_ok h
        rw [transf_module_id n hn b v v' hv]
    | b, .yield_ _, e', h => by simp only [transf] at h; cases h
    | b, .yieldFrom _, e', h => by simp only [transf] at h; cases h
    | b, .await _, e', h => by simp only [transf] at h; cases h
    | b, .lambda (.mk po as va ko kd kw ds) body, e', h => by
        simp only [transf] at h
        obtain ⟨ds', hds, h⟩ := bind_ok h
        obtain ⟨kd', hkd, h⟩ := bind_ok h
        obtain ⟨body', hb, h⟩ := bind_ok h
        cases pure_ok h
        rw [transfList_module_id n hn b ds ds' hds, transfOptList_module_id n hn b kd kd' hkd, transf_module_id n hn _ body body' hb]
    | b, .listComp elt gens, e', h => by
        simp only [transf] at h
        obtain ⟨names, _, h⟩ := bind_ok h
        obtain ⟨elt', he, h⟩ := bind_ok h
        obtain ⟨gens', hg, h⟩ := bind_ok h
        cases pure_ok h
        rw [transf_module_id n hn _ elt elt' he, transfComps_module_id n hn _ _ gens gens' hg]
    | b, .setComp elt gens, e', h => by
        simp only [transf] at h
        obtain ⟨names, _, h⟩ := bind_ok h
        obtain ⟨elt', he, h⟩ := bind_ok h
        obtain ⟨gens', hg, h⟩ := bind_ok h
        cases pure_ok h
        rw [transf_module_id n hn _ elt elt' he, transfComps_module_id n hn _ _ gens gens' hg]
    | b, .generatorExp elt gens, e', h => by
        simp only [transf] at h
        obtain ⟨names, _, h⟩ := bind_ok h
        obtain ⟨elt', he, h⟩ := bind_ok h
        obtain ⟨gens', hg, h⟩ := bind_ok h
        cases pure_ok h
        rw [transf_module_id n hn _ elt elt' he, transfComps_module_id n hn _ _ gens gens' hg]
    | b, .dictComp k v gens, e', h => by
        simp only [transf] at h
        obtain ⟨names, _, h⟩ := bind_ok h
        obtain ⟨k', hk, h⟩ := bind_ok h
        obtain ⟨v', hv, h⟩ := bind_ok h
        obtain ⟨gens', hg, h⟩ := bind_ok h
        cases pure_ok h
        rw [transf_module_id n hn _ k k' hk, transf_module_id n hn _ v v' hv, transfComps_module_id n hn _ _ gens gens' hg]
    | b, .joinedStr vs, e', h => by
        simp only [transf] at h
        obtain ⟨vs', hvs, h⟩ := bind_ok h
        cases pure_ok h
        rw [transfList_module_id n hn b vs vs' hvs]
    | b, .formattedValue v c s, e', h => by
        simp only [transf] at h
        obtain ⟨v', hv, h⟩ := bind_ok h
        obtain ⟨s', hs, h⟩ := bind_ok h
        cases pure_ok h
        rw [transf_module_id n hn b v v' hv, transfOpt_module_id n hn b s s' hs]
    | b, .list es, e', h => by
        simp only [transf] at h
        obtain ⟨es', hes, h⟩ := bind_ok h
        cases pure_ok h
        rw [transfList_module_id n hn b es es' hes]
    | b, .tuple es, e', h => by
        simp only [transf] at h
        obtain ⟨es', hes, h⟩ := bind_ok h
        cases pure_ok h
        rw [transfList_module_id n hn b es es' hes]
    | b, .set es, e', h => by
        simp only [transf] at h
        obtain ⟨es', hes, h⟩ := bind_ok h
        cases pure_ok h
        rw [transfList_module_id n hn b es es' hes]
    | b, .dict items, e', h => by
        simp only [transf] at h
        obtain ⟨its', hi, h⟩ := bind_ok h
        cases pure_ok h
        rw [transfItems_module_id n hn b items its' hi]
    | b, .starred v, e', h => by
        simp only [transf] at h
        obtain ⟨v', hv, h⟩ := bind_ok h
        cases pure_ok h
        rw [transf_module_id n hn b v v' hv]
    | b, .attribute v a, e', h => by
        simp only [transf] at h
        obtain ⟨v', hv, h⟩ := bind_ok h
        cases pure_ok h
        rw [transf_module_id n hn b v v' hv]
    | b, .subscript v s, e', h => by
        simp only [transf] at h
        obtain ⟨v', hv, h⟩ := bind_ok h
        obtain ⟨s', hs, h⟩ := bind_ok h
        cases pure_ok h
        rw [transf_module_id n hn b v v' hv, transf_module_id n hn b s s' hs]
    | b, .slice x y z, e', h => by
        simp only [transf] at h
        obtain ⟨x', hx, h⟩ := bind_ok h
        obtain ⟨y', hy, h⟩ := bind_ok h
        obtain ⟨z', hz, h⟩ := bind_ok h
        cases pure_ok h
        rw [transfOpt_module_id n hn b x x' hx, transfOpt_module_id n hn b y y' hy, transfOpt_module_id n hn b z z' hz]
    | b, .call f as ks, e', h => by
        simp only [transf] at h
        obtain ⟨f', hf, h⟩ := bind_ok h
        obtain ⟨as', has, h⟩ := bind_ok h
        obtain ⟨ks', hks, h⟩ := bind_ok h
        cases pure_ok h
        rw [transf_module_id n hn b f f' hf, transfList_module_id n hn b as as' has, transfKeywords_module_id n hn b ks ks' hks]
    | b, .binOp x op y, e', h => by
        simp only [transf] at h
        obtain ⟨x', hx, h⟩ := bind_ok h
        obtain ⟨y', hy, h⟩ := bind_ok h
        cases pure_ok h
        rw [transf_module_id n hn b x x' hx, transf_module_id n hn b y y' hy]
    | b, .boolOp op vs, e', h => by
        simp only [transf] at h
        obtain ⟨vs', hvs, h⟩ := bind_ok h
        cases pure_ok h
        rw [transfList_module_id n hn b vs vs' hvs]
    | b, .unaryOp op v, e', h => by
        simp only [transf] at h
        obtain ⟨v', hv, h⟩ := bind_ok h
        cases pure_ok h
        rw [transf_module_id n hn b v v' hv]
    | b, .compare l ops cs, e', h => by
        simp only [transf] at h
        obtain ⟨l', hl, h⟩ := bind_ok h
        obtain ⟨cs', hcs, h⟩ := bind_ok h
        cases pure_ok h
        rw [transf_module_id n hn b l l' hl, transfList_module_id n hn b cs cs' hcs]
    | b, .ifExp t x y, e', h => by
        simp only [transf] at h
        obtain ⟨t', ht, h⟩ := bind_ok h
        obtain ⟨x', hx, h⟩ := bind_ok h
        obtain ⟨y', hy, h⟩ := bind_ok h
        cases pure_ok h
        rw [transf_module_id n hn b t t' ht, transf_module_id n hn b x x' hx, transf_module_id n hn b y y' hy]
  termination_by structural _ x => x

  theorem transfList_module_id (n : Nsp) (hn : n.kind = .module) : ∀ (b : List String) (es es' : List Expr), transfList n b es = .ok es' → es' = es
    | b, [], es', h => by simp only [transfList] at h; cases h; rfl
    | b, e :: es, es', h => by
        simp only [transfList] at h
        obtain ⟨e', he, h⟩ := bind_ok h
        obtain ⟨es'', hes, h⟩ := bind_ok h
        cases pure_ok h
        rw [transf_module_id n hn b e e' he, transfList_module_id n hn b es es'' hes]
  termination_by structural _ x => x

  theorem transfOpt_module_id (n : Nsp) (hn : n.kind = .module) : ∀ (b : List String) (o o' : Option Expr), transfOpt n b o = .ok o' → o' = o
    | b, none, o', h => by simp only [transfOpt] at h; cases h; rfl
    | b, some e, o', h => by
        simp only [transfOpt] at h
        obtain ⟨e', he, h⟩ := bind_ok h
        cases pure_ok h
        rw [transf_module_id n hn b e e' he]
  termination_by structural _ x => x

  theorem transfOptList_module_id (n : Nsp) (hn : n.kind = .module) : ∀ (b : List String) (es es' : List (Option Expr)),
      transfOptList n b es = .ok es' → es' = es
    | b, [], es', h => by simp only [transfOptList] at h; cases h; rfl
    | b, none :: es, es', h => by
        simp only [transfOptList] at h
        obtain ⟨es'', hes, h⟩ := bind_ok h
        cases pure_ok h
        rw [transfOptList_module_id n hn b es es'' hes]
    | b, some e :: es, es', h => by
        simp only [transfOptList] at h
        obtain ⟨e', he, h⟩ := bind_ok h
        obtain ⟨es'', hes, h⟩ := bind_ok h
        cases pure_ok h
        rw [transf_module_id n hn b e e' he, transfOptList_module_id n hn b es es'' hes]
  termination_by structural _ x => x

  theorem transfItems_module_id (n : Nsp) (hn : n.kind = .module) : ∀ (b : List String) (its its' : List DictItem),
      transfItems n b its = .ok its' → its' = its
    | b, [], its', h => by simp only [transfItems] at h; cases h; rfl
    | b, .mk none v :: its, its', h => by
        simp only [transfItems] at h
        obtain ⟨v', hv, h⟩ := bind_ok h
        obtain ⟨r, hr, h⟩ := bind_ok h
        cases pure_ok h
        rw [transf_module_id n hn b v v' hv, transfItems_module_id n hn b its r hr]
    | b, .mk (some k) v :: its, its', h => by
        simp only [transfItems] at h
        obtain ⟨k', hk, h⟩ := bind_ok h
        obtain ⟨v', hv, h⟩ := bind_ok h
        obtain ⟨r, hr, h⟩ := bind_ok h
        cases pure_ok h
        rw [transf_module_id n hn b k k' hk, transf_module_id n hn b v v' hv, transfItems_module_id n hn b its r hr]
  termination_by structural _ x => x

  theorem transfKeywords_module_id (n : Nsp) (hn : n.kind = .module) : ∀ (b : List String) (ks ks' : List Keyword),
      transfKeywords n b ks = .ok ks' → ks' = ks
    | b, [], ks', h => by simp only [transfKeywords] at h; cases h; rfl
    | b, .mk a v :: ks, ks', h => by
        simp only [transfKeywords] at h
        obtain ⟨v', hv, h⟩ := bind_ok h
        obtain ⟨r, hr, h⟩ := bind_ok h
        cases pure_ok h
        rw [transf_module_id n hn b v v' hv, transfKeywords_module_id n hn b ks r hr]
  termination_by structural _ x => x

  theorem transfComps_module_id (n : Nsp) (hn : n.kind = .module) : ∀ (f b : List String) (gs gs' : List Comp),
      transfComps n f b gs = .ok gs' → gs' = gs
    | f, b, [], gs', h => by simp only [transfComps] at h; cases h; rfl
    | f, b, .mk t i ifs a :: gs, gs', h => by
        simp only [transfComps] at h
        obtain ⟨t', ht, h⟩ := bind_ok h
        obtain ⟨i', hi, h⟩ := bind_ok h
        obtain ⟨ifs', hifs, h⟩ := bind_ok h
        obtain ⟨r, hr, h⟩ := bind_ok h
        cases pure_ok h
        rw [transfTarget_module_id n hn b t t' ht, transf_module_id n hn f i i' hi, transfList_module_id n hn b ifs ifs' hifs,
          transfComps_module_id n hn b b gs r hr]
  termination_by structural _ _ x => x

  theorem transfTarget_module_id (n : Nsp) (hn : n.kind = .module) : ∀ (b : List String) (t t' : Expr),
      transfTarget n b t = .ok t' → t' = t
    | b, .name id, t', h => by simp only [transfTarget] at h; cases h; rfl
    | b, .tuple es, t', h => by
        simp only [transfTarget] at h
        obtain ⟨es', hes, h⟩ := bind_ok h
        cases pure_ok h
        rw [transfTargets_module_id n hn b es es' hes]
    | b, .list es, t', h => by
        simp only [transfTarget] at h
        obtain ⟨es', hes, h⟩ := bind_ok h
        cases pure_ok h
        rw [transfTargets_module_id n hn b es es' hes]
    | b, .starred v, t', h => by
        simp only [transfTarget] at h
        obtain ⟨v', hv, h⟩ := bind_ok h
        cases pure_ok h
        rw [transfTarget_module_id n hn b v v' hv]
    | b, .attribute v a, t', h => by
        simp only [transfTarget] at h
        obtain ⟨v', hv, h⟩ := bind_ok h
        cases pure_ok h
        rw [transf_module_id n hn b v v' hv]
    | b, .subscript v s, t', h => by
        simp only [transfTarget] at h
        obtain ⟨v', hv, h⟩ := bind_ok h
        obtain ⟨s', hs, h⟩ := bind_ok h
        cases pure_ok h
        rw [transf_module_id n hn b v v' hv, transf_module_id n hn b s s' hs]
    | b, .const _, t', h => by simp only [transfTarget] at h; cases h; rfl
    | b, .joinedStr _, t', h => by simp only [transfTarget] at h; cases h; rfl
    | b, .formattedValue .., t', h => by simp only [transfTarget] at h; cases h; rfl
    | b, .set _, t', h => by simp only [transfTarget] at h; cases h; rfl
    | b, .dict _, t', h => by simp only [transfTarget] at h; cases h; rfl
    | b, .slice .., t', h => by simp only [transfTarget] at h; cases h; rfl
    | b, .call .., t', h => by simp only [transfTarget] at h; cases h; rfl
    | b, .binOp .., t', h => by simp only [transfTarget] at h; cases h; rfl
    | b, .boolOp .., t', h => by simp only [transfTarget] at h; cases h; rfl
    | b, .unaryOp .., t', h => by simp only [transfTarget] at h; cases h; rfl
    | b, .compare .., t', h => by simp only [transfTarget] at h; cases h; rfl
    | b, .ifExp .., t', h => by simp only [transfTarget] at h; cases h; rfl
    | b, .lambda .., t', h => by simp only [transfTarget] at h; cases h; rfl
    | b, .namedExpr .., t', h => by simp only [transfTarget] at h; cases h; rfl
    | b, .listComp .., t', h => by simp only [transfTarget] at h; cases h; rfl
    | b, .setComp .., t', h => by simp only [transfTarget] at h; cases h; rfl
    | b, .dictComp .., t', h => by simp only [transfTarget] at h; cases h; rfl
    | b, .generatorExp .., t', h => by simp only [transfTarget] at h; cases h; rfl
    | b, .yield_ _, t', h => by simp only [transfTarget] at h; cases h; rfl
    | b, .yieldFrom _, t', h => by simp only [transfTarget] at h; cases h; rfl
    | b, .await _, t', h => by simp only [transfTarget] at h; cases h; rfl
  termination_by structural _ x => x

  theorem transfTargets_module_id (n : Nsp) (hn : n.kind = .module) : ∀ (b : List String) (es es' : List Expr),
      transfTargets n b es = .ok es' → es' = es
    | b, [], es', h => by simp only [transfTargets] at h; cases h; rfl
    | b, e :: es, es', h => by
        simp only [transfTargets] at h
        obtain ⟨e', he, h⟩ := bind_ok h
        obtain ⟨es'', hes, h⟩ := bind_ok h
        cases pure_ok h
        rw [transfTarget_module_id n hn b e e' he, transfTargets_module_id n hn b es es'' hes]
  termination_by structural _ x => x
end

end OlVerif
