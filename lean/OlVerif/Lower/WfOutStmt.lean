/-
  Well-formedness of the conversion's output, part 2: statements, wrappers, the whole program.
-/
import OlVerif.Lower.WfOut
import OlVerif.Unparse.WFB

set_option linter.unusedVariables false
set_option linter.unusedSimpArgs false

namespace OlVerif

/-! ### source programs whose expressions are well-formed -/

mutual
  def wfS : Stmt → Prop
    | .expr v => wfE v
    | .if_ t b e => wfE t ∧ wfBlock b ∧ wfBlock e
    | .while_ t b e => wfE t ∧ wfBlock b ∧ wfBlock e
    | .for_ tg it b e => wfE tg ∧ wfE it ∧ wfBlock b ∧ wfBlock e
    | .break_ => True
    | .continue_ => True
    | .pass_ => True
    | .global_ _ => True
    | .nonlocal_ _ => True
    | .import_ _ => True
    | .importFrom .. => True
    | .assign ts v => wfL ts ∧ wfE v
    | .annAssign tg _ v => wfE tg ∧ wfO v
    | .augAssign tg _ v => wfE tg ∧ wfE v
    | .functionDef _ args body decos _ => wfA args ∧ wfBlock body ∧ wfL decos
    | .return_ v => wfO v
    | .classDef _ bases kws body decos _ => wfElts bases ∧ wfKws kws ∧ wfBlock body ∧ wfL decos
    | .other .. => True
  def wfBlock : List Stmt → Prop
    | [] => True
    | s :: ss => wfS s ∧ wfBlock ss
end

/-! ### templates -/

theorem wfE_intConstant (v : Int) : wfE (intConstant v) := by
  unfold intConstant
  split
  · simp only [wfE, wfC]; omega
  · simp only [wfE, wfC]; omega

theorem intConstant_not_tuple (v : Int) : ∀ es, intConstant v ≠ .tuple es := by
  intro es h; unfold intConstant at h; split at h <;> cases h

theorem wfE_getD {o : Option Expr} (h : wfO o) : wfE (o.getD Expr.none_) := by
  cases o with
  | none => exact wfE_none
  | some e => simp only [wfO] at h; exact h

theorem wfE_convertSlice {a b c : Option Expr} (ha : wfO a) (hb : wfO b) (hc : wfO c) : wfE (convertSlice a b c) :=
  wfE_call (wfE_name _) (wfL_cons (wfE_getD ha) (wfL_cons (wfE_getD hb) (wfL_cons (wfE_getD hc) wfL_nil)))

def cvElt (e : Expr) : Expr := match e with | .slice a b c => convertSlice a b c | e => e

theorem wfElts_map_cv_of_sliceElts : ∀ (es : List Expr), wfSliceElts es → wfElts (es.map cvElt)
  | [], _ => wfElts_nil
  | e :: es, h => by
      cases e with
      | slice a b c =>
        simp only [wfSliceElts] at h
        exact wfElts_cons (wfE_convertSlice h.1 h.2.1 h.2.2.1) (wfElts_map_cv_of_sliceElts es h.2.2.2)
      | starred v =>
        simp only [wfSliceElts] at h
        simp only [List.map, cvElt, wfElts]
        exact ⟨h.1, wfElts_map_cv_of_sliceElts es h.2⟩
      | _ =>
        simp only [wfSliceElts] at h
        exact wfElts_cons h.1 (wfElts_map_cv_of_sliceElts es h.2)

theorem wfElts_map_cv_of_elts : ∀ (es : List Expr), wfElts es → wfElts (es.map cvElt)
  | [], _ => wfElts_nil
  | e :: es, h => by
      cases e with
      | slice a b c => simp [wfElts, wfE] at h
      | starred v =>
        simp only [wfElts] at h
        simp only [List.map, cvElt, wfElts]
        exact ⟨h.1, wfElts_map_cv_of_elts es h.2⟩
      | _ =>
        simp only [wfElts] at h
        exact wfElts_cons h.1 (wfElts_map_cv_of_elts es h.2)

theorem wfE_convertIndex {s : Expr} (h : wfSlice s) : wfE (convertIndex s) := by
  cases s with
  | slice a b c =>
    simp only [wfSlice] at h
    exact wfE_convertSlice h.1 h.2.1 h.2.2
  | tuple es =>
    simp only [wfSlice] at h
    simp only [convertIndex, wfE]
    split at h
    · exact wfElts_map_cv_of_sliceElts es h
    · exact wfElts_map_cv_of_elts es h
  | starred _ => simp [wfSlice] at h
  | _ => simp only [wfSlice] at h; simpa only [convertIndex] using h

/-- the index of a subscript stays a well-formed index under the transformer -/
theorem transf_wfSlice {n : Nsp} {b : List String} {v v' s s' : Expr} (hv : transf n b v = .ok v')
    (hs : transf n b s = .ok s') (hw : wfE (.subscript v s)) : wfE v' ∧ wfSlice s' := by
  have : transf n b (.subscript v s) = .ok (.subscript v' s') := by
    simp only [transf, hv, hs]; rfl
  have := transf_wf n b _ _ this hw
  simpa only [wfE] using this

theorem wfE_setFlag (x : String) (v : Bool) : wfE (setFlag x v) := by
  unfold setFlag
  split
  · exact wfE_namedExpr _ wfE_true
  · exact wfE_namedExpr _ wfE_false

theorem wfA_simple (names : List String) : wfA (Arguments.simple names) := by
  simp [Arguments.simple, wfA, wfL, wfOL]
theorem wfA_empty : wfA Arguments.empty := by simp [Arguments.empty, wfA, wfL, wfOL]

theorem wfE_lambda {as : Arguments} {b : Expr} (ha : wfA as) (hb : wfE b) : wfE (.lambda as b) := by
  simp only [wfE]; exact ⟨ha, hb⟩

theorem wfE_augAssignExpr {t v f : Expr} (op : BinOpK) (ht : wfE t) (hv : wfE v) (hf : wfE f) :
    wfE (augAssignExpr t op v f) :=
  wfE_ifExp (wfE_call (wfE_name _) (wfL_cons ht (wfL_cons (wfE_str _) wfL_nil)))
    (wfE_call (wfE_attribute _ ht) (wfL_cons hv wfL_nil)) hf

theorem wfE_chainRunner : wfE chainRunner :=
  wfE_call (wfE_lambda wfA_empty (wfE_namedExpr _ (wfE_lambda (wfA_simple _) (wfE_name _)))) wfL_nil

theorem wfE_foldl_call : ∀ (es : List Expr) (acc : Expr), wfE acc → wfL es →
    wfE (es.foldl (fun acc x => .call acc [x] []) acc)
  | [], acc, ha, _ => ha
  | e :: es, acc, ha, h => by
      simp only [wfL] at h
      exact wfE_foldl_call es _ (wfE_call ha (wfL_cons h.1 wfL_nil)) h.2

theorem wfE_wrapExprs (cfg : Cfg) {es : List Expr} (h : wfL es) : wfE (wrapExprs cfg es) := by
  match es, h with
  | [], _ => exact wfE_ellipsis
  | [e], h => simp only [wfL] at h; exact h.1
  | e1 :: e2 :: es, h =>
    simp only [wrapExprs]
    split
    · exact wfE_list h
    · simp only [wfL] at h
      simp only [chainCallWrapper]
      exact wfE_foldl_call _ _ (wfE_call wfE_chainRunner (wfL_cons h.1 wfL_nil)) (wfL_cons h.2.1 h.2.2)

theorem wfE_iterWrapperBody : wfE iterWrapperBody :=
  wfEB_sound _ (by
    simp [iterWrapperBody, iterWrapperName, wfEB, wfEltsB, wfKwsB, wfItemsB, wfSliceB, wfAB, wfLB, wfOLB, wfCB,
      Arguments.simple, Expr.str, Expr.neg1, Expr.none_, Expr.false_])

theorem wfE_takewhileIter {t : Expr} (h : wfE t) : wfE (takewhileIter t) :=
  wfE_call (wfE_attribute _ (wfE_name _))
    (wfL_cons (wfE_lambda (wfA_simple _) h) (wfL_cons (wfE_call (wfE_attribute _ (wfE_name _)) wfL_nil) wfL_nil))

theorem wfE_brkSet (l : LoopCtx) : wfE l.brkSet := by
  unfold LoopCtx.brkSet
  split
  · exact wfE_setFlag _ _
  · exact wfE_call (wfE_name _) (wfL_cons (wfE_name _) (wfL_cons (wfE_str _) (wfL_cons wfE_true wfL_nil)))

theorem wfE_listComp1 {elt : Expr} (x : String) {it : Expr} (he : wfE elt) (hi : wfE it) :
    wfE (.listComp elt [.mk (.name x) it [] false]) := by
  simp only [wfE, wfG, wfL, targetKind]
  exact ⟨he, by simp, trivial, trivial, hi, trivial, trivial⟩

end OlVerif
