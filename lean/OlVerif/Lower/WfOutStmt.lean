/-
  Well-formedness of the conversion's output, part 2: statements, wrappers, the whole program.
-/
import OlVerif.Lower.WfOut
import OlVerif.Unparse.WFB

set_option linter.unusedVariables false
set_option linter.unusedSimpArgs false

namespace OlVerif

/-! ### source programs whose expressions are well-formed -/

mutual
  def wfS : Stmt → Prop
    | .expr v => wfE v
    | .if_ t b e => wfE t ∧ wfBlock b ∧ wfBlock e
    | .while_ t b e => wfE t ∧ wfBlock b ∧ wfBlock e
    | .for_ tg it b e => wfE tg ∧ wfE it ∧ wfBlock b ∧ wfBlock e
    | .break_ => True
    | .continue_ => True
    | .pass_ => True
    | .global_ _ => True
    | .nonlocal_ _ => True
    | .import_ _ => True
    | .importFrom .. => True
    | .assign ts v => wfL ts ∧ wfE v
    | .annAssign tg _ v => wfE tg ∧ wfO v
    | .augAssign tg _ v => wfE tg ∧ wfE v
    | .functionDef _ args body decos _ => wfA args ∧ wfBlock body ∧ wfL decos
    | .return_ v => wfO v
    | .classDef _ bases kws body decos _ => wfElts bases ∧ wfKws kws ∧ wfBlock body ∧ wfL decos
    | .other .. => True
  def wfBlock : List Stmt → Prop
    | [] => True
    | s :: ss => wfS s ∧ wfBlock ss
end

/-! ### templates -/

theorem wfE_intConstant (v : Int) : wfE (intConstant v) := by
  unfold intConstant
  split
  · simp only [wfE, wfC]; omega
  · simp only [wfE, wfC]; omega

theorem intConstant_not_tuple (v : Int) : ∀ es, intConstant v ≠ .tuple es := by
  intro es h; unfold intConstant at h; split at h <;> cases h

theorem wfE_getD {o : Option Expr} (h : wfO o) : wfE (o.getD Expr.none_) := by
  cases o with
  | none => exact wfE_none
  | some e => simp only [wfO] at h; exact h

theorem wfE_convertSlice {a b c : Option Expr} (ha : wfO a) (hb : wfO b) (hc : wfO c) : wfE (convertSlice a b c) :=
  wfE_call (wfE_name _) (wfL_cons (wfE_getD ha) (wfL_cons (wfE_getD hb) (wfL_cons (wfE_getD hc) wfL_nil)))

def cvElt (e : Expr) : Expr := match e with | .slice a b c => convertSlice a b c | e => e

theorem wfElts_map_cv_of_sliceElts : ∀ (es : List Expr), wfSliceElts es → wfElts (es.map cvElt)
  | [], _ => wfElts_nil
  | e :: es, h => by
      cases e with
      | slice a b c =>
        simp only [wfSliceElts] at h
        exact wfElts_cons (wfE_convertSlice h.1 h.2.1 h.2.2.1) (wfElts_map_cv_of_sliceElts es h.2.2.2)
      | starred v =>
        simp only [wfSliceElts] at h
        simp only [List.map, cvElt, wfElts]
        exact ⟨h.1, wfElts_map_cv_of_sliceElts es h.2⟩
      | _ =>
        simp only [wfSliceElts] at h
        exact wfElts_cons h.1 (wfElts_map_cv_of_sliceElts es h.2)

theorem wfElts_map_cv_of_elts : ∀ (es : List Expr), wfElts es → wfElts (es.map cvElt)
  | [], _ => wfElts_nil
  | e :: es, h => by
      cases e with
      | slice a b c => simp [wfElts, wfE] at h
      | starred v =>
        simp only [wfElts] at h
        simp only [List.map, cvElt, wfElts]
        exact ⟨h.1, wfElts_map_cv_of_elts es h.2⟩
      | _ =>
        simp only [wfElts] at h
        exact wfElts_cons h.1 (wfElts_map_cv_of_elts es h.2)

theorem wfE_convertIndex {s : Expr} (h : wfSlice s) : wfE (convertIndex s) := by
  cases s with
  | slice a b c =>
    simp only [wfSlice] at h
    exact wfE_convertSlice h.1 h.2.1 h.2.2
  | tuple es =>
    simp only [wfSlice] at h
    simp only [convertIndex, wfE]
    split at h
    · exact wfElts_map_cv_of_sliceElts es h
    · exact wfElts_map_cv_of_elts es h
  | starred _ => simp [wfSlice] at h
  | _ => simp only [wfSlice] at h; simpa only [convertIndex] using h

/-- the index of a subscript stays a well-formed index under the transformer -/
theorem transf_wfSlice {n : Nsp} {b : List String} {v v' s s' : Expr} (hv : transf n b v = .ok v')
    (hs : transf n b s = .ok s') (hw : wfE (.subscript v s)) : wfE v' ∧ wfSlice s' := by
  have : transf n b (.subscript v s) = .ok (.subscript v' s') := by
    simp only [transf, hv, hs]; rfl
  have := transf_wf n b _ _ this hw
  simpa only [wfE] using this

theorem wfE_setFlag (x : String) (v : Bool) : wfE (setFlag x v) := by
  unfold setFlag
  split
  · exact wfE_namedExpr _ wfE_true
  · exact wfE_namedExpr _ wfE_false

theorem wfA_simple (names : List String) : wfA (Arguments.simple names) := by
  simp [Arguments.simple, wfA, wfL, wfOL]
theorem wfA_empty : wfA Arguments.empty := by simp [Arguments.empty, wfA, wfL, wfOL]

theorem wfE_lambda {as : Arguments} {b : Expr} (ha : wfA as) (hb : wfE b) : wfE (.lambda as b) := by
  simp only [wfE]; exact ⟨ha, hb⟩

theorem wfE_augAssignExpr {t v : Expr} (op : BinOpK) (ht : wfE t) (hv : wfE v) : wfE (augAssignExpr t op v) :=
  wfE_call (wfE_attribute _ (wfE_call (wfE_name _) (wfL_cons (wfE_str _) wfL_nil))) (wfL_cons ht (wfL_cons hv wfL_nil))

theorem wfE_compare1 {a b : Expr} (op : CmpOpK) (ha : wfE a) (hb : wfE b) : wfE (.compare a [op] [b]) := by
  simp only [wfE, wfL]
  exact ⟨ha, rfl, by simp, hb, trivial⟩

theorem wfE_hookWrap {f : Expr} (h : wfE f) : wfE (hookWrap f) :=
  wfE_call (wfE_lambda (wfA_simple _) (wfE_ifExp
      (wfE_compare1 _ (wfE_call (wfE_name _) (wfL_cons (wfE_name _) wfL_nil))
        (wfE_call (wfE_name _) (wfL_cons (wfE_lambda wfA_empty (wfE_nat 0)) wfL_nil)))
      (wfE_call (wfE_name _) (wfL_cons (wfE_name _) wfL_nil)) (wfE_name _)))
    (wfL_cons h wfL_nil)

theorem wfE_chainRunner : wfE chainRunner :=
  wfE_call (wfE_lambda wfA_empty (wfE_namedExpr _ (wfE_lambda (wfA_simple _) (wfE_name _)))) wfL_nil

theorem wfE_foldl_call : ∀ (es : List Expr) (acc : Expr), wfE acc → wfL es →
    wfE (es.foldl (fun acc x => .call acc [x] []) acc)
  | [], acc, ha, _ => ha
  | e :: es, acc, ha, h => by
      simp only [wfL] at h
      exact wfE_foldl_call es _ (wfE_call ha (wfL_cons h.1 wfL_nil)) h.2

theorem wfE_wrapExprs (cfg : Cfg) {es : List Expr} (h : wfL es) : wfE (wrapExprs cfg es) := by
  match es, h with
  | [], _ => exact wfE_ellipsis
  | [e], h => simp only [wfL] at h; exact h.1
  | e1 :: e2 :: es, h =>
    simp only [wrapExprs]
    split
    · exact wfE_list h
    · simp only [wfL] at h
      simp only [chainCallWrapper]
      exact wfE_foldl_call _ _ (wfE_call wfE_chainRunner (wfL_cons h.1 wfL_nil)) (wfL_cons h.2.1 h.2.2)

theorem wfE_iterWrapperBody : wfE iterWrapperBody :=
  wfEB_sound _ (by
    simp [iterWrapperBody, iterWrapperName, wfEB, wfEltsB, wfKwsB, wfItemsB, wfSliceB, wfAB, wfLB, wfOLB, wfCB,
      Arguments.simple, Expr.str, Expr.neg1, Expr.none_, Expr.false_])

theorem wfE_takewhileIter {t : Expr} (h : wfE t) : wfE (takewhileIter t) :=
  wfE_call (wfE_attribute _ (wfE_name _))
    (wfL_cons (wfE_lambda (wfA_simple _) h) (wfL_cons (wfE_call (wfE_attribute _ (wfE_name _)) wfL_nil) wfL_nil))

theorem wfE_brkSet (l : LoopCtx) : wfE l.brkSet := by
  unfold LoopCtx.brkSet
  split
  · exact wfE_setFlag _ _
  · exact wfE_call (wfE_name _) (wfL_cons (wfE_name _) (wfL_cons (wfE_str _) (wfL_cons wfE_true wfL_nil)))

theorem wfE_listComp1 {elt : Expr} (x : String) {it : Expr} (he : wfE elt) (hi : wfE it) :
    wfE (.listComp elt [.mk (.name x) it [] false]) := by
  simp only [wfE, wfG, wfL, targetKind]
  exact ⟨he, by simp, trivial, trivial, hi, trivial, trivial⟩


/-! ### assignment targets -/

theorem wfElts_head {e : Expr} {es : List Expr} (h : wfElts (e :: es)) : wfElts [e] ∧ wfElts es := by
  cases e <;> (simp only [wfElts] at h ⊢; exact ⟨⟨h.1, trivial⟩, h.2⟩)

theorem wfElts_single {e : Expr} (h : wfE e) : wfElts [e] := wfElts_cons h wfElts_nil

theorem wfE_of_wfElts_single {e : Expr} (h : wfElts [e]) (hn : ∀ v, e ≠ .starred v) : wfE e := by
  cases e <;> first | (exact absurd rfl (hn _)) | (simp only [wfElts] at h; exact h.1)

mutual
  theorem assignAuto_wf (n : Nsp) : ∀ (inP : Bool) (t v : Expr) (st : St) (es : List Expr) (st' : St),
      assignAuto n inP t v st = .ok (es, st') → wfElts [t] → wfE v → wfL es
    | inP, .name id, v, st, es, st', h, _, hv => by
        simp only [assignAuto] at h
        obtain ⟨r, hr, h⟩ := bind_ok h
        cases pure_ok h
        exact wfL_cons (getAssign_wf hr hv) wfL_nil
    | inP, .attribute o a, v, st, es, st', h, ht, hv => by
        have ht' := wfE_of_wfElts_single ht (by intro v h; cases h)
        simp only [wfE] at ht'
        simp only [assignAuto] at h
        obtain ⟨o', ho, h⟩ := bind_ok h
        cases pure_ok h
        exact wfL_cons (wfE_call (wfE_name _)
          (wfL_cons (transf_wf n [] o o' ho ht') (wfL_cons (wfE_str a) (wfL_cons hv wfL_nil)))) wfL_nil
    | inP, .subscript o s, v, st, es, st', h, ht, hv => by
        have ht' := wfE_of_wfElts_single ht (by intro v h; cases h)
        simp only [assignAuto] at h
        obtain ⟨s', hs, h⟩ := bind_ok h
        obtain ⟨o', ho, h⟩ := bind_ok h
        cases pure_ok h
        have := transf_wfSlice ho hs ht'
        exact wfL_cons (wfE_call (wfE_attribute _ this.1)
          (wfL_cons (wfE_convertIndex this.2) (wfL_cons hv wfL_nil))) wfL_nil
    | inP, .tuple ts, v, st, es, st', h, ht, hv => by
        have ht' := wfE_of_wfElts_single ht (by intro v h; cases h)
        simp only [wfE] at ht'
        simp only [assignAuto] at h
        obtain ⟨⟨rest, st2⟩, hr, h⟩ := bind_ok h
        cases pure_ok h
        exact wfL_cons (wfE_namedExpr _ (wfE_call (wfE_name _) (wfL_cons hv wfL_nil)))
          (assignElts_wf n _ _ _ _ ts _ rest st2 hr ht')
    | inP, .list ts, v, st, es, st', h, ht, hv => by
        have ht' := wfE_of_wfElts_single ht (by intro v h; cases h)
        simp only [wfE] at ht'
        simp only [assignAuto] at h
        obtain ⟨⟨rest, st2⟩, hr, h⟩ := bind_ok h
        cases pure_ok h
        exact wfL_cons (wfE_namedExpr _ (wfE_call (wfE_name _) (wfL_cons hv wfL_nil)))
          (assignElts_wf n _ _ _ _ ts _ rest st2 hr ht')
    | inP, .starred sub, v, st, es, st', h, ht, hv => by
        simp only [wfElts] at ht
        simp only [assignAuto] at h
        split at h
        · exact assignAuto_wf n false sub v st es st' h (wfElts_single ht.1) hv
        · cases h
    | inP, .const _, v, st, es, st', h, _, _ => by simp only [assignAuto] at h; cases h
    | inP, .joinedStr _, v, st, es, st', h, _, _ => by simp only [assignAuto] at h; cases h
    | inP, .formattedValue .., v, st, es, st', h, _, _ => by simp only [assignAuto] at h; cases h
    | inP, .set _, v, st, es, st', h, _, _ => by simp only [assignAuto] at h; cases h
    | inP, .dict _, v, st, es, st', h, _, _ => by simp only [assignAuto] at h; cases h
    | inP, .slice .., v, st, es, st', h, _, _ => by simp only [assignAuto] at h; cases h
    | inP, .call .., v, st, es, st', h, _, _ => by simp only [assignAuto] at h; cases h
    | inP, .binOp .., v, st, es, st', h, _, _ => by simp only [assignAuto] at h; cases h
    | inP, .boolOp .., v, st, es, st', h, _, _ => by simp only [assignAuto] at h; cases h
    | inP, .unaryOp .., v, st, es, st', h, _, _ => by simp only [assignAuto] at h; cases h
    | inP, .compare .., v, st, es, st', h, _, _ => by simp only [assignAuto] at h; cases h
    | inP, .ifExp .., v, st, es, st', h, _, _ => by simp only [assignAuto] at h; cases h
    | inP, .lambda .., v, st, es, st', h, _, _ => by simp only [assignAuto] at h; cases h
    | inP, .namedExpr .., v, st, es, st', h, _, _ => by simp only [assignAuto] at h; cases h
    | inP, .listComp .., v, st, es, st', h, _, _ => by simp only [assignAuto] at h; cases h
    | inP, .setComp .., v, st, es, st', h, _, _ => by simp only [assignAuto] at h; cases h
    | inP, .dictComp .., v, st, es, st', h, _, _ => by simp only [assignAuto] at h; cases h
    | inP, .generatorExp .., v, st, es, st', h, _, _ => by simp only [assignAuto] at h; cases h
    | inP, .yield_ _, v, st, es, st', h, _, _ => by simp only [assignAuto] at h; cases h
    | inP, .yieldFrom _, v, st, es, st', h, _, _ => by simp only [assignAuto] at h; cases h
    | inP, .await _, v, st, es, st', h, _, _ => by simp only [assignAuto] at h; cases h

  theorem assignElts_wf (n : Nsp) : ∀ (tmp : String) (len index : Nat) (hs : Bool) (ts : List Expr) (st : St)
      (es : List Expr) (st' : St), assignElts n tmp len index hs ts st = .ok (es, st') → wfElts ts → wfL es
    | tmp, len, index, hs, [], st, es, st', h, _ => by
        simp only [assignElts] at h; cases h; exact wfL_nil
    | tmp, len, index, hs, t :: ts, st, es, st', h, ht => by
        have hh := wfElts_head ht
        simp only [assignElts] at h
        split at h
        · cases h
        · obtain ⟨⟨a, st1⟩, ha, h⟩ := bind_ok h
          obtain ⟨⟨b, st2⟩, hb, h⟩ := bind_ok h
          cases pure_ok h
          refine wfL_append (assignAuto_wf n true t _ st a st1 ha hh.1 ?_) (assignElts_wf n tmp len _ _ ts st1 b st2 hb hh.2)
          split
          · refine wfE_call (wfE_name _) (wfL_cons ?_ wfL_nil)
            have hup : wfO (if (index : Int) - (len : Int) + 1 = 0 then none else some (intConstant ((index : Int) - (len : Int) + 1))) := by
              split
              · simp only [wfO]
              · simp only [wfO]; exact wfE_intConstant _
            simp only [wfE, wfSlice]
            exact ⟨trivial, by simp only [wfO]; exact wfE_nat index, hup, by simp only [wfO]⟩
          · exact wfE_subscript (wfE_name _) (wfE_intConstant _) (intConstant_not_tuple _)
end

theorem assignTargets_wf (n : Nsp) (v : Expr) (hv : wfE v) : ∀ (ts : List Expr) (st : St) (es : List Expr) (st' : St),
    assignTargets n v ts st = .ok (es, st') → wfL ts → wfL es
  | [], st, es, st', h, _ => by simp only [assignTargets] at h; cases h; exact wfL_nil
  | t :: ts, st, es, st', h, ht => by
      simp only [wfL] at ht
      simp only [assignTargets] at h
      obtain ⟨⟨a, st1⟩, ha, h⟩ := bind_ok h
      obtain ⟨⟨b, st2⟩, hb, h⟩ := bind_ok h
      cases pure_ok h
      exact wfL_append (assignAuto_wf n false t v st a st1 ha (wfElts_single ht.1) hv)
        (assignTargets_wf n v hv ts st1 b st2 hb ht.2)


/-! ### simple statements -/

theorem lowerAugAssign_wf (n : Nsp) (tg : Expr) (op : BinOpK) (v : Expr) (st : St) (es : List Expr) (st' : St)
    (h : lowerAugAssign n tg op v st = .ok (es, st')) (ht : wfE tg) (hv : wfE v) : wfL es := by
  unfold lowerAugAssign at h
  simp only [] at h
  obtain ⟨v', hv', h⟩ := bind_ok h
  have hwv := transf_wf n [] v v' hv' hv
  cases tg with
  | name id =>
    simp only [] at h
    obtain ⟨t, ht', h⟩ := bind_ok h
    obtain ⟨r, hr, h⟩ := bind_ok h
    cases pure_ok h
    have hwt := getLoad_wf ht'
    exact wfL_cons (getAssign_wf hr (wfE_augAssignExpr op hwt hwv)) wfL_nil
  | subscript tv ts =>
    simp only [] at h
    obtain ⟨parent, hp, h⟩ := bind_ok h
    obtain ⟨sl, hsl, h⟩ := bind_ok h
    cases pure_ok h
    have := transf_wfSlice hp hsl ht
    have hbody := wfE_augAssignExpr op (wfE_name (st.fresh "augass").1) hwv
    have h3 : wfE (Expr.subscript (.name (((st.fresh "augass").2.fresh "sllice").2.fresh "augobj").1)
        (.name ((st.fresh "augass").2.fresh "sllice").1)) :=
      wfE_subscript (wfE_name _) (wfE_name _) (by intro es he; cases he)
    have h4 := wfE_call (wfE_attribute "__setitem__" (wfE_name (((st.fresh "augass").2.fresh "sllice").2.fresh "augobj").1))
      (wfL_cons (wfE_name ((st.fresh "augass").2.fresh "sllice").1) (wfL_cons hbody wfL_nil))
    exact wfL_cons (wfE_namedExpr _ this.1) (wfL_cons (wfE_namedExpr _ (wfE_convertIndex this.2))
      (wfL_cons (wfE_namedExpr _ h3) (wfL_cons h4 wfL_nil)))
  | «attribute» tv a =>
    simp only [wfE] at ht
    simp only [] at h
    obtain ⟨parent, hp, h⟩ := bind_ok h
    cases pure_ok h
    have hbody := wfE_augAssignExpr op (wfE_name (st.fresh "augass").1) hwv
    have h3 := wfE_call (wfE_name "setattr") (wfL_cons (wfE_name ((st.fresh "augass").2.fresh "augobj").1)
      (wfL_cons (wfE_str a) (wfL_cons hbody wfL_nil)))
    exact wfL_cons (wfE_namedExpr _ (transf_wf n [] tv parent hp ht))
      (wfL_cons (wfE_namedExpr _ (wfE_attribute _ (wfE_name _))) (wfL_cons h3 wfL_nil))
  | _ => simp only [] at h; cases h

theorem lowerImport_wf (n : Nsp) : ∀ (as : List Alias) (es : List Expr), lowerImport n as = .ok es → wfL es
  | [], es, h => by simp only [lowerImport] at h; cases h; exact wfL_nil
  | a :: as, es, h => by
      simp only [lowerImport] at h
      split at h
      · obtain ⟨e, he, h⟩ := bind_ok h
        obtain ⟨rest, hr, h⟩ := bind_ok h
        cases pure_ok h
        exact wfL_cons (getAssign_wf he (wfE_call (wfE_name _) (wfL_cons (wfE_str _) wfL_nil))) (lowerImport_wf n as rest hr)
      · obtain ⟨e, he, h⟩ := bind_ok h
        obtain ⟨rest, hr, h⟩ := bind_ok h
        cases pure_ok h
        exact wfL_cons (getAssign_wf he (wfE_call (wfE_attribute _ (wfE_name _)) (wfL_cons (wfE_str _) wfL_nil)))
          (lowerImport_wf n as rest hr)

theorem lowerImportFromNames_wf (n : Nsp) (tmp : String) : ∀ (as : List Alias) (es : List Expr),
    lowerImportFromNames n tmp as = .ok es → wfL es
  | [], es, h => by simp only [lowerImportFromNames] at h; cases h; exact wfL_nil
  | a :: as, es, h => by
      simp only [lowerImportFromNames] at h
      split at h
      · cases h
      · obtain ⟨e, he, h⟩ := bind_ok h
        obtain ⟨rest, hr, h⟩ := bind_ok h
        cases pure_ok h
        exact wfL_cons (getAssign_wf he (wfE_attribute _ (wfE_name _))) (lowerImportFromNames_wf n tmp as rest hr)

theorem wfL_map_str {α : Type} (f : α → String) : ∀ (l : List α), wfL (l.map fun a => Expr.str (f a))
  | [] => wfL_nil
  | a :: l => wfL_cons (wfE_str _) (wfL_map_str f l)

theorem lowerImportFrom_wf (n : Nsp) (m : Option String) (names : List Alias) (level : Nat) (st : St)
    (es : List Expr) (st' : St) (h : lowerImportFrom n m names level st = .ok (es, st')) : wfL es := by
  unfold lowerImportFrom at h
  simp only [] at h
  obtain ⟨rest, hr, h⟩ := bind_ok h
  cases pure_ok h
  refine wfL_cons (wfE_namedExpr _ (wfE_call (wfE_name _) ?_)) (lowerImportFromNames_wf n _ names rest hr)
  exact wfL_cons (wfE_str _) (wfL_cons (wfE_call (wfE_name _) wfL_nil) (wfL_cons (wfE_call (wfE_name _) wfL_nil)
    (wfL_cons (wfE_list (wfL_map_str (fun a : Alias => a.name) names)) (wfL_cons (wfE_nat level) wfL_nil))))

theorem applyDecorators_wf (n : Nsp) : ∀ (ds : List Expr) (body r : Expr), applyDecorators n ds body = .ok r →
    wfL ds → wfE body → wfE r
  | [], body, r, h, _, hb => by simp only [applyDecorators] at h; cases h; exact hb
  | d :: ds, body, r, h, hd, hb => by
      simp only [wfL] at hd
      simp only [applyDecorators] at h
      obtain ⟨inner, hi, h⟩ := bind_ok h
      obtain ⟨d', hd', h⟩ := bind_ok h
      cases pure_ok h
      exact wfE_call (transf_wf n [] d d' hd' hd.1) (wfL_cons (applyDecorators_wf n ds body inner hi hd.2 hb) wfL_nil)

theorem classKeywords_wf (n : Nsp) : ∀ (ks : List Keyword) (m : Option Expr) (rest : List Keyword),
    classKeywords n ks = .ok (m, rest) → wfKws ks → wfO m ∧ wfKws rest
  | [], m, rest, h, _ => by
      simp only [classKeywords] at h; cases h
      exact ⟨by simp only [wfO], wfKws_nil⟩
  | .mk a v :: ks, m, rest, h, hk => by
      simp only [wfKws] at hk
      simp only [classKeywords] at h
      obtain ⟨v', hv, h⟩ := bind_ok h
      obtain ⟨⟨m0, rest0⟩, hr, h⟩ := bind_ok h
      have ih := classKeywords_wf n ks m0 rest0 hr hk.2
      have hv' := transf_wf n [] v v' hv hk.1
      simp only [] at h
      split at h
      · cases pure_ok h
        refine ⟨?_, ih.2⟩
        simp only [wfO]
        cases m0 with
        | none => exact hv'
        | some e => have := ih.1; simp only [wfO] at this; exact this
      · cases pure_ok h
        refine ⟨ih.1, ?_⟩
        simp only [wfKws]
        exact ⟨hv', ih.2⟩

theorem lowerFunctionHead_wf (n : Nsp) (a a' : Arguments) (h : lowerFunctionHead n a = .ok a') (hw : wfA a) : wfA a' := by
  obtain ⟨po, as, va, ko, kd, kw, ds⟩ := a
  simp only [wfA] at hw
  simp only [lowerFunctionHead] at h
  obtain ⟨ds', hds, h⟩ := bind_ok h
  obtain ⟨kd', hkd, h⟩ := bind_ok h
  cases pure_ok h
  simp only [wfA]
  refine ⟨?_, ?_, transfList_wfL n [] ds ds' hds hw.2.2.1, transfOptList_wf n [] kd kd' hkd hw.2.2.2⟩
  · rw [transfList_len n [] ds ds' hds]; exact hw.1
  · rw [transfOptList_len n [] kd kd' hkd]; exact hw.2.1

theorem wfItems_params : ∀ (ps : List String), wfItems (ps.map fun p => DictItem.mk (some (Expr.str p)) (.name p))
  | [] => by simp only [List.map, wfItems]
  | p :: ps => by
      simp only [List.map, wfItems]
      exact ⟨wfE_str p, wfE_name p, wfItems_params ps⟩

theorem wfL_map_of {α : Type} (f : α → Expr) (hf : ∀ a, wfE (f a)) : ∀ (l : List α), wfL (l.map f)
  | [] => wfL_nil
  | a :: l => wfL_cons (hf a) (wfL_map_of f hf l)

theorem wfL_ite (c : Prop) [Decidable c] {a b : List Expr} (ha : wfL a) (hb : wfL b) : wfL (if c then a else b) := by
  split <;> assumption


/-! ### statements and blocks -/

theorem ite_ok {α : Type} {c : Prop} [Decidable c] {a b : Except Err α} {r : α}
    (h : (if c then a else b) = .ok r) : a = .ok r ∨ b = .ok r := by
  split at h
  · exact Or.inl h
  · exact Or.inr h

theorem wfE_listCompG {elt t it : Expr} (he : wfE elt) (hk : targetKind t = true) (ht : wfE t) (hi : wfE it) :
    wfE (.listComp elt [.mk t it [] false]) := by
  simp only [wfE, wfG, wfL]
  exact ⟨he, by simp, hk, ht, hi, trivial, trivial⟩

theorem wfE_ite (c : Prop) [Decidable c] {a b : Expr} (ha : wfE a) (hb : wfE b) : wfE (if c then a else b) := by
  split <;> assumption

theorem wfE_getD' {o : Option Expr} {d : Expr} (h : wfO o) (hd : wfE d) : wfE (o.getD d) := by
  cases o with
  | none => exact hd
  | some e => simp only [wfO] at h; exact h

theorem wfE_guard (cfg : Cfg) (flag : String) {rest : List Expr} (h : wfL rest) :
    wfE (.ifExp (Expr.not_ (.name flag)) (wrapExprs cfg rest) Expr.ellipsis) :=
  wfE_ifExp (wfE_not (wfE_name _)) (wfE_wrapExprs cfg h) wfE_ellipsis

mutual
  theorem lowerStmt_wf : ∀ (s : Stmt) (cx : Ctx) (st : St) (es : List Expr) (st' : St),
      lowerStmt cx s st = .ok (es, st') → wfS s → wfL es
    | .expr v, cx, st, es, st', h, hw => by
        simp only [wfS] at hw
        simp only [lowerStmt] at h
        obtain ⟨v', hv, h⟩ := bind_ok h
        cases pure_ok h
        exact wfL_cons (transf_wf cx.nsp [] v v' hv hw) wfL_nil
    | .pass_, cx, st, es, st', h, _ => by
        simp only [lowerStmt] at h; cases h; exact wfL_cons wfE_ellipsis wfL_nil
    | .global_ _, cx, st, es, st', h, _ => by simp only [lowerStmt] at h; cases h; exact wfL_nil
    | .nonlocal_ _, cx, st, es, st', h, _ => by simp only [lowerStmt] at h; cases h; exact wfL_nil
    | .break_, cx, st, es, st', h, _ => by
        simp only [lowerStmt] at h
        split at h
        · cases h
        · cases h
          exact wfL_cons (wfE_list (wfL_append (wfL_cons (wfE_brkSet _) wfL_nil)
            (wfL_ite _ (wfL_cons (wfE_setFlag _ _) wfL_nil) wfL_nil))) wfL_nil
    | .continue_, cx, st, es, st', h, _ => by
        simp only [lowerStmt] at h
        split at h
        · cases h
        · cases h
          exact wfL_cons (wfE_list (wfL_ite _ (wfL_cons (wfE_setFlag _ _) wfL_nil) wfL_nil)) wfL_nil
    | .return_ v, cx, st, es, st', h, hw => by
        simp only [wfS] at hw
        simp only [lowerStmt] at h
        split at h
        · cases h
        · have tail : ∀ rv, wfL rv → wfL [Expr.list (rv ++ cx.loops.map LoopCtx.brkSet ++
              ((cx.loops.reverse.filter (·.used)).map fun l => setFlag l.intr true) ++
              (if cx.fnUsed then [setFlag cx.nsp.retName true] else []))] := by
            intro rv hrvw
            refine wfL_cons (wfE_list ?_) wfL_nil
            exact wfL_append (wfL_append (wfL_append hrvw (wfL_map_of _ wfE_brkSet _))
              (wfL_map_of _ (fun l => wfE_setFlag _ _) _)) (wfL_ite _ (wfL_cons (wfE_setFlag _ _) wfL_nil) wfL_nil)
          cases v with
          | none =>
            simp only [] at h
            obtain ⟨rv, hrv, h⟩ := bind_ok h
            cases pure_ok hrv
            cases pure_ok h
            exact tail [] wfL_nil
          | some e =>
            simp only [wfO] at hw
            simp only [] at h
            obtain ⟨e', he, h⟩ := bind_ok h
            obtain ⟨rv, hrv, h⟩ := bind_ok h
            cases pure_ok hrv
            cases pure_ok h
            exact tail _ (wfL_cons (wfE_namedExpr _ (transf_wf cx.nsp [] e e' he hw)) wfL_nil)
    | .if_ t b e, cx, st, es, st', h, hw => by
        simp only [wfS] at hw
        simp only [lowerStmt] at h
        obtain ⟨⟨b', st1⟩, hb, h⟩ := bind_ok h
        obtain ⟨⟨o', st2⟩, ho, h⟩ := bind_ok h
        obtain ⟨t', ht, h⟩ := bind_ok h
        have hbw := wfE_wrapExprs cx.cfg (lowerBlock_wf b cx st b' st1 hb hw.2.1)
        have how := wfE_wrapExprs cx.cfg (lowerBlock_wf e cx st1 o' st2 ho hw.2.2)
        have htw := transf_wf cx.nsp [] t t' ht hw.1
        simp only [] at h
        split at h
        · split at h
          · cases pure_ok h
            exact wfL_cons (wfE_boolOp2 _ htw hbw) wfL_nil
          · cases pure_ok h
            exact wfL_cons (wfE_boolOp2 _ (wfE_boolOp2 _ htw (wfE_list (wfL_cons hbw wfL_nil))) how) wfL_nil
        · cases pure_ok h
          exact wfL_cons (wfE_ifExp htw hbw how) wfL_nil
    | .while_ t b e, cx, st, es, st', h, hw => by
        simp only [wfS] at hw
        simp only [lowerStmt] at h
        obtain ⟨⟨b', st1⟩, hb, h⟩ := bind_ok h
        obtain ⟨⟨o', st2⟩, ho, h⟩ := bind_ok h
        obtain ⟨t', ht, h⟩ := bind_ok h
        cases pure_ok h
        have hbw := lowerBlock_wf b _ _ b' st1 hb hw.2.1
        have how := lowerBlock_wf e cx _ o' st2 ho hw.2.2
        have htw := transf_wf cx.nsp [] t t' ht hw.1
        refine wfL_append (wfL_append (wfL_ite _ (wfL_cons (wfE_setFlag _ _) wfL_nil) wfL_nil) (wfL_cons ?_ wfL_nil))
          (wfL_ite _ wfL_nil (wfL_cons ?_ wfL_nil))
        · exact wfE_listComp1 _ (wfE_wrapExprs _ (wfL_append (wfL_ite _ (wfL_cons (wfE_setFlag _ _) wfL_nil) wfL_nil) hbw))
            (wfE_takewhileIter (wfE_ite _ (wfE_boolOp2 _ (wfE_not (wfE_name _)) htw) htw))
        · exact wfE_ite _ (wfE_guard _ _ how) (wfE_wrapExprs _ how)
    | .for_ tg it b e, cx, st, es, st', h, hw => by
        simp only [wfS] at hw
        simp only [lowerStmt] at h
        obtain ⟨⟨b', st1⟩, hb, h⟩ := bind_ok h
        obtain ⟨⟨o', st2⟩, ho, h⟩ := bind_ok h
        obtain ⟨⟨asg, st3⟩, ha, h⟩ := bind_ok h
        obtain ⟨itr, hi, h⟩ := bind_ok h
        have hbw := lowerBlock_wf b _ _ b' st1 hb hw.2.2.1
        have how := lowerBlock_wf e cx _ o' st2 ho hw.2.2.2
        have hasg := assignAuto_wf cx.nsp false tg _ _ asg st3 ha (wfElts_single hw.1) (wfE_name _)
        have hiw := transf_wf cx.nsp [] it itr hi hw.2.1
        rcases ite_ok h with h | h
        · cases pure_ok h
          exact wfL_cons (wfE_listComp1 _ (wfE_wrapExprs _ (wfL_append hasg hbw)) hiw) wfL_nil
        · cases pure_ok h
          refine wfL_append (wfL_append (wfL_ite _ (wfL_cons (wfE_namedExpr _ (wfE_call (wfE_name _) (wfL_cons hiw wfL_nil))) wfL_nil) wfL_nil)
            (wfL_cons ?_ wfL_nil)) (wfL_ite _ wfL_nil (wfL_cons ?_ wfL_nil))
          · exact wfE_listComp1 _ (wfE_wrapExprs _ (wfL_append (wfL_ite _ (wfL_cons (wfE_setFlag _ _) wfL_nil) wfL_nil)
              (wfL_append hasg hbw))) (wfE_ite _ (wfE_name _) hiw)
          · exact wfE_ite _ (wfE_ifExp (wfE_not (wfE_attribute _ (wfE_name _))) (wfE_wrapExprs _ how) wfE_ellipsis)
              (wfE_wrapExprs _ how)
    | .assign ts v, cx, st, es, st', h, hw => by
        simp only [wfS] at hw
        simp only [lowerStmt] at h
        obtain ⟨v', hv, h⟩ := bind_ok h
        have hvw := transf_wf cx.nsp [] v v' hv hw.2
        rcases ite_ok h with h | h
        · obtain ⟨⟨r, st1⟩, hr, h⟩ := bind_ok h
          cases pure_ok h
          exact wfL_cons (wfE_namedExpr _ hvw) (assignTargets_wf cx.nsp _ (wfE_name _) ts _ r st1 hr hw.1)
        · exact assignTargets_wf cx.nsp v' hvw ts st es st' h hw.1
    | .annAssign tg ann v, cx, st, es, st', h, hw => by
        simp only [wfS] at hw
        cases v with
        | none => simp only [lowerStmt] at h; cases h; exact wfL_nil
        | some v =>
          simp only [wfO] at hw
          simp only [lowerStmt] at h
          obtain ⟨v', hv, h⟩ := bind_ok h
          have hvw := transf_wf cx.nsp [] v v' hv hw.2
          rcases ite_ok h with h | h
          · obtain ⟨⟨r, st1⟩, hr, h⟩ := bind_ok h
            cases pure_ok h
            exact wfL_cons (wfE_namedExpr _ hvw) (assignAuto_wf cx.nsp false tg _ _ r st1 hr (wfElts_single hw.1) (wfE_name _))
          · exact assignAuto_wf cx.nsp false tg v' st es st' h (wfElts_single hw.1) hvw
    | .augAssign tg op v, cx, st, es, st', h, hw => by
        simp only [wfS] at hw
        simp only [lowerStmt] at h
        exact lowerAugAssign_wf cx.nsp tg op v st es st' h hw.1 hw.2
    | .import_ names, cx, st, es, st', h, _ => by
        simp only [lowerStmt] at h
        obtain ⟨r, hr, h⟩ := bind_ok h
        cases pure_ok h
        exact lowerImport_wf cx.nsp names _ hr
    | .importFrom m names level, cx, st, es, st', h, _ => by
        simp only [lowerStmt] at h
        exact lowerImportFrom_wf cx.nsp m names level st es st' h
    | .functionDef name args body decos lineno, cx, st, es, st', h, hw => by
        simp only [wfS] at hw
        simp only [lowerStmt] at h
        obtain ⟨inner, hin, h⟩ := bind_ok h
        obtain ⟨args', ha, h⟩ := bind_ok h
        obtain ⟨⟨b', st1⟩, hb, h⟩ := bind_ok h
        obtain ⟨lam, hl, h⟩ := bind_ok h
        obtain ⟨r, hr, h⟩ := bind_ok h
        cases pure_ok h
        have hbw := lowerBlock_wf body _ _ b' st1 hb hw.2.1
        have haw := lowerFunctionHead_wf cx.nsp args args' ha hw.1
        refine wfL_cons (getAssign_wf hr (wfE_ite _ (wfE_hookWrap ?_) ?_)) wfL_nil
        all_goals
          refine applyDecorators_wf cx.nsp decos _ lam hl hw.2.2 (wfE_lambda haw (wfE_subscript (wfE_list ?_) wfE_neg1 (by intro es he; cases he)))
          refine wfL_append (wfL_append ?_ ?_) (wfL_cons (wfE_name _) wfL_nil)
          · exact wfL_append (wfL_append (wfL_append (wfL_cons (wfE_namedExpr _ wfE_none) wfL_nil)
              (wfL_ite _ (wfL_cons (wfE_name _) wfL_nil) wfL_nil)) (wfL_ite _ (wfL_cons (wfE_setFlag _ _) wfL_nil) wfL_nil))
              (wfL_ite _ wfL_nil (wfL_cons (wfE_namedExpr _ (by simp only [wfE]; exact wfItems_params _)) wfL_nil))
          · cases cx.cfg.wrapper with
            | list => exact hbw
            | chainCall => exact wfL_cons (wfE_wrapExprs _ hbw) wfL_nil
    | .classDef name bases kws body decos lineno, cx, st, es, st', h, hw => by
        simp only [wfS] at hw
        simp only [lowerStmt] at h
        obtain ⟨inner, hin, h⟩ := bind_ok h
        obtain ⟨⟨b', st1⟩, hb, h⟩ := bind_ok h
        obtain ⟨bases', hbs, h⟩ := bind_ok h
        obtain ⟨⟨metaE, kws'⟩, hk, h⟩ := bind_ok h
        obtain ⟨create, hc, h⟩ := bind_ok h
        obtain ⟨self, hs, h⟩ := bind_ok h
        obtain ⟨self2, hs2, h⟩ := bind_ok h
        have hbw := lowerBlock_wf body _ _ b' st1 hb hw.2.2.1
        have hbases := transfList_wfElts cx.nsp [] bases bases' hbs hw.1
        have hkw := classKeywords_wf cx.nsp kws metaE kws' hk hw.2.1
        have hcreate : wfE create := by
          refine getAssign_wf hc ?_
          simp only [wfE]
          refine ⟨wfE_getD' hkw.1 (wfE_name _), ?_, hkw.2⟩
          exact wfElts_cons (wfE_str _) (wfElts_cons (by simp only [wfE]; exact hbases)
            (wfElts_cons (by simp only [wfE, wfItems]) wfElts_nil))
        have hload : wfE (Expr.namedExpr (st1.fresh "loader").1 (.lambda Arguments.empty (.subscript (.list
            ([.namedExpr "__class__" self, .namedExpr inner.dictName (.dict [])] ++ b' ++ [.name inner.dictName])) Expr.neg1))) := by
          refine wfE_namedExpr _ (wfE_lambda wfA_empty (wfE_subscript (wfE_list ?_) wfE_neg1 (by intro es he; cases he)))
          exact wfL_append (wfL_append (wfL_cons (wfE_namedExpr _ (getLoad_wf hs))
            (wfL_cons (wfE_namedExpr _ (by simp only [wfE, wfItems])) wfL_nil)) hbw) (wfL_cons (wfE_name _) wfL_nil)
        have hfill : wfE (Expr.listComp (.call (.name "setattr") [self2, .name classKey, .name classValue] [])
            [.mk (.tuple [.name classKey, .name classValue])
              (.call (.attribute (.call (.name (st1.fresh "loader").1) [] []) "items") [] []) [] false]) := by
          refine wfE_listCompG (wfE_call (wfE_name _) (wfL_cons (getLoad_wf hs2) (wfL_cons (wfE_name _) (wfL_cons (wfE_name _) wfL_nil))))
            rfl (by simp only [wfE]; exact wfElts_cons (wfE_name _) (wfElts_cons (wfE_name _) wfElts_nil)) ?_
          exact wfE_call (wfE_attribute _ (wfE_call (wfE_name _) wfL_nil)) wfL_nil
        simp only [] at h
        rcases ite_ok h with h | h
        · cases pure_ok h
          exact wfL_cons hcreate (wfL_cons hload (wfL_cons hfill wfL_nil))
        · obtain ⟨self3, hs3, h⟩ := bind_ok h
          obtain ⟨decorated, hd, h⟩ := bind_ok h
          obtain ⟨r, hr, h⟩ := bind_ok h
          cases pure_ok h
          exact wfL_cons hcreate (wfL_cons hload (wfL_cons hfill (wfL_cons
            (getAssign_wf hr (applyDecorators_wf cx.nsp decos _ decorated hd hw.2.2.2 (getLoad_wf hs3))) wfL_nil)))
    | .other .., cx, st, es, st', h, _ => by simp only [lowerStmt] at h; cases h

  theorem lowerBlock_wf : ∀ (ss : List Stmt) (cx : Ctx) (st : St) (es : List Expr) (st' : St),
      lowerBlock cx ss st = .ok (es, st') → wfBlock ss → wfL es
    | [], cx, st, es, st', h, _ => by simp only [lowerBlock] at h; cases h; exact wfL_nil
    | s :: ss, cx, st, es, st', h, hw => by
        simp only [wfBlock] at hw
        simp only [lowerBlock] at h
        obtain ⟨⟨a, st1⟩, ha, h⟩ := bind_ok h
        have haw := lowerStmt_wf s cx st a st1 ha hw.1
        simp only [] at h
        split at h
        · cases pure_ok h; exact haw
        · split at h
          · obtain ⟨⟨rest, st2⟩, hr, h⟩ := bind_ok h
            cases pure_ok h
            exact wfL_append haw (wfL_cons (wfE_guard cx.cfg _ (lowerBlock_wf ss cx st1 rest st2 hr hw.2)) wfL_nil)
          · obtain ⟨⟨rest, st2⟩, hr, h⟩ := bind_ok h
            cases pure_ok h
            exact wfL_append haw (lowerBlock_wf ss cx st1 rest st2 hr hw.2)
end


/-! ### the whole program -/

theorem goModule_wf (cx : Ctx) : ∀ (ss : List Stmt) (st : St) (es : List Expr) (st' : St),
    lowerFull.goModule cx ss st = .ok (es, st') → wfBlock ss → wfL es
  | [], st, es, st', h, _ => by simp only [lowerFull.goModule] at h; cases h; exact wfL_nil
  | s :: ss, st, es, st', h, hw => by
      simp only [wfBlock] at hw
      simp only [lowerFull.goModule] at h
      obtain ⟨⟨a, st1⟩, ha, h⟩ := bind_ok h
      obtain ⟨⟨b, st2⟩, hb, h⟩ := bind_ok h
      cases pure_ok h
      exact wfL_append (lowerStmt_wf s cx st a st1 ha hw.1) (goModule_wf cx ss st1 b st2 hb hw.2)

theorem wfE_importHelper (m : String) : wfE (Expr.namedExpr m (.call (.name "__import__") [Expr.str m] [])) :=
  wfE_namedExpr _ (wfE_call (wfE_name _) (wfL_cons (wfE_str _) wfL_nil))

/-- **The converted program is a well-formed expression tree** whenever the expressions of the
    source program are. -/
theorem lowerFull_wf (cfg : Cfg) (root : SymScope) (body : List Stmt) (e : Expr)
    (h : lowerFull cfg root body = .ok e) (hw : wfBlock body) : wfE e := by
  unfold lowerFull at h
  obtain ⟨⟨g, sup⟩, _, h⟩ := bind_ok h
  simp only [] at h
  obtain ⟨⟨b, st⟩, hb, h⟩ := bind_ok h
  cases pure_ok h
  have hbw := goModule_wf _ body _ b st hb hw
  refine wfE_wrapExprs cfg ?_
  have h1 : wfL (if st.useItertools then Expr.namedExpr "itertools" (.call (.name "__import__") [Expr.str "itertools"] []) :: b else b) := by
    split
    · exact wfL_cons (wfE_importHelper _) hbw
    · exact hbw
  have h2 : wfL (if st.useImportlib then Expr.namedExpr "importlib" (.call (.name "__import__") [Expr.str "importlib"] []) ::
      (if st.useItertools then Expr.namedExpr "itertools" (.call (.name "__import__") [Expr.str "itertools"] []) :: b else b)
      else (if st.useItertools then Expr.namedExpr "itertools" (.call (.name "__import__") [Expr.str "itertools"] []) :: b else b)) := by
    split
    · exact wfL_cons (wfE_importHelper _) h1
    · exact h1
  split
  · exact wfL_cons wfE_iterWrapperBody h2
  · exact h2

end OlVerif
