/-
  C09, part 2: every name the converted program binds is a binder of the script or a helper name.
-/
import OlVerif.Lower.Binders
import OlVerif.Lower.WfOutStmt
import OlVerif.Lower.Reject

set_option linter.unusedVariables false
set_option linter.unusedSimpArgs false

namespace OlVerif

/-! ### the names of a namespace are helper names -/

def NspOK (n : Nsp) : Prop := Res n.retvName ∧ Res n.retName ∧ Res n.dictName

mutual
  /-- every namespace strictly below `n` has helper names -/
  def treeOK : Nsp → Prop
    | .mk _ _ _ _ _ _ _ _ _ _ _ children => kidsOK children
  def kidsOK : List Nsp → Prop
    | [] => True
    | c :: cs => NspOK c ∧ treeOK c ∧ kidsOK cs
end

theorem kidsOK_mem : ∀ {cs : List Nsp} {c : Nsp}, kidsOK cs → c ∈ cs → NspOK c ∧ treeOK c
  | [], c, _, hc => by cases hc
  | d :: cs, c, h, hc => by
      simp only [kidsOK] at h
      rcases List.mem_cons.mp hc with rfl | hc'
      · exact ⟨h.1, h.2.1⟩
      · exact kidsOK_mem h.2.2 hc'

mutual
  theorem buildNsp_ok : ∀ (s : SymScope) (stack : Stack) (sup : Supply) (n : Nsp) (cl : List Claim) (sup' : Supply),
      buildNsp stack sup s = .ok (n, cl, sup') → NspOK n ∧ treeOK n
    | .mk name kind lineno symbols frees nonlocals params methods children, stack, sup, n, cl, sup', h => by
        simp only [buildNsp] at h
        obtain ⟨own, hown, h⟩ := bind_ok h
        obtain ⟨⟨kids, kidClaims, globs, sup2⟩, hk, h⟩ := bind_ok h
        cases pure_ok h
        refine ⟨⟨res_supply _ _, res_supply _ _, ?_⟩, ?_⟩
        · simp only [Nsp.dictName]
          split <;> exact res_supply _ _
        · simp only [treeOK]
          exact buildChildren_ok children _ _ kids kidClaims globs sup2 hk
  termination_by structural s => s

  theorem buildChildren_ok : ∀ (cs : List SymScope) (stack : Stack) (sup : Supply) (kids : List Nsp) (cl : List Claim)
      (globs : List String) (sup' : Supply), buildChildren stack sup cs = .ok (kids, cl, globs, sup') → kidsOK kids
    | [], stack, sup, kids, cl, globs, sup', h => by
        simp only [buildChildren] at h; cases h; simp only [kidsOK]
    | c :: cs, stack, sup, kids, cl, globs, sup', h => by
        simp only [buildChildren] at h
        split at h
        · exact buildChildren_ok cs stack sup kids cl globs sup' h
        · split at h
          · obtain ⟨⟨kids0, cl0, globs0, sup0⟩, hk, h⟩ := bind_ok h
            cases pure_ok h
            exact buildChildren_ok cs stack sup _ _ _ _ hk
          · obtain ⟨⟨n, cl1, sup1⟩, hn, h⟩ := bind_ok h
            obtain ⟨⟨kids0, cl0, globs0, sup0⟩, hk, h⟩ := bind_ok h
            cases pure_ok h
            have h1 := buildNsp_ok c stack sup n cl1 sup1 hn
            simp only [kidsOK]
            exact ⟨h1.1, h1.2, buildChildren_ok cs stack sup1 kids0 cl0 globs0 sup0 hk⟩
  termination_by structural cs => cs
end

theorem generateNsp_ok {root : SymScope} {sup : Supply} {g : Nsp} {sup' : Supply}
    (h : generateNsp root sup = .ok (g, sup')) : treeOK g := by
  unfold generateNsp at h
  obtain ⟨⟨kids, a, b, sup2⟩, hk, h⟩ := bind_ok h
  cases pure_ok h
  simp only [treeOK]
  exact buildChildren_ok _ _ _ kids a b _ hk

theorem findChild_ok {n : Nsp} {name : String} {lineno : Nat} {k : ScopeKind} {c : Nsp}
    (h : findChild n name lineno k = .ok c) (hn : treeOK n) : NspOK c ∧ treeOK c := by
  unfold findChild at h
  split at h
  · cases h
  · rename_i c' hf
    split at h
    · cases h
      have hm := List.mem_of_find?_eq_some hf
      obtain ⟨_, _, _, _, _, _, _, _, _, _, _, children⟩ := n
      simp only [treeOK] at hn
      exact kidsOK_mem hn hm
    · cases h

/-! ### the lowering context -/

def CtxOK (cx : Ctx) : Prop :=
  treeOK cx.nsp ∧ (cx.nsp.kind = .function → NspOK cx.nsp) ∧ ∀ l ∈ cx.loops, Res l.flag ∧ Res l.intr

/-! ### binders of a script -/

def Alias.bound (a : Alias) : String :=
  if a.asname.isNone && a.name.contains '.' then (a.name.splitOn ".").headD "" else a.asname.getD a.name

mutual
  /-- the names a statement binds: targets, def / class names, parameters, imported names, and the
      binders inside its expressions (walrus, lambda parameters, comprehension targets) -/
  def srcS : Stmt → List String
    | .expr v => bnd v
    | .if_ t b e => bnd t ++ srcB b ++ srcB e
    | .while_ t b e => bnd t ++ srcB b ++ srcB e
    | .for_ tg it b e => tgtNames tg ++ bnd tg ++ bnd it ++ srcB b ++ srcB e
    | .break_ => []
    | .continue_ => []
    | .pass_ => []
    | .assign ts v => tgtNamesL ts ++ bndL ts ++ bnd v
    | .annAssign tg _ v => tgtNames tg ++ bnd tg ++ bndO v
    | .augAssign tg _ v => tgtNames tg ++ bnd tg ++ bnd v
    | .functionDef name (.mk po as va ko kd kw ds) body decos _ =>
        name :: (Arguments.paramNames (.mk po as va ko kd kw ds) ++ bndL ds ++ bndOL kd ++ bndL decos ++ srcB body)
    | .return_ v => bndO v
    | .global_ _ => []
    | .nonlocal_ _ => []
    | .classDef name bases kws body decos _ => name :: (bndL bases ++ bndK kws ++ bndL decos ++ srcB body)
    | .import_ names => names.map Alias.bound
    | .importFrom _ names _ => names.map fun a => a.asname.getD a.name
    | .other .. => []
  def srcB : List Stmt → List String
    | [] => []
    | s :: ss => srcS s ++ srcB ss
end


/-! ### assignment targets -/

theorem sub_left {α : Type} {a b U : List α} (h : a ++ b ⊆ U) : a ⊆ U := fun x hx => h (List.mem_append_left _ hx)
theorem sub_right {α : Type} {a b U : List α} (h : a ++ b ⊆ U) : b ⊆ U := fun x hx => h (List.mem_append_right _ hx)

theorem allOk_transf {U : List String} {n : Nsp} {b : List String} {e e' : Expr} (h : transf n b e = .ok e')
    (hu : bnd e ⊆ U) : AllOk U (bnd e') :=
  allOk_of_sub (fun x hx => hu (transf_bnd n b e e' h hx))

mutual
  theorem assignAuto_bnd (U : List String) (n : Nsp) : ∀ (inP : Bool) (t v : Expr) (st : St) (es : List Expr) (st' : St),
      assignAuto n inP t v st = .ok (es, st') → tgtNames t ⊆ U → bnd t ⊆ U → AllOk U (bnd v) → AllOk U (bndL es)
    | inP, .name id, v, st, es, st', h, ht, _, hv => by
        simp only [assignAuto] at h
        obtain ⟨r, hr, h⟩ := bind_ok h
        cases pure_ok h
        simp only [bndL, List.append_nil]
        have hid : id ∈ U := ht (by simp [tgtNames])
        exact allOk_sub (getAssign_bnd hr) (allOk_cons_mem hid hv)
    | inP, .attribute o a, v, st, es, st', h, _, hb, hv => by
        simp only [assignAuto] at h
        obtain ⟨o', ho, h⟩ := bind_ok h
        cases pure_ok h
        simp only [bndL, bnd, bndK, bnd_str, List.append_nil, List.nil_append]
        exact allOk_append (allOk_transf ho (by simpa [bnd] using hb)) hv
    | inP, .subscript o s, v, st, es, st', h, _, hb, hv => by
        simp only [assignAuto] at h
        obtain ⟨s', hs, h⟩ := bind_ok h
        obtain ⟨o', ho, h⟩ := bind_ok h
        cases pure_ok h
        simp only [bnd] at hb
        simp only [bndL, bnd, bndK, bnd_convertIndex, List.append_nil]
        exact allOk_append (allOk_transf ho (sub_left hb)) (allOk_append (allOk_transf hs (sub_right hb)) hv)
    | inP, .tuple ts, v, st, es, st', h, ht, hb, hv => by
        simp only [assignAuto] at h
        obtain ⟨⟨rest, st2⟩, hr, h⟩ := bind_ok h
        cases pure_ok h
        simp only [bndL, bnd, bndK, List.append_nil]
        refine allOk_cons_res (res_fresh _ _) (allOk_append hv ?_)
        exact assignElts_bnd U n _ _ _ _ ts _ rest st2 hr (by simpa [tgtNames] using ht) (by simpa [bnd] using hb)
    | inP, .list ts, v, st, es, st', h, ht, hb, hv => by
        simp only [assignAuto] at h
        obtain ⟨⟨rest, st2⟩, hr, h⟩ := bind_ok h
        cases pure_ok h
        simp only [bndL, bnd, bndK, List.append_nil]
        refine allOk_cons_res (res_fresh _ _) (allOk_append hv ?_)
        exact assignElts_bnd U n _ _ _ _ ts _ rest st2 hr (by simpa [tgtNames] using ht) (by simpa [bnd] using hb)
    | inP, .starred sub, v, st, es, st', h, ht, hb, hv => by
        simp only [assignAuto] at h
        split at h
        · exact assignAuto_bnd U n false sub v st es st' h (by simpa [tgtNames] using ht) (by simpa [bnd] using hb) hv
        · cases h
    | inP, .const _, v, st, es, st', h, _, _, _ => by simp only [assignAuto] at h; cases h
    | inP, .joinedStr _, v, st, es, st', h, _, _, _ => by simp only [assignAuto] at h; cases h
    | inP, .formattedValue .., v, st, es, st', h, _, _, _ => by simp only [assignAuto] at h; cases h
    | inP, .set _, v, st, es, st', h, _, _, _ => by simp only [assignAuto] at h; cases h
    | inP, .dict _, v, st, es, st', h, _, _, _ => by simp only [assignAuto] at h; cases h
    | inP, .slice .., v, st, es, st', h, _, _, _ => by simp only [assignAuto] at h; cases h
    | inP, .call .., v, st, es, st', h, _, _, _ => by simp only [assignAuto] at h; cases h
    | inP, .binOp .., v, st, es, st', h, _, _, _ => by simp only [assignAuto] at h; cases h
    | inP, .boolOp .., v, st, es, st', h, _, _, _ => by simp only [assignAuto] at h; cases h
    | inP, .unaryOp .., v, st, es, st', h, _, _, _ => by simp only [assignAuto] at h; cases h
    | inP, .compare .., v, st, es, st', h, _, _, _ => by simp only [assignAuto] at h; cases h
    | inP, .ifExp .., v, st, es, st', h, _, _, _ => by simp only [assignAuto] at h; cases h
    | inP, .lambda .., v, st, es, st', h, _, _, _ => by simp only [assignAuto] at h; cases h
    | inP, .namedExpr .., v, st, es, st', h, _, _, _ => by simp only [assignAuto] at h; cases h
    | inP, .listComp .., v, st, es, st', h, _, _, _ => by simp only [assignAuto] at h; cases h
    | inP, .setComp .., v, st, es, st', h, _, _, _ => by simp only [assignAuto] at h; cases h
    | inP, .dictComp .., v, st, es, st', h, _, _, _ => by simp only [assignAuto] at h; cases h
    | inP, .generatorExp .., v, st, es, st', h, _, _, _ => by simp only [assignAuto] at h; cases h
    | inP, .yield_ _, v, st, es, st', h, _, _, _ => by simp only [assignAuto] at h; cases h
    | inP, .yieldFrom _, v, st, es, st', h, _, _, _ => by simp only [assignAuto] at h; cases h
    | inP, .await _, v, st, es, st', h, _, _, _ => by simp only [assignAuto] at h; cases h
  termination_by structural _ t => t

  theorem assignElts_bnd (U : List String) (n : Nsp) : ∀ (tmp : String) (len index : Nat) (hs : Bool) (ts : List Expr)
      (st : St) (es : List Expr) (st' : St), assignElts n tmp len index hs ts st = .ok (es, st') →
      tgtNamesL ts ⊆ U → bndL ts ⊆ U → AllOk U (bndL es)
    | tmp, len, index, hs, [], st, es, st', h, _, _ => by
        simp only [assignElts] at h; cases h; exact allOk_nil U
    | tmp, len, index, hs, t :: ts, st, es, st', h, ht, hb => by
        simp only [assignElts] at h
        simp only [tgtNamesL] at ht
        simp only [bndL] at hb
        split at h
        · cases h
        · obtain ⟨⟨a, st1⟩, ha, h⟩ := bind_ok h
          obtain ⟨⟨b, st2⟩, hb', h⟩ := bind_ok h
          cases pure_ok h
          rw [bndL_append]
          refine allOk_append (assignAuto_bnd U n true t _ st a st1 ha (sub_left ht) (sub_left hb) ?_)
            (assignElts_bnd U n tmp len _ _ ts st1 b st2 hb' (sub_right ht) (sub_right hb))
          have : bnd (if t.isStarred = true then
              Expr.call (.name "list") [.subscript (.name tmp) (.slice (some (.const (.int index)))
                (if (index : Int) - (len : Int) + 1 = 0 then none else some (intConstant ((index : Int) - (len : Int) + 1))) none)] []
              else .subscript (.name tmp) (intConstant (if hs = true then (index : Int) - (len : Int) else (index : Int)))) = [] := by
            split
            · simp only [bnd, bndL, bndK, bndO, List.append_nil, List.nil_append]
              split <;> simp [bndO, bnd_intConstant]
            · simp [bnd, bnd_intConstant]
          rw [this]; exact allOk_nil U
  termination_by structural _ _ _ _ ts => ts
end

theorem assignTargets_bnd (U : List String) (n : Nsp) (v : Expr) (hv : AllOk U (bnd v)) :
    ∀ (ts : List Expr) (st : St) (es : List Expr) (st' : St), assignTargets n v ts st = .ok (es, st') →
      tgtNamesL ts ⊆ U → bndL ts ⊆ U → AllOk U (bndL es)
  | [], st, es, st', h, _, _ => by simp only [assignTargets] at h; cases h; exact allOk_nil U
  | t :: ts, st, es, st', h, ht, hb => by
      simp only [assignTargets] at h
      simp only [tgtNamesL] at ht
      simp only [bndL] at hb
      obtain ⟨⟨a, st1⟩, ha, h⟩ := bind_ok h
      obtain ⟨⟨b, st2⟩, hb', h⟩ := bind_ok h
      cases pure_ok h
      rw [bndL_append]
      exact allOk_append (assignAuto_bnd U n false t v st a st1 ha (sub_left ht) (sub_left hb) hv)
        (assignTargets_bnd U n v hv ts st1 b st2 hb' (sub_right ht) (sub_right hb))


/-! ### simple statements -/

theorem lowerAugAssign_bnd (U : List String) (n : Nsp) (tg : Expr) (op : BinOpK) (v : Expr) (st : St) (es : List Expr)
    (st' : St) (h : lowerAugAssign n tg op v st = .ok (es, st')) (ht : tgtNames tg ⊆ U) (hb : bnd tg ⊆ U)
    (hv : bnd v ⊆ U) : AllOk U (bndL es) := by
  unfold lowerAugAssign at h
  simp only [] at h
  obtain ⟨v', hv', h⟩ := bind_ok h
  have hvo := allOk_transf hv' hv
  cases tg with
  | name id =>
    simp only [] at h
    obtain ⟨t, ht', h⟩ := bind_ok h
    obtain ⟨r, hr, h⟩ := bind_ok h
    cases pure_ok h
    simp only [bndL, List.append_nil]
    refine allOk_sub (getAssign_bnd hr) (allOk_cons_mem (ht (by simp [tgtNames])) ?_)
    rw [bnd_augAssignExpr, getLoad_bnd ht']
    simpa using hvo
  | subscript tv ts =>
    simp only [bnd] at hb
    simp only [] at h
    obtain ⟨parent, hp, h⟩ := bind_ok h
    obtain ⟨sl, hsl, h⟩ := bind_ok h
    cases pure_ok h
    simp only [bndL, bnd, bndK, bnd_convertIndex, bnd_augAssignExpr, List.append_nil, List.nil_append]
    exact allOk_cons_res (res_fresh _ _) (allOk_append (allOk_transf hp (sub_left hb))
      (allOk_cons_res (res_fresh _ _) (allOk_append (allOk_transf hsl (sub_right hb))
        (allOk_cons_res (res_fresh _ _) hvo))))
  | «attribute» tv a =>
    simp only [bnd] at hb
    simp only [] at h
    obtain ⟨parent, hp, h⟩ := bind_ok h
    cases pure_ok h
    simp only [bndL, bnd, bndK, bnd_str, bnd_augAssignExpr, List.append_nil, List.nil_append]
    exact allOk_cons_res (res_fresh _ _) (allOk_append (allOk_transf hp hb) (allOk_cons_res (res_fresh _ _) hvo))
  | _ => simp only [] at h; cases h

theorem lowerImport_bnd (U : List String) (n : Nsp) : ∀ (as : List Alias) (es : List Expr), lowerImport n as = .ok es →
    as.map Alias.bound ⊆ U → AllOk U (bndL es)
  | [], es, h, _ => by simp only [lowerImport] at h; cases h; exact allOk_nil U
  | a :: as, es, h, hu => by
      simp only [lowerImport] at h
      have ha : a.bound ∈ U := hu (by simp)
      have hrest : as.map Alias.bound ⊆ U := fun x hx => hu (by simp [hx])
      split at h
      · rename_i hc
        obtain ⟨e, he, h⟩ := bind_ok h
        obtain ⟨rest, hr, h⟩ := bind_ok h
        cases pure_ok h
        simp only [bndL]
        refine allOk_append (allOk_sub (getAssign_bnd he) (allOk_cons_mem ?_ ?_)) (lowerImport_bnd U n as rest hr hrest)
        · unfold Alias.bound at ha; rw [if_pos hc] at ha; exact ha
        · simp [bnd, bndL, bndK, bnd_str]; exact allOk_nil U
      · rename_i hc
        obtain ⟨e, he, h⟩ := bind_ok h
        obtain ⟨rest, hr, h⟩ := bind_ok h
        cases pure_ok h
        simp only [bndL]
        refine allOk_append (allOk_sub (getAssign_bnd he) (allOk_cons_mem ?_ ?_)) (lowerImport_bnd U n as rest hr hrest)
        · unfold Alias.bound at ha; rw [if_neg hc] at ha; exact ha
        · simp [bnd, bndL, bndK, bnd_str]; exact allOk_nil U

theorem lowerImportFromNames_bnd (U : List String) (n : Nsp) (tmp : String) : ∀ (as : List Alias) (es : List Expr),
    lowerImportFromNames n tmp as = .ok es → (as.map fun a => a.asname.getD a.name) ⊆ U → AllOk U (bndL es)
  | [], es, h, _ => by simp only [lowerImportFromNames] at h; cases h; exact allOk_nil U
  | a :: as, es, h, hu => by
      simp only [lowerImportFromNames] at h
      split at h
      · cases h
      · obtain ⟨e, he, h⟩ := bind_ok h
        obtain ⟨rest, hr, h⟩ := bind_ok h
        cases pure_ok h
        simp only [bndL]
        refine allOk_append (allOk_sub (getAssign_bnd he) (allOk_cons_mem (hu (by simp)) ?_))
          (lowerImportFromNames_bnd U n tmp as rest hr (fun x hx => hu (by simp [hx])))
        simp [bnd]; exact allOk_nil U

theorem bndL_map_str {α : Type} (f : α → String) : ∀ (l : List α), bndL (l.map fun a => Expr.str (f a)) = []
  | [] => rfl
  | a :: l => by simp [bndL, bnd_str, bndL_map_str f l]

theorem lowerImportFrom_bnd (U : List String) (n : Nsp) (m : Option String) (names : List Alias) (level : Nat) (st : St)
    (es : List Expr) (st' : St) (h : lowerImportFrom n m names level st = .ok (es, st'))
    (hu : (names.map fun a => a.asname.getD a.name) ⊆ U) : AllOk U (bndL es) := by
  unfold lowerImportFrom at h
  simp only [] at h
  obtain ⟨rest, hr, h⟩ := bind_ok h
  cases pure_ok h
  simp only [bndL, bnd, bndK, bnd_str, List.append_nil, List.nil_append]
  refine allOk_cons_res (res_fresh _ _) ?_
  have : bndL (names.map fun a => Expr.str a.name) = [] := bndL_map_str (fun a : Alias => a.name) names
  simp only [this, List.append_nil, List.nil_append]
  exact lowerImportFromNames_bnd U n _ names rest hr hu

theorem applyDecorators_bnd (n : Nsp) : ∀ (ds : List Expr) (body r : Expr), applyDecorators n ds body = .ok r →
    bnd r ⊆ bndL ds ++ bnd body
  | [], body, r, h => by simp only [applyDecorators] at h; cases h; simp [bndL]
  | d :: ds, body, r, h => by
      simp only [applyDecorators] at h
      obtain ⟨inner, hi, h⟩ := bind_ok h
      obtain ⟨d', hd', h⟩ := bind_ok h
      cases pure_ok h
      simp only [bnd, bndL, bndK, List.append_nil]
      have ih := applyDecorators_bnd n ds body inner hi
      intro x hx
      rcases List.mem_append.mp hx with h1 | h1
      · exact List.mem_append_left _ (List.mem_append_left _ (transf_bnd n [] d d' hd' h1))
      · rcases List.mem_append.mp (ih h1) with h2 | h2
        · exact List.mem_append_left _ (List.mem_append_right _ h2)
        · exact List.mem_append_right _ h2

theorem classKeywords_bnd (n : Nsp) : ∀ (ks : List Keyword) (m : Option Expr) (rest : List Keyword),
    classKeywords n ks = .ok (m, rest) → bndO m ++ bndK rest ⊆ bndK ks
  | [], m, rest, h => by simp only [classKeywords] at h; cases h; simp [bndO, bndK]
  | .mk a v :: ks, m, rest, h => by
      simp only [classKeywords] at h
      obtain ⟨v', hv, h⟩ := bind_ok h
      obtain ⟨⟨m0, rest0⟩, hr, h⟩ := bind_ok h
      have ih := classKeywords_bnd n ks m0 rest0 hr
      have hv' := transf_bnd n [] v v' hv
      simp only [] at h
      simp only [bndK]
      split at h
      · cases pure_ok h
        intro x hx
        rcases List.mem_append.mp hx with h1 | h1
        · cases m0 with
          | none => simp only [Option.getD, bndO] at h1; exact List.mem_append_left _ (hv' h1)
          | some e0 =>
            simp only [Option.getD, bndO] at h1
            exact List.mem_append_right _ (ih (List.mem_append_left _ (by simpa [bndO] using h1)))
        · exact List.mem_append_right _ (ih (List.mem_append_right _ h1))
      · cases pure_ok h
        intro x hx
        rcases List.mem_append.mp hx with h1 | h1
        · exact List.mem_append_right _ (ih (List.mem_append_left _ h1))
        · simp only [bndK] at h1
          rcases List.mem_append.mp h1 with h2 | h2
          · exact List.mem_append_left _ (hv' h2)
          · exact List.mem_append_right _ (ih (List.mem_append_right _ h2))


/-! ### statements and blocks -/

theorem mem_sub_append_l {α : Type} {a b : List α} : a ⊆ a ++ b := fun _ h => List.mem_append_left _ h
theorem mem_sub_append_r {α : Type} {a b : List α} : b ⊆ a ++ b := fun _ h => List.mem_append_right _ h
theorem sub_trans {α : Type} {a b c : List α} (h1 : a ⊆ b) (h2 : b ⊆ c) : a ⊆ c := fun _ h => h2 (h1 h)

theorem allOk_guard (U : List String) (cfg : Cfg) (flag : String) {rest : List Expr} (h : AllOk U (bndL rest)) :
    AllOk U (bnd (Expr.ifExp (Expr.not_ (.name flag)) (wrapExprs cfg rest) Expr.ellipsis)) := by
  simp only [bnd, Expr.not_, Expr.ellipsis, List.nil_append, List.append_nil]
  exact allOk_wrapExprs U cfg h

theorem allOk_brkSet (U : List String) (l : LoopCtx) (h : Res l.flag) : AllOk U (bnd l.brkSet) := by
  unfold LoopCtx.brkSet
  split
  · rw [bnd_setFlag]; exact allOk_cons_res h (allOk_nil U)
  · simp [bnd, bndL, bndK, bnd_str, Expr.true_]; exact allOk_nil U

theorem allOk_map_brk (U : List String) : ∀ (ls : List LoopCtx), (∀ l ∈ ls, Res l.flag ∧ Res l.intr) →
    AllOk U (bndL (ls.map LoopCtx.brkSet))
  | [], _ => allOk_nil U
  | l :: ls, h => by
      simp only [List.map, bndL]
      exact allOk_append (allOk_brkSet U l (h l (by simp)).1) (allOk_map_brk U ls (fun x hx => h x (by simp [hx])))

theorem allOk_map_intr (U : List String) : ∀ (ls : List LoopCtx), (∀ l ∈ ls, Res l.flag ∧ Res l.intr) →
    AllOk U (bndL (ls.map fun l => setFlag l.intr true))
  | [], _ => allOk_nil U
  | l :: ls, h => by
      simp only [List.map, bndL, bnd_setFlag]
      exact allOk_cons_res (h l (by simp)).2 (allOk_map_intr U ls (fun x hx => h x (by simp [hx])))

theorem bndD_params : ∀ (ps : List String), bndD (ps.map fun p => DictItem.mk (some (Expr.str p)) (.name p)) = []
  | [] => rfl
  | p :: ps => by simp [bndD, bnd_str, bnd, bndD_params ps]

theorem bnd_takewhileIter (t : Expr) : bnd (takewhileIter t) = whileCounter :: bnd t := by
  simp [takewhileIter, bnd, bndL, bndK, bndOL, Arguments.simple, Arguments.paramNames]

theorem res_whileCounter : Res whileCounter := Or.inl (by decide +kernel)
theorem res_classKey : Res classKey := Or.inl (by decide +kernel)
theorem res_classValue : Res classValue := Or.inl (by decide +kernel)
theorem res_hookFn : Res hookFn := Or.inl (by decide +kernel)

theorem bnd_hookWrap (f : Expr) : bnd (hookWrap f) = hookFn :: bnd f := by
  simp [hookWrap, bnd, bndL, bndK, bndOL, Arguments.simple, Arguments.empty, Arguments.paramNames]

theorem ctxOK_push {cx : Ctx} (hc : CtxOK cx) (l : LoopCtx) (h1 : Res l.flag) (h2 : Res l.intr) :
    CtxOK { cx with loops := cx.loops ++ [l] } := by
  refine ⟨hc.1, hc.2.1, ?_⟩
  intro l' hl
  rcases List.mem_append.mp hl with h | h
  · exact hc.2.2 l' h
  · simp only [List.mem_cons, List.not_mem_nil, or_false] at h
    subst h
    exact ⟨h1, h2⟩

theorem allOk_bndL_ite (c : Prop) [Decidable c] {U : List String} {a b : List Expr} (ha : AllOk U (bndL a))
    (hb : AllOk U (bndL b)) : AllOk U (bndL (if c then a else b)) := by split <;> assumption

theorem allOk_bndL_nil (U : List String) : AllOk U (bndL []) := allOk_nil U

mutual
  theorem lowerStmt_bnd : ∀ (s : Stmt) (cx : Ctx) (st : St) (es : List Expr) (st' : St),
      lowerStmt cx s st = .ok (es, st') → CtxOK cx → AllOk (srcS s) (bndL es)
    | .expr v, cx, st, es, st', h, _ => by
        simp only [lowerStmt] at h
        obtain ⟨v', hv, h⟩ := bind_ok h
        cases pure_ok h
        simp only [bndL, List.append_nil, srcS]
        exact allOk_transf hv (fun _ h => h)
    | .pass_, cx, st, es, st', h, _ => by
        simp only [lowerStmt] at h; cases h; simp [bndL, bnd, Expr.ellipsis]; exact allOk_nil _
    | .global_ _, cx, st, es, st', h, _ => by simp only [lowerStmt] at h; cases h; exact allOk_nil _
    | .nonlocal_ _, cx, st, es, st', h, _ => by simp only [lowerStmt] at h; cases h; exact allOk_nil _
    | .break_, cx, st, es, st', h, hc => by
        simp only [lowerStmt] at h
        split at h
        · cases h
        · rename_i l hl
          cases h
          have hmem : l ∈ cx.loops := List.mem_of_getLast? hl
          have hr := hc.2.2 l hmem
          simp only [bndL, bnd, List.append_nil]
          rw [bndL_append]
          refine allOk_append ?_ (allOk_bndL_ite _ ?_ (allOk_bndL_nil _))
          · simp only [bndL, List.append_nil]; exact allOk_brkSet _ l hr.1
          · simp only [bndL, bnd_setFlag, List.append_nil]; exact allOk_cons_res hr.2 (allOk_nil _)
    | .continue_, cx, st, es, st', h, hc => by
        simp only [lowerStmt] at h
        split at h
        · cases h
        · rename_i l hl
          cases h
          have hmem : l ∈ cx.loops := List.mem_of_getLast? hl
          have hr := hc.2.2 l hmem
          simp only [bndL, bnd, List.append_nil]
          refine allOk_bndL_ite _ ?_ (allOk_bndL_nil _)
          simp only [bndL, bnd_setFlag, List.append_nil]; exact allOk_cons_res hr.2 (allOk_nil _)
    | .return_ v, cx, st, es, st', h, hc => by
        simp only [lowerStmt] at h
        split at h
        · cases h
        · rename_i hk
          have hfun : cx.nsp.kind = .function := by
            cases hkk : cx.nsp.kind <;> simp [hkk] at hk ⊢
          have hn := hc.2.1 hfun
          have tail : ∀ rv, AllOk (srcS (.return_ v)) (bndL rv) → AllOk (srcS (.return_ v)) (bndL [Expr.list (rv ++ cx.loops.map LoopCtx.brkSet ++
              ((cx.loops.reverse.filter (·.used)).map fun l => setFlag l.intr true) ++
              (if cx.fnUsed then [setFlag cx.nsp.retName true] else []))]) := by
            intro rv hrv
            simp only [bndL, bnd, List.append_nil]
            rw [bndL_append, bndL_append, bndL_append]
            refine allOk_append (allOk_append (allOk_append hrv (allOk_map_brk _ _ hc.2.2)) (allOk_map_intr _ _ ?_)) ?_
            · intro l hl
              exact hc.2.2 l (List.mem_reverse.mp (List.mem_filter.mp hl).1)
            · split
              · simp only [bndL, bnd_setFlag, List.append_nil]; exact allOk_cons_res hn.2.1 (allOk_nil _)
              · exact allOk_nil _
          cases v with
          | none =>
            simp only [] at h
            obtain ⟨rv, hrv, h⟩ := bind_ok h
            cases pure_ok hrv
            cases pure_ok h
            exact tail [] (allOk_nil _)
          | some e =>
            simp only [] at h
            obtain ⟨e', he, h⟩ := bind_ok h
            obtain ⟨rv, hrv, h⟩ := bind_ok h
            cases pure_ok hrv
            cases pure_ok h
            refine tail _ ?_
            simp only [bndL, bnd, List.append_nil]
            exact allOk_cons_res hn.1 (allOk_transf he (by simp [srcS, bndO]))
    | .if_ t b e, cx, st, es, st', h, hc => by
        simp only [lowerStmt] at h
        obtain ⟨⟨b', st1⟩, hb, h⟩ := bind_ok h
        obtain ⟨⟨o', st2⟩, ho, h⟩ := bind_ok h
        obtain ⟨t', ht, h⟩ := bind_ok h
        have hU1 : srcB b ⊆ srcS (.if_ t b e) := by simp only [srcS]; exact sub_trans mem_sub_append_r mem_sub_append_l
        have hU2 : srcB e ⊆ srcS (.if_ t b e) := by simp only [srcS]; exact mem_sub_append_r
        have hU0 : bnd t ⊆ srcS (.if_ t b e) := by simp only [srcS]; exact sub_trans mem_sub_append_l mem_sub_append_l
        have hbw := allOk_wrapExprs _ cx.cfg (allOk_mono hU1 (lowerBlock_bnd b cx st b' st1 hb hc))
        have how := allOk_wrapExprs _ cx.cfg (allOk_mono hU2 (lowerBlock_bnd e cx st1 o' st2 ho hc))
        have htw := allOk_transf ht hU0
        simp only [] at h
        split at h
        · split at h
          · cases pure_ok h
            simp only [bndL, bnd, List.append_nil]
            exact allOk_append htw hbw
          · cases pure_ok h
            simp only [bndL, bnd, List.append_nil, List.nil_append]
            exact allOk_append (allOk_append htw hbw) how
        · cases pure_ok h
          simp only [bndL, bnd, List.append_nil]
          exact allOk_append (allOk_append htw hbw) how
    | .while_ t b e, cx, st, es, st', h, hc => by
        simp only [lowerStmt] at h
        obtain ⟨⟨b', st1⟩, hb, h⟩ := bind_ok h
        obtain ⟨⟨o', st2⟩, ho, h⟩ := bind_ok h
        obtain ⟨t', ht, h⟩ := bind_ok h
        cases pure_ok h
        have hU1 : srcB b ⊆ srcS (.while_ t b e) := by simp only [srcS]; exact sub_trans mem_sub_append_r mem_sub_append_l
        have hU2 : srcB e ⊆ srcS (.while_ t b e) := by simp only [srcS]; exact mem_sub_append_r
        have hU0 : bnd t ⊆ srcS (.while_ t b e) := by simp only [srcS]; exact sub_trans mem_sub_append_l mem_sub_append_l
        have hcx := ctxOK_push hc { isWhile := true, flag := (st.fresh "break").1, intr := ((st.fresh "break").2.fresh "interrupt").1, used := guardsInL .loop b } (res_fresh _ _) (res_fresh _ _)
        have hbw := allOk_mono hU1 (lowerBlock_bnd b _ _ b' st1 hb hcx)
        have how := allOk_mono hU2 (lowerBlock_bnd e cx _ o' st2 ho hc)
        have htw := allOk_transf ht hU0
        rw [bndL_append, bndL_append]
        refine allOk_append (allOk_append (allOk_bndL_ite _ ?_ (allOk_bndL_nil _)) ?_) (allOk_bndL_ite _ (allOk_bndL_nil _) ?_)
        · simp only [bndL, bnd_setFlag, List.append_nil]; exact allOk_cons_res (res_fresh _ _) (allOk_nil _)
        · simp only [bndL, bnd, bndG, tgtNames, bndL, List.append_nil, bnd_takewhileIter]
          refine allOk_append (allOk_wrapExprs _ _ ?_) (allOk_cons_res res_whileCounter (allOk_cons_res res_whileCounter ?_))
          · rw [bndL_append]
            refine allOk_append (allOk_bndL_ite _ ?_ (allOk_bndL_nil _)) hbw
            simp only [bndL, bnd_setFlag, List.append_nil]; exact allOk_cons_res (res_fresh _ _) (allOk_nil _)
          · split
            · simp only [bnd, bndL, Expr.not_, List.nil_append, List.append_nil]; exact htw
            · exact htw
        · simp only [bndL, List.append_nil]
          split
          · exact allOk_guard _ _ _ how
          · exact allOk_wrapExprs _ _ how
    | .for_ tg it b e, cx, st, es, st', h, hc => by
        simp only [lowerStmt] at h
        obtain ⟨⟨b', st1⟩, hb, h⟩ := bind_ok h
        obtain ⟨⟨o', st2⟩, ho, h⟩ := bind_ok h
        obtain ⟨⟨asg, st3⟩, ha, h⟩ := bind_ok h
        obtain ⟨itr, hi, h⟩ := bind_ok h
        have hT : tgtNames tg ⊆ srcS (.for_ tg it b e) := by
          simp only [srcS]; exact sub_trans mem_sub_append_l (sub_trans mem_sub_append_l (sub_trans mem_sub_append_l mem_sub_append_l))
        have hB : bnd tg ⊆ srcS (.for_ tg it b e) := by
          simp only [srcS]; exact sub_trans mem_sub_append_r (sub_trans mem_sub_append_l (sub_trans mem_sub_append_l mem_sub_append_l))
        have hI : bnd it ⊆ srcS (.for_ tg it b e) := by
          simp only [srcS]; exact sub_trans mem_sub_append_r (sub_trans mem_sub_append_l mem_sub_append_l)
        have hU1 : srcB b ⊆ srcS (.for_ tg it b e) := by simp only [srcS]; exact sub_trans mem_sub_append_r mem_sub_append_l
        have hU2 : srcB e ⊆ srcS (.for_ tg it b e) := by simp only [srcS]; exact mem_sub_append_r
        have hcx := ctxOK_push hc { isWhile := false, flag := (st.fresh "it").1, intr := ((st.fresh "it").2.fresh "interrupt").1, used := guardsInL .loop b } (res_fresh _ _) (res_fresh _ _)
        have hbw := allOk_mono hU1 (lowerBlock_bnd b _ _ b' st1 hb hcx)
        have how := allOk_mono hU2 (lowerBlock_bnd e cx _ o' st2 ho hc)
        have hasg := assignAuto_bnd (srcS (.for_ tg it b e)) cx.nsp false tg _ _ asg st3 ha hT hB (by simp [bnd]; exact allOk_nil _)
        have hiw := allOk_transf hi hI
        rcases ite_ok h with h | h
        · cases pure_ok h
          simp only [bndL, bnd, bndG, tgtNames, List.append_nil]
          refine allOk_append (allOk_wrapExprs _ _ ?_) (allOk_cons_res (res_fresh _ _) hiw)
          rw [bndL_append]; exact allOk_append hasg hbw
        · cases pure_ok h
          rw [bndL_append, bndL_append]
          refine allOk_append (allOk_append (allOk_bndL_ite _ ?_ (allOk_bndL_nil _)) ?_) (allOk_bndL_ite _ (allOk_bndL_nil _) ?_)
          · simp only [bndL, bnd, bndK, List.append_nil, List.nil_append]
            exact allOk_cons_res (res_fresh _ _) hiw
          · simp only [bndL, bnd, bndG, tgtNames, List.append_nil]
            refine allOk_append (allOk_wrapExprs _ _ ?_) (allOk_cons_res (res_fresh _ _) ?_)
            · rw [bndL_append, bndL_append]
              refine allOk_append (allOk_bndL_ite _ ?_ (allOk_bndL_nil _)) (allOk_append hasg hbw)
              simp only [bndL, bnd_setFlag, List.append_nil]; exact allOk_cons_res (res_fresh _ _) (allOk_nil _)
            · split
              · simp [bnd]; exact allOk_nil _
              · exact hiw
          · simp only [bndL, List.append_nil]
            split
            · simp only [bnd, Expr.not_, Expr.ellipsis, List.nil_append, List.append_nil]
              exact allOk_wrapExprs _ _ how
            · exact allOk_wrapExprs _ _ how
    | .assign ts v, cx, st, es, st', h, _ => by
        simp only [lowerStmt] at h
        obtain ⟨v', hv, h⟩ := bind_ok h
        have hT : tgtNamesL ts ⊆ srcS (.assign ts v) := by simp only [srcS]; exact sub_trans mem_sub_append_l mem_sub_append_l
        have hB : bndL ts ⊆ srcS (.assign ts v) := by simp only [srcS]; exact sub_trans mem_sub_append_r mem_sub_append_l
        have hV : bnd v ⊆ srcS (.assign ts v) := by simp only [srcS]; exact mem_sub_append_r
        have hvw := allOk_transf hv hV
        rcases ite_ok h with h | h
        · obtain ⟨⟨r, st1⟩, hr, h⟩ := bind_ok h
          cases pure_ok h
          simp only [bndL, bnd]
          exact allOk_cons_res (res_fresh _ _) (allOk_append hvw
            (assignTargets_bnd _ cx.nsp _ (by simp [bnd]; exact allOk_nil _) ts _ r st1 hr hT hB))
        · exact assignTargets_bnd _ cx.nsp v' hvw ts st es st' h hT hB
    | .annAssign tg ann v, cx, st, es, st', h, _ => by
        cases v with
        | none => simp only [lowerStmt] at h; cases h; exact allOk_nil _
        | some v =>
          simp only [lowerStmt] at h
          obtain ⟨v', hv, h⟩ := bind_ok h
          have hT : tgtNames tg ⊆ srcS (.annAssign tg ann (some v)) := by simp only [srcS]; exact sub_trans mem_sub_append_l mem_sub_append_l
          have hB : bnd tg ⊆ srcS (.annAssign tg ann (some v)) := by simp only [srcS]; exact sub_trans mem_sub_append_r mem_sub_append_l
          have hV : bnd v ⊆ srcS (.annAssign tg ann (some v)) := by simp only [srcS, bndO]; exact mem_sub_append_r
          have hvw := allOk_transf hv hV
          rcases ite_ok h with h | h
          · obtain ⟨⟨r, st1⟩, hr, h⟩ := bind_ok h
            cases pure_ok h
            simp only [bndL, bnd]
            exact allOk_cons_res (res_fresh _ _) (allOk_append hvw
              (assignAuto_bnd _ cx.nsp false tg _ _ r st1 hr hT hB (by simp [bnd]; exact allOk_nil _)))
          · exact assignAuto_bnd _ cx.nsp false tg v' st es st' h hT hB hvw
    | .augAssign tg op v, cx, st, es, st', h, _ => by
        simp only [lowerStmt] at h
        refine lowerAugAssign_bnd _ cx.nsp tg op v st es st' h ?_ ?_ ?_
        · simp only [srcS]; exact sub_trans mem_sub_append_l mem_sub_append_l
        · simp only [srcS]; exact sub_trans mem_sub_append_r mem_sub_append_l
        · simp only [srcS]; exact mem_sub_append_r
    | .import_ names, cx, st, es, st', h, _ => by
        simp only [lowerStmt] at h
        obtain ⟨r, hr, h⟩ := bind_ok h
        cases pure_ok h
        exact lowerImport_bnd _ cx.nsp names _ hr (by simp only [srcS]; exact fun _ h => h)
    | .importFrom m names level, cx, st, es, st', h, _ => by
        simp only [lowerStmt] at h
        exact lowerImportFrom_bnd _ cx.nsp m names level st es st' h (by simp only [srcS]; exact fun _ h => h)
    | .functionDef name (.mk po as va ko kd kw ds) body decos lineno, cx, st, es, st', h, hc => by
        simp only [lowerStmt, lowerFunctionHead] at h
        obtain ⟨inner, hin, h⟩ := bind_ok h
        obtain ⟨args', ha, h⟩ := bind_ok h
        obtain ⟨ds', hds, ha⟩ := bind_ok ha
        obtain ⟨kd', hkd, ha⟩ := bind_ok ha
        cases pure_ok ha
        obtain ⟨⟨b', st1⟩, hb, h⟩ := bind_ok h
        obtain ⟨lam, hl, h⟩ := bind_ok h
        obtain ⟨r, hr, h⟩ := bind_ok h
        cases pure_ok h
        have hio := findChild_ok hin hc.1
        have hik := findChild_kind hin
        have hcx : CtxOK { cfg := cx.cfg, nsp := inner, loops := [], fnUsed := guardsInL .function body } :=
          ⟨hio.2, (fun _ => hio.1), (by intro l hl; cases hl)⟩
        have hbw := lowerBlock_bnd body _ _ b' st1 hb hcx
        -- the sets of the source
        have hname : name ∈ srcS (.functionDef name (.mk po as va ko kd kw ds) body decos lineno) := by simp [srcS]
        have hsub : ∀ {l : List String}, l ⊆ (Arguments.paramNames (.mk po as va ko kd kw ds) ++ bndL ds ++ bndOL kd ++ bndL decos ++ srcB body) →
            l ⊆ srcS (.functionDef name (.mk po as va ko kd kw ds) body decos lineno) := by
          intro l hl x hx; simp only [srcS]; exact List.mem_cons_of_mem _ (hl hx)
        have hP := hsub (l := Arguments.paramNames (.mk po as va ko kd kw ds))
          (sub_trans mem_sub_append_l (sub_trans mem_sub_append_l (sub_trans mem_sub_append_l mem_sub_append_l)))
        have hD := hsub (l := bndL ds) (sub_trans mem_sub_append_r (sub_trans mem_sub_append_l (sub_trans mem_sub_append_l mem_sub_append_l)))
        have hK := hsub (l := bndOL kd) (sub_trans mem_sub_append_r (sub_trans mem_sub_append_l mem_sub_append_l))
        have hDec := hsub (l := bndL decos) (sub_trans mem_sub_append_r mem_sub_append_l)
        have hBody := hsub (l := srcB body) mem_sub_append_r
        simp only [bndL, List.append_nil]
        refine allOk_sub (getAssign_bnd hr) (allOk_cons_mem hname ?_)
        have hlam : AllOk (srcS (.functionDef name (.mk po as va ko kd kw ds) body decos lineno)) (bnd lam) := by
          refine allOk_sub (applyDecorators_bnd cx.nsp decos _ lam hl) (allOk_append (allOk_of_sub hDec) ?_)
          simp only [bnd, Arguments.paramNames, bndL, List.append_nil, Expr.neg1, listWrapper]
          refine allOk_append (allOk_append (allOk_append (allOk_of_sub (by simpa [Arguments.paramNames] using hP))
            (allOk_of_sub (sub_trans (transfList_bnd cx.nsp [] ds ds' hds) hD)))
            (allOk_of_sub (sub_trans (transfOptList_bnd cx.nsp [] kd kd' hkd) hK))) ?_
          rw [bndL_append, bndL_append]
          refine allOk_append (allOk_append ?_ ?_) (by simp [bndL, bnd]; exact allOk_nil _)
          · rw [bndL_append, bndL_append, bndL_append]
            refine allOk_append (allOk_append (allOk_append ?_ (allOk_bndL_ite _ ?_ (allOk_bndL_nil _))) (allOk_bndL_ite _ ?_ (allOk_bndL_nil _)))
              (allOk_bndL_ite _ (allOk_bndL_nil _) ?_)
            · simp only [bndL, bnd, bnd_none, List.append_nil]; exact allOk_cons_res hio.1.1 (allOk_nil _)
            · simp [bndL, bnd]; exact allOk_nil _
            · simp only [bndL, bnd_setFlag, List.append_nil]; exact allOk_cons_res hio.1.2.1 (allOk_nil _)
            · simp only [bndL, bnd, bndD_params, List.append_nil]; exact allOk_cons_res hio.1.2.2 (allOk_nil _)
          · cases cx.cfg.wrapper with
            | list => exact allOk_mono hBody hbw
            | chainCall =>
              simp only [bndL, List.append_nil]
              exact allOk_wrapExprs _ _ (allOk_mono hBody hbw)
        split
        · rw [bnd_hookWrap]; exact allOk_cons_res res_hookFn hlam
        · exact hlam
    | .classDef name bases kws body decos lineno, cx, st, es, st', h, hc => by
        simp only [lowerStmt] at h
        obtain ⟨inner, hin, h⟩ := bind_ok h
        obtain ⟨⟨b', st1⟩, hb, h⟩ := bind_ok h
        obtain ⟨bases', hbs, h⟩ := bind_ok h
        obtain ⟨⟨metaE, kws'⟩, hk, h⟩ := bind_ok h
        obtain ⟨create, hcr, h⟩ := bind_ok h
        obtain ⟨self, hs, h⟩ := bind_ok h
        obtain ⟨self2, hs2, h⟩ := bind_ok h
        have hio := findChild_ok hin hc.1
        have hik := findChild_kind hin
        have hcx : CtxOK { cfg := cx.cfg, nsp := inner, loops := [], fnUsed := false } :=
          ⟨hio.2, (fun hf => (by rw [hik] at hf; cases hf)), (by intro l hl; cases hl)⟩
        have hbw := lowerBlock_bnd body _ _ b' st1 hb hcx
        have hname : name ∈ srcS (.classDef name bases kws body decos lineno) := by simp [srcS]
        have hsub : ∀ {l : List String}, l ⊆ (bndL bases ++ bndK kws ++ bndL decos ++ srcB body) →
            l ⊆ srcS (.classDef name bases kws body decos lineno) := by
          intro l hl x hx; simp only [srcS]; exact List.mem_cons_of_mem _ (hl hx)
        have hBa := hsub (l := bndL bases) (sub_trans mem_sub_append_l (sub_trans mem_sub_append_l mem_sub_append_l))
        have hKw := hsub (l := bndK kws) (sub_trans mem_sub_append_r (sub_trans mem_sub_append_l mem_sub_append_l))
        have hDec := hsub (l := bndL decos) (sub_trans mem_sub_append_r mem_sub_append_l)
        have hBody := hsub (l := srcB body) mem_sub_append_r
        have hck := classKeywords_bnd cx.nsp kws metaE kws' hk
        have hcreate : AllOk (srcS (.classDef name bases kws body decos lineno)) (bnd create) := by
          refine allOk_sub (getAssign_bnd hcr) (allOk_cons_mem hname ?_)
          simp only [bnd, bndL, bndD, bnd_str, List.append_nil, List.nil_append]
          refine allOk_append (allOk_append ?_ (allOk_of_sub (sub_trans (transfList_bnd cx.nsp [] bases bases' hbs) hBa))) ?_
          · cases metaE with
            | none => simp [Option.getD, bnd]; exact allOk_nil _
            | some m =>
              simp only [Option.getD]
              exact allOk_of_sub (sub_trans (sub_trans (by simp [bndO]) (sub_left hck)) hKw)
          · exact allOk_of_sub (sub_trans (sub_right hck) hKw)
        have hload : AllOk (srcS (.classDef name bases kws body decos lineno))
            (bnd (Expr.namedExpr (st1.fresh "loader").1 (.lambda Arguments.empty (.subscript (.list
              ([.namedExpr "__class__" self, .namedExpr inner.dictName (.dict [])] ++ b' ++ [.name inner.dictName])) Expr.neg1)))) := by
          simp only [bnd, Arguments.empty, Arguments.paramNames, bndL, bndOL, Expr.neg1, List.append_nil, List.nil_append]
          refine allOk_cons_res (res_fresh _ _) ?_
          rw [bndL_append, bndL_append]
          simp only [bndL, bnd, bndD, getLoad_bnd hs, List.append_nil, List.nil_append, List.cons_append, List.singleton_append]
          exact allOk_cons_res (Or.inr (by decide)) (allOk_cons_res hio.1.2.2 (allOk_mono hBody hbw))
        have hfill : AllOk (srcS (.classDef name bases kws body decos lineno))
            (bnd (Expr.listComp (.call (.name "setattr") [self2, .name classKey, .name classValue] [])
              [.mk (.tuple [.name classKey, .name classValue])
                (.call (.attribute (.call (.name (st1.fresh "loader").1) [] []) "items") [] []) [] false])) := by
          simp only [bnd, bndL, bndK, bndG, tgtNames, tgtNamesL, getLoad_bnd hs2, List.append_nil, List.nil_append]
          exact allOk_cons_res res_classKey (allOk_cons_res res_classValue (allOk_nil _))
        simp only [] at h
        rcases ite_ok h with h | h
        · cases pure_ok h
          simp only [bndL, List.append_nil]
          exact allOk_append hcreate (allOk_append hload hfill)
        · obtain ⟨self3, hs3, h⟩ := bind_ok h
          obtain ⟨decorated, hd, h⟩ := bind_ok h
          obtain ⟨r, hr, h⟩ := bind_ok h
          cases pure_ok h
          simp only [bndL, List.append_nil]
          refine allOk_append hcreate (allOk_append hload (allOk_append hfill ?_))
          refine allOk_sub (getAssign_bnd hr) (allOk_cons_mem hname ?_)
          refine allOk_sub (applyDecorators_bnd cx.nsp decos _ decorated hd) (allOk_append (allOk_of_sub hDec) ?_)
          rw [getLoad_bnd hs3]; exact allOk_nil _
    | .other .., cx, st, es, st', h, _ => by simp only [lowerStmt] at h; cases h
  termination_by structural s => s

  theorem lowerBlock_bnd : ∀ (ss : List Stmt) (cx : Ctx) (st : St) (es : List Expr) (st' : St),
      lowerBlock cx ss st = .ok (es, st') → CtxOK cx → AllOk (srcB ss) (bndL es)
    | [], cx, st, es, st', h, _ => by simp only [lowerBlock] at h; cases h; exact allOk_nil _
    | s :: ss, cx, st, es, st', h, hc => by
        simp only [lowerBlock] at h
        obtain ⟨⟨a, st1⟩, ha, h⟩ := bind_ok h
        have haw : AllOk (srcB (s :: ss)) (bndL a) := by
          simp only [srcB]; exact allOk_mono mem_sub_append_l (lowerStmt_bnd s cx st a st1 ha hc)
        have hrest : ∀ rest st2, lowerBlock cx ss st1 = .ok (rest, st2) → AllOk (srcB (s :: ss)) (bndL rest) := by
          intro rest st2 hr
          simp only [srcB]; exact allOk_mono mem_sub_append_r (lowerBlock_bnd ss cx st1 rest st2 hr hc)
        simp only [] at h
        split at h
        · cases pure_ok h; exact haw
        · split at h
          · obtain ⟨⟨rest, st2⟩, hr, h⟩ := bind_ok h
            cases pure_ok h
            rw [bndL_append]
            refine allOk_append haw ?_
            simp only [bndL, List.append_nil]
            exact allOk_guard _ _ _ (hrest rest st2 hr)
          · obtain ⟨⟨rest, st2⟩, hr, h⟩ := bind_ok h
            cases pure_ok h
            rw [bndL_append]
            exact allOk_append haw (hrest rest st2 hr)
  termination_by structural ss => ss
end


/-! ### the whole program -/

theorem goModule_bnd (cx : Ctx) (hc : CtxOK cx) : ∀ (ss : List Stmt) (st : St) (es : List Expr) (st' : St),
    lowerFull.goModule cx ss st = .ok (es, st') → AllOk (srcB ss) (bndL es)
  | [], st, es, st', h => by simp only [lowerFull.goModule] at h; cases h; exact allOk_nil _
  | s :: ss, st, es, st', h => by
      simp only [lowerFull.goModule] at h
      obtain ⟨⟨a, st1⟩, ha, h⟩ := bind_ok h
      obtain ⟨⟨b, st2⟩, hb, h⟩ := bind_ok h
      cases pure_ok h
      rw [bndL_append]
      simp only [srcB]
      exact allOk_append (allOk_mono mem_sub_append_l (lowerStmt_bnd s cx st a st1 ha hc))
        (allOk_mono mem_sub_append_r (goModule_bnd cx hc ss st1 b st2 hb))

/-- **Every name the converted program binds is a binder of the script or a helper name.** -/
theorem lowerFull_bnd (cfg : Cfg) (root : SymScope) (body : List Stmt) (e : Expr)
    (h : lowerFull cfg root body = .ok e) : AllOk (srcB body) (bnd e) := by
  unfold lowerFull at h
  obtain ⟨⟨g, sup⟩, hg, h⟩ := bind_ok h
  simp only [] at h
  obtain ⟨⟨b, st⟩, hb, h⟩ := bind_ok h
  cases pure_ok h
  have hk : g.kind = .module := generateNsp_kind hg
  have hc : CtxOK { cfg := cfg, nsp := g, loops := [], fnUsed := false } :=
    ⟨generateNsp_ok hg, (fun hf => (by rw [hk] at hf; cases hf)), (by intro l hl; cases hl)⟩
  have hbo := goModule_bnd _ hc body _ b st hb
  refine allOk_wrapExprs _ cfg ?_
  have himp : ∀ m : String, bnd (Expr.namedExpr m (.call (.name "__import__") [Expr.str m] [])) = [m] := by
    intro m; simp [bnd, bndL, bndK, bnd_str]
  have h1 : AllOk (srcB body) (bndL (if st.useItertools then Expr.namedExpr "itertools" (.call (.name "__import__") [Expr.str "itertools"] []) :: b else b)) := by
    split
    · simp only [bndL, himp]; exact allOk_cons_res (Or.inr (by decide)) hbo
    · exact hbo
  have h2 : AllOk (srcB body) (bndL (if st.useImportlib then Expr.namedExpr "importlib" (.call (.name "__import__") [Expr.str "importlib"] []) ::
      (if st.useItertools then Expr.namedExpr "itertools" (.call (.name "__import__") [Expr.str "itertools"] []) :: b else b)
      else (if st.useItertools then Expr.namedExpr "itertools" (.call (.name "__import__") [Expr.str "itertools"] []) :: b else b))) := by
    split
    · simp only [bndL, himp]; exact allOk_cons_res (Or.inr (by decide)) h1
    · exact h1
  split
  · simp only [bndL]; exact allOk_append (allOk_iterWrapperBody _) h2
  · exact h2

end OlVerif
