/-
  The output of the conversion is a well-formed expression tree (`wfE`, Unparse/WF.lean) whenever
  the expressions of the source program are: the transformer copies shapes, the templates the
  statements are lowered to are well-formed, the wrappers are.  Together with C03.unparse_derives
  this gives: the text the custom unparser writes for the converted program is derived by
  CPython's expression grammar.
-/
import OlVerif.Lower.Stmt
import OlVerif.Unparse.WF

set_option linter.unusedVariables false
set_option linter.unusedSimpArgs false

namespace OlVerif

/-! ### inversion of the error monad -/

theorem bind_ok {α β : Type} {x : Except Err α} {f : α → Except Err β} {r : β} (h : x >>= f = .ok r) :
    ∃ a, x = .ok a ∧ f a = .ok r := by
  cases x with
  | error e => cases h
  | ok a => exact ⟨a, rfl, h⟩

theorem pure_ok {α : Type} {x r : α} (h : (pure x : Except Err α) = .ok r) : x = r := by
  cases h; rfl

theorem ok_ok {α : Type} {x r : α} (h : (Except.ok x : Except Err α) = .ok r) : x = r := by
  cases h; rfl

/-! ### leaves and small templates -/

theorem wfE_str (s : String) : wfE (Expr.str s) := by
  simp only [Expr.str, wfE, wfC]
  intro c hc
  simp only [List.mem_map] at hc
  obtain ⟨ch, _, rfl⟩ := hc
  have := ch.valid
  have h2 : ch.toNat = ch.val.toNat := rfl
  rcases this with h | h
  · have : ch.val.toNat < 0xd800 := h
    omega
  · have : ch.val.toNat < 0x110000 := h.2
    omega

theorem wfE_name (x : String) : wfE (.name x) := by simp only [wfE]
theorem wfE_none : wfE Expr.none_ := by simp [Expr.none_, wfE, wfC]
theorem wfE_true : wfE Expr.true_ := by simp [Expr.true_, wfE, wfC]
theorem wfE_false : wfE Expr.false_ := by simp [Expr.false_, wfE, wfC]
theorem wfE_ellipsis : wfE Expr.ellipsis := by simp [Expr.ellipsis, wfE, wfC]
theorem wfE_neg1 : wfE Expr.neg1 := by simp [Expr.neg1, wfE, wfC]
theorem wfE_nat (n : Nat) : wfE (.const (.int n)) := by simp [wfE, wfC]

theorem not_starred_of_wfE {e : Expr} (h : wfE e) : ∀ v, e ≠ .starred v := by
  intro v hv; subst hv; simp [wfE] at h

theorem wfElts_cons {e : Expr} {es : List Expr} (h : wfE e) (hs : wfElts es) : wfElts (e :: es) := by
  cases e <;> first | (simp [wfE] at h; done) | (simp only [wfElts]; exact ⟨h, hs⟩)

theorem wfElts_of_wfL : ∀ {es : List Expr}, wfL es → wfElts es
  | [], _ => by simp only [wfElts]
  | e :: es, h => by
      simp only [wfL] at h
      exact wfElts_cons h.1 (wfElts_of_wfL h.2)

theorem wfElts_nil : wfElts [] := by simp only [wfElts]
theorem wfKws_nil : wfKws [] := by simp only [wfKws]

/-- a call `f(a, b, …)` with ordinary arguments -/
theorem wfE_call {f : Expr} {as : List Expr} (hf : wfE f) (ha : wfL as) : wfE (.call f as []) := by
  simp only [wfE]; exact ⟨hf, wfElts_of_wfL ha, wfKws_nil⟩

theorem wfE_list {es : List Expr} (h : wfL es) : wfE (.list es) := by
  simp only [wfE]; exact wfElts_of_wfL h

theorem wfL_nil : wfL [] := by simp only [wfL]
theorem wfL_cons {e : Expr} {es : List Expr} (h : wfE e) (hs : wfL es) : wfL (e :: es) := by
  simp only [wfL]; exact ⟨h, hs⟩
theorem wfL_append : ∀ {a b : List Expr}, wfL a → wfL b → wfL (a ++ b)
  | [], b, _, hb => hb
  | x :: a, b, ha, hb => by
      simp only [wfL] at ha
      exact wfL_cons ha.1 (wfL_append ha.2 hb)
theorem wfL_of_mem : ∀ {es : List Expr}, (∀ e ∈ es, wfE e) → wfL es
  | [], _ => wfL_nil
  | e :: es, h => wfL_cons (h e (by simp)) (wfL_of_mem (fun x hx => h x (by simp [hx])))
theorem wfE_of_mem : ∀ {es : List Expr}, wfL es → ∀ e ∈ es, wfE e
  | [], _, e, he => by cases he
  | x :: es, h, e, he => by
      simp only [wfL] at h
      simp only [List.mem_cons] at he
      rcases he with rfl | he
      · exact h.1
      · exact wfE_of_mem h.2 e he

/-- a subscript with an ordinary index -/
theorem wfE_subscript {v s : Expr} (hv : wfE v) (hs : wfE s) (hk : ∀ es, s ≠ .tuple es) : wfE (.subscript v s) := by
  simp only [wfE]
  refine ⟨hv, ?_⟩
  cases s <;> first | (simp [wfE] at hs; done) | (exact absurd rfl (hk _)) | (simp only [wfSlice]; exact hs)

theorem wfE_namedExpr (t : String) {v : Expr} (hv : wfE v) : wfE (.namedExpr t v) := by simp only [wfE]; exact hv
theorem wfE_attribute {v : Expr} (a : String) (hv : wfE v) : wfE (.attribute v a) := by simp only [wfE]; exact hv
theorem wfE_ifExp {t b e : Expr} (ht : wfE t) (hb : wfE b) (he : wfE e) : wfE (.ifExp t b e) := by
  simp only [wfE]; exact ⟨ht, hb, he⟩
theorem wfE_not {e : Expr} (h : wfE e) : wfE (Expr.not_ e) := by simp only [Expr.not_, wfE]; exact h
theorem wfE_binOp {a b : Expr} (op : BinOpK) (ha : wfE a) (hb : wfE b) : wfE (.binOp a op b) := by
  simp only [wfE]; exact ⟨ha, hb⟩
theorem wfE_boolOp2 {a b : Expr} (op : BoolOpK) (ha : wfE a) (hb : wfE b) : wfE (.boolOp op [a, b]) := by
  simp only [wfE, wfL]; exact ⟨by simp, ha, hb, trivial⟩

theorem wfE_dictLoad (d x : String) : wfE (dictLoad d x) :=
  wfE_subscript (wfE_name d) (wfE_str x) (by intro es h; cases h)

theorem getLoad_wf {n : Nsp} {b : List String} {x : String} {e : Expr} (h : n.getLoad b x = .ok e) : wfE e := by
  unfold Nsp.getLoad at h
  repeat' split at h
  all_goals first
    | (cases h; done)
    | (cases h; exact wfE_name _)
    | (cases h; exact wfE_dictLoad _ _)

theorem wfE_setitem (d x : String) {v : Expr} (hv : wfE v) : wfE (dictSetitem d x v) :=
  wfE_call (wfE_attribute _ (wfE_name d)) (wfL_cons (wfE_str x) (wfL_cons hv wfL_nil))

theorem wfE_globalsSetitem (x : String) {v : Expr} (hv : wfE v) : wfE (globalsSetitem x v) :=
  wfE_call (wfE_attribute _ (wfE_call (wfE_name _) wfL_nil)) (wfL_cons (wfE_str x) (wfL_cons hv wfL_nil))

theorem getAssign_wf {n : Nsp} {x : String} {v e : Expr} (h : n.getAssign x v = .ok e) (hv : wfE v) : wfE e := by
  unfold Nsp.getAssign at h
  repeat' split at h
  all_goals first
    | (cases h; done)
    | (cases h; exact wfE_namedExpr _ hv)
    | (cases h; exact wfE_setitem _ _ hv)
    | (cases h; exact wfE_globalsSetitem _ hv)


/-! ### the expression transformer keeps trees well-formed -/

theorem transfList_len (n : Nsp) (b : List String) : ∀ (es es' : List Expr), transfList n b es = .ok es' → es'.length = es.length
  | [], es', h => by simp only [transfList] at h; cases h; rfl
  | e :: es, es', h => by
      simp only [transfList] at h
      obtain ⟨e', _, h⟩ := bind_ok h
      obtain ⟨es'', hes, h⟩ := bind_ok h
      cases pure_ok h
      simp [transfList_len n b es es'' hes]

theorem transfOptList_len (n : Nsp) (b : List String) : ∀ (es es' : List (Option Expr)),
    transfOptList n b es = .ok es' → es'.length = es.length
  | [], es', h => by simp only [transfOptList] at h; cases h; rfl
  | none :: es, es', h => by
      simp only [transfOptList] at h
      obtain ⟨es'', hes, h⟩ := bind_ok h
      cases pure_ok h
      simp [transfOptList_len n b es es'' hes]
  | some e :: es, es', h => by
      simp only [transfOptList] at h
      obtain ⟨e', _, h⟩ := bind_ok h
      obtain ⟨es'', hes, h⟩ := bind_ok h
      cases pure_ok h
      simp [transfOptList_len n b es es'' hes]

/-- the transformer leaves the literal text of an f-string alone: a brace-free spec stays brace-free -/
theorem transfList_noBrace (n : Nsp) : ∀ (b : List String) (vs vs' : List Expr), transfList n b vs = .ok vs' →
    wfParts vs → specNoBrace vs = true → specNoBrace vs' = true
  | b, [], vs', h, _, _ => by simp only [transfList] at h; cases h; rfl
  | b, e :: vs, vs', h, hw, hn => by
      simp only [transfList] at h
      obtain ⟨e', he, h⟩ := bind_ok h
      obtain ⟨vs'', hvs, h⟩ := bind_ok h
      cases pure_ok h
      cases e with
      | const c =>
        cases c with
        | str cps =>
          simp only [wfParts] at hw
          simp only [transf] at he
          cases he
          simp only [specNoBrace, Bool.and_eq_true] at hn ⊢
          exact ⟨hn.1, transfList_noBrace n b vs vs'' hvs hw.2.2.2 hn.2⟩
        | _ => simp [wfParts] at hw
      | formattedValue v c sp =>
        simp only [wfParts] at hw
        simp only [transf] at he
        obtain ⟨_, _, he⟩ := bind_ok he
        obtain ⟨_, _, he⟩ := bind_ok he
        cases pure_ok he
        simp only [specNoBrace] at hn ⊢
        exact transfList_noBrace n b vs vs'' hvs hw.2.2.2 hn
      | _ => simp [wfParts] at hw

theorem transfComps_ne_nil (n : Nsp) (f b : List String) : ∀ (gs gs' : List Comp),
    transfComps n f b gs = .ok gs' → gs ≠ [] → gs' ≠ []
  | [], _, _, hne => absurd rfl hne
  | .mk t i ifs a :: gs, gs', h, _ => by
      simp only [transfComps] at h
      obtain ⟨_, _, h⟩ := bind_ok h
      obtain ⟨_, _, h⟩ := bind_ok h
      obtain ⟨_, _, h⟩ := bind_ok h
      obtain ⟨_, _, h⟩ := bind_ok h
      cases pure_ok h
      simp

/-- `transf` never turns an expression into a slice or a starred element, and keeps those -/
theorem transf_isSlice (n : Nsp) (b : List String) (e e' : Expr) (h : transf n b e = .ok e') : isSlice e' = isSlice e := by
  cases e with
  | slice lo up st =>
    simp only [transf] at h
    obtain ⟨_, _, h⟩ := bind_ok h
    obtain ⟨_, _, h⟩ := bind_ok h
    obtain ⟨_, _, h⟩ := bind_ok h
    cases pure_ok h; rfl
  | name id =>
    have := getLoad_wf (n := n) (b := b) (x := id) (e := e') (by simpa only [transf] using h)
    cases e' <;> first | rfl | simp [wfE] at this
  | namedExpr t v =>
    simp only [transf] at h
    obtain ⟨v', _, h⟩ := bind_ok h
    by_cases hm : b.contains lamMark = true
    · rw [if_pos hm] at h; cases pure_ok h; rfl
    rw [if_neg hm] at h
    obtain ⟨r, _, h⟩ := bind_ok h
    split at h
    · cases pure_ok h; rfl
    · obtain ⟨l, _, h⟩ := bind_ok h
      cases pure_ok h; rfl
  | lambda as body =>
    obtain ⟨po, as', va, ko, kd, kw, ds⟩ := as
    simp only [transf] at h
    obtain ⟨_, _, h⟩ := bind_ok h
    obtain ⟨_, _, h⟩ := bind_ok h
    obtain ⟨_, _, h⟩ := bind_ok h
    cases pure_ok h; rfl
  | yield_ _ => simp only [transf] at h; cases h
  | yieldFrom _ => simp only [transf] at h; cases h
  | await _ => simp only [transf] at h; cases h
  | const c => simp only [transf] at h; cases h; rfl
  | _ =>
    simp only [transf] at h
    repeat (obtain ⟨_, _, h⟩ := bind_ok h)
    cases pure_ok h; rfl

def isTupleE : Expr → Bool
  | .tuple _ => true
  | _ => false

theorem transf_isTuple (n : Nsp) (b : List String) (e e' : Expr) (h : transf n b e = .ok e') : isTupleE e' = isTupleE e := by
  cases e with
  | name id =>
    simp only [transf] at h
    unfold Nsp.getLoad at h
    repeat' split at h
    all_goals first | (cases h; done) | (cases h; rfl)
  | namedExpr t v =>
    simp only [transf] at h
    obtain ⟨v', _, h⟩ := bind_ok h
    by_cases hm : b.contains lamMark = true
    · rw [if_pos hm] at h; cases pure_ok h; rfl
    rw [if_neg hm] at h
    obtain ⟨r, hr, h⟩ := bind_ok h
    split at h
    · cases pure_ok h; rfl
    · obtain ⟨l, _, h⟩ := bind_ok h
      cases pure_ok h; rfl
  | lambda as body =>
    obtain ⟨po, as', va, ko, kd, kw, ds⟩ := as
    simp only [transf] at h
    obtain ⟨_, _, h⟩ := bind_ok h
    obtain ⟨_, _, h⟩ := bind_ok h
    obtain ⟨_, _, h⟩ := bind_ok h
    cases pure_ok h; rfl
  | yield_ _ => simp only [transf] at h; cases h
  | yieldFrom _ => simp only [transf] at h; cases h
  | await _ => simp only [transf] at h; cases h
  | const c => simp only [transf] at h; cases h; rfl
  | _ =>
    simp only [transf] at h
    repeat (obtain ⟨_, _, h⟩ := bind_ok h)
    cases pure_ok h; rfl

theorem wfSlice_of_wfE {s : Expr} (h : wfE s) (ht : isTupleE s = false) : wfSlice s := by
  cases s <;> first | (simp [wfE] at h; done) | (simp [isTupleE] at ht; done) | (simp only [wfSlice]; exact h)

theorem transfList_anySlice (n : Nsp) (b : List String) : ∀ (es es' : List Expr), transfList n b es = .ok es' →
    es'.any isSlice = es.any isSlice
  | [], es', h => by simp only [transfList] at h; cases h; rfl
  | e :: es, es', h => by
      simp only [transfList] at h
      obtain ⟨e', he, h⟩ := bind_ok h
      obtain ⟨es'', hes, h⟩ := bind_ok h
      cases pure_ok h
      simp [transf_isSlice n b e e' he, transfList_anySlice n b es es'' hes]


-- the index of a subscript: context `hs : transf n b s = .ok s'`, `hws : wfSlice s`, goal `wfSlice s'`
set_option hygiene false in
macro "index_cases" : tactic => `(tactic| (
        cases s with
        | slice lo up st =>
          simp only [wfSlice] at hws
          simp only [transf] at hs
          obtain ⟨lo', hlo, hs⟩ := bind_ok hs
          obtain ⟨up', hup, hs⟩ := bind_ok hs
          obtain ⟨st', hst, hs⟩ := bind_ok hs
          cases pure_ok hs
          simp only [wfSlice]
          exact ⟨transfOpt_wf n b lo lo' hlo hws.1, transfOpt_wf n b up up' hup hws.2.1, transfOpt_wf n b st st' hst hws.2.2⟩
        | tuple es =>
          simp only [wfSlice] at hws
          simp only [transf] at hs
          obtain ⟨es', hes, hs⟩ := bind_ok hs
          cases pure_ok hs
          simp only [wfSlice]
          rw [transfList_anySlice n b es es' hes]
          split
          · rename_i hany; rw [if_pos hany] at hws; exact transfList_wfSliceElts n b es es' hes hws
          · rename_i hany; rw [if_neg hany] at hws; exact transfList_wfElts n b es es' hes hws
        | starred _ => simp [wfSlice] at hws
        | _ =>
          simp only [wfSlice] at hws
          have hs' := transf_wf n b _ s' hs hws
          exact wfSlice_of_wfE hs' (by rw [transf_isTuple n b _ s' hs]; rfl)))

theorem compTargetNames_kind {t : Expr} {ns : List String} (h : compTargetNames t = .ok ns) : targetKind t = true := by
  cases t <;> first | rfl | (simp only [compTargetNames] at h; cases h)

mutual
  theorem transf_wf (n : Nsp) : ∀ (b : List String) (e e' : Expr), transf n b e = .ok e' → wfE e → wfE e'
    | b, .name id, e', h, _ => by simp only [transf] at h; exact getLoad_wf h
    | b, .const c, e', h, hw => by simp only [transf] at h; cases h; exact hw
    | b, .namedExpr t v, e', h, hw => by
        simp only [wfE] at hw
        simp only [transf] at h
        obtain ⟨v', hv, h⟩ := bind_ok h
        by_cases hm : b.contains lamMark = true
        · rw [if_pos hm] at h; cases pure_ok h
          simp only [wfE]; exact transf_wf n b v v' hv hw
        rw [if_neg hm] at h
        obtain ⟨r, hr, h⟩ := bind_ok h
        have hr' := getAssign_wf hr (transf_wf n b v v' hv hw)
        split at h
        · cases pure_ok h; exact hr'
        · obtain ⟨l, hl, h⟩ := bind_ok h
          cases pure_ok h
          exact wfE_subscript (wfE_list (wfL_cons hr' (wfL_cons (getLoad_wf hl) wfL_nil))) wfE_neg1
            (by intro es he; cases he)
    | b, .yield_ _, e', h, _ => by simp only [transf] at h; cases h
    | b, .yieldFrom _, e', h, _ => by simp only [transf] at h; cases h
    | b, .await _, e', h, _ => by simp only [transf] at h; cases h
    | b, .lambda (.mk po as va ko kd kw ds) body, e', h, hw => by
        simp only [wfE, wfA] at hw
        simp only [transf] at h
        obtain ⟨ds', hds, h⟩ := bind_ok h
        obtain ⟨kd', hkd, h⟩ := bind_ok h
        obtain ⟨body', hb, h⟩ := bind_ok h
        cases pure_ok h
        simp only [wfE, wfA]
        refine ⟨⟨?_, ?_, transfList_wfL n b ds ds' hds hw.1.2.2.1, transfOptList_wf n b kd kd' hkd hw.1.2.2.2⟩,
          transf_wf n _ body body' hb hw.2⟩
        · rw [transfList_len n b ds ds' hds]; exact hw.1.1
        · rw [transfOptList_len n b kd kd' hkd]; exact hw.1.2.1
    | b, .listComp elt gens, e', h, hw => by
        simp only [wfE] at hw
        simp only [transf] at h
        obtain ⟨names, _, h⟩ := bind_ok h
        obtain ⟨elt', he, h⟩ := bind_ok h
        obtain ⟨gens', hg, h⟩ := bind_ok h
        cases pure_ok h
        simp only [wfE]
        exact ⟨transf_wf n _ elt elt' he hw.1, transfComps_ne_nil n _ _ gens gens' hg hw.2.1, transfComps_wf n _ _ gens gens' hg hw.2.2⟩
    | b, .setComp elt gens, e', h, hw => by
        simp only [wfE] at hw
        simp only [transf] at h
        obtain ⟨names, _, h⟩ := bind_ok h
        obtain ⟨elt', he, h⟩ := bind_ok h
        obtain ⟨gens', hg, h⟩ := bind_ok h
        cases pure_ok h
        simp only [wfE]
        exact ⟨transf_wf n _ elt elt' he hw.1, transfComps_ne_nil n _ _ gens gens' hg hw.2.1, transfComps_wf n _ _ gens gens' hg hw.2.2⟩
    | b, .generatorExp elt gens, e', h, hw => by
        simp only [wfE] at hw
        simp only [transf] at h
        obtain ⟨names, _, h⟩ := bind_ok h
        obtain ⟨elt', he, h⟩ := bind_ok h
        obtain ⟨gens', hg, h⟩ := bind_ok h
        cases pure_ok h
        simp only [wfE]
        exact ⟨transf_wf n _ elt elt' he hw.1, transfComps_ne_nil n _ _ gens gens' hg hw.2.1, transfComps_wf n _ _ gens gens' hg hw.2.2⟩
    | b, .dictComp k v gens, e', h, hw => by
        simp only [wfE] at hw
        simp only [transf] at h
        obtain ⟨names, _, h⟩ := bind_ok h
        obtain ⟨k', hk, h⟩ := bind_ok h
        obtain ⟨v', hv, h⟩ := bind_ok h
        obtain ⟨gens', hg, h⟩ := bind_ok h
        cases pure_ok h
        simp only [wfE]
        exact ⟨transf_wf n _ k k' hk hw.1, transf_wf n _ v v' hv hw.2.1,
          transfComps_ne_nil n _ _ gens gens' hg hw.2.2.1, transfComps_wf n _ _ gens gens' hg hw.2.2.2⟩
    | b, .joinedStr vs, e', h, hw => by
        simp only [wfE] at hw
        simp only [transf] at h
        obtain ⟨vs', hvs, h⟩ := bind_ok h
        cases pure_ok h
        simp only [wfE]
        exact transfList_parts n b vs vs' hvs hw
    | b, .formattedValue .., e', h, hw => by simp [wfE] at hw
    | b, .starred _, e', h, hw => by simp [wfE] at hw
    | b, .slice .., e', h, hw => by simp [wfE] at hw
    | b, .list es, e', h, hw => by
        simp only [wfE] at hw
        simp only [transf] at h
        obtain ⟨es', hes, h⟩ := bind_ok h
        cases pure_ok h
        simp only [wfE]
        exact transfList_wfElts n b es es' hes hw
    | b, .tuple es, e', h, hw => by
        simp only [wfE] at hw
        simp only [transf] at h
        obtain ⟨es', hes, h⟩ := bind_ok h
        cases pure_ok h
        simp only [wfE]
        exact transfList_wfElts n b es es' hes hw
    | b, .set es, e', h, hw => by
        simp only [wfE] at hw
        simp only [transf] at h
        obtain ⟨es', hes, h⟩ := bind_ok h
        cases pure_ok h
        simp only [wfE]
        refine ⟨?_, transfList_wfElts n b es es' hes hw.2⟩
        have := transfList_len n b es es' hes
        intro he; subst he; simp at this; exact hw.1 (List.eq_nil_of_length_eq_zero this.symm)
    | b, .dict items, e', h, hw => by
        simp only [wfE] at hw
        simp only [transf] at h
        obtain ⟨its', hi, h⟩ := bind_ok h
        cases pure_ok h
        simp only [wfE]
        exact transfItems_wf n b items its' hi hw
    | b, .attribute v a, e', h, hw => by
        simp only [wfE] at hw
        simp only [transf] at h
        obtain ⟨v', hv, h⟩ := bind_ok h
        cases pure_ok h
        simp only [wfE]
        exact transf_wf n b v v' hv hw
    | b, .subscript v s, e', h, hw => by
        simp only [wfE] at hw
        simp only [transf] at h
        obtain ⟨v', hv, h⟩ := bind_ok h
        obtain ⟨s', hs, h⟩ := bind_ok h
        cases pure_ok h
        simp only [wfE]
        refine ⟨transf_wf n b v v' hv hw.1, ?_⟩
        have hws := hw.2
        index_cases
    | b, .call f as ks, e', h, hw => by
        simp only [wfE] at hw
        simp only [transf] at h
        obtain ⟨f', hf, h⟩ := bind_ok h
        obtain ⟨as', has, h⟩ := bind_ok h
        obtain ⟨ks', hks, h⟩ := bind_ok h
        cases pure_ok h
        simp only [wfE]
        exact ⟨transf_wf n b f f' hf hw.1, transfList_wfElts n b as as' has hw.2.1, transfKeywords_wf n b ks ks' hks hw.2.2⟩
    | b, .binOp x op y, e', h, hw => by
        simp only [wfE] at hw
        simp only [transf] at h
        obtain ⟨x', hx, h⟩ := bind_ok h
        obtain ⟨y', hy, h⟩ := bind_ok h
        cases pure_ok h
        simp only [wfE]
        exact ⟨transf_wf n b x x' hx hw.1, transf_wf n b y y' hy hw.2⟩
    | b, .boolOp op vs, e', h, hw => by
        simp only [wfE] at hw
        simp only [transf] at h
        obtain ⟨vs', hvs, h⟩ := bind_ok h
        cases pure_ok h
        simp only [wfE]
        exact ⟨by rw [transfList_len n b vs vs' hvs]; exact hw.1, transfList_wfL n b vs vs' hvs hw.2⟩
    | b, .unaryOp op v, e', h, hw => by
        simp only [wfE] at hw
        simp only [transf] at h
        obtain ⟨v', hv, h⟩ := bind_ok h
        cases pure_ok h
        simp only [wfE]
        exact transf_wf n b v v' hv hw
    | b, .compare l ops cs, e', h, hw => by
        simp only [wfE] at hw
        simp only [transf] at h
        obtain ⟨l', hl, h⟩ := bind_ok h
        obtain ⟨cs', hcs, h⟩ := bind_ok h
        cases pure_ok h
        simp only [wfE]
        exact ⟨transf_wf n b l l' hl hw.1, by rw [transfList_len n b cs cs' hcs]; exact hw.2.1, hw.2.2.1,
          transfList_wfL n b cs cs' hcs hw.2.2.2⟩
    | b, .ifExp t x y, e', h, hw => by
        simp only [wfE] at hw
        simp only [transf] at h
        obtain ⟨t', ht, h⟩ := bind_ok h
        obtain ⟨x', hx, h⟩ := bind_ok h
        obtain ⟨y', hy, h⟩ := bind_ok h
        cases pure_ok h
        simp only [wfE]
        exact ⟨transf_wf n b t t' ht hw.1, transf_wf n b x x' hx hw.2.1, transf_wf n b y y' hy hw.2.2⟩
  termination_by structural _ x => x

  theorem transfList_wfL (n : Nsp) : ∀ (b : List String) (es es' : List Expr), transfList n b es = .ok es' → wfL es → wfL es'
    | b, [], es', h, _ => by simp only [transfList] at h; cases h; exact wfL_nil
    | b, e :: es, es', h, hw => by
        simp only [wfL] at hw
        simp only [transfList] at h
        obtain ⟨e', he, h⟩ := bind_ok h
        obtain ⟨es'', hes, h⟩ := bind_ok h
        cases pure_ok h
        exact wfL_cons (transf_wf n b e e' he hw.1) (transfList_wfL n b es es'' hes hw.2)
  termination_by structural _ x => x

  theorem transfList_wfElts (n : Nsp) : ∀ (b : List String) (es es' : List Expr), transfList n b es = .ok es' →
      wfElts es → wfElts es'
    | b, [], es', h, _ => by simp only [transfList] at h; cases h; exact wfElts_nil
    | b, e :: es, es', h, hw => by
        simp only [transfList] at h
        obtain ⟨e', he, h⟩ := bind_ok h
        obtain ⟨es'', hes, h⟩ := bind_ok h
        cases pure_ok h
        cases e with
        | starred v =>
          simp only [wfElts] at hw
          simp only [transf] at he
          obtain ⟨v', hv, he⟩ := bind_ok he
          cases pure_ok he
          simp only [wfElts]
          exact ⟨transf_wf n b v v' hv hw.1, transfList_wfElts n b es es'' hes hw.2⟩
        | _ =>
          simp only [wfElts] at hw
          exact wfElts_cons (transf_wf n b _ e' he hw.1) (transfList_wfElts n b es es'' hes hw.2)
  termination_by structural _ x => x

  theorem transfList_wfSliceElts (n : Nsp) : ∀ (b : List String) (es es' : List Expr), transfList n b es = .ok es' →
      wfSliceElts es → wfSliceElts es'
    | b, [], es', h, _ => by simp only [transfList] at h; cases h; simp only [wfSliceElts]
    | b, e :: es, es', h, hw => by
        simp only [transfList] at h
        obtain ⟨e', he, h⟩ := bind_ok h
        obtain ⟨es'', hes, h⟩ := bind_ok h
        cases pure_ok h
        cases e with
        | slice lo up st =>
          simp only [wfSliceElts] at hw
          simp only [transf] at he
          obtain ⟨lo', hlo, he⟩ := bind_ok he
          obtain ⟨up', hup, he⟩ := bind_ok he
          obtain ⟨st', hst, he⟩ := bind_ok he
          cases pure_ok he
          simp only [wfSliceElts]
          exact ⟨transfOpt_wf n b lo lo' hlo hw.1, transfOpt_wf n b up up' hup hw.2.1, transfOpt_wf n b st st' hst hw.2.2.1,
            transfList_wfSliceElts n b es es'' hes hw.2.2.2⟩
        | starred v =>
          simp only [wfSliceElts] at hw
          simp only [transf] at he
          obtain ⟨v', hv, he⟩ := bind_ok he
          cases pure_ok he
          simp only [wfSliceElts]
          exact ⟨transf_wf n b v v' hv hw.1, transfList_wfSliceElts n b es es'' hes hw.2⟩
        | _ =>
          simp only [wfSliceElts] at hw
          have he' := transf_wf n b _ e' he hw.1
          have ih := transfList_wfSliceElts n b es es'' hes hw.2
          cases e' <;> first | (simp [wfE] at he'; done) | (simp only [wfSliceElts]; exact ⟨he', ih⟩)
  termination_by structural _ x => x

  theorem transfOpt_wf (n : Nsp) : ∀ (b : List String) (o o' : Option Expr), transfOpt n b o = .ok o' → wfO o → wfO o'
    | b, none, o', h, _ => by simp only [transfOpt] at h; cases h; simp only [wfO]
    | b, some e, o', h, hw => by
        simp only [wfO] at hw
        simp only [transfOpt] at h
        obtain ⟨e', he, h⟩ := bind_ok h
        cases pure_ok h
        simp only [wfO]
        exact transf_wf n b e e' he hw
  termination_by structural _ x => x

  theorem transfOptList_wf (n : Nsp) : ∀ (b : List String) (es es' : List (Option Expr)), transfOptList n b es = .ok es' →
      wfOL es → wfOL es'
    | b, [], es', h, _ => by simp only [transfOptList] at h; cases h; simp only [wfOL]
    | b, none :: es, es', h, hw => by
        simp only [wfOL] at hw
        simp only [transfOptList] at h
        obtain ⟨es'', hes, h⟩ := bind_ok h
        cases pure_ok h
        simp only [wfOL]
        exact transfOptList_wf n b es es'' hes hw
    | b, some e :: es, es', h, hw => by
        simp only [wfOL] at hw
        simp only [transfOptList] at h
        obtain ⟨e', he, h⟩ := bind_ok h
        obtain ⟨es'', hes, h⟩ := bind_ok h
        cases pure_ok h
        simp only [wfOL]
        exact ⟨transf_wf n b e e' he hw.1, transfOptList_wf n b es es'' hes hw.2⟩
  termination_by structural _ x => x

  theorem transfItems_wf (n : Nsp) : ∀ (b : List String) (its its' : List DictItem), transfItems n b its = .ok its' →
      wfItems its → wfItems its'
    | b, [], its', h, _ => by simp only [transfItems] at h; cases h; simp only [wfItems]
    | b, .mk none v :: its, its', h, hw => by
        simp only [wfItems] at hw
        simp only [transfItems] at h
        obtain ⟨v', hv, h⟩ := bind_ok h
        obtain ⟨its'', hi, h⟩ := bind_ok h
        cases pure_ok h
        simp only [wfItems]
        exact ⟨transf_wf n b v v' hv hw.1, transfItems_wf n b its its'' hi hw.2⟩
    | b, .mk (some k) v :: its, its', h, hw => by
        simp only [wfItems] at hw
        simp only [transfItems] at h
        obtain ⟨k', hk, h⟩ := bind_ok h
        obtain ⟨v', hv, h⟩ := bind_ok h
        obtain ⟨its'', hi, h⟩ := bind_ok h
        cases pure_ok h
        simp only [wfItems]
        exact ⟨transf_wf n b k k' hk hw.1, transf_wf n b v v' hv hw.2.1, transfItems_wf n b its its'' hi hw.2.2⟩
  termination_by structural _ x => x

  theorem transfKeywords_wf (n : Nsp) : ∀ (b : List String) (ks ks' : List Keyword), transfKeywords n b ks = .ok ks' →
      wfKws ks → wfKws ks'
    | b, [], ks', h, _ => by simp only [transfKeywords] at h; cases h; simp only [wfKws]
    | b, .mk a v :: ks, ks', h, hw => by
        simp only [wfKws] at hw
        simp only [transfKeywords] at h
        obtain ⟨v', hv, h⟩ := bind_ok h
        obtain ⟨ks'', hk, h⟩ := bind_ok h
        cases pure_ok h
        simp only [wfKws]
        exact ⟨transf_wf n b v v' hv hw.1, transfKeywords_wf n b ks ks'' hk hw.2⟩
  termination_by structural _ x => x

  theorem transfComps_wf (n : Nsp) : ∀ (f b : List String) (gs gs' : List Comp), transfComps n f b gs = .ok gs' → wfG gs → wfG gs'
    | f, b, [], gs', h, _ => by simp only [transfComps] at h; cases h; simp only [wfG]
    | f, b, .mk t i ifs a :: gs, gs', h, hw => by
        simp only [wfG] at hw
        simp only [transfComps] at h
        obtain ⟨t', ht, h⟩ := bind_ok h
        obtain ⟨i', hi, h⟩ := bind_ok h
        obtain ⟨ifs', hifs, h⟩ := bind_ok h
        obtain ⟨gs'', hg, h⟩ := bind_ok h
        cases pure_ok h
        simp only [wfG]
        have htt := transfTarget_wf n b t t' ht hw.2.1
        exact ⟨by rw [htt.2]; exact hw.1, htt.1, transf_wf n f i i' hi hw.2.2.1, transfList_wfL n b ifs ifs' hifs hw.2.2.2.1,
          transfComps_wf n b b gs gs'' hg hw.2.2.2.2⟩
  termination_by structural _ _ x => x
  -- targets keep their kind and stay well-formed
  theorem transfTarget_wf (n : Nsp) : ∀ (b : List String) (t t' : Expr), transfTarget n b t = .ok t' →
      wfE t → wfE t' ∧ targetKind t' = targetKind t
    | b, .name id, t', h, _ => by simp only [transfTarget] at h; cases h; exact ⟨wfE_name id, rfl⟩
    | b, .tuple es, t', h, hw => by
        simp only [wfE] at hw
        simp only [transfTarget] at h
        obtain ⟨es', hes, h⟩ := bind_ok h
        cases pure_ok h
        exact ⟨by simp only [wfE]; exact transfTargets_wf n b es es' hes hw, rfl⟩
    | b, .list es, t', h, hw => by
        simp only [wfE] at hw
        simp only [transfTarget] at h
        obtain ⟨es', hes, h⟩ := bind_ok h
        cases pure_ok h
        exact ⟨by simp only [wfE]; exact transfTargets_wf n b es es' hes hw, rfl⟩
    | b, .attribute v a, t', h, hw => by
        simp only [wfE] at hw
        simp only [transfTarget] at h
        obtain ⟨v', hv, h⟩ := bind_ok h
        cases pure_ok h
        exact ⟨by simp only [wfE]; exact transf_wf n b v v' hv hw, rfl⟩
    | b, .subscript v s, t', h, hw => by
        simp only [wfE] at hw
        simp only [transfTarget] at h
        obtain ⟨v', hv, h⟩ := bind_ok h
        obtain ⟨s', hs, h⟩ := bind_ok h
        cases pure_ok h
        refine ⟨?_, rfl⟩
        simp only [wfE]
        refine ⟨transf_wf n b v v' hv hw.1, ?_⟩
        have hws := hw.2
        index_cases
    | b, .starred _, t', _, hw => by simp [wfE] at hw
    | b, .const _, t', h, hw => by simp only [transfTarget] at h; cases h; exact ⟨hw, rfl⟩
    | b, .joinedStr _, t', h, hw => by simp only [transfTarget] at h; cases h; exact ⟨hw, rfl⟩
    | b, .formattedValue .., t', h, hw => by simp only [transfTarget] at h; cases h; exact ⟨hw, rfl⟩
    | b, .set _, t', h, hw => by simp only [transfTarget] at h; cases h; exact ⟨hw, rfl⟩
    | b, .dict _, t', h, hw => by simp only [transfTarget] at h; cases h; exact ⟨hw, rfl⟩
    | b, .slice .., t', h, hw => by simp only [transfTarget] at h; cases h; exact ⟨hw, rfl⟩
    | b, .call .., t', h, hw => by simp only [transfTarget] at h; cases h; exact ⟨hw, rfl⟩
    | b, .binOp .., t', h, hw => by simp only [transfTarget] at h; cases h; exact ⟨hw, rfl⟩
    | b, .boolOp .., t', h, hw => by simp only [transfTarget] at h; cases h; exact ⟨hw, rfl⟩
    | b, .unaryOp .., t', h, hw => by simp only [transfTarget] at h; cases h; exact ⟨hw, rfl⟩
    | b, .compare .., t', h, hw => by simp only [transfTarget] at h; cases h; exact ⟨hw, rfl⟩
    | b, .ifExp .., t', h, hw => by simp only [transfTarget] at h; cases h; exact ⟨hw, rfl⟩
    | b, .lambda .., t', h, hw => by simp only [transfTarget] at h; cases h; exact ⟨hw, rfl⟩
    | b, .namedExpr .., t', h, hw => by simp only [transfTarget] at h; cases h; exact ⟨hw, rfl⟩
    | b, .listComp .., t', h, hw => by simp only [transfTarget] at h; cases h; exact ⟨hw, rfl⟩
    | b, .setComp .., t', h, hw => by simp only [transfTarget] at h; cases h; exact ⟨hw, rfl⟩
    | b, .dictComp .., t', h, hw => by simp only [transfTarget] at h; cases h; exact ⟨hw, rfl⟩
    | b, .generatorExp .., t', h, hw => by simp only [transfTarget] at h; cases h; exact ⟨hw, rfl⟩
    | b, .yield_ _, t', h, hw => by simp only [transfTarget] at h; cases h; exact ⟨hw, rfl⟩
    | b, .yieldFrom _, t', h, hw => by simp only [transfTarget] at h; cases h; exact ⟨hw, rfl⟩
    | b, .await _, t', h, hw => by simp only [transfTarget] at h; cases h; exact ⟨hw, rfl⟩
  termination_by structural _ x => x
  -- elements of a tuple / list target
  theorem transfTargets_wf (n : Nsp) : ∀ (b : List String) (es es' : List Expr), transfTargets n b es = .ok es' →
      wfElts es → wfElts es'
    | b, [], es', h, _ => by simp only [transfTargets] at h; cases h; exact wfElts_nil
    | b, e :: es, es', h, hw => by
        simp only [transfTargets] at h
        obtain ⟨e', he, h⟩ := bind_ok h
        obtain ⟨es'', hes, h⟩ := bind_ok h
        cases pure_ok h
        cases e with
        | starred v =>
          simp only [wfElts] at hw
          simp only [transfTarget] at he
          obtain ⟨v', hv, he⟩ := bind_ok he
          cases pure_ok he
          simp only [wfElts]
          exact ⟨(transfTarget_wf n b v v' hv hw.1).1, transfTargets_wf n b es es'' hes hw.2⟩
        | _ =>
          simp only [wfElts] at hw
          exact wfElts_cons (transfTarget_wf n b _ e' he hw.1).1 (transfTargets_wf n b es es'' hes hw.2)
  termination_by structural _ x => x

  theorem transfList_parts (n : Nsp) : ∀ (b : List String) (vs vs' : List Expr), transfList n b vs = .ok vs' →
      wfParts vs → wfParts vs'
    | b, [], vs', h, _ => by simp only [transfList] at h; cases h; simp only [wfParts]
    | b, e :: vs, vs', h, hw => by
        simp only [transfList] at h
        obtain ⟨e', he, h⟩ := bind_ok h
        obtain ⟨vs'', hvs, h⟩ := bind_ok h
        cases pure_ok h
        cases e with
        | const c =>
          cases c with
          | str cps =>
            simp only [wfParts] at hw
            simp only [transf] at he
            cases he
            simp only [wfParts]
            refine ⟨hw.1, hw.2.1, ?_, transfList_parts n b vs vs'' hvs hw.2.2.2⟩
            cases vs with
            | nil => simp only [transfList] at hvs; cases hvs; simp
            | cons w ws =>
              simp only [transfList] at hvs
              obtain ⟨w', hw', hvs⟩ := bind_ok hvs
              obtain ⟨ws', _, hvs⟩ := bind_ok hvs
              cases pure_ok hvs
              have hnc := hw.2.2.1
              have hwp := hw.2.2.2
              cases w with
              | const c2 =>
                cases c2 with
                | str _ => simp [isConstStrE] at hnc
                | _ => simp [wfParts] at hwp
              | formattedValue v2 c2 s2 =>
                simp only [transf] at hw'
                obtain ⟨_, _, hw'⟩ := bind_ok hw'
                obtain ⟨_, _, hw'⟩ := bind_ok hw'
                cases pure_ok hw'
                simp [isConstStrE]
              | _ => simp [wfParts] at hwp
          | _ => simp [wfParts] at hw
        | formattedValue v c sp =>
          simp only [wfParts] at hw
          simp only [transf] at he
          obtain ⟨v', hv, he⟩ := bind_ok he
          obtain ⟨sp', hsp, he⟩ := bind_ok he
          cases pure_ok he
          simp only [wfParts]
          refine ⟨transf_wf n b v v' hv hw.1, hw.2.1, ?_, transfList_parts n b vs vs'' hvs hw.2.2.2⟩
          have hws := hw.2.2.1
          cases sp with
          | none => simp only [transfOpt] at hsp; cases hsp; simp only [wfSpec]
          | some se =>
            cases se with
            | joinedStr ws =>
              simp only [wfSpec] at hws
              simp only [transfOpt, transf] at hsp
              obtain ⟨se', hse, hsp⟩ := bind_ok hsp
              obtain ⟨ws', hws', hse⟩ := bind_ok hse
              cases pure_ok hse
              cases pure_ok hsp
              simp only [wfSpec]
              exact ⟨transfList_parts n b ws ws' hws' hws.1, transfList_noBrace n b ws ws' hws' hws.1 hws.2⟩
            | _ => simp [wfSpec] at hws
        | _ => simp [wfParts] at hw
  termination_by structural _ x => x
end

end OlVerif
