/-
  M-LOWER, part 1: namespaces.  Model of oneliner/namespaces.py: the namespace tree built from
  the `symtable` flags the code actually consults, and the spelling of loads / stores per
  namespace kind (`get_assign`, `get_load_name`).
-/
import OlVerif.Ast

namespace OlVerif

/-- errors the converter raises, by exception class -/
inductive Err
  | syntaxError (msg : String)
  | runtimeError (msg : String)
  | notImplemented (msg : String)
  | keyError (msg : String)
  | assertion (msg : String)
  deriving Repr, DecidableEq, Inhabited

def Err.cls : Err → String
  | .syntaxError _ => "SyntaxError" | .runtimeError _ => "RuntimeError"
  | .notImplemented _ => "NotImplementedError" | .keyError _ => "KeyError"
  | .assertion _ => "AssertionError"

/-- the flags of one `symtable.Symbol` that the code consults -/
structure SymInfo where
  name : String
  isAssigned : Bool
  isParameter : Bool
  isGlobal : Bool
  isDeclaredGlobal : Bool
  isNonlocal : Bool
  isFree : Bool
  isImported : Bool := false
  /-- CPython's own verdict `is_local()`: never consulted by the code (nor by the model of it); the
      specification of C06 is stated with it -/
  isLocal : Bool := false
  deriving Repr, Inhabited

/-- `other_`: symbol tables that are neither (annotation scopes, type aliases, type parameters);
    `generate_nsp` skips them with their subtree -/
inductive ScopeKind | module | function | class_ | other_
  deriving Repr, DecidableEq, Inhabited

/-- one `symtable.SymbolTable` (input of the model, produced by CPython) -/
inductive SymScope
  | mk (name : String) (kind : ScopeKind) (lineno : Nat) (symbols : List SymInfo)
       (frees nonlocals params methods : List String) (children : List SymScope)

instance : Inhabited SymScope := ⟨.mk "top" .module 0 [] [] [] [] [] []⟩

namespace SymScope
def name : SymScope → String | .mk n .. => n
def kind : SymScope → ScopeKind | .mk _ k .. => k
def lineno : SymScope → Nat | .mk _ _ l .. => l
def symbols : SymScope → List SymInfo | .mk _ _ _ s .. => s
def frees : SymScope → List String | .mk _ _ _ _ f .. => f
def nonlocals : SymScope → List String | .mk _ _ _ _ _ n .. => n
def params : SymScope → List String | .mk _ _ _ _ _ _ p .. => p
def methods : SymScope → List String | .mk _ _ _ _ _ _ _ m _ => m
def children : SymScope → List SymScope | .mk _ _ _ _ _ _ _ _ c => c
def lookup (s : SymScope) (n : String) : Option SymInfo := s.symbols.find? (·.name == n)
end SymScope

/-- lambdas and comprehensions do not get a namespace of their own -/
def SymScope.isLambdaOrComp (s : SymScope) : Bool :=
  s.kind == .function &&
    (s.name == "lambda" ||
      ((s.name == "listcomp" || s.name == "genexpr" || s.name == "setcomp" || s.name == "dictcomp") &&
        s.params.contains ".0"))

mutual
  /-- `update_globals_from_lambda_or_comp`: global names used in a lambda / comprehension
      subtree -/
  def SymScope.compGlobals : SymScope → List String
    | .mk _ _ _ symbols _ _ _ _ children =>
      (symbols.filter (·.isGlobal)).map (·.name) ++ SymScope.compGlobalsList children
  def SymScope.compGlobalsList : List SymScope → List String
    | [] => []
    | c :: cs => c.compGlobals ++ SymScope.compGlobalsList cs
end

/-- a namespace as the converter sees it -/
inductive Nsp
  | mk (kind : ScopeKind) (sym : SymScope)
       (retvName retName dictName : String)          -- dictName: nonlocal dict / class member dict
       (innerNonlocal nonlocalParams : List String)
       (outerMap : List (String × String))           -- name ↦ dict name of the function it lives in
       (isMethod zeroArgSuper : Bool)
       (globalsInComp : List String)
       (children : List Nsp)

instance : Inhabited Nsp := ⟨.mk .module default "" "" "" [] [] [] false false [] []⟩

namespace Nsp
def kind : Nsp → ScopeKind | .mk k .. => k
def sym : Nsp → SymScope | .mk _ s .. => s
def retvName : Nsp → String | .mk _ _ a .. => a
def retName : Nsp → String | .mk _ _ _ a .. => a
def dictName : Nsp → String | .mk _ _ _ _ a .. => a
def innerNonlocal : Nsp → List String | .mk _ _ _ _ _ a .. => a
def nonlocalParams : Nsp → List String | .mk _ _ _ _ _ _ a .. => a
def outerMap : Nsp → List (String × String) | .mk _ _ _ _ _ _ _ a .. => a
def isMethod : Nsp → Bool | .mk _ _ _ _ _ _ _ _ a .. => a
def zeroArgSuper : Nsp → Bool | .mk _ _ _ _ _ _ _ _ _ a .. => a
def globalsInComp : Nsp → List String | .mk _ _ _ _ _ _ _ _ _ _ a _ => a
def children : Nsp → List Nsp | .mk _ _ _ _ _ _ _ _ _ _ _ a => a
end Nsp

/-- one step of the outward walk of `NamespaceFunction.__init__` / `NamespaceClass.__init__`:
    does this enclosing *function* scope own the name? -/
def ownsName (outer : SymScope) (x : String) : Except Err Bool :=
  match outer.lookup x with
  | none => .error (.keyError x)
  -- a function that rebinds the name through `nonlocal` does not own it
  | some s => .ok (!s.isNonlocal && (s.isAssigned || s.isImported || (s.isParameter && !s.isGlobal)))

/-- The enclosing scopes of a namespace, innermost first, as (kind, symtable, dict name). -/
abbrev Stack := List (ScopeKind × SymScope × String)

/-- outward walk: the dict name of the nearest enclosing function that owns `x`
    (classes are skipped; reaching the module is the `assert isinstance(outer, NamespaceFunction)`) -/
def findOwner (x : String) : Stack → Except Err (String × Bool)
  | [] => .error (.runtimeError s!"Unable to search the origin of nonlocal/free '{x}'")
  | (.class_, _, _) :: rest => findOwner x rest
  | (.module, _, _) :: _ => .error (.assertion "outer is not a function namespace")
  | (.other_, _, _) :: rest => findOwner x rest
  | (.function, s, d) :: rest => do
      if ← ownsName s x then
        let isParam := match s.lookup x with | some i => i.isParameter | none => false
        pure (d, isParam)
      else findOwner x rest

/-- names a function / class namespace treats as nonlocal, in the order the code visits them;
    `__class__` (PEP 3135's implicit cell) is skipped - a method notes that it is used, a function nested in a
    method needs nothing: Python closes over the loader's cell by itself -/
def nonlocalCandidates (kind : ScopeKind) (s : SymScope) (isMethod : Bool) : List String × Bool :=
  match kind with
  | .function =>
    let all := s.frees ++ s.nonlocals
    (all.filter (· != "__class__"), isMethod && all.contains "__class__")
  | _ => ((s.symbols.filter fun i => i.isNonlocal || i.isFree).map (·.name), false)

def buildOuterMap (stack : Stack) : List String → Except Err (List (String × String))
  | [] => .ok []
  | x :: xs => do
      let (d, _) ← findOwner x stack
      let rest ← buildOuterMap stack xs
      pure ((x, d) :: rest)

/-- fresh-name supply: a counter; `unique_id()` is modelled as an injective supply -/
structure Supply where
  next : Nat := 0
  deriving Repr, Inhabited

def Supply.fresh (s : Supply) (purpose : String) : String × Supply :=
  (s!"__ol_{purpose}_#{s.next}", { next := s.next + 1 })

/-- what a descendant contributes to an enclosing function: (owner dict name, name, isParam) -/
abbrev Claim := String × String × Bool

mutual
  /-- build the namespace for one symtable (not a lambda/comp) under `stack`; returns the
      namespace and the claims of the whole subtree on enclosing functions -/
  def buildNsp (stack : Stack) (sup : Supply) : SymScope → Except Err (Nsp × List Claim × Supply)
    | .mk name kind lineno symbols frees nonlocals params methods children => do
      let s : SymScope := .mk name kind lineno symbols frees nonlocals params methods children
      let (retv, sup) := sup.fresh "retv"
      let (ret, sup) := sup.fresh "ret"
      let (dict, sup) := if kind == .class_ then sup.fresh "classnsp" else sup.fresh "nonlocal"
      let isMethod := kind == .function && (match stack with
        | (.class_, cs, _) :: _ => cs.methods.contains name
        | _ => false)
      let (cands, zas) := nonlocalCandidates kind s isMethod
      -- own claims on enclosing functions
      let ownClaims ← claimsOf stack cands
      let outerMap := ownClaims.map fun (d, x, _) => (x, d)
      let (kids, kidClaims, globs, sup) ← buildChildren ((kind, s, dict) :: stack) sup children
      let mine := kidClaims.filter fun (d, _, _) => d == dict
      let inner := (mine.map fun (_, x, _) => x).eraseDups
      let nparams := ((mine.filter fun (_, _, p) => p).map fun (_, x, _) => x).eraseDups
      pure (.mk kind s retv ret dict inner nparams outerMap isMethod zas globs kids,
            ownClaims ++ kidClaims, sup)

  def buildChildren (stack : Stack) (sup : Supply) :
      List SymScope → Except Err (List Nsp × List Claim × List String × Supply)
    | [] => .ok ([], [], [], sup)
    | c :: cs =>
      if c.kind == .other_ then buildChildren stack sup cs
      else if c.isLambdaOrComp then do
        let (kids, claims, globs, sup) ← buildChildren stack sup cs
        -- only class namespaces record these globals
        pure (kids, claims, c.compGlobals ++ globs, sup)
      else do
        let (n, cl, sup) ← buildNsp stack sup c
        let (kids, claims, globs, sup) ← buildChildren stack sup cs
        pure (n :: kids, cl ++ claims, globs, sup)

  def claimsOf (stack : Stack) : List String → Except Err (List Claim)
    | [] => .ok []
    | x :: xs => do
        let (d, p) ← findOwner x stack
        let rest ← claimsOf stack xs
        pure ((d, x, p) :: rest)
end

/-- `generate_nsp` -/
def generateNsp (root : SymScope) (sup : Supply) : Except Err (Nsp × Supply) := do
  let (kids, _, _, sup) ← buildChildren [(.module, root, "")] sup root.children
  pure (.mk .module root "" "" "" [] [] [] false false [] kids, sup)

/-! ### spelling of stores and loads -/

def globalsSetitem (name : String) (v : Expr) : Expr :=
  .call (.attribute (.call (.name "globals") [] []) "__setitem__") [Expr.str name, v] []

def dictSetitem (dict name : String) (v : Expr) : Expr :=
  .call (.attribute (.name dict) "__setitem__") [Expr.str name, v] []

def dictLoad (dict name : String) : Expr := .subscript (.name dict) (Expr.str name)

/-- `get_assign` -/
def Nsp.getAssign (n : Nsp) (name : String) (v : Expr) : Except Err Expr :=
  match n.kind with
  | .other_ => .ok (.namedExpr name v)
  | .module => .ok (.namedExpr name v)
  | .function =>
    match n.sym.lookup name with
    | none => .error (.keyError name)
    | some s =>
      if s.isDeclaredGlobal then .ok (globalsSetitem name v)
      else match n.outerMap.lookup name with
        | some d => .ok (dictSetitem d name v)
        | none =>
          if n.innerNonlocal.contains name then .ok (dictSetitem n.dictName name v)
          else .ok (.namedExpr name v)
  | .class_ =>
    match n.sym.lookup name with
    | none => .error (.keyError name)
    | some s =>
      if s.isDeclaredGlobal then .ok (globalsSetitem name v)
      else match n.outerMap.lookup name with
        | some d => .ok (dictSetitem d name v)
        | none => .ok (dictSetitem n.dictName name v)

/-- `get_load_name`; `bound` = target names of the enclosing comprehensions / lambda parameters
    (`comp_stack`) -/
def Nsp.getLoad (n : Nsp) (bound : List String) (name : String) : Except Err Expr :=
  match n.kind with
  | .other_ => .ok (.name name)
  | .module => .ok (.name name)
  | .function =>
    if bound.contains name then .ok (.name name)
    else if n.innerNonlocal.contains name then .ok (dictLoad n.dictName name)
    else match n.outerMap.lookup name with
      | some d => .ok (dictLoad d name)
      | none => .ok (.name name)
  | .class_ =>
    if bound.contains name then .ok (.name name)
    else if name == "__class__" then .ok (.name name)     -- read by a lambda written in the class body: the loader's cell
    else if !bound.isEmpty && n.globalsInComp.contains name then .ok (.name name)   -- only inside a lambda / comprehension
    else match n.sym.lookup name with
      | none => .error (.keyError name)
      | some s =>
        match n.outerMap.lookup name with
        | some d => .ok (dictLoad d name)
        | none => if s.isGlobal then .ok (.name name) else .ok (dictLoad n.dictName name)

end OlVerif
