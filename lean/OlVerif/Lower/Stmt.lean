/-
  M-LOWER, part 3: statements.  Model of oneliner/convert.py + pending_nodes.py + utils.py.

  The implementation decides run-time guards with counters mutated while statements are being
  converted and injects `flag := True` into already returned lists afterwards.  The model is
  the pure two-pass formulation of DESIGN.md App. C: `live`, `hasRet`, `hasBC`, `mayInt`,
  `guardsIn`, `hasBreak` are computed from the source block first, the emission is then
  compositional.  The correspondence check (K) compares its output with `convert` as trees.
-/
import OlVerif.Lower.Transf

namespace OlVerif

/-! ### control-flow analysis of source blocks -/

def Stmt.isDirect : Stmt → Bool
  | .break_ | .continue_ | .return_ _ => true
  | _ => false

/-- a block cut after its first direct break / continue / return (`_iter_branch`'s `break`) -/
def live : List Stmt → List Stmt
  | [] => []
  | s :: ss => if s.isDirect then [s] else s :: live ss

mutual
  /-- a live `return` somewhere inside (nested defs / classes are separate namespaces) -/
  def hasRet : Stmt → Bool
    | .return_ _ => true
    | .if_ _ b e => hasRetL b || hasRetL e
    | .while_ _ b e => hasRetL b || hasRetL e
    | .for_ _ _ b e => hasRetL b || hasRetL e
    | _ => false
  def hasRetL : List Stmt → Bool
    | [] => false
    | s :: ss => hasRet s || (!s.isDirect && hasRetL ss)
end

mutual
  /-- a live break (or continue, unless `brkOnly`) that targets the loop enclosing the statement -/
  def hasBC (brkOnly : Bool) : Stmt → Bool
    | .break_ => true
    | .continue_ => !brkOnly
    | .if_ _ b e => hasBCL brkOnly b || hasBCL brkOnly e
    | .while_ _ _ e => hasBCL brkOnly e          -- a loop's body targets the loop itself
    | .for_ _ _ _ e => hasBCL brkOnly e
    | _ => false
  def hasBCL (brkOnly : Bool) : List Stmt → Bool
    | [] => false
    | s :: ss => hasBC brkOnly s || (!s.isDirect && hasBCL brkOnly ss)
end

/-- which counter a block watches -/
inductive FlowKind | loop | function | none
  deriving DecidableEq, Repr

/-- "the relevant counter grew while this statement was converted" -/
def mayInt (fk : FlowKind) (s : Stmt) : Bool :=
  match fk with
  | .loop => hasRet s || hasBC false s
  | .function => hasRet s
  | .none => false

mutual
  /-- does lowering this block (with nested ifs and else-blocks of inner loops, which watch the
      same counter) emit a guard, i.e. read the flow-control flag? -/
  def guardsInL (fk : FlowKind) : List Stmt → Bool
    | [] => false
    | s :: ss =>
      if s.isDirect then false
      else (mayInt fk s && !ss.isEmpty) || guardsInS fk s || guardsInL fk ss
  def guardsInS (fk : FlowKind) : Stmt → Bool
    | .if_ _ b e => guardsInL fk b || guardsInL fk e
    | .while_ _ _ e => guardsInL fk e
    | .for_ _ _ _ e => guardsInL fk e
    | _ => false
end

/-- `break_cnt > 0`: a live break targeting the loop, or a live return inside it -/
def hasBreakL : List Stmt → Bool
  | [] => false
  | s :: ss => hasRet s || hasBC true s || (!s.isDirect && hasBreakL ss)

/-- `interrupt_cnt > 0` -/
def anyIntL : List Stmt → Bool
  | [] => false
  | s :: ss => mayInt .loop s || (!s.isDirect && anyIntL ss)

/-! ### emission helpers -/

def listWrapper (es : List Expr) : Expr := .list es

def chainRunner : Expr :=
  .call (.lambda Arguments.empty (.namedExpr "_" (.lambda (Arguments.simple ["__"]) (.name "_")))) [] []

def chainCallWrapper : List Expr → Expr
  | [] => Expr.ellipsis
  | e :: es => es.foldl (fun acc x => .call acc [x] []) (.call chainRunner [e] [])

/-- `get_expr_wrapper(configs)` -/
def wrapExprs (cfg : Cfg) : List Expr → Expr
  | [] => Expr.ellipsis
  | [e] => e
  | es => match cfg.wrapper with
    | .list => listWrapper es
    | .chainCall => chainCallWrapper es

def setFlag (name : String) (v : Bool) : Expr := .namedExpr name (if v then Expr.true_ else Expr.false_)

def intConstant (v : Int) : Expr :=
  if v < 0 then .unaryOp .uSub (.const (.int (-v))) else .const (.int v)

/-- `utils.convert_slice` -/
def convertSlice (lo up st : Option Expr) : Expr :=
  .call (.name "slice") [lo.getD Expr.none_, up.getD Expr.none_, st.getD Expr.none_] []

/-- `utils.convert_index` -/
def convertIndex : Expr → Expr
  | .slice a b c => convertSlice a b c
  | .tuple es => .tuple (es.map fun e => match e with | .slice a b c => convertSlice a b c | e => e)
  | e => e

structure LoopCtx where
  isWhile : Bool
  flag : String      -- `__ol_break_*` (while) / `__ol_it_*` (for)
  intr : String
  used : Bool
  deriving Repr, Inhabited

def LoopCtx.brkSet (l : LoopCtx) : Expr :=
  if l.isWhile then setFlag l.flag true
  else .call (.name "setattr") [.name l.flag, Expr.str "_break", Expr.true_] []

structure St where
  sup : Supply := {}
  useItertools : Bool := false
  useImportlib : Bool := false
  usePreset : Bool := false
  deriving Repr, Inhabited

def St.fresh (st : St) (purpose : String) : String × St :=
  let (n, s) := st.sup.fresh purpose
  (n, { st with sup := s })

structure Ctx where
  cfg : Cfg
  nsp : Nsp
  loops : List LoopCtx   -- outermost first
  fnUsed : Bool          -- `flow_ctrl_return_used` of the enclosing function namespace
  deriving Inhabited

def Ctx.flowKind (cx : Ctx) : FlowKind :=
  if !cx.loops.isEmpty then .loop
  else if cx.nsp.kind == .function then .function else .none

/-- the flag a guard of this block reads -/
def Ctx.flowFlag (cx : Ctx) : String :=
  match cx.loops.getLast? with
  | some l => l.intr
  | none => cx.nsp.retName

/-- `PendingAugAssign._op_dict`: the function of the `operator` module that performs `a op= b` -/
def augOpName : BinOpK → String
  | .add => "iadd" | .bitAnd => "iand" | .floorDiv => "ifloordiv" | .lShift => "ilshift"
  | .mod => "imod" | .mult => "imul" | .matMult => "imatmul" | .bitOr => "ior"
  | .pow => "ipow" | .rShift => "irshift" | .sub => "isub" | .div => "itruediv"
  | .bitXor => "ixor"

/-- `_aug_assign_expr`: `__import__('operator').i<op>(target, value)` -/
def augAssignExpr (target : Expr) (op : BinOpK) (value : Expr) : Expr :=
  .call (.attribute (.call (.name "__import__") [Expr.str "operator"] []) (augOpName op)) [target, value] []

/-! ### assignment targets (`PendingAssign.assign_auto`) -/

def Expr.isStarred : Expr → Bool
  | .starred _ => true
  | _ => false

mutual
  /-- `assign_auto`; `inPattern` = called for an element of a tuple / list pattern, where
      `assign_tuple_list` strips the star itself -/
  def assignAuto (n : Nsp) (inPattern : Bool) (target value : Expr) (st : St) : Except Err (List Expr × St) :=
    match target with
    | .name id => do pure ([← n.getAssign id value], st)
    | .attribute v a => do
        pure ([.call (.name "setattr") [← transf n [] v, Expr.str a, value] []], st)
    | .subscript v s => do
        let idx := convertIndex (← transf n [] s)
        pure ([.call (.attribute (← transf n [] v) "__setitem__") [idx, value] []], st)
    | .tuple es => do
        -- `assign_tuple_list`
        let (tmp, st) := st.fresh "assign"
        let (rest, st) ← assignElts n tmp es.length 0 false es st
        pure (Expr.namedExpr tmp (.call (.name "tuple") [value] []) :: rest, st)
    | .list es => do
        let (tmp, st) := st.fresh "assign"
        let (rest, st) ← assignElts n tmp es.length 0 false es st
        pure (Expr.namedExpr tmp (.call (.name "tuple") [value] []) :: rest, st)
    | .starred sub =>
        if inPattern then assignAuto n false sub value st
        else .error (.notImplemented "Unknown assignment target")
    | _ => .error (.notImplemented "Unknown assignment target")

  def assignElts (n : Nsp) (tmp : String) (len : Nat) (index : Nat) (haveStarred : Bool) :
      List Expr → St → Except Err (List Expr × St)
    | [], st => .ok ([], st)
    | e :: es, st =>
      if e.isStarred && haveStarred then .error (.syntaxError "multiple starred expressions in assignment")
      else do
        let v : Expr :=
          if e.isStarred then
            let up : Int := (index : Int) - (len : Int) + 1
            let upper : Option Expr := if up = 0 then none else some (intConstant up)
            .call (.name "list") [.subscript (.name tmp) (.slice (some (.const (.int index))) upper none)] []
          else
            let idx : Int := if haveStarred then (index : Int) - (len : Int) else (index : Int)
            .subscript (.name tmp) (intConstant idx)
        let (a, st) ← assignAuto n true e v st
        let (b, st) ← assignElts n tmp len (index + 1) (haveStarred || e.isStarred) es st
        pure (a ++ b, st)
end

def assignTargets (n : Nsp) (value : Expr) : List Expr → St → Except Err (List Expr × St)
  | [], st => .ok ([], st)
  | t :: ts, st => do
      let (a, st) ← assignAuto n false t value st
      let (b, st) ← assignTargets n value ts st
      pure (a ++ b, st)

/-! ### simple statements -/

def lowerAugAssign (n : Nsp) (target : Expr) (op : BinOpK) (value : Expr) (st : St) :
    Except Err (List Expr × St) := do
  let (tmpTarget, st) := st.fresh "augass"
  let v ← transf n [] value
  match target with
  | .name id =>
      let t ← n.getLoad [] id
      pure ([← n.getAssign id (augAssignExpr t op v)], st)
  | .subscript tv ts =>
      let (tmpSlice, st) := st.fresh "sllice"
      let (tmpObj, st) := st.fresh "augobj"
      let parent ← transf n [] tv
      let sl := convertIndex (← transf n [] ts)
      let body := augAssignExpr (.name tmpTarget) op v
      pure ([.namedExpr tmpObj parent,
             .namedExpr tmpSlice sl,
             .namedExpr tmpTarget (.subscript (.name tmpObj) (.name tmpSlice)),
             .call (.attribute (.name tmpObj) "__setitem__") [.name tmpSlice, body] []], st)
  | .attribute tv a =>
      let (tmpObj, st) := st.fresh "augobj"
      let parent ← transf n [] tv
      let body := augAssignExpr (.name tmpTarget) op v
      pure ([.namedExpr tmpObj parent,
             .namedExpr tmpTarget (.attribute (.name tmpObj) a),
             .call (.name "setattr") [.name tmpObj, Expr.str a, body] []], st)
  | _ => .error (.notImplemented "Unknown augmented assignment target")

def lowerImport (n : Nsp) : List Alias → Except Err (List Expr)
  | [] => .ok []
  | a :: as => do
      let e ←
        if a.asname.isNone && a.name.contains '.' then
          n.getAssign ((a.name.splitOn ".").headD "") (.call (.name "__import__") [Expr.str a.name] [])
        else
          n.getAssign (a.asname.getD a.name)
            (.call (.attribute (.name "importlib") "import_module") [Expr.str a.name] [])
      pure (e :: (← lowerImport n as))

def lowerImportFromNames (n : Nsp) (tmp : String) : List Alias → Except Err (List Expr)
  | [] => .ok []
  | a :: as =>
      if a.name == "*" then .error (.runtimeError "Unable to convert 'from ... import *'")
      else do
        let e ← n.getAssign (a.asname.getD a.name) (.attribute (.name tmp) a.name)
        pure (e :: (← lowerImportFromNames n tmp as))

def lowerImportFrom (n : Nsp) (module : Option String) (names : List Alias) (level : Nat) (st : St) :
    Except Err (List Expr × St) := do
  let (tmp, st) := st.fresh "mod"
  let body : Expr := .namedExpr tmp (.call (.name "__import__")
    [Expr.str (module.getD ""), .call (.name "globals") [] [], .call (.name "locals") [] [],
     .list (names.map fun a => Expr.str a.name), .const (.int level)] [])
  pure (body :: (← lowerImportFromNames n tmp names), st)

def findChild (n : Nsp) (name : String) (lineno : Nat) (kind : ScopeKind) : Except Err Nsp :=
  match n.children.find? (fun c => c.sym.lineno == lineno && c.sym.name == name) with
  | none => .error (.runtimeError "Namespace not found")
  | some c => if c.kind == kind then .ok c else .error (.assertion "namespace kind")

def applyDecorators (n : Nsp) : List Expr → Expr → Except Err Expr
  | [], body => .ok body
  | d :: ds, body => do
      -- `for dec in reversed(decorator_list)`: the last decorator is applied first
      let inner ← applyDecorators n ds body
      pure (.call (← transf n [] d) [inner] [])

/-- the `iter_wrapper` preset (oneliner/presets/iter_wrapper.py) -/
def iterWrapperName : String := "__ol_iter_wrapper"
def iterWrapperBody : Expr :=
  .namedExpr iterWrapperName (.call (.name "type")
    [Expr.str iterWrapperName, .tuple [],
     .dict [
       .mk (some (Expr.str "__init__")) (.lambda (Arguments.simple ["self", "it"])
          (.subscript (.list [
              .call (.name "setattr") [.name "self", Expr.str "it", .call (.name "iter") [.name "it"] []] [],
              .call (.name "setattr") [.name "self", Expr.str "_break", Expr.false_] [],
              Expr.none_]) Expr.neg1)),
       .mk (some (Expr.str "__iter__")) (.lambda (Arguments.simple ["self"]) (.name "self")),
       .mk (some (Expr.str "__next__")) (.lambda (Arguments.simple ["self"])
          (.ifExp (.attribute (.name "self") "_break")
             (.call (.name "next") [.call (.name "iter") [.list []] []] [])
             (.call (.name "next") [.attribute (.name "self") "it"] [])))]] [])

def hookFn : String := "__ol_f"

/-- `type.__new__` turns `__init_subclass__` / `__class_getitem__` into classmethods when they are plain
    functions; the emitted code does the same after the fact:
    `(lambda __ol_f: classmethod(__ol_f) if type(__ol_f) is type(lambda: 0) else __ol_f)(f)` -/
def hookWrap (f : Expr) : Expr :=
  .call (.lambda (Arguments.simple [hookFn])
    (.ifExp (.compare (.call (.name "type") [.name hookFn] []) [.is_]
        [.call (.name "type") [.lambda Arguments.empty (.const (.int 0))] []])
      (.call (.name "classmethod") [.name hookFn] []) (.name hookFn))) [f] []

def whileCounter : String := "__ol_cnt"
def classKey : String := "__ol_k"
def classValue : String := "__ol_v"

def takewhileIter (test : Expr) : Expr :=
  .call (.attribute (.name "itertools") "takewhile")
    [.lambda (Arguments.simple [whileCounter]) test,
     .call (.attribute (.name "itertools") "count") [] []] []

def classKeywords (n : Nsp) : List Keyword → Except Err (Option Expr × List Keyword)
  | [] => .ok (none, [])
  | .mk a v :: ks => do
      let v' ← transf n [] v
      let (m, rest) ← classKeywords n ks
      if a == some "metaclass" then
        -- the last `metaclass=` wins (the loop overwrites)
        pure (some (m.getD v'), rest)
      else pure (m, .mk a v' :: rest)

/-- the parameter list of the emitted lambda (`PendingFunctionDef.__init__`): names and kinds are
    copied, annotations dropped, default values sent through the expression transformer of the
    *defining* namespace -/
def lowerFunctionHead (n : Nsp) : Arguments → Except Err Arguments
  | .mk po as va ko kd kw ds => do
      let ds' ← transfList n [] ds
      let kd' ← transfOptList n [] kd
      pure (.mk po as va ko kd' kw ds')

/-! ### statements and blocks -/

mutual
  /-- `_iter_branch` followed by the wrapping loop at its end -/
  def lowerBlock (cx : Ctx) : List Stmt → St → Except Err (List Expr × St)
    | [], st => .ok ([], st)
    | s :: ss, st => do
        let (es, st) ← lowerStmt cx s st
        if s.isDirect || ss.isEmpty then pure (es, st)
        else if mayInt cx.flowKind s then
          let (rest, st) ← lowerBlock cx ss st
          pure (es ++ [.ifExp (Expr.not_ (.name cx.flowFlag)) (wrapExprs cx.cfg rest) Expr.ellipsis], st)
        else
          let (rest, st) ← lowerBlock cx ss st
          pure (es ++ rest, st)

  def lowerStmt (cx : Ctx) : Stmt → St → Except Err (List Expr × St)
    | .expr v, st => do pure ([← transf cx.nsp [] v], st)
    | .pass_, st => .ok ([Expr.ellipsis], st)
    | .global_ _, st => .ok ([], st)
    | .nonlocal_ _, st => .ok ([], st)
    | .break_, st =>
        match cx.loops.getLast? with
        | none => .error (.syntaxError "'break' is not inside a loop")
        | some l => .ok ([.list ([l.brkSet] ++ (if l.used then [setFlag l.intr true] else []))], st)
    | .continue_, st =>
        match cx.loops.getLast? with
        | none => .error (.syntaxError "'continue' is not inside a loop")
        | some l => .ok ([.list (if l.used then [setFlag l.intr true] else [])], st)
    | .return_ v, st =>
        if cx.nsp.kind != .function then .error (.syntaxError "'return' outside function")
        else do
          let rv ← match v with
            | none => pure []
            | some e => do pure [Expr.namedExpr cx.nsp.retvName (← transf cx.nsp [] e)]
          pure ([.list (rv ++ cx.loops.map LoopCtx.brkSet ++
              ((cx.loops.reverse.filter (·.used)).map fun l => setFlag l.intr true) ++
              (if cx.fnUsed then [setFlag cx.nsp.retName true] else []))], st)
    | .if_ test body orelse, st => do
        let (b, st) ← lowerBlock cx body st
        let (o, st) ← lowerBlock cx orelse st
        let t ← transf cx.nsp [] test
        let bw := wrapExprs cx.cfg b
        let ow := wrapExprs cx.cfg o
        match cx.cfg.ifStyle with
        | .shortCircuit =>
            if o.isEmpty then pure ([.boolOp .and_ [t, bw]], st)
            else pure ([.boolOp .or_ [.boolOp .and_ [t, .list [bw]], ow]], st)
        | .ifExpr => pure ([.ifExp t bw ow], st)
    | .while_ test body orelse, st => do
        let (brk, st) := st.fresh "break"
        let (intr, st) := st.fresh "interrupt"
        let st := { st with useItertools := true }
        let l : LoopCtx := { isWhile := true, flag := brk, intr := intr, used := guardsInL .loop body }
        let hasBreak := hasBreakL body
        let (b, st) ← lowerBlock { cx with loops := cx.loops ++ [l] } body st
        let (o, st) ← lowerBlock cx orelse st
        let b := (if l.used then [setFlag intr false] else []) ++ b
        let t ← transf cx.nsp [] test
        let t := if hasBreak then .boolOp .and_ [Expr.not_ (.name brk), t] else t
        let oe := if hasBreak then .ifExp (Expr.not_ (.name brk)) (wrapExprs cx.cfg o) Expr.ellipsis
                  else wrapExprs cx.cfg o
        let loop : Expr := .listComp (wrapExprs cx.cfg b) [.mk (.name whileCounter) (takewhileIter t) [] false]
        pure ((if hasBreak then [setFlag brk false] else []) ++ [loop] ++ (if o.isEmpty then [] else [oe]), st)
    | .for_ target iter body orelse, st => do
        let (it, st) := st.fresh "it"
        let (intr, st) := st.fresh "interrupt"
        let l : LoopCtx := { isWhile := false, flag := it, intr := intr, used := guardsInL .loop body }
        let hasBreak := hasBreakL body
        let anyInt := anyIntL body
        let (b, st) ← lowerBlock { cx with loops := cx.loops ++ [l] } body st
        let (o, st) ← lowerBlock cx orelse st
        let (item, st) := st.fresh "item"
        let (asg, st) ← assignAuto cx.nsp false target (.name item) st
        let b := asg ++ b
        let itr ← transf cx.nsp [] iter
        if !anyInt && orelse.isEmpty then
          pure ([.listComp (wrapExprs cx.cfg b) [.mk (.name item) itr [] false]], st)
        else
          let b := (if l.used then [setFlag intr false] else []) ++ b
          let st := if hasBreak then { st with usePreset := true } else st
          let pre := if hasBreak then [Expr.namedExpr it (.call (.name iterWrapperName) [itr] [])] else []
          let src := if hasBreak then .name it else itr
          let oe := if hasBreak then .ifExp (Expr.not_ (.attribute (.name it) "_break")) (wrapExprs cx.cfg o) Expr.ellipsis
                    else wrapExprs cx.cfg o
          let loop : Expr := .listComp (wrapExprs cx.cfg b) [.mk (.name item) src [] false]
          pure (pre ++ [loop] ++ (if o.isEmpty then [] else [oe]), st)
    | .assign targets value, st => do
        let v ← transf cx.nsp [] value
        if targets.length > 1 || (match targets with | [.attribute ..] => true | [.subscript ..] => true | _ => false) then
          let (tmp, st) := st.fresh "assign"
          let (r, st) ← assignTargets cx.nsp (.name tmp) targets st
          pure (.namedExpr tmp v :: r, st)
        else assignTargets cx.nsp v targets st
    | .annAssign target _ value, st =>
        match value with
        | none => .ok ([], st)
        | some value => do
            let v ← transf cx.nsp [] value
            if (match target with | .attribute .. => true | .subscript .. => true | _ => false) then
              let (tmp, st) := st.fresh "assign"
              let (r, st) ← assignAuto cx.nsp false target (.name tmp) st
              pure (.namedExpr tmp v :: r, st)
            else assignAuto cx.nsp false target v st
    | .augAssign target op value, st => lowerAugAssign cx.nsp target op value st
    | .import_ names, st => do
        pure (← lowerImport cx.nsp names, { st with useImportlib := true })
    | .importFrom m names level, st => lowerImportFrom cx.nsp m names level st
    | .functionDef name args body decorators lineno, st => do
        let inner ← findChild cx.nsp name lineno .function
        let args' ← lowerFunctionHead cx.nsp args
        let fnUsed := guardsInL .function body
        let (b, st) ← lowerBlock { cfg := cx.cfg, nsp := inner, loops := [], fnUsed := fnUsed } body st
        let pre : List Expr :=
          [.namedExpr inner.retvName Expr.none_] ++
          (if inner.zeroArgSuper then [.name "__class__"] else []) ++
          (if fnUsed then [setFlag inner.retName false] else []) ++
          (if inner.innerNonlocal.isEmpty then [] else
            [.namedExpr inner.dictName (.dict (inner.nonlocalParams.mergeSort.map fun p =>
              .mk (some (Expr.str p)) (.name p)))])
        let mid := match cx.cfg.wrapper with
          | .list => b
          | .chainCall => [wrapExprs cx.cfg b]
        let lam : Expr := .lambda args'
          (.subscript (listWrapper (pre ++ mid ++ [.name inner.retvName])) Expr.neg1)
        let lam ← applyDecorators cx.nsp decorators lam
        let lam := if inner.isMethod && (name == "__init_subclass__" || name == "__class_getitem__") then hookWrap lam else lam
        pure ([← cx.nsp.getAssign name lam], st)
    | .classDef name bases keywords body decorators lineno, st => do
        let inner ← findChild cx.nsp name lineno .class_
        let (b, st) ← lowerBlock { cfg := cx.cfg, nsp := inner, loops := [], fnUsed := false } body st
        let bases' ← transfList cx.nsp [] bases
        let (metaE, kws) ← classKeywords cx.nsp keywords
        let create ← cx.nsp.getAssign name
          (.call (metaE.getD (.name "type")) [Expr.str name, .tuple bases', .dict []] kws)
        let self ← cx.nsp.getLoad [] name
        let classBody : List Expr :=
          [.namedExpr "__class__" self, .namedExpr inner.dictName (.dict [])] ++ b ++ [.name inner.dictName]
        let (loader, st) := st.fresh "loader"
        let load : Expr := .namedExpr loader (.lambda Arguments.empty (.subscript (.list classBody) Expr.neg1))
        let self2 ← cx.nsp.getLoad [] name
        let fill : Expr := .listComp (.call (.name "setattr") [self2, .name classKey, .name classValue] [])
          [.mk (.tuple [.name classKey, .name classValue])
            (.call (.attribute (.call (.name loader) [] []) "items") [] []) [] false]
        if decorators.isEmpty then pure ([create, load, fill], st)
        else
          let self3 ← cx.nsp.getLoad [] name
          let decorated ← applyDecorators cx.nsp decorators self3
          pure ([create, load, fill, ← cx.nsp.getAssign name decorated], st)
    | .other kind _ _, _ => .error (refuse kind)
end

/-- `convert(ast_root, symtable_root, configs)` -/
def lowerFull (cfg : Cfg) (root : SymScope) (body : List Stmt) : Except Err Expr := do
  let (g, sup) ← generateNsp root {}
  let st : St := { sup := sup }
  -- PendingModule: every statement, no dead-code cut, no guards
  let rec goModule (cx : Ctx) : List Stmt → St → Except Err (List Expr × St)
    | [], st => .ok ([], st)
    | s :: ss, st => do
        let (a, st) ← lowerStmt cx s st
        let (b, st) ← goModule cx ss st
        pure (a ++ b, st)
  let (b, st) ← goModule { cfg := cfg, nsp := g, loops := [], fnUsed := false } body st
  let b := if st.useItertools then Expr.namedExpr "itertools" (.call (.name "__import__") [Expr.str "itertools"] []) :: b else b
  let b := if st.useImportlib then Expr.namedExpr "importlib" (.call (.name "__import__") [Expr.str "importlib"] []) :: b else b
  let b := if st.usePreset then iterWrapperBody :: b else b
  pure (wrapExprs cfg b)

end OlVerif
