/-
  C09: which names does the emitted code bind?  `bnd e` lists every name bound by a construct
  inside the expression `e`: walrus targets, lambda parameters of every kind, comprehension target
  names.  The theorems: the expression transformer adds no binder; every binder of the converted
  program is a binder of the script, or carries the reserved prefix, or is one of the audited
  helper names.
-/
import OlVerif.Lower.Stmt
import OlVerif.Lower.WfOut

set_option linter.unusedVariables false
set_option linter.unusedSimpArgs false

namespace OlVerif

mutual
  /-- names in store position of a target -/
  def tgtNames : Expr → List String
    | .name x => [x]
    | .tuple es => tgtNamesL es
    | .list es => tgtNamesL es
    | .starred v => tgtNames v
    | _ => []
  def tgtNamesL : List Expr → List String
    | [] => []
    | e :: es => tgtNames e ++ tgtNamesL es
end

mutual
  def bnd : Expr → List String
    | .name _ => []
    | .const _ => []
    | .namedExpr t v => t :: bnd v
    | .lambda (.mk po as va ko kd kw ds) body =>
        Arguments.paramNames (.mk po as va ko kd kw ds) ++ bndL ds ++ bndOL kd ++ bnd body
    | .listComp e gs => bnd e ++ bndG gs
    | .setComp e gs => bnd e ++ bndG gs
    | .generatorExp e gs => bnd e ++ bndG gs
    | .dictComp k v gs => bnd k ++ bnd v ++ bndG gs
    | .joinedStr vs => bndL vs
    | .formattedValue v _ s => bnd v ++ bndO s
    | .list es => bndL es
    | .tuple es => bndL es
    | .set es => bndL es
    | .dict items => bndD items
    | .starred v => bnd v
    | .attribute v _ => bnd v
    | .subscript v s => bnd v ++ bnd s
    | .slice a b c => bndO a ++ bndO b ++ bndO c
    | .call f as ks => bnd f ++ bndL as ++ bndK ks
    | .binOp a _ b => bnd a ++ bnd b
    | .boolOp _ vs => bndL vs
    | .unaryOp _ v => bnd v
    | .compare l _ cs => bnd l ++ bndL cs
    | .ifExp t b e => bnd t ++ bnd b ++ bnd e
    | .yield_ v => bndO v
    | .yieldFrom v => bnd v
    | .await v => bnd v
  def bndL : List Expr → List String
    | [] => []
    | e :: es => bnd e ++ bndL es
  def bndO : Option Expr → List String
    | none => []
    | some e => bnd e
  def bndOL : List (Option Expr) → List String
    | [] => []
    | none :: es => bndOL es
    | some e :: es => bnd e ++ bndOL es
  def bndD : List DictItem → List String
    | [] => []
    | .mk none v :: its => bnd v ++ bndD its
    | .mk (some k) v :: its => bnd k ++ bnd v ++ bndD its
  def bndK : List Keyword → List String
    | [] => []
    | .mk _ v :: ks => bnd v ++ bndK ks
  /-- a comprehension clause binds the names of its target; the target's own subexpressions (objects
      and indexes of attribute / subscript targets), the iterable and the conditions may bind more -/
  def bndG : List Comp → List String
    | [] => []
    | .mk t i ifs _ :: gs => tgtNames t ++ bnd t ++ bnd i ++ bndL ifs ++ bndG gs
end


/-! ### the expression transformer adds no binder -/

theorem app_sub {α : Type} {a a' b b' : List α} (h1 : a' ⊆ a) (h2 : b' ⊆ b) : a' ++ b' ⊆ a ++ b := by
  intro x hx
  rcases List.mem_append.mp hx with h | h
  · exact List.mem_append_left _ (h1 h)
  · exact List.mem_append_right _ (h2 h)

theorem cons_sub {α : Type} {a a' : List α} (t : α) (h : a' ⊆ a) : t :: a' ⊆ t :: a := by
  intro x hx
  rcases List.mem_cons.mp hx with rfl | h'
  · exact List.mem_cons_self
  · exact List.mem_cons_of_mem _ (h h')

theorem nil_sub {α : Type} (a : List α) : [] ⊆ a := by intro x hx; cases hx

theorem bnd_dictLoad (d x : String) : bnd (dictLoad d x) = [] := by simp [dictLoad, bnd, Expr.str]
theorem bnd_str (s : String) : bnd (Expr.str s) = [] := by simp [Expr.str, bnd]

theorem getLoad_bnd {n : Nsp} {b : List String} {x : String} {e : Expr} (h : n.getLoad b x = .ok e) : bnd e = [] := by
  unfold Nsp.getLoad at h
  repeat' split at h
  all_goals first
    | (cases h; done)
    | (cases h; simp [bnd]; done)
    | (cases h; exact bnd_dictLoad _ _)

/-- a store binds at most the name it stores -/
theorem getAssign_bnd {n : Nsp} {x : String} {v e : Expr} (h : n.getAssign x v = .ok e) : bnd e ⊆ x :: bnd v := by
  unfold Nsp.getAssign at h
  repeat' split at h
  all_goals first
    | (cases h; done)
    | (cases h; simp only [bnd]; exact fun _ h => h)
    | (cases h; simp only [dictSetitem, globalsSetitem, bnd, bndL, bndK, bnd_str, List.append_nil, List.nil_append]
       exact fun _ h => List.mem_cons_of_mem _ h)

mutual
  theorem transf_bnd (n : Nsp) : ∀ (b : List String) (e e' : Expr), transf n b e = .ok e' → bnd e' ⊆ bnd e
    | b, .name id, e', h => by simp only [transf] at h; rw [getLoad_bnd h]; exact nil_sub _
    | b, .const c, e', h => by simp only [transf] at h; cases h; exact fun _ h => h
    | b, .namedExpr t v, e', h => by
        simp only [transf] at h
        obtain ⟨v', hv, h⟩ := bind_ok h
        have ihv := transf_bnd n b v v' hv
        by_cases hm : b.contains lamMark = true
        · rw [if_pos hm] at h; cases pure_ok h
          simp only [bnd]
          exact cons_sub t ihv
        rw [if_neg hm] at h
        obtain ⟨r, hr, h⟩ := bind_ok h
        have hr' := getAssign_bnd hr
        have key : bnd r ⊆ bnd (.namedExpr t v) := by
          simp only [bnd]
          exact fun x hx => (cons_sub t ihv) (hr' hx)
        split at h
        · cases pure_ok h; exact key
        · obtain ⟨l, hl, h⟩ := bind_ok h
          cases pure_ok h
          simp only [bnd, bndL, getLoad_bnd hl, Expr.neg1, List.append_nil]
          exact key
    | b, .yield_ _, e', h => by simp only [transf] at h; cases h
    | b, .yieldFrom _, e', h => by simp only [transf] at h; cases h
    | b, .await _, e', h => by simp only [transf] at h; cases h
    | b, .lambda (.mk po as va ko kd kw ds) body, e', h => by
        simp only [transf] at h
        obtain ⟨ds', hds, h⟩ := bind_ok h
        obtain ⟨kd', hkd, h⟩ := bind_ok h
        obtain ⟨body', hb, h⟩ := bind_ok h
        cases pure_ok h
        simp only [bnd, Arguments.paramNames]
        exact app_sub (app_sub (app_sub (fun _ h => h) (transfList_bnd n b ds ds' hds)) (transfOptList_bnd n b kd kd' hkd))
          (transf_bnd n _ body body' hb)
    | b, .listComp elt gens, e', h => by
        simp only [transf] at h
        obtain ⟨names, _, h⟩ := bind_ok h
        obtain ⟨elt', he, h⟩ := bind_ok h
        obtain ⟨gens', hg, h⟩ := bind_ok h
        cases pure_ok h
        simp only [bnd]
        exact app_sub (transf_bnd n _ elt elt' he) (transfComps_bnd n _ _ gens gens' hg)
    | b, .setComp elt gens, e', h => by
        simp only [transf] at h
        obtain ⟨names, _, h⟩ := bind_ok h
        obtain ⟨elt', he, h⟩ := bind_ok h
        obtain ⟨gens', hg, h⟩ := bind_ok h
        cases pure_ok h
        simp only [bnd]
        exact app_sub (transf_bnd n _ elt elt' he) (transfComps_bnd n _ _ gens gens' hg)
    | b, .generatorExp elt gens, e', h => by
        simp only [transf] at h
        obtain ⟨names, _, h⟩ := bind_ok h
        obtain ⟨elt', he, h⟩ := bind_ok h
        obtain ⟨gens', hg, h⟩ := bind_ok h
        cases pure_ok h
        simp only [bnd]
        exact app_sub (transf_bnd n _ elt elt' he) (transfComps_bnd n _ _ gens gens' hg)
    | b, .dictComp k v gens, e', h => by
        simp only [transf] at h
        obtain ⟨names, _, h⟩ := bind_ok h
        obtain ⟨k', hk, h⟩ := bind_ok h
        obtain ⟨v', hv, h⟩ := bind_ok h
        obtain ⟨gens', hg, h⟩ := bind_ok h
        cases pure_ok h
        simp only [bnd]
        exact app_sub (app_sub (transf_bnd n _ k k' hk) (transf_bnd n _ v v' hv)) (transfComps_bnd n _ _ gens gens' hg)
    | b, .joinedStr vs, e', h => by
        simp only [transf] at h
        obtain ⟨vs', hvs, h⟩ := bind_ok h
        cases pure_ok h
        simp only [bnd]; exact transfList_bnd n b vs vs' hvs
    | b, .formattedValue v c s, e', h => by
        simp only [transf] at h
        obtain ⟨v', hv, h⟩ := bind_ok h
        obtain ⟨s', hs, h⟩ := bind_ok h
        cases pure_ok h
        simp only [bnd]; exact app_sub (transf_bnd n b v v' hv) (transfOpt_bnd n b s s' hs)
    | b, .list es, e', h => by
        simp only [transf] at h
        obtain ⟨es', hes, h⟩ := bind_ok h
        cases pure_ok h
        simp only [bnd]; exact transfList_bnd n b es es' hes
    | b, .tuple es, e', h => by
        simp only [transf] at h
        obtain ⟨es', hes, h⟩ := bind_ok h
        cases pure_ok h
        simp only [bnd]; exact transfList_bnd n b es es' hes
    | b, .set es, e', h => by
        simp only [transf] at h
        obtain ⟨es', hes, h⟩ := bind_ok h
        cases pure_ok h
        simp only [bnd]; exact transfList_bnd n b es es' hes
    | b, .dict items, e', h => by
        simp only [transf] at h
        obtain ⟨its', hi, h⟩ := bind_ok h
        cases pure_ok h
        simp only [bnd]; exact transfItems_bnd n b items its' hi
    | b, .starred v, e', h => by
        simp only [transf] at h
        obtain ⟨v', hv, h⟩ := bind_ok h
        cases pure_ok h
        simp only [bnd]; exact transf_bnd n b v v' hv
    | b, .attribute v a, e', h => by
        simp only [transf] at h
        obtain ⟨v', hv, h⟩ := bind_ok h
        cases pure_ok h
        simp only [bnd]; exact transf_bnd n b v v' hv
    | b, .subscript v s, e', h => by
        simp only [transf] at h
        obtain ⟨v', hv, h⟩ := bind_ok h
        obtain ⟨s', hs, h⟩ := bind_ok h
        cases pure_ok h
        simp only [bnd]; exact app_sub (transf_bnd n b v v' hv) (transf_bnd n b s s' hs)
    | b, .slice x y z, e', h => by
        simp only [transf] at h
        obtain ⟨x', hx, h⟩ := bind_ok h
        obtain ⟨y', hy, h⟩ := bind_ok h
        obtain ⟨z', hz, h⟩ := bind_ok h
        cases pure_ok h
        simp only [bnd]
        exact app_sub (app_sub (transfOpt_bnd n b x x' hx) (transfOpt_bnd n b y y' hy)) (transfOpt_bnd n b z z' hz)
    | b, .call f as ks, e', h => by
        simp only [transf] at h
        obtain ⟨f', hf, h⟩ := bind_ok h
        obtain ⟨as', has, h⟩ := bind_ok h
        obtain ⟨ks', hks, h⟩ := bind_ok h
        cases pure_ok h
        simp only [bnd]
        exact app_sub (app_sub (transf_bnd n b f f' hf) (transfList_bnd n b as as' has)) (transfKeywords_bnd n b ks ks' hks)
    | b, .binOp x op y, e', h => by
        simp only [transf] at h
        obtain ⟨x', hx, h⟩ := bind_ok h
        obtain ⟨y', hy, h⟩ := bind_ok h
        cases pure_ok h
        simp only [bnd]; exact app_sub (transf_bnd n b x x' hx) (transf_bnd n b y y' hy)
    | b, .boolOp op vs, e', h => by
        simp only [transf] at h
        obtain ⟨vs', hvs, h⟩ := bind_ok h
        cases pure_ok h
        simp only [bnd]; exact transfList_bnd n b vs vs' hvs
    | b, .unaryOp op v, e', h => by
        simp only [transf] at h
        obtain ⟨v', hv, h⟩ := bind_ok h
        cases pure_ok h
        simp only [bnd]; exact transf_bnd n b v v' hv
    | b, .compare l ops cs, e', h => by
        simp only [transf] at h
        obtain ⟨l', hl, h⟩ := bind_ok h
        obtain ⟨cs', hcs, h⟩ := bind_ok h
        cases pure_ok h
        simp only [bnd]; exact app_sub (transf_bnd n b l l' hl) (transfList_bnd n b cs cs' hcs)
    | b, .ifExp t x y, e', h => by
        simp only [transf] at h
        obtain ⟨t', ht, h⟩ := bind_ok h
        obtain ⟨x', hx, h⟩ := bind_ok h
        obtain ⟨y', hy, h⟩ := bind_ok h
        cases pure_ok h
        simp only [bnd]
        exact app_sub (app_sub (transf_bnd n b t t' ht) (transf_bnd n b x x' hx)) (transf_bnd n b y y' hy)
  termination_by structural _ x => x

  theorem transfList_bnd (n : Nsp) : ∀ (b : List String) (es es' : List Expr), transfList n b es = .ok es' → bndL es' ⊆ bndL es
    | b, [], es', h => by simp only [transfList] at h; cases h; exact fun _ h => h
    | b, e :: es, es', h => by
        simp only [transfList] at h
        obtain ⟨e', he, h⟩ := bind_ok h
        obtain ⟨es'', hes, h⟩ := bind_ok h
        cases pure_ok h
        simp only [bndL]; exact app_sub (transf_bnd n b e e' he) (transfList_bnd n b es es'' hes)
  termination_by structural _ x => x

  theorem transfOpt_bnd (n : Nsp) : ∀ (b : List String) (o o' : Option Expr), transfOpt n b o = .ok o' → bndO o' ⊆ bndO o
    | b, none, o', h => by simp only [transfOpt] at h; cases h; exact fun _ h => h
    | b, some e, o', h => by
        simp only [transfOpt] at h
        obtain ⟨e', he, h⟩ := bind_ok h
        cases pure_ok h
        simp only [bndO]; exact transf_bnd n b e e' he
  termination_by structural _ x => x

  theorem transfOptList_bnd (n : Nsp) : ∀ (b : List String) (es es' : List (Option Expr)), transfOptList n b es = .ok es' →
      bndOL es' ⊆ bndOL es
    | b, [], es', h => by simp only [transfOptList] at h; cases h; exact fun _ h => h
    | b, none :: es, es', h => by
        simp only [transfOptList] at h
        obtain ⟨es'', hes, h⟩ := bind_ok h
        cases pure_ok h
        simp only [bndOL]; exact transfOptList_bnd n b es es'' hes
    | b, some e :: es, es', h => by
        simp only [transfOptList] at h
        obtain ⟨e', he, h⟩ := bind_ok h
        obtain ⟨es'', hes, h⟩ := bind_ok h
        cases pure_ok h
        simp only [bndOL]; exact app_sub (transf_bnd n b e e' he) (transfOptList_bnd n b es es'' hes)
  termination_by structural _ x => x

  theorem transfItems_bnd (n : Nsp) : ∀ (b : List String) (its its' : List DictItem), transfItems n b its = .ok its' →
      bndD its' ⊆ bndD its
    | b, [], its', h => by simp only [transfItems] at h; cases h; exact fun _ h => h
    | b, .mk none v :: its, its', h => by
        simp only [transfItems] at h
        obtain ⟨v', hv, h⟩ := bind_ok h
        obtain ⟨its'', hi, h⟩ := bind_ok h
        cases pure_ok h
        simp only [bndD]; exact app_sub (transf_bnd n b v v' hv) (transfItems_bnd n b its its'' hi)
    | b, .mk (some k) v :: its, its', h => by
        simp only [transfItems] at h
        obtain ⟨k', hk, h⟩ := bind_ok h
        obtain ⟨v', hv, h⟩ := bind_ok h
        obtain ⟨its'', hi, h⟩ := bind_ok h
        cases pure_ok h
        simp only [bndD]
        exact app_sub (app_sub (transf_bnd n b k k' hk) (transf_bnd n b v v' hv)) (transfItems_bnd n b its its'' hi)
  termination_by structural _ x => x

  theorem transfKeywords_bnd (n : Nsp) : ∀ (b : List String) (ks ks' : List Keyword), transfKeywords n b ks = .ok ks' →
      bndK ks' ⊆ bndK ks
    | b, [], ks', h => by simp only [transfKeywords] at h; cases h; exact fun _ h => h
    | b, .mk a v :: ks, ks', h => by
        simp only [transfKeywords] at h
        obtain ⟨v', hv, h⟩ := bind_ok h
        obtain ⟨ks'', hk, h⟩ := bind_ok h
        cases pure_ok h
        simp only [bndK]; exact app_sub (transf_bnd n b v v' hv) (transfKeywords_bnd n b ks ks'' hk)
  termination_by structural _ x => x

  theorem transfComps_bnd (n : Nsp) : ∀ (f b : List String) (gs gs' : List Comp), transfComps n f b gs = .ok gs' → bndG gs' ⊆ bndG gs
    | f, b, [], gs', h => by simp only [transfComps] at h; cases h; exact fun _ h => h
    | f, b, .mk t i ifs a :: gs, gs', h => by
        simp only [transfComps] at h
        obtain ⟨t', ht, h⟩ := bind_ok h
        obtain ⟨i', hi, h⟩ := bind_ok h
        obtain ⟨ifs', hifs, h⟩ := bind_ok h
        obtain ⟨gs'', hg, h⟩ := bind_ok h
        cases pure_ok h
        simp only [bndG]
        have htt := transfTarget_bnd n b t t' ht
        exact app_sub (app_sub (app_sub (app_sub htt.1 htt.2) (transf_bnd n f i i' hi)) (transfList_bnd n b ifs ifs' hifs))
          (transfComps_bnd n b b gs gs'' hg)
  termination_by structural _ _ x => x

  theorem transfTarget_bnd (n : Nsp) : ∀ (b : List String) (t t' : Expr), transfTarget n b t = .ok t' →
      tgtNames t' ⊆ tgtNames t ∧ bnd t' ⊆ bnd t
    | b, .name id, t', h => by simp only [transfTarget] at h; cases h; exact ⟨fun _ h => h, fun _ h => h⟩
    | b, .tuple es, t', h => by
        simp only [transfTarget] at h
        obtain ⟨es', hes, h⟩ := bind_ok h
        cases pure_ok h
        simp only [tgtNames, bnd]
        exact transfTargets_bnd n b es es' hes
    | b, .list es, t', h => by
        simp only [transfTarget] at h
        obtain ⟨es', hes, h⟩ := bind_ok h
        cases pure_ok h
        simp only [tgtNames, bnd]
        exact transfTargets_bnd n b es es' hes
    | b, .starred v, t', h => by
        simp only [transfTarget] at h
        obtain ⟨v', hv, h⟩ := bind_ok h
        cases pure_ok h
        simp only [tgtNames, bnd]
        exact transfTarget_bnd n b v v' hv
    | b, .attribute v a, t', h => by
        simp only [transfTarget] at h
        obtain ⟨v', hv, h⟩ := bind_ok h
        cases pure_ok h
        simp only [tgtNames, bnd]
        exact ⟨fun _ h => h, transf_bnd n b v v' hv⟩
    | b, .subscript v s, t', h => by
        simp only [transfTarget] at h
        obtain ⟨v', hv, h⟩ := bind_ok h
        obtain ⟨s', hs, h⟩ := bind_ok h
        cases pure_ok h
        simp only [tgtNames, bnd]
        exact ⟨fun _ h => h, app_sub (transf_bnd n b v v' hv) (transf_bnd n b s s' hs)⟩
    | b, .const _, t', h => by simp only [transfTarget] at h; cases h; exact ⟨fun _ h => h, fun _ h => h⟩
    | b, .joinedStr _, t', h => by simp only [transfTarget] at h; cases h; exact ⟨fun _ h => h, fun _ h => h⟩
    | b, .formattedValue .., t', h => by simp only [transfTarget] at h; cases h; exact ⟨fun _ h => h, fun _ h => h⟩
    | b, .set _, t', h => by simp only [transfTarget] at h; cases h; exact ⟨fun _ h => h, fun _ h => h⟩
    | b, .dict _, t', h => by simp only [transfTarget] at h; cases h; exact ⟨fun _ h => h, fun _ h => h⟩
    | b, .slice .., t', h => by simp only [transfTarget] at h; cases h; exact ⟨fun _ h => h, fun _ h => h⟩
    | b, .call .., t', h => by simp only [transfTarget] at h; cases h; exact ⟨fun _ h => h, fun _ h => h⟩
    | b, .binOp .., t', h => by simp only [transfTarget] at h; cases h; exact ⟨fun _ h => h, fun _ h => h⟩
    | b, .boolOp .., t', h => by simp only [transfTarget] at h; cases h; exact ⟨fun _ h => h, fun _ h => h⟩
    | b, .unaryOp .., t', h => by simp only [transfTarget] at h; cases h; exact ⟨fun _ h => h, fun _ h => h⟩
    | b, .compare .., t', h => by simp only [transfTarget] at h; cases h; exact ⟨fun _ h => h, fun _ h => h⟩
    | b, .ifExp .., t', h => by simp only [transfTarget] at h; cases h; exact ⟨fun _ h => h, fun _ h => h⟩
    | b, .lambda .., t', h => by simp only [transfTarget] at h; cases h; exact ⟨fun _ h => h, fun _ h => h⟩
    | b, .namedExpr .., t', h => by simp only [transfTarget] at h; cases h; exact ⟨fun _ h => h, fun _ h => h⟩
    | b, .listComp .., t', h => by simp only [transfTarget] at h; cases h; exact ⟨fun _ h => h, fun _ h => h⟩
    | b, .setComp .., t', h => by simp only [transfTarget] at h; cases h; exact ⟨fun _ h => h, fun _ h => h⟩
    | b, .dictComp .., t', h => by simp only [transfTarget] at h; cases h; exact ⟨fun _ h => h, fun _ h => h⟩
    | b, .generatorExp .., t', h => by simp only [transfTarget] at h; cases h; exact ⟨fun _ h => h, fun _ h => h⟩
    | b, .yield_ _, t', h => by simp only [transfTarget] at h; cases h; exact ⟨fun _ h => h, fun _ h => h⟩
    | b, .yieldFrom _, t', h => by simp only [transfTarget] at h; cases h; exact ⟨fun _ h => h, fun _ h => h⟩
    | b, .await _, t', h => by simp only [transfTarget] at h; cases h; exact ⟨fun _ h => h, fun _ h => h⟩
  termination_by structural _ x => x

  theorem transfTargets_bnd (n : Nsp) : ∀ (b : List String) (es es' : List Expr), transfTargets n b es = .ok es' →
      tgtNamesL es' ⊆ tgtNamesL es ∧ bndL es' ⊆ bndL es
    | b, [], es', h => by simp only [transfTargets] at h; cases h; exact ⟨fun _ h => h, fun _ h => h⟩
    | b, e :: es, es', h => by
        simp only [transfTargets] at h
        obtain ⟨e', he, h⟩ := bind_ok h
        obtain ⟨es'', hes, h⟩ := bind_ok h
        cases pure_ok h
        simp only [tgtNamesL, bndL]
        have h1 := transfTarget_bnd n b e e' he
        have h2 := transfTargets_bnd n b es es'' hes
        exact ⟨app_sub h1.1 h2.1, app_sub h1.2 h2.2⟩
  termination_by structural _ x => x
end


/-! ### reserved and audited helper names -/

/-- helper names without the reserved prefix that the emitted code binds: `_`, `__` (the chain-call
    runner's own lambdas), `self`, `it` (the iterator-wrapper preset), `__class__` (the cell the class
    loader provides), `itertools`, `importlib` (the two helper modules the property allows) -/
def auditedBinders : List String := ["_", "__", "self", "it", "__class__", "itertools", "importlib"]

/-- carries the reserved prefix, or is on the audited list -/
def Res (x : String) : Prop := x.toList.take 5 = "__ol_".toList ∨ x ∈ auditedBinders

theorem res_supply (s : Supply) (p : String) : Res (s.fresh p).1 := by
  left
  simp [Supply.fresh, toString, String.toList_append]

theorem res_fresh (st : St) (p : String) : Res (st.fresh p).1 := by
  simp only [St.fresh]
  exact res_supply st.sup p

/-- every name in `l` is one of `U` (the script's own binders) or a helper name -/
def AllOk (U l : List String) : Prop := ∀ x ∈ l, x ∈ U ∨ Res x

theorem allOk_nil (U : List String) : AllOk U [] := by intro x hx; cases hx
theorem allOk_append {U a b : List String} (ha : AllOk U a) (hb : AllOk U b) : AllOk U (a ++ b) := by
  intro x hx
  rcases List.mem_append.mp hx with h | h
  · exact ha x h
  · exact hb x h
theorem allOk_cons_res {U l : List String} {x : String} (hx : Res x) (hl : AllOk U l) : AllOk U (x :: l) := by
  intro y hy
  rcases List.mem_cons.mp hy with rfl | h
  · exact Or.inr hx
  · exact hl y h
theorem allOk_cons_mem {U l : List String} {x : String} (hx : x ∈ U) (hl : AllOk U l) : AllOk U (x :: l) := by
  intro y hy
  rcases List.mem_cons.mp hy with rfl | h
  · exact Or.inl hx
  · exact hl y h
theorem allOk_of_sub {U l : List String} (h : l ⊆ U) : AllOk U l := fun x hx => Or.inl (h hx)
theorem allOk_sub {U l l' : List String} (h : l' ⊆ l) (hl : AllOk U l) : AllOk U l' := fun x hx => hl x (h hx)
theorem allOk_mono {U U' l : List String} (h : U ⊆ U') (hl : AllOk U l) : AllOk U' l := by
  intro x hx
  rcases hl x hx with h1 | h1
  · exact Or.inl (h h1)
  · exact Or.inr h1
theorem allOk_ite (c : Prop) [Decidable c] {U a b : List String} (ha : AllOk U a) (hb : AllOk U b) :
    AllOk U (if c then a else b) := by split <;> assumption

theorem bndL_append : ∀ (a b : List Expr), bndL (a ++ b) = bndL a ++ bndL b
  | [], b => by simp [bndL]
  | x :: a, b => by simp [bndL, bndL_append a b, List.append_assoc]

/-! ### templates -/

theorem bnd_setFlag (x : String) (v : Bool) : bnd (setFlag x v) = [x] := by
  unfold setFlag; split <;> simp [bnd, Expr.true_, Expr.false_]
theorem bnd_intConstant (v : Int) : bnd (intConstant v) = [] := by unfold intConstant; split <;> simp [bnd]
theorem bnd_none : bnd Expr.none_ = [] := by simp [Expr.none_, bnd]
theorem bnd_getD (o : Option Expr) : bnd (o.getD Expr.none_) = bndO o := by cases o <;> simp [bndO, bnd_none]

theorem bnd_convertSlice (a b c : Option Expr) : bnd (convertSlice a b c) = bndO a ++ bndO b ++ bndO c := by
  simp [convertSlice, bnd, bndL, bndK, bnd_getD, List.append_assoc]

theorem bndL_map_of (f : Expr → Expr) (hf : ∀ e, bnd (f e) = bnd e) : ∀ (es : List Expr), bndL (es.map f) = bndL es
  | [] => rfl
  | e :: es => by simp [bndL, hf, bndL_map_of f hf es]

theorem bnd_convertIndex (s : Expr) : bnd (convertIndex s) = bnd s := by
  cases s with
  | slice a b c => simp [convertIndex, bnd_convertSlice, bnd]
  | tuple es =>
    simp only [convertIndex, bnd]
    apply bndL_map_of
    intro e
    cases e <;> simp [bnd_convertSlice, bnd]
  | _ => simp [convertIndex]

theorem bnd_augAssignExpr (t : Expr) (op : BinOpK) (v : Expr) : bnd (augAssignExpr t op v) = bnd t ++ bnd v := by
  simp [augAssignExpr, bnd, bndL, bndK, bnd_str]

theorem bnd_chainRunner : bnd chainRunner = ["_", "__"] := by
  simp [chainRunner, bnd, bndL, bndK, bndOL, Arguments.empty, Arguments.simple, Arguments.paramNames]

theorem bnd_foldl_call : ∀ (es : List Expr) (acc : Expr),
    bnd (es.foldl (fun acc x => .call acc [x] []) acc) = bnd acc ++ bndL es
  | [], acc => by simp [bndL]
  | e :: es, acc => by
      simp only [List.foldl]
      rw [bnd_foldl_call es]
      simp [bnd, bndL, bndK, List.append_assoc]

theorem allOk_wrapExprs (U : List String) (cfg : Cfg) {es : List Expr} (h : AllOk U (bndL es)) :
    AllOk U (bnd (wrapExprs cfg es)) := by
  match es, h with
  | [], _ => simp [wrapExprs, Expr.ellipsis, bnd]; exact allOk_nil U
  | [e], h => simpa [wrapExprs, bndL] using h
  | e1 :: e2 :: rest, h =>
    simp only [wrapExprs]
    split
    · simpa [listWrapper, bnd] using h
    · simp only [chainCallWrapper]
      rw [bnd_foldl_call]
      simp only [bnd, bndL, bndK, bnd_chainRunner, List.append_nil, List.append_assoc]
      simp only [bndL] at h
      refine allOk_cons_res (Or.inr (by decide)) (allOk_cons_res (Or.inr (by decide)) ?_)
      simpa [List.append_assoc] using h

theorem allOk_iterWrapperBody (U : List String) : AllOk U (bnd iterWrapperBody) := by
  have : bnd iterWrapperBody = [iterWrapperName, "self", "it", "self", "self"] := by
    simp [iterWrapperBody, bnd, bndL, bndK, bndD, bndOL, Arguments.simple, Arguments.paramNames, Expr.str, Expr.neg1,
      Expr.none_, Expr.false_]
  rw [this]
  intro x hx
  right
  simp only [List.mem_cons, List.not_mem_nil, or_false] at hx
  rcases hx with rfl | rfl | rfl | rfl | rfl
  · left; decide +kernel
  all_goals (right; decide)

end OlVerif
