import OlVerif.Props.C04
#print axioms OlVerif.C04.esc_table_ok
#print axioms OlVerif.C04.esc_high_ok
#print axioms OlVerif.C04.escape_roundtrip
#print axioms OlVerif.C04.escape_one_line
#print axioms OlVerif.C04.fmid_roundtrip
