import OlVerif.Props.C01
#print axioms OlVerif.C01.chain_call_keeps_all
#print axioms OlVerif.C01.list_keeps_all
#print axioms OlVerif.C01.wrapper_evaluates_in_order
#print axioms OlVerif.C01.straight_line_effects
#print axioms OlVerif.C01.module_straightline_semantics
#print axioms OlVerif.C01.helper_variables_are_invisible
#print axioms OlVerif.C01.module_level_expressions_unchanged
#print axioms OlVerif.C01.Ex.prog_runs
#print axioms OlVerif.C01.fragment_decidable_sound
#print axioms OlVerif.C01.module_with_while_semantics
