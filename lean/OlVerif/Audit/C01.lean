import OlVerif.Props.C01
#print axioms OlVerif.C01.chain_call_keeps_all
#print axioms OlVerif.C01.list_keeps_all
