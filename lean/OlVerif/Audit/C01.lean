import OlVerif.Props.C01
#print axioms OlVerif.C01.chain_call_keeps_all
#print axioms OlVerif.C01.list_keeps_all
#print axioms OlVerif.C01.wrapper_evaluates_in_order
#print axioms OlVerif.C01.straight_line_effects
