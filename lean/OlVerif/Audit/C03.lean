import OlVerif.Props.C03
#print axioms OlVerif.C03.table_sound
#print axioms OlVerif.C03.special_never_wrapped
#print axioms OlVerif.C03.tableViolations_empty
