import OlVerif.Props.C03
#print axioms OlVerif.C03.table_sound
#print axioms OlVerif.C03.special_never_wrapped
#print axioms OlVerif.C03.tableViolations_empty
#print axioms OlVerif.C03.unparse_derives
#print axioms OlVerif.C03.unparse_derives_at
#print axioms OlVerif.C03.wf_decidable_sound
