import OlVerif.Props.C12
#print axioms OlVerif.C12.dictSet_lookup_self
#print axioms OlVerif.C12.dictSet_lookup_other
#print axioms OlVerif.C12.copyOnto_lookup
#print axioms OlVerif.C12.members
#print axioms OlVerif.C12.class_shape
#print axioms OlVerif.C12.member_store_load
#print axioms OlVerif.C12.metaclass_keyword
#print axioms OlVerif.C12.inner_scope_skips_class
