import OlVerif.Props.C09
#print axioms OlVerif.C09.emitted_identifiers_audited
#print axioms OlVerif.C09.templates_prefixed
#print axioms OlVerif.C09.supply_advances
#print axioms OlVerif.C09.loop_helpers_reserved
#print axioms OlVerif.C09.helper_names_distinct
#print axioms OlVerif.C09.helper_names_prefixed
#print axioms OlVerif.C09.no_foreign_binders
#print axioms OlVerif.C09.transformer_adds_no_binder
