import OlVerif.Props.C13
#print axioms OlVerif.C13.unpack
#print axioms OlVerif.C13.dunder_table
#print axioms OlVerif.C13.model_uses_table
