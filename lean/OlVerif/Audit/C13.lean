import OlVerif.Props.C13
#print axioms OlVerif.C13.unpack
#print axioms OlVerif.C13.dunder_table
#print axioms OlVerif.C13.model_uses_table
#print axioms OlVerif.C13.aug_name_single_store
#print axioms OlVerif.C13.aug_attr_single_store
#print axioms OlVerif.C13.aug_sub_single_store
