import OlVerif.Props.C11
#print axioms OlVerif.C11.transfList_length
#print axioms OlVerif.C11.transfOptList_shape
#print axioms OlVerif.C11.sig
#print axioms OlVerif.C11.decorators_nest
#print axioms OlVerif.C11.def_shape
