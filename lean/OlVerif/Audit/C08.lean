import OlVerif.Props.C08
#print axioms OlVerif.C08.reject_other_stmt
#print axioms OlVerif.C08.reject_at_any_depth
#print axioms OlVerif.C08.reject_expr_at_any_depth
#print axioms OlVerif.C08.reject_contained
#print axioms OlVerif.C08.reject_unsupported_stmt
#print axioms OlVerif.C08.reject_yield_stmt
#print axioms OlVerif.C08.reject_star_import
#print axioms OlVerif.C08.reject_two_stars
#print axioms OlVerif.C08.reject_break_module
#print axioms OlVerif.C08.reject_return_module
#print axioms OlVerif.C08.reject_continue_in_def
#print axioms OlVerif.C08.reject_return_in_class
#print axioms OlVerif.C08.reject_starred_comprehension_target
