import OlVerif.Props.C08
#print axioms OlVerif.C08.reject_other_stmt
