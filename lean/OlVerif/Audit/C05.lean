import OlVerif.Props.C05
#print axioms OlVerif.C05.live_idem
