import OlVerif.Props.C05
#print axioms OlVerif.C05.lower_correct_module
#print axioms OlVerif.C05.lower_correct_function
#print axioms OlVerif.C05.block_inv
#print axioms OlVerif.C05.signal_has_cause
#print axioms OlVerif.C05.live_idem
#print axioms OlVerif.C05.run_source_sound
#print axioms OlVerif.C05.run_target_sound
