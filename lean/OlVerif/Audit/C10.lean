import OlVerif.Props.C10
#print axioms OlVerif.C10.storage_is_per_instance
#print axioms OlVerif.C10.run_objs
#print axioms OlVerif.C10.pure
#print axioms OlVerif.C10.default
