import OlVerif.Props.C06
#print axioms OlVerif.C06.load_store_same_dict_inner
#print axioms OlVerif.C06.load_store_same_dict_outer
