import OlVerif.Props.C06
#print axioms OlVerif.C06.load_store_same_dict_inner
#print axioms OlVerif.C06.load_store_same_dict_outer
#print axioms OlVerif.C06.free_name_goes_to_binder
#print axioms OlVerif.C06.binder_is_found
#print axioms OlVerif.C06.binder_knows
#print axioms OlVerif.C06.dictionary_is_new
#print axioms OlVerif.C06.every_free_name_is_resolved
#print axioms OlVerif.C06.first_iterable_outside
#print axioms OlVerif.C06.comprehension_variable_shadows
#print axioms OlVerif.C06.walrus_in_lambda_is_local
#print axioms OlVerif.C06.lambda_body_binds_walrus_targets
