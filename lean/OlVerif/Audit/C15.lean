import OlVerif.Props.C15
#print axioms OlVerif.C15.strict_levels
#print axioms OlVerif.C15.syntax_table
#print axioms OlVerif.C15.walrus_parenthesised_in_containers
