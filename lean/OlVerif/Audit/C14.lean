import OlVerif.Props.C14
#print axioms OlVerif.C14.import_as
#print axioms OlVerif.C14.import_plain
#print axioms OlVerif.C14.import_dotted
#print axioms OlVerif.C14.import_stmt
#print axioms OlVerif.C14.from_import
#print axioms OlVerif.C14.load_idem
#print axioms OlVerif.C14.step_eq
#print axioms OlVerif.C14.import_program
#print axioms OlVerif.C14.ol_step_loaded
#print axioms OlVerif.C14.ol_run_loaded
#print axioms OlVerif.C14.lower_import_plan
#print axioms OlVerif.C14.plan_is_model
#print axioms OlVerif.C14.lower_from_names
#print axioms OlVerif.C14.lower_from_plan
