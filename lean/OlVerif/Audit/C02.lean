import OlVerif.Props.C02
#print axioms OlVerif.C02.one_line_std
