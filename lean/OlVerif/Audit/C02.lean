import OlVerif.Props.C02
#print axioms OlVerif.C02.one_line_std
#print axioms OlVerif.C02.one_line_oneliner
#print axioms OlVerif.C02.int_leaf_clean
#print axioms OlVerif.C02.own_text_one_line
#print axioms OlVerif.C02.wf_output
#print axioms OlVerif.C02.output_is_expression
