import OlVerif.Props.C07
#print axioms OlVerif.C07.chained_value_once
