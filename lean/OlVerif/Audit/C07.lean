import OlVerif.Props.C07
#print axioms OlVerif.C07.chained_value_once
#print axioms OlVerif.C07.assign_order
#print axioms OlVerif.C07.annAssign_order
#print axioms OlVerif.C07.augAssign_order
#print axioms OlVerif.C07.expr_order
#print axioms OlVerif.C07.functionDef_order
#print axioms OlVerif.C07.wrapper_order
#print axioms OlVerif.C07.program_order
