import OlVerif.Props.C16
#print axioms OlVerif.C16.name_check_is_membership
#print axioms OlVerif.C16.effects_order
#print axioms OlVerif.C16.no_write_on_bad_option
#print axioms OlVerif.C16.no_write_on_bad_unparser
#print axioms OlVerif.C16.no_write_on_missing_input
#print axioms OlVerif.C16.writes_api
#print axioms OlVerif.C16.prints_api
#print axioms OlVerif.C16.unknown_name_rejected
#print axioms OlVerif.C16.only_output_touched
#print axioms OlVerif.C16.seq_frame
