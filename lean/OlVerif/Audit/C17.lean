import OlVerif.Props.C17
#print axioms OlVerif.C17.list_flat
#print axioms OlVerif.C17.chain_linear
#print axioms OlVerif.C17.wrap_list_height
#print axioms OlVerif.C17.block_height
#print axioms OlVerif.C17.one_guard_for_the_rest
