/-
  M-GRAMMAR, part 1: the precedence levels of CPython's expression grammar
  (Grammar/python.gram, 3.8 .. 3.13) and, for every node kind and every child position,
  the level the grammar has there.  This file is the hand-written *specification* side of
  C03.table_sound; the code side (`nodePrec`, `slotPrec`) is regenerated from /repo.

  A level is a natural number; rule `r` can stand wherever a rule of a higher or equal
  level is expected (the grammar's unit productions: atom -> primary -> await_primary ->
  power -> factor -> term -> sum -> shift_expr -> bitwise_and -> bitwise_xor -> bitwise_or
  -> comparison -> inversion -> conjunction -> disjunction -> expression ->
  named_expression).
-/
import OlVerif.Gen.Prec

namespace OlVerif
namespace Lv
abbrev atom : Nat := 0          -- NAME, literals, displays, comprehensions, '(' ... ')'
abbrev primary : Nat := 1       -- a.b  a[b]  a(b)
abbrev awaitPrimary : Nat := 2  -- 'await' primary
abbrev power : Nat := 3         -- await_primary '**' factor
abbrev factor : Nat := 4        -- ('+'|'-'|'~') factor
abbrev term : Nat := 5          -- term ('*'|'/'|'//'|'%'|'@') factor
abbrev sum : Nat := 6           -- sum ('+'|'-') term
abbrev shift : Nat := 7         -- shift_expr ('<<'|'>>') sum
abbrev bitAnd : Nat := 8        -- bitwise_and '&' shift_expr
abbrev bitXor : Nat := 9        -- bitwise_xor '^' bitwise_and
abbrev bitOr : Nat := 10        -- bitwise_or '|' bitwise_xor
abbrev comparison : Nat := 11   -- bitwise_or (op bitwise_or)+
abbrev inversion : Nat := 12    -- 'not' inversion
abbrev conjunction : Nat := 13  -- inversion ('and' inversion)+
abbrev disjunction : Nat := 14  -- conjunction ('or' conjunction)+
abbrev ternary : Nat := 15      -- disjunction 'if' disjunction 'else' expression
abbrev expression : Nat := 16   -- ternary | lambdef      (lambdef sits here)
abbrev namedExpr : Nat := 17    -- NAME ':=' expression | expression
abbrev genexpBare : Nat := 18   -- named_expression for_if_clauses, only as the sole call argument
abbrev yieldExpr : Nat := 19    -- 'yield' ..., only inside '(' ')' (in an expression)
end Lv

/-- kinds whose placement is a matter of precedence (everything except Starred, Slice,
    FormattedValue, whose placement is a parent/child relation) -/
def Kind.ordinary : Kind → Bool
  | .starred | .slice | .formattedValue => false
  | _ => true

/-- the grammar rule that produces a node of this kind (unparenthesised) -/
def kindLv : Kind → Nat
  | .name | .const | .joinedStr | .list | .listComp | .tuple | .dict | .dictComp | .set | .setComp => Lv.atom
  | .formattedValue | .starred | .slice => Lv.atom   -- not ordinary; never consulted
  | .attribute | .subscript | .call => Lv.primary
  | .await => Lv.awaitPrimary
  | .binOp .pow => Lv.power
  | .unaryOp .invert | .unaryOp .uAdd | .unaryOp .uSub => Lv.factor
  | .binOp .mult | .binOp .matMult | .binOp .div | .binOp .mod | .binOp .floorDiv => Lv.term
  | .binOp .add | .binOp .sub => Lv.sum
  | .binOp .lShift | .binOp .rShift => Lv.shift
  | .binOp .bitAnd => Lv.bitAnd
  | .binOp .bitXor => Lv.bitXor
  | .binOp .bitOr => Lv.bitOr
  | .compare => Lv.comparison
  | .unaryOp .not_ => Lv.inversion
  | .boolOp .and_ => Lv.conjunction
  | .boolOp .or_ => Lv.disjunction
  | .ifExp => Lv.ternary
  | .lambda => Lv.expression
  | .namedExpr => Lv.namedExpr
  | .generatorExp => Lv.genexpBare
  | .yield_ | .yieldFrom => Lv.yieldExpr

/-- what the grammar has at each child position: the highest level that may stand there
    without parentheses.  Where Python versions differ (walrus directly inside a
    subscript is 3.10+) the 3.8 value is used, so that the same table serves C15. -/
def slotLv : Slot → Nat
  | .top => Lv.expression                 -- eval: expressions
  | .fvValue => Lv.ternary                -- replacement field: a bare lambda or walrus would end at ':'
  | .jsValue | .specValue => Lv.atom      -- children are FormattedValue nodes (not ordinary)
  | .starredValue => Lv.bitOr             -- '*' bitwise_or
  | .attrValue | .subValue | .callFunc => Lv.primary
  | .subSlice | .subTupleElt => Lv.expression
  | .sliceLower | .sliceUpper | .sliceStep => Lv.expression
  | .callOnlyArg => Lv.genexpBare
  | .callArg => Lv.namedExpr
  | .callKwValue | .callStarKwValue => Lv.expression
  | .listElt | .setElt | .tupleElt => Lv.namedExpr   -- star_named_expression
  | .dictKey | .dictValue => Lv.expression
  | .dictStarValue => Lv.bitOr            -- '**' bitwise_or
  | .cmpLeft | .cmpRight => Lv.bitOr
  | .namedValue => Lv.expression
  | .lambdaBody | .lambdaDefault | .lambdaKwDefault => Lv.expression
  | .compKey | .compValue => Lv.expression
  | .compElt => Lv.namedExpr
  | .compTarget => Lv.primary             -- star_targets; shape restricted by well-formedness
  | .compIter | .compIf => Lv.disjunction
  | .ifBody | .ifTest => Lv.disjunction
  | .ifOrelse => Lv.expression
  | .yieldValue | .yieldFromValue => Lv.expression
  | .awaitValue => Lv.primary
  | .binL .pow => Lv.awaitPrimary
  | .binR .pow => Lv.factor
  | .binL .mult | .binL .matMult | .binL .div | .binL .mod | .binL .floorDiv => Lv.term
  | .binR .mult | .binR .matMult | .binR .div | .binR .mod | .binR .floorDiv => Lv.factor
  | .binL .add | .binL .sub => Lv.sum
  | .binR .add | .binR .sub => Lv.term
  | .binL .lShift | .binL .rShift => Lv.shift
  | .binR .lShift | .binR .rShift => Lv.sum
  | .binL .bitAnd => Lv.bitAnd
  | .binR .bitAnd => Lv.shift
  | .binL .bitXor => Lv.bitXor
  | .binR .bitXor => Lv.bitAnd
  | .binL .bitOr => Lv.bitOr
  | .binR .bitOr => Lv.bitXor
  | .boolVal .and_ => Lv.inversion
  | .boolVal .or_ => Lv.conjunction
  | .unary .not_ => Lv.inversion
  | .unary .invert | .unary .uAdd | .unary .uSub => Lv.factor

/-- slots whose child is an ordinary expression (a comprehension target is a `star_targets`
    shape: names, attributes, subscripts, displays -- restricted by well-formedness) -/
def Slot.exprSlot : Slot → Bool
  | .jsValue | .specValue | .compTarget => false
  | _ => true

def allBinOps : List BinOpK :=
  [.add, .sub, .mult, .matMult, .div, .mod, .pow, .lShift, .rShift, .bitOr, .bitXor, .bitAnd, .floorDiv]

def allKinds : List Kind :=
  [.name, .const, .joinedStr, .formattedValue, .list, .listComp, .tuple, .dict, .dictComp, .set, .setComp,
   .starred, .attribute, .subscript, .call, .await, .compare, .ifExp, .lambda, .slice, .namedExpr,
   .generatorExp, .yield_, .yieldFrom] ++ allBinOps.map .binOp ++ [.boolOp .and_, .boolOp .or_] ++
  [.unaryOp .invert, .unaryOp .not_, .unaryOp .uAdd, .unaryOp .uSub]

def allSlots : List Slot :=
  [.top, .fvValue, .jsValue, .specValue, .starredValue, .attrValue, .subValue, .subSlice, .subTupleElt,
   .sliceLower, .sliceUpper, .sliceStep, .callFunc, .callOnlyArg, .callArg, .callKwValue, .callStarKwValue,
   .listElt, .setElt, .tupleElt, .dictKey, .dictValue, .dictStarValue, .cmpLeft, .cmpRight, .namedValue,
   .lambdaBody, .lambdaDefault, .lambdaKwDefault, .compKey, .compValue, .compElt, .compTarget, .compIter,
   .compIf, .ifBody, .ifTest, .ifOrelse, .yieldValue, .yieldFromValue, .awaitValue] ++
  allBinOps.map .binL ++ allBinOps.map .binR ++ [.boolVal .and_, .boolVal .or_] ++
  [.unary .invert, .unary .not_, .unary .uAdd, .unary .uSub]

/-- the pairs on which the code's ladder would omit parentheses the grammar needs
    (empty on a sound ladder; used by the failing-input search) -/
def tableViolations : List (Slot × Kind) :=
  allSlots.flatMap fun s => (allKinds.filter fun k =>
    k.ordinary && s.exprSlot && decide (nodePrec k ≤ slotPrec s) && !decide (kindLv k ≤ slotLv s)).map fun k => (s, k)

/-- slots in which the grammar allows a starred element / a slice / a replacement field -/
def starredSlots : List Slot := [.listElt, .setElt, .tupleElt, .callArg, .callOnlyArg, .subTupleElt]
def sliceSlots : List Slot := [.subSlice, .subTupleElt]

end OlVerif
