/-
  M-GRAMMAR, part 2: CPython's expression grammar (Grammar/python.gram, 3.12) as a derivation
  relation between *token lists* and *trees*, with the grammar's AST actions.

  `D lv ts e`: the rule at level `lv` (see `Lv` in Levels.lean) derives the tokens `ts` and
  builds the tree `e`.  This file is hand-written specification - it does not mention the
  unparser.  It is a *sub-relation* of the grammar: every `D`-derivation is a derivation of
  python.gram with the same tree, but optional forms the unparser never needs (trailing commas,
  bare tuples, implicit string concatenation, `a[1:2]` with one colon, …) are left out.  Helper
  functions `joinToks`, `paramToks`, `alignDefaults`, `convToks` only build token lists.

  Token level: lexical adjacency (`1 .real`, `1if`) is not visible here; the correspondence
  check compares the model's tokens with `tokenize` of the real text.
-/
import OlVerif.Grammar.Levels
import OlVerif.Unparse.StrLit

namespace OlVerif
namespace Spec

/-! ### terminal spellings (specification side) -/

def binSym : BinOpK → String
  | .add => "+" | .sub => "-" | .mult => "*" | .matMult => "@" | .div => "/" | .mod => "%"
  | .pow => "**" | .lShift => "<<" | .rShift => ">>" | .bitOr => "|" | .bitXor => "^"
  | .bitAnd => "&" | .floorDiv => "//"

def unTok : UnaryOpK → Tok
  | .invert => .op "~" | .not_ => .kw "not" | .uAdd => .op "+" | .uSub => .op "-"

def boolTok : BoolOpK → Tok
  | .and_ => .kw "and" | .or_ => .kw "or"

def cmpToks : CmpOpK → List Tok
  | .eq => [.op "=="] | .notEq => [.op "!="] | .lt => [.op "<"] | .ltE => [.op "<="]
  | .gt => [.op ">"] | .gtE => [.op ">="] | .is_ => [.kw "is"] | .isNot => [.kw "is", .kw "not"]
  | .in_ => [.kw "in"] | .notIn => [.kw "not", .kw "in"]

/-- the body of a `q`-quoted literal reads as the string `s` (language reference 2.4.1; the
    reference decoder of Unparse/StrLit.lean) -/
def StrReads (q : Quote) (body s : List Nat) : Prop :=
  ∃ fuel, decodeStr q fuel (body ++ [q.cp]) = some (s, [])

/-- a literal part of an f-string: doubled braces are single braces, then as a string body -/
def FmidReads (q : Quote) (cps s : List Nat) : Prop :=
  ∃ t, undouble cps = some t ∧ StrReads q t s

/-- tokens of a constant.  Numbers other than non-negative integers and bytes are CPython's own
    `repr`, one token long; reading them back is CPython's business (trusted, checked by C04's R). -/
inductive LexConst : List Tok → Const → Prop
  | none : LexConst [.kw "None"] .none
  | true_ : LexConst [.kw "True"] .true_
  | false_ : LexConst [.kw "False"] .false_
  | ellipsis : LexConst [.op "..."] .ellipsis
  | int (n : Nat) : LexConst [.num (toString n)] (.int n)
  | str (q : Quote) (body s : List Nat) : StrReads q body s → LexConst [.lit (q.cp :: body ++ [q.cp])] (.str s)
  | repr (q : Quote) (c : Const) (t : Tok) : (∀ s, c ≠ .str s) → (∀ n, c ≠ .int n) → unparseConst q c = [t] → LexConst [t] c

def isConstStr : Expr → Bool
  | .const (.str _) => true
  | _ => false

/-- no brace in the literal text of a format spec: there (3.12+) `{{` / `}}` are *not* read as escaped
    braces, so the rule below speaks only about specs whose literal text has none -/
def specLitsNoBrace : List Expr → Bool
  | [] => true
  | .const (.str cps) :: vs => cps.all (fun c => c != 123 && c != 125) && specLitsNoBrace vs
  | _ :: vs => specLitsNoBrace vs

def starGroup (va : Option String) (ko : List String) : List (List Tok) :=
  match va with
  | some v => [[.op "*", .name v]]
  | none => if ko.isEmpty then [] else [[.op "*"]]

def kwargGroup : Option String → List (List Tok)
  | some k => [[.op "**", .name k]]
  | none => []

/-- positional parameters: the last `dts.length` names carry `= default`; a `/` follows the
    positional-only ones -/
def posGroup (po as : List String) (dts : List (List Tok)) : List (List Tok) :=
  let pos := alignDefaults (po ++ as) dts
  if po.isEmpty then pos else pos.take po.length ++ [[.op "/"]] ++ pos.drop po.length

def kwGroup (ko : List String) (kdts : List (Option (List Tok))) : List (List Tok) :=
  (ko.zip kdts).map fun (a, d) => paramToks a d

end Spec

open Spec

mutual
  /-- `D lv ts e`: the grammar rule of level `lv` derives `ts` and builds `e` -/
  inductive D : Nat → List Tok → Expr → Prop
    /-- unit productions atom -> primary -> ... -> named_expression -/
    | up {l l' : Nat} {ts : List Tok} {e : Expr} : D l ts e → l ≤ l' → D l' ts e
    /-- group: '(' (yield_expr | named_expression) ')' and genexp's own parentheses -/
    | group {l : Nat} {ts : List Tok} {e : Expr} : D l ts e → l ≤ Lv.yieldExpr → D Lv.atom (lpar :: ts ++ [rpar]) e
    | name (id : String) : D Lv.atom [.name id] (.name id)
    | const {ts : List Tok} {c : Const} : LexConst ts c → D Lv.atom ts (.const c)
    | fstring {q : Quote} {parts : List Tok} {vs : List Expr} :
        DParts q parts vs → D Lv.atom ([.fstart q] ++ parts ++ [.fend q]) (.joinedStr vs)
    /-- list: '[' [star_named_expressions] ']' -/
    | list {tss : List (List Tok)} {es : List Expr} :
        DElts Lv.namedExpr Lv.bitOr tss es → D Lv.atom ([.op "["] ++ joinToks [comma] tss ++ [.op "]"]) (.list es)
    /-- set: '{' star_named_expressions '}' -/
    | set {tss : List (List Tok)} {es : List Expr} :
        DElts Lv.namedExpr Lv.bitOr tss es → es ≠ [] → D Lv.atom ([.op "{"] ++ joinToks [comma] tss ++ [.op "}"]) (.set es)
    /-- tuple: '(' [star_named_expression ',' [star_named_expressions]] ')' -/
    | tuple {tss : List (List Tok)} {es : List Expr} :
        DElts Lv.namedExpr Lv.bitOr tss es →
        D Lv.atom ([lpar] ++ joinToks [comma] tss ++ (if es.length = 1 then [comma] else []) ++ [rpar]) (.tuple es)
    /-- dict: '{' [double_starred_kvpairs] '}' -/
    | dict {tss : List (List Tok)} {items : List DictItem} :
        DItems tss items → D Lv.atom ([.op "{"] ++ joinToks [comma] tss ++ [.op "}"]) (.dict items)
    /-- primary: primary '.' NAME -/
    | attribute {ts : List Tok} {v : Expr} (a : String) :
        D Lv.primary ts v → D Lv.primary (ts ++ [.op ".", .name a]) (.attribute v a)
    /-- primary: primary '[' slices ']' -/
    | subscript {ts sts : List Tok} {v s : Expr} :
        D Lv.primary ts v → DSlices sts s → D Lv.primary (ts ++ [.op "["] ++ sts ++ [.op "]"]) (.subscript v s)
    /-- primary: primary '(' [arguments] ')' -/
    | call {ft : List Tok} {f : Expr} {tss kss : List (List Tok)} {args : List Expr} {kws : List Keyword} :
        D Lv.primary ft f → DElts Lv.namedExpr Lv.expression tss args → DKws kss kws →
        D Lv.primary (ft ++ [lpar] ++ joinToks [comma] (tss ++ kss) ++ [rpar]) (.call f args kws)
    /-- primary: primary genexp  (and any single argument) -/
    | callOne {ft ts : List Tok} {f a : Expr} :
        D Lv.primary ft f → DElt Lv.genexpBare Lv.expression ts a →
        D Lv.primary (ft ++ [lpar] ++ ts ++ [rpar]) (.call f [a] [])
    /-- await_primary: AWAIT primary -/
    | await {ts : List Tok} {v : Expr} : D Lv.primary ts v → D Lv.awaitPrimary ([.kw "await"] ++ ts) (.await v)
    /-- power, term, sum, shift_expr, bitwise_and, bitwise_xor, bitwise_or -/
    | binOp {lt rt : List Tok} {l r : Expr} (op : BinOpK) :
        D (slotLv (.binL op)) lt l → D (slotLv (.binR op)) rt r →
        D (kindLv (.binOp op)) (lt ++ [.op (binSym op)] ++ rt) (.binOp l op r)
    /-- factor: ('+'|'-'|'~') factor;  inversion: 'not' inversion -/
    | unaryOp {ts : List Tok} {v : Expr} (op : UnaryOpK) :
        D (kindLv (.unaryOp op)) ts v → D (kindLv (.unaryOp op)) ([unTok op] ++ ts) (.unaryOp op v)
    /-- comparison: bitwise_or compare_op_bitwise_or_pair+ -/
    | compare {lt rest : List Tok} {l : Expr} {ops : List CmpOpK} {cs : List Expr} :
        D Lv.bitOr lt l → DCmp rest ops cs → ops ≠ [] → D Lv.comparison (lt ++ rest) (.compare l ops cs)
    /-- conjunction: inversion ('and' inversion)+ ;  disjunction: conjunction ('or' conjunction)+ -/
    | boolOp {tss : List (List Tok)} {vs : List Expr} (op : BoolOpK) :
        DList (slotLv (.boolVal op)) tss vs → 2 ≤ vs.length →
        D (kindLv (.boolOp op)) (joinToks [boolTok op] tss) (.boolOp op vs)
    /-- expression: disjunction 'if' disjunction 'else' expression -/
    | ifExp {bt tt et : List Tok} {t b e : Expr} :
        D Lv.disjunction bt b → D Lv.disjunction tt t → D Lv.expression et e →
        D Lv.ternary (bt ++ [.kw "if"] ++ tt ++ [.kw "else"] ++ et) (.ifExp t b e)
    /-- lambdef: 'lambda' [lambda_params] ':' expression -/
    | lambda {pts bt : List Tok} {as : Arguments} {b : Expr} :
        DParams pts as → D Lv.expression bt b → D Lv.expression ([.kw "lambda"] ++ pts ++ [.op ":"] ++ bt) (.lambda as b)
    /-- assignment_expression: NAME ':=' ~ expression -/
    | namedExpr {vt : List Tok} {v : Expr} (t : String) :
        D Lv.expression vt v → D Lv.namedExpr ([.name t, .op ":="] ++ vt) (.namedExpr t v)
    /-- listcomp: '[' named_expression for_if_clauses ']' -/
    | listComp {et cts : List Tok} {e : Expr} {gs : List Comp} :
        D Lv.namedExpr et e → DComps cts gs → gs ≠ [] → D Lv.atom ([.op "["] ++ et ++ cts ++ [.op "]"]) (.listComp e gs)
    | setComp {et cts : List Tok} {e : Expr} {gs : List Comp} :
        D Lv.namedExpr et e → DComps cts gs → gs ≠ [] → D Lv.atom ([.op "{"] ++ et ++ cts ++ [.op "}"]) (.setComp e gs)
    /-- dictcomp: '{' kvpair for_if_clauses '}' -/
    | dictComp {kt vt cts : List Tok} {k v : Expr} {gs : List Comp} :
        D Lv.expression kt k → D Lv.expression vt v → DComps cts gs → gs ≠ [] →
        D Lv.atom ([.op "{"] ++ kt ++ [.op ":"] ++ vt ++ cts ++ [.op "}"]) (.dictComp k v gs)
    /-- genexp without its parentheses (they come from `group`, or from the call it is the sole argument of) -/
    | genexp {et cts : List Tok} {e : Expr} {gs : List Comp} :
        D Lv.namedExpr et e → DComps cts gs → gs ≠ [] → D Lv.genexpBare (et ++ cts) (.generatorExp e gs)
    /-- yield_expr -/
    | yieldNone : D Lv.yieldExpr [.kw "yield"] (.yield_ none)
    | yieldSome {ts : List Tok} {v : Expr} : D Lv.expression ts v → D Lv.yieldExpr ([.kw "yield"] ++ ts) (.yield_ (some v))
    | yieldFrom {ts : List Tok} {v : Expr} :
        D Lv.expression ts v → D Lv.yieldExpr ([.kw "yield", .kw "from"] ++ ts) (.yieldFrom v)

  /-- an element that may be starred: '*' rule | rule -/
  inductive DElt : Nat → Nat → List Tok → Expr → Prop
    | plain {lv slv : Nat} {ts : List Tok} {e : Expr} : D lv ts e → DElt lv slv ts e
    | star {lv slv : Nat} {ts : List Tok} {v : Expr} : D slv ts v → DElt lv slv ([.op "*"] ++ ts) (.starred v)

  inductive DElts : Nat → Nat → List (List Tok) → List Expr → Prop
    | nil {lv slv : Nat} : DElts lv slv [] []
    | cons {lv slv : Nat} {ts : List Tok} {e : Expr} {tss : List (List Tok)} {es : List Expr} :
        DElt lv slv ts e → DElts lv slv tss es → DElts lv slv (ts :: tss) (e :: es)

  inductive DList : Nat → List (List Tok) → List Expr → Prop
    | nil {lv : Nat} : DList lv [] []
    | cons {lv : Nat} {ts : List Tok} {e : Expr} {tss : List (List Tok)} {es : List Expr} :
        D lv ts e → DList lv tss es → DList lv (ts :: tss) (e :: es)

  /-- default values of keyword-only parameters (`None` where there is none) -/
  inductive DOptList : List (Option (List Tok)) → List (Option Expr) → Prop
    | nil : DOptList [] []
    | none {tss : List (Option (List Tok))} {es : List (Option Expr)} : DOptList tss es → DOptList (none :: tss) (none :: es)
    | some {ts : List Tok} {e : Expr} {tss : List (Option (List Tok))} {es : List (Option Expr)} :
        D Lv.expression ts e → DOptList tss es → DOptList (some ts :: tss) (some e :: es)

  /-- double_starred_kvpair: '**' bitwise_or | expression ':' expression -/
  inductive DItems : List (List Tok) → List DictItem → Prop
    | nil : DItems [] []
    | kv {kt vt : List Tok} {k v : Expr} {tss : List (List Tok)} {its : List DictItem} :
        D Lv.expression kt k → D Lv.expression vt v → DItems tss its →
        DItems ((kt ++ [.op ":"] ++ vt) :: tss) (.mk (some k) v :: its)
    | star {vt : List Tok} {v : Expr} {tss : List (List Tok)} {its : List DictItem} :
        D Lv.bitOr vt v → DItems tss its → DItems (([.op "**"] ++ vt) :: tss) (.mk none v :: its)

  /-- kwarg_or_double_starred: NAME '=' expression | '**' expression -/
  inductive DKws : List (List Tok) → List Keyword → Prop
    | nil : DKws [] []
    | kw {vt : List Tok} {v : Expr} (a : String) {tss : List (List Tok)} {ks : List Keyword} :
        D Lv.expression vt v → DKws tss ks → DKws (([.name a, .op "="] ++ vt) :: tss) (.mk (some a) v :: ks)
    | star {vt : List Tok} {v : Expr} {tss : List (List Tok)} {ks : List Keyword} :
        D Lv.expression vt v → DKws tss ks → DKws (([.op "**"] ++ vt) :: tss) (.mk none v :: ks)

  /-- compare_op_bitwise_or_pair* -/
  inductive DCmp : List Tok → List CmpOpK → List Expr → Prop
    | nil : DCmp [] [] []
    | cons {ct rest : List Tok} {c : Expr} (op : CmpOpK) {ops : List CmpOpK} {cs : List Expr} :
        D Lv.bitOr ct c → DCmp rest ops cs → DCmp (cmpToks op ++ ct ++ rest) (op :: ops) (c :: cs)

  /-- for_if_clause*: [ASYNC] 'for' star_targets 'in' ~ disjunction ('if' disjunction)*.
      `star_targets` is approximated by the expression grammar at level primary (the shapes that
      are targets are a well-formedness condition on the tree) -/
  inductive DComps : List Tok → List Comp → Prop
    | nil : DComps [] []
    | cons {tt it ifts rest : List Tok} {t i : Expr} {ifs : List Expr} (a : Bool) {gs : List Comp} :
        D Lv.primary tt t → D Lv.disjunction it i → DIfs ifts ifs → DComps rest gs →
        DComps ((if a then [Tok.kw "async"] else []) ++ [.kw "for"] ++ tt ++ [.kw "in"] ++ it ++ ifts ++ rest)
          (.mk t i ifs a :: gs)

  inductive DIfs : List Tok → List Expr → Prop
    | nil : DIfs [] []
    | cons {ct rest : List Tok} {c : Expr} {cs : List Expr} :
        D Lv.disjunction ct c → DIfs rest cs → DIfs ([.kw "if"] ++ ct ++ rest) (c :: cs)

  /-- fstring_middle*: literal parts (maximal, non-empty) and replacement fields
      '{' annotated_rhs [fstring_conversion] [fstring_full_format_spec] '}' -/
  inductive DParts : Quote → List Tok → List Expr → Prop
    | nil {q : Quote} : DParts q [] []
    | lit {q : Quote} {cps s : List Nat} {rest : List Tok} {vs : List Expr} :
        FmidReads q cps s → s ≠ [] → (vs.head?.map isConstStr ≠ some true) → DParts q rest vs →
        DParts q (.fmid cps :: rest) (.const (.str s) :: vs)
    | field {q : Quote} {vt sts rest : List Tok} {v : Expr} (conv : Int) {spec : Option Expr} {vs : List Expr} :
        D Lv.ternary vt v → conv ∈ [(-1 : Int), 114, 115, 97] → DSpec q sts spec → DParts q rest vs →
        DParts q ([.op "{"] ++ vt ++ convToks conv ++ sts ++ [.op "}"] ++ rest) (.formattedValue v conv spec :: vs)

  inductive DSpec : Quote → List Tok → Option Expr → Prop
    | none {q : Quote} : DSpec q [] none
    | some {q : Quote} {parts : List Tok} {vs : List Expr} :
        DParts q parts vs → specLitsNoBrace vs = true → DSpec q (.op ":" :: parts) (some (.joinedStr vs))

  /-- slices: slice !',' | ','.(slice | starred_expression)+ [','] -/
  inductive DSlices : List Tok → Expr → Prop
    | one {ts : List Tok} {s : Expr} : DSliceElt ts s → (∀ v, s ≠ .starred v) → DSlices ts s
    | many {tss : List (List Tok)} {es : List Expr} :
        DSliceElts tss es → es ≠ [] →
        DSlices (joinToks [comma] tss ++ (if es.length = 1 then [comma] else [])) (.tuple es)

  /-- slice: [expression] ':' [expression] ':' [expression] | named_expression;  starred_expression -/
  inductive DSliceElt : List Tok → Expr → Prop
    | slice {lt ut st : List Tok} {lo up step : Option Expr} :
        DOpt lt lo → DOpt ut up → DOpt st step →
        DSliceElt (lt ++ [.op ":"] ++ ut ++ [.op ":"] ++ st) (.slice lo up step)
    | star {ts : List Tok} {v : Expr} : D Lv.expression ts v → DSliceElt ([.op "*"] ++ ts) (.starred v)
    | plain {ts : List Tok} {e : Expr} : D Lv.expression ts e → DSliceElt ts e

  inductive DSliceElts : List (List Tok) → List Expr → Prop
    | nil : DSliceElts [] []
    | cons {ts : List Tok} {e : Expr} {tss : List (List Tok)} {es : List Expr} :
        DSliceElt ts e → DSliceElts tss es → DSliceElts (ts :: tss) (e :: es)

  inductive DOpt : List Tok → Option Expr → Prop
    | none : DOpt [] none
    | some {ts : List Tok} {e : Expr} : D Lv.expression ts e → DOpt ts (some e)

  /-- lambda_params: names in order, the last ones with `= default`, `/` after the positional-only
      ones, `*name` (or a bare `*` before keyword-only names), keyword-only names with optional
      defaults, `**name`; the grammar's action fills `defaults` with the defaults of the trailing
      positional names and `kw_defaults` with one entry per keyword-only name -/
  inductive DParams : List Tok → Arguments → Prop
    | mk {po as ko : List String} {va kw : Option String} {ds : List Expr} {kd : List (Option Expr)}
        {dts : List (List Tok)} {kdts : List (Option (List Tok))} :
        DList Lv.expression dts ds → DOptList kdts kd → ds.length ≤ (po ++ as).length → kd.length = ko.length →
        DParams (joinToks [comma] (posGroup po as dts ++ starGroup va ko ++ kwGroup ko kdts ++ kwargGroup kw))
          (.mk po as va ko kd kw ds)
end

end OlVerif
