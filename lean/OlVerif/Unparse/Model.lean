/-
  M-UNPARSE: model of oneliner/expr_unparse.py at *token* level.

  `unparse oq e` is the token list of the text the real `unparse_X` generator of `e`
  assembles when the enclosing node's quote mark is `oq`; `render sp oq e` adds the
  parentheses the driver loop adds (node precedence > slot precedence).  Precedences,
  operator spellings and the escape table come from `Gen/` (regenerated from /repo on
  every run).  Whitespace is not part of the model: the tie compares these tokens with
  `tokenize` of the real text.
-/
import OlVerif.Ast
import OlVerif.Gen.Prec
import OlVerif.Gen.Escape

namespace OlVerif

inductive Quote | sq | dq
  deriving DecidableEq, Repr, Inhabited

def Quote.flip : Quote → Quote | .sq => .dq | .dq => .sq
def Quote.cp : Quote → Nat | .sq => 39 | .dq => 34

/-- Tokens.  Texts of string pieces are lists of code points. -/
inductive Tok
  | name (s : String)            -- identifier
  | kw (s : String)              -- keyword
  | op (s : String)              -- operator / punctuation
  | num (s : String)             -- numeric literal
  | lit (cps : List Nat)         -- complete non-f string or bytes literal (prefix, quotes, body)
  | fstart (q : Quote)           -- f' or f"
  | fmid (cps : List Nat)        -- literal part of an f-string, as written (escaped, braces doubled)
  | fend (q : Quote)
  deriving DecidableEq, Repr, Inhabited

def lpar : Tok := .op "("
def rpar : Tok := .op ")"
def comma : Tok := .op ","

/-- `get_unescaped_str` on one code point -/
def escOne (q : Quote) (c : Nat) : List Nat :=
  if c < 256 then
    (match q with | .sq => escTabSq | .dq => escTabDq).getD c [c]
  else if 0xD800 ≤ c ∧ c ≤ 0xDFFF then
    if escSurRaw then [c] else
      -- ascii(): \udXXX
      let hex (n : Nat) : Nat := if n < 10 then 48 + n else 87 + n
      [92, 117, hex (c / 4096 % 16), hex (c / 256 % 16), hex (c / 16 % 16), hex (c % 16)]
  else
    if escHighRaw then [c] else
      let hex (n : Nat) : Nat := if n < 10 then 48 + n else 87 + n
      if c < 65536 then
        [92, 117, hex (c / 4096 % 16), hex (c / 256 % 16), hex (c / 16 % 16), hex (c % 16)]
      else
        [92, 85, hex (c / 268435456 % 16), hex (c / 16777216 % 16), hex (c / 1048576 % 16),
          hex (c / 65536 % 16), hex (c / 4096 % 16), hex (c / 256 % 16), hex (c / 16 % 16), hex (c % 16)]

/-- `get_unescaped_str` -/
def escape (q : Quote) : List Nat → List Nat
  | [] => []
  | c :: cs => escOne q c ++ escape q cs

/-- `.replace("{","{{").replace("}","}}")` -/
def doubleBraces : List Nat → List Nat
  | [] => []
  | c :: cs => if c = 123 ∨ c = 125 then c :: c :: doubleBraces cs else c :: doubleBraces cs

/-- tokens of a numeric `repr` text such as `1.5`, `-2`, `(1+2j)`, `1e309j`, `nan` -/
def lexRepr (s : String) : List Tok :=
  let flush (cur : List Char) (acc : List Tok) : List Tok :=
    if cur.isEmpty then acc else
      let t := String.ofList cur.reverse
      acc ++ [if t.front.isDigit || t.front == '.' then Tok.num t else Tok.name t]
  let rec go (cs : List Char) (cur : List Char) (acc : List Tok) : List Tok :=
    match cs with
    | [] => flush cur acc
    | c :: rest =>
      if c == '(' || c == ')' then go rest [] (flush cur acc ++ [Tok.op (String.singleton c)])
      else if (c == '+' || c == '-') && !(cur.head? == some 'e' || cur.head? == some 'E') then
        go rest [] (flush cur acc ++ [Tok.op (String.singleton c)])
      else go rest (c :: cur) acc
  go s.toList [] []

def replaceInf (s : String) : String := s.replace "inf" "1e309"

def unparseConst (q : Quote) : Const → List Tok
  | .none => [.kw "None"]
  | .true_ => [.kw "True"]
  | .false_ => [.kw "False"]
  | .ellipsis => [.op "..."]
  | .int n => if n < 0 then [.op "-", .num (toString (-n))] else [.num (toString n)]
  | .str cps => [.lit (q.cp :: escape q cps ++ [q.cp])]
  | .bytes r => [.lit (r.toList.map Char.toNat)]
  | .float r => lexRepr (replaceInf r)
  | .complex r => lexRepr (replaceInf r)

def kindOf : Expr → Kind
  | .name _ => .name | .const _ => .const | .joinedStr _ => .joinedStr
  | .formattedValue .. => .formattedValue | .list _ => .list | .tuple _ => .tuple | .set _ => .set
  | .dict _ => .dict | .starred _ => .starred | .attribute .. => .attribute
  | .subscript .. => .subscript | .slice .. => .slice | .call .. => .call
  | .binOp _ op _ => .binOp op | .boolOp op _ => .boolOp op | .unaryOp op _ => .unaryOp op
  | .compare .. => .compare | .ifExp .. => .ifExp | .lambda .. => .lambda
  | .namedExpr .. => .namedExpr | .listComp .. => .listComp | .setComp .. => .setComp
  | .dictComp .. => .dictComp | .generatorExp .. => .generatorExp | .yield_ _ => .yield_
  | .yieldFrom _ => .yieldFrom | .await _ => .await

/-- the driver loop's parenthesisation: `node_precedence > outer_precedence` -/
def wrap (s : Slot) (k : Kind) (ts : List Tok) : List Tok :=
  if nodePrec k > slotPrec s then lpar :: ts ++ [rpar] else ts

def joinToks (sep : List Tok) : List (List Tok) → List Tok
  | [] => []
  | [x] => x
  | x :: xs => x ++ sep ++ joinToks sep xs

def cmpOpToks (op : CmpOpK) : List Tok :=
  (cmpOpWords op).map fun w => if w.front.isAlpha then Tok.kw w else Tok.op w

def unaryOpTok (op : UnaryOpK) : Tok :=
  let w := unaryOpWord op
  if w.front.isAlpha then .kw w else .op w

def boolOpTok (op : BoolOpK) : Tok := .kw (boolOpText op)

/-- is this the rendering of a child on which `str.isdigit()` is true? -/
def isDigitToks : List Tok → Bool
  | [.num s] => s.all Char.isDigit && !s.isEmpty
  | _ => false

def isSlice : Expr → Bool
  | .slice .. => true
  | _ => false

def isSliceTuple : Expr → Bool
  | .tuple es => es.any isSlice
  | _ => false

/-- quote mark a node hands to its children (`_Node.__init__`) -/
def ownQuote (oq : Quote) : Expr → Quote
  | .const _ => oq.flip
  | .joinedStr _ => oq.flip
  | _ => oq

def convToks (c : Int) : List Tok :=
  if c = -1 then [] else [.op "!", .name (String.singleton (Char.ofNat c.toNat))]

def paramToks (name : String) (dflt : Option (List Tok)) : List Tok :=
  match dflt with
  | none => [.name name]
  | some d => [.name name, .op "="] ++ d

/-- pair the last `ds.length` names with defaults (`for default in reversed(defaults)`) -/
def alignDefaults (names : List String) (ds : List (List Tok)) : List (List Tok) :=
  let n := names.length - ds.length
  (names.take n).map (fun a => paramToks a none) ++
    ((names.drop n).zip ds).map (fun (a, d) => paramToks a (some d))

mutual
  def unparse (oq : Quote) : Expr → List Tok
    | .name id => [.name id]
    | .const c => unparseConst oq.flip c
    | .joinedStr vs => [.fstart oq.flip] ++ unparseJoined oq.flip vs ++ [.fend oq.flip]
    | .formattedValue v conv spec =>
        [.op "{"] ++ wrap .fvValue (kindOf v) (unparse oq v) ++ convToks conv ++ unparseSpec oq spec ++ [.op "}"]
    | .list es => [.op "["] ++ joinToks [comma] (unparseList .listElt oq es) ++ [.op "]"]
    | .set es => [.op "{"] ++ joinToks [comma] (unparseList .setElt oq es) ++ [.op "}"]
    | .tuple es =>
        [lpar] ++ joinToks [comma] (unparseList .tupleElt oq es) ++ (if es.length = 1 then [comma] else []) ++ [rpar]
    | .dict items => [.op "{"] ++ joinToks [comma] (unparseDictItems oq items) ++ [.op "}"]
    | .starred v => [.op "*"] ++ wrap .starredValue (kindOf v) (unparse oq v)
    | .attribute v a =>
        let t := wrap .attrValue (kindOf v) (unparse oq v)
        (if isDigitToks t then lpar :: t ++ [rpar] else t) ++ [.op ".", .name a]
    | .subscript v s =>
        let vt := wrap .subValue (kindOf v) (unparse oq v)
        if isSliceTuple s then
          -- a[1:2,3]: the tuple is written without parentheses
          match s with
          | .tuple es =>
              vt ++ [.op "["] ++ joinToks [comma] (unparseList .subTupleElt oq es) ++
                (if es.length = 1 then [comma] else []) ++ [.op "]"]
          | _ => []
        else vt ++ [.op "["] ++ wrap .subSlice (kindOf s) (unparse oq s) ++ [.op "]"]
    | .slice lo up st =>
        unparseOpt .sliceLower oq lo ++ [.op ":"] ++ unparseOpt .sliceUpper oq up ++ [.op ":"] ++
          unparseOpt .sliceStep oq st
    | .call f args kws =>
        let ft := wrap .callFunc (kindOf f) (unparse oq f)
        if args.length = 1 ∧ kws.isEmpty then
          ft ++ [lpar] ++ joinToks [comma] (unparseList .callOnlyArg oq args) ++ [rpar]
        else
          ft ++ [lpar] ++ joinToks [comma] (unparseList .callArg oq args ++ unparseKeywords oq kws) ++ [rpar]
    | .binOp l op r =>
        wrap (.binL op) (kindOf l) (unparse oq l) ++ [.op (binOpText op)] ++
          wrap (.binR op) (kindOf r) (unparse oq r)
    | .boolOp op vs => joinToks [boolOpTok op] (unparseList (.boolVal op) oq vs)
    | .unaryOp op v => [unaryOpTok op] ++ wrap (.unary op) (kindOf v) (unparse oq v)
    | .compare l ops cs => wrap .cmpLeft (kindOf l) (unparse oq l) ++ unparseCmp oq ops cs
    | .ifExp t b e =>
        wrap .ifBody (kindOf b) (unparse oq b) ++ [.kw "if"] ++ wrap .ifTest (kindOf t) (unparse oq t) ++
          [.kw "else"] ++ wrap .ifOrelse (kindOf e) (unparse oq e)
    | .lambda as b => [.kw "lambda"] ++ unparseArgs oq as ++ [.op ":"] ++ wrap .lambdaBody (kindOf b) (unparse oq b)
    | .namedExpr t v => [.name t, .op ":="] ++ wrap .namedValue (kindOf v) (unparse oq v)
    | .listComp e gs => [.op "["] ++ wrap .compElt (kindOf e) (unparse oq e) ++ unparseComps oq gs ++ [.op "]"]
    | .setComp e gs => [.op "{"] ++ wrap .compElt (kindOf e) (unparse oq e) ++ unparseComps oq gs ++ [.op "}"]
    | .generatorExp e gs => wrap .compElt (kindOf e) (unparse oq e) ++ unparseComps oq gs
    | .dictComp k v gs =>
        [.op "{"] ++ wrap .compKey (kindOf k) (unparse oq k) ++ [.op ":"] ++
          wrap .compValue (kindOf v) (unparse oq v) ++ unparseComps oq gs ++ [.op "}"]
    | .yield_ none => [.kw "yield"]
    | .yield_ (some v) => [.kw "yield"] ++ wrap .yieldValue (kindOf v) (unparse oq v)
    | .yieldFrom v => [.kw "yield", .kw "from"] ++ wrap .yieldFromValue (kindOf v) (unparse oq v)
    | .await v => [.kw "await"] ++ wrap .awaitValue (kindOf v) (unparse oq v)

  /-- children rendered at slot `s` -/
  def unparseList (s : Slot) (oq : Quote) : List Expr → List (List Tok)
    | [] => []
    | e :: es => wrap s (kindOf e) (unparse oq e) :: unparseList s oq es

  def unparseOpt (s : Slot) (oq : Quote) : Option Expr → List Tok
    | none => []
    | some e => wrap s (kindOf e) (unparse oq e)

  /-- `_unparse_JoinedStr`: the contents between the quotes; `q` is the string's own quote -/
  def unparseJoined (q : Quote) : List Expr → List Tok
    | [] => []
    | e :: vs =>
        match e with
        | .const (.str cps) => .fmid (doubleBraces (escape q cps)) :: unparseJoined q vs
        | .formattedValue .. => wrap .jsValue .formattedValue (unparse q e) ++ unparseJoined q vs
        | _ => unparseJoined q vs

  /-- `":" + _unparse_JoinedStr(format_spec, qm)` -/
  def unparseSpec (q : Quote) : Option Expr → List Tok
    | some (.joinedStr vs) => .op ":" :: unparseJoined q vs
    | _ => []

  def unparseDictItems (oq : Quote) : List DictItem → List (List Tok)
    | [] => []
    | .mk (some k) v :: its =>
        (wrap .dictKey (kindOf k) (unparse oq k) ++ [.op ":"] ++ wrap .dictValue (kindOf v) (unparse oq v))
          :: unparseDictItems oq its
    | .mk none v :: its =>
        ([.op "**"] ++ wrap .dictStarValue (kindOf v) (unparse oq v)) :: unparseDictItems oq its

  def unparseKeywords (oq : Quote) : List Keyword → List (List Tok)
    | [] => []
    | .mk (some a) v :: ks => ([.name a, .op "="] ++ wrap .callKwValue (kindOf v) (unparse oq v)) :: unparseKeywords oq ks
    | .mk none v :: ks => ([.op "**"] ++ wrap .callStarKwValue (kindOf v) (unparse oq v)) :: unparseKeywords oq ks

  def unparseCmp (oq : Quote) : List CmpOpK → List Expr → List Tok
    | op :: ops, c :: cs => cmpOpToks op ++ wrap .cmpRight (kindOf c) (unparse oq c) ++ unparseCmp oq ops cs
    | _, _ => []

  def unparseComps (oq : Quote) : List Comp → List Tok
    | [] => []
    | .mk t i ifs a :: gs =>
        (if a then [Tok.kw "async"] else []) ++ [.kw "for"] ++ wrap .compTarget (kindOf t) (unparse oq t) ++
          [.kw "in"] ++ wrap .compIter (kindOf i) (unparse oq i) ++ unparseIfs oq ifs ++ unparseComps oq gs

  def unparseIfs (oq : Quote) : List Expr → List Tok
    | [] => []
    | c :: cs => [.kw "if"] ++ wrap .compIf (kindOf c) (unparse oq c) ++ unparseIfs oq cs

  def unparseOptList (s : Slot) (oq : Quote) : List (Option Expr) → List (Option (List Tok))
    | [] => []
    | none :: ds => none :: unparseOptList s oq ds
    | some d :: ds => some (wrap s (kindOf d) (unparse oq d)) :: unparseOptList s oq ds

  /-- the parameter list of a lambda (`unparse_Lambda`) -/
  def unparseArgs (oq : Quote) : Arguments → List Tok
    | .mk posonly args vararg kwonly kwDefaults kwarg defaults =>
        let ds := unparseList .lambdaDefault oq defaults
        let pos := alignDefaults (posonly ++ args) ds
        let pos := if posonly.isEmpty then pos else pos.take posonly.length ++ [[.op "/"]] ++ pos.drop posonly.length
        let star : List (List Tok) :=
          match vararg with
          | some v => [[.op "*", .name v]]
          | none => if kwonly.isEmpty then [] else [[.op "*"]]
        let kds := unparseOptList .lambdaKwDefault oq kwDefaults
        let kws := (kwonly.zip (kds ++ List.replicate (kwonly.length - kds.length) none)).map fun (a, d) => paramToks a d
        let kwa : List (List Tok) := match kwarg with | some k => [[.op "**", .name k]] | none => []
        joinToks [comma] (pos ++ star ++ kws ++ kwa)
end

/-- `expr_unparse`: the root sits in the top slot with outer quote `"` -/
def unparseTop (e : Expr) : List Tok := wrap .top (kindOf e) (unparse .dq e)

/-- text of a token, as code points (no whitespace) -/
def Tok.text : Tok → List Nat
  | .name s | .kw s | .op s | .num s => s.toList.map Char.toNat
  | .lit cps => cps
  | .fstart q => [102, q.cp]
  | .fmid cps => cps
  | .fend q => [q.cp]

end OlVerif
