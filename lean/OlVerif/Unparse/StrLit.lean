/-
  Reference model of CPython's string-literal decoding (the part the unparser's output can
  contain) and the lemmas that tie `escape` (the model of `get_unescaped_str`, table
  regenerated from /repo) to it.
-/
import OlVerif.Unparse.Model

namespace OlVerif

/-! ### reference decoder (language reference 2.4.1, "Escape sequences") -/

def hexVal (c : Nat) : Option Nat :=
  if 48 ≤ c ∧ c ≤ 57 then some (c - 48)
  else if 97 ≤ c ∧ c ≤ 102 then some (c - 87)
  else if 65 ≤ c ∧ c ≤ 70 then some (c - 55)
  else none

/-- read exactly `n` hex digits -/
def hexN : Nat → List Nat → Option (Nat × List Nat)
  | 0, rest => some (0, rest)
  | _ + 1, [] => none
  | n + 1, c :: rest =>
    match hexVal c, hexN n rest with
    | some d, some (v, r) => some (d * 16 ^ n + v, r)
    | _, _ => none

/-- the character after a backslash, for the one-character escapes -/
def simpleEsc (x : Nat) : Option Nat :=
  if x = 92 then some 92 else if x = 39 then some 39 else if x = 34 then some 34
  else if x = 110 then some 10 else if x = 114 then some 13 else if x = 116 then some 9
  else if x = 97 then some 7 else if x = 98 then some 8 else if x = 102 then some 12
  else if x = 118 then some 11 else none

/-- decode one character or escape sequence of a `q`-quoted literal.  Partial on purpose:
    octal escapes, `\N{..}`, line continuation and unknown escapes are rejected (`none`), as
    are a bare quote and a physical line break. -/
def decodeUnit (q : Quote) : List Nat → Option (Nat × List Nat)
  | [] => none
  | c :: rest =>
    if c = 92 then
      match rest with
      | [] => none
      | x :: rest' =>
        if x = 120 then hexN 2 rest'
        else if x = 117 then hexN 4 rest'
        else if x = 85 then
          match hexN 8 rest' with
          | some (v, r) => if v < 0x110000 then some (v, r) else none
          | none => none
        else match simpleEsc x with
          | some v => some (v, rest')
          | none => none
    else if c = q.cp ∨ c = 10 ∨ c = 13 then none
    else some (c, rest)

/-- decode the body of a literal up to and including the closing quote -/
def decodeStr (q : Quote) : Nat → List Nat → Option (List Nat × List Nat)
  | 0, _ => none
  | _ + 1, [] => none
  | fuel + 1, c :: rest =>
    if c = q.cp then some ([], rest)
    else match decodeUnit q (c :: rest) with
      | none => none
      | some (u, r) =>
        match decodeStr q fuel r with
        | none => none
        | some (s, r') => some (u :: s, r')

/-- undo brace doubling of an f-string literal part; a lone brace is an error -/
def undouble : List Nat → Option (List Nat)
  | [] => some []
  | [c] => if c = 123 ∨ c = 125 then none else some [c]
  | c :: d :: rest =>
    if c = 123 ∨ c = 125 then
      if d = c then (undouble rest).map (c :: ·) else none
    else (undouble (d :: rest)).map (c :: ·)

/-! ### per-code-point check, decidable, evaluated on the regenerated table -/

/-- what one code point's escape must look like for the decoder to give it back:
    closed under every continuation of the text -/
def unitOk (q : Quote) (c : Nat) : Bool :=
  match escOne q c with
  | [a] => a == c && a != 92 && a != q.cp && a != 10 && a != 13
  | [92, x] => x != 120 && x != 117 && x != 85 && simpleEsc x == some c
  | [92, 120, h1, h2] =>
      (match hexVal h1, hexVal h2 with | some a, some b => a * 16 + b == c | _, _ => false)
  | [92, 117, h1, h2, h3, h4] =>
      (match hexVal h1, hexVal h2, hexVal h3, hexVal h4 with
        | some a, some b, some c', some d => a * 4096 + b * 256 + c' * 16 + d == c | _, _, _, _ => false)
  | [92, 85, h1, h2, h3, h4, h5, h6, h7, h8] =>
      (match hexVal h1, hexVal h2, hexVal h3, hexVal h4, hexVal h5, hexVal h6, hexVal h7, hexVal h8 with
        | some a, some b, some c', some d, some e, some f, some g, some h =>
          a * 268435456 + b * 16777216 + c' * 1048576 + d * 65536 + e * 4096 + f * 256 + g * 16 + h == c
            && c < 0x110000
        | _, _, _, _, _, _, _, _ => false)
  | _ => false

/-- no character of the escape is a physical line break, a surrogate, or a brace that was not
    a brace before -/
def unitClean (q : Quote) (c : Nat) : Bool :=
  (escOne q c).all fun a => a != 10 && a != 13 && !(0xD800 ≤ a && a ≤ 0xDFFF) &&
    ((a == 123 || a == 125) → escOne q c == [c])

theorem hexN2 (h1 h2 a b : Nat) (tail : List Nat) (ha : hexVal h1 = some a) (hb : hexVal h2 = some b) :
    hexN 2 (h1 :: h2 :: tail) = some (a * 16 + b, tail) := by
  simp [hexN, ha, hb]

theorem hexN4 (h1 h2 h3 h4 a b c d : Nat) (tail : List Nat) (ha : hexVal h1 = some a)
    (hb : hexVal h2 = some b) (hc : hexVal h3 = some c) (hd : hexVal h4 = some d) :
    hexN 4 (h1 :: h2 :: h3 :: h4 :: tail) = some (a * 4096 + b * 256 + c * 16 + d, tail) := by
  simp [hexN, ha, hb, hc, hd]; omega

theorem hexN8 (h1 h2 h3 h4 h5 h6 h7 h8 a b c d e f g h : Nat) (tail : List Nat)
    (ha : hexVal h1 = some a) (hb : hexVal h2 = some b) (hc : hexVal h3 = some c)
    (hd : hexVal h4 = some d) (he : hexVal h5 = some e) (hf : hexVal h6 = some f)
    (hg : hexVal h7 = some g) (hh : hexVal h8 = some h) :
    hexN 8 (h1 :: h2 :: h3 :: h4 :: h5 :: h6 :: h7 :: h8 :: tail) =
      some (a * 268435456 + b * 16777216 + c * 1048576 + d * 65536 + e * 4096 + f * 256 + g * 16 + h, tail) := by
  simp [hexN, ha, hb, hc, hd, he, hf, hg, hh]; omega

/-- **Shape lemma**: if the escape of `c` passes the per-code-point check, the decoder reads
    exactly `c` back from it, whatever text follows. -/
theorem decodeUnit_of_unitOk (q : Quote) (c : Nat) (tail : List Nat) (h : unitOk q c = true) :
    decodeUnit q (escOne q c ++ tail) = some (c, tail) := by
  unfold unitOk at h
  split at h
  · -- [a]
    rename_i a heq
    simp only [Bool.and_eq_true, beq_iff_eq, bne_iff_ne, ne_eq] at h
    obtain ⟨⟨⟨⟨rfl, h1⟩, h2⟩, h3⟩, h4⟩ := h
    simp [heq, decodeUnit, h1, h2, h3, h4]
  · rename_i x heq
    simp only [Bool.and_eq_true, beq_iff_eq, bne_iff_ne, ne_eq] at h
    obtain ⟨⟨⟨h1, h2⟩, h3⟩, h4⟩ := h
    simp [heq, decodeUnit, h1, h2, h3, h4]
  · rename_i h1 h2 heq
    split at h
    · rename_i a b ha hb
      simp only [beq_iff_eq] at h
      simp [heq, decodeUnit, hexN2 h1 h2 a b tail ha hb, h]
    · simp at h
  · rename_i h1 h2 h3 h4 heq
    split at h
    · rename_i a b c' d ha hb hc hd
      simp only [beq_iff_eq] at h
      simp [heq, decodeUnit, hexN4 h1 h2 h3 h4 a b c' d tail ha hb hc hd, h]
    · simp at h
  · rename_i h1 h2 h3 h4 h5 h6 h7 h8 heq
    split at h
    · rename_i a b c' d e f g hh ha hb hc hd he hf hg hhh
      simp only [Bool.and_eq_true, beq_iff_eq, decide_eq_true_eq] at h
      simp [heq, decodeUnit, hexN8 h1 h2 h3 h4 h5 h6 h7 h8 a b c' d e f g hh tail ha hb hc hd he hf hg hhh, h.1, h.2]
    · simp at h
  · simp at h

/-- the first character of a good escape is never the closing quote -/
theorem head_ne_quote_of_unitOk (q : Quote) (c : Nat) (h : unitOk q c = true) :
    ∃ a l, escOne q c = a :: l ∧ a ≠ q.cp := by
  unfold unitOk at h
  split at h
  · rename_i a heq
    simp only [Bool.and_eq_true, beq_iff_eq, bne_iff_ne, ne_eq] at h
    exact ⟨a, [], heq, h.1.1.2⟩
  all_goals first
    | (rename_i heq; exact ⟨92, _, heq, by cases q <;> decide⟩)
    | simp at h

/-- lifting the per-code-point statement to whole strings, of any length -/
theorem decodeStr_escape (q : Quote) (s rest : List Nat) (hs : ∀ c ∈ s, unitOk q c = true) :
    decodeStr q (s.length + 1) (escape q s ++ q.cp :: rest) = some (s, rest) := by
  induction s with
  | nil => simp [escape, decodeStr]
  | cons c cs ih =>
    have hc : unitOk q c = true := hs c (by simp)
    have ih' := ih (fun c' hc' => hs c' (by simp [hc']))
    obtain ⟨a, l, hal, hne⟩ := head_ne_quote_of_unitOk q c hc
    have hdu := decodeUnit_of_unitOk q c (escape q cs ++ q.cp :: rest) hc
    simp only [escape, List.length_cons, List.append_assoc]
    rw [hal] at hdu ⊢
    simp only [List.cons_append] at hdu ⊢
    simp only [decodeStr, hne, ↓reduceIte, hdu, ih']

theorem undouble_doubleBraces (t : List Nat) : undouble (doubleBraces t) = some t := by
  induction t with
  | nil => simp [doubleBraces, undouble]
  | cons c cs ih =>
    by_cases hc : c = 123 ∨ c = 125
    · simp [doubleBraces, hc, undouble, ih]
    · cases hcs : doubleBraces cs with
      | nil =>
        have : cs = [] := by
          cases cs with
          | nil => rfl
          | cons d ds => simp [doubleBraces] at hcs; split at hcs <;> simp at hcs
        subst this
        simp [doubleBraces, hc, undouble]
      | cons d ds =>
        rw [hcs] at ih
        simp [doubleBraces, hc, undouble, hcs, ih]

end OlVerif
