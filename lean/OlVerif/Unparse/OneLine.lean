/-
  The custom unparser never emits a physical line break: every token of `unparse q e` is free of
  LF and CR, for every tree whose *leaves* are clean (identifiers and `repr` texts free of line
  breaks - they are not the unparser's own text; strings hold valid code points, for which the
  escape theorems of C04 apply).
-/
import OlVerif.Unparse.StrLit
import OlVerif.Props.C04

set_option linter.unusedSimpArgs false
set_option linter.unusedVariables false

namespace OlVerif

def cpsClean (l : List Nat) : Bool := l.all fun c => c != 10 && c != 13
abbrev TokClean (t : Tok) : Prop := cpsClean t.text = true
def Clean (ts : List Tok) : Prop := ∀ t ∈ ts, TokClean t
abbrev StrClean (s : String) : Prop := cpsClean (s.toList.map Char.toNat) = true

theorem cpsClean_iff (l : List Nat) : cpsClean l = true ↔ ∀ c ∈ l, c ≠ 10 ∧ c ≠ 13 := by
  simp [cpsClean, List.all_eq_true]

theorem clean_nil : Clean [] := by intro t ht; cases ht
theorem clean_cons {t : Tok} {ts : List Tok} (h1 : TokClean t) (h2 : Clean ts) : Clean (t :: ts) := by
  intro x hx
  simp only [List.mem_cons] at hx
  rcases hx with rfl | hx
  · exact h1
  · exact h2 x hx
theorem clean_append {a b : List Tok} (h1 : Clean a) (h2 : Clean b) : Clean (a ++ b) := by
  intro x hx
  simp only [List.mem_append] at hx
  rcases hx with hx | hx
  · exact h1 x hx
  · exact h2 x hx
theorem clean_single {t : Tok} (h : TokClean t) : Clean [t] := clean_cons h clean_nil

theorem tokClean_op (s : String) (h : StrClean s) : TokClean (.op s) := h
theorem tokClean_kw (s : String) (h : StrClean s) : TokClean (.kw s) := h
theorem tokClean_name (s : String) (h : StrClean s) : TokClean (.name s) := h

/-- the fixed punctuation and keywords the unparser writes -/
theorem fixed_clean :
    ∀ s ∈ ["(", ")", ",", "[", "]", "{", "}", ":", ".", "*", "**", "=", ":=", "!", "...", "-", "/",
           "if", "else", "for", "in", "lambda", "async", "yield", "from", "await", "None", "True", "False"],
      StrClean s := by decide +kernel

theorem clean_lpar : TokClean lpar := tokClean_op _ (fixed_clean _ (by decide))
theorem clean_rpar : TokClean rpar := tokClean_op _ (fixed_clean _ (by decide))
theorem clean_comma : TokClean comma := tokClean_op _ (fixed_clean _ (by decide))
theorem op_clean (s : String) (h : s ∈ ["(", ")", ",", "[", "]", "{", "}", ":", ".", "*", "**", "=", ":=", "!", "...", "-", "/",
           "if", "else", "for", "in", "lambda", "async", "yield", "from", "await", "None", "True", "False"]) :
    TokClean (.op s) := tokClean_op _ (fixed_clean s h)
theorem kw_clean (s : String) (h : s ∈ ["(", ")", ",", "[", "]", "{", "}", ":", ".", "*", "**", "=", ":=", "!", "...", "-", "/",
           "if", "else", "for", "in", "lambda", "async", "yield", "from", "await", "None", "True", "False"]) :
    TokClean (.kw s) := tokClean_kw _ (fixed_clean s h)

/-- the regenerated operator spellings are free of line breaks -/
theorem binOp_clean (op : BinOpK) : TokClean (.op (binOpText op)) := by
  cases op <;> exact tokClean_op _ (by decide +kernel)
theorem boolOp_clean (op : BoolOpK) : TokClean (boolOpTok op) := by
  cases op <;> exact tokClean_kw _ (by decide +kernel)
theorem unaryOp_clean (op : UnaryOpK) : TokClean (unaryOpTok op) := by
  cases op <;> (unfold unaryOpTok; simp only []; split <;> first | exact tokClean_kw _ (by decide +kernel) | exact tokClean_op _ (by decide +kernel))
theorem cmpOp_clean (op : CmpOpK) : Clean (cmpOpToks op) := by
  cases op <;> (intro t ht; revert t; decide +kernel)

theorem clean_wrap (s : Slot) (k : Kind) {ts : List Tok} (h : Clean ts) : Clean (wrap s k ts) := by
  unfold wrap
  split
  · exact clean_cons clean_lpar (clean_append h (clean_single clean_rpar))
  · exact h

theorem clean_joinToks {sep : List Tok} (hs : Clean sep) :
    ∀ {tss : List (List Tok)}, (∀ ts ∈ tss, Clean ts) → Clean (joinToks sep tss)
  | [], _ => clean_nil
  | [x], h => by simpa [joinToks] using h x (by simp)
  | x :: y :: rest, h => by
    simp only [joinToks]
    exact clean_append (clean_append (h x (by simp)) hs)
      (clean_joinToks hs (fun ts hts => h ts (by simp [hts])))

theorem doubleBraces_clean' {l : List Nat} (h : ∀ c ∈ l, c ≠ 10 ∧ c ≠ 13) : ∀ c ∈ doubleBraces l, c ≠ 10 ∧ c ≠ 13 := by
  induction l with
  | nil => simp [doubleBraces]
  | cons a as ih =>
    have ha := h a (by simp)
    have ih' := ih (fun c hc => h c (by simp [hc]))
    intro c hc
    simp only [doubleBraces] at hc
    split at hc
    · simp only [List.mem_cons] at hc
      rcases hc with rfl | rfl | hc
      · exact ha
      · exact ha
      · exact ih' c hc
    · simp only [List.mem_cons] at hc
      rcases hc with rfl | hc
      · exact ha
      · exact ih' c hc

theorem doubleBraces_clean {l : List Nat} (h : cpsClean l = true) : cpsClean (doubleBraces l) = true :=
  (cpsClean_iff _).mpr (doubleBraces_clean' ((cpsClean_iff _).mp h))

end OlVerif

namespace OlVerif

/-! ### clean leaves -/

def okC : Const → Prop
  | .str cps => ∀ c ∈ cps, c < 0x110000
  | .none | .true_ | .false_ | .ellipsis => True
  | c => ∀ q, Clean (unparseConst q c)          -- `repr` of numbers / bytes is CPython's

def namesClean (l : List String) : Prop := ∀ a ∈ l, StrClean a
def optNameClean : Option String → Prop
  | none => True
  | some a => StrClean a

mutual
  def okE : Expr → Prop
    | .name id => StrClean id
    | .const c => okC c
    | .joinedStr vs => okL vs
    | .formattedValue v conv spec => okE v ∧ okO spec ∧ Clean (convToks conv)
    | .list es => okL es
    | .tuple es => okL es
    | .set es => okL es
    | .dict items => okD items
    | .starred v => okE v
    | .attribute v a => okE v ∧ StrClean a
    | .subscript v s => okE v ∧ okE s
    | .slice a b c => okO a ∧ okO b ∧ okO c
    | .call f as ks => okE f ∧ okL as ∧ okK ks
    | .binOp a _ b => okE a ∧ okE b
    | .boolOp _ vs => okL vs
    | .unaryOp _ v => okE v
    | .compare l _ cs => okE l ∧ okL cs
    | .ifExp t b e => okE t ∧ okE b ∧ okE e
    | .lambda as b => okA as ∧ okE b
    | .namedExpr t v => StrClean t ∧ okE v
    | .listComp e gs => okE e ∧ okG gs
    | .setComp e gs => okE e ∧ okG gs
    | .generatorExp e gs => okE e ∧ okG gs
    | .dictComp k v gs => okE k ∧ okE v ∧ okG gs
    | .yield_ v => okO v
    | .yieldFrom v => okE v
    | .await v => okE v
  def okL : List Expr → Prop
    | [] => True
    | e :: es => okE e ∧ okL es
  def okO : Option Expr → Prop
    | none => True
    | some e => okE e
  def okOL : List (Option Expr) → Prop
    | [] => True
    | none :: es => okOL es
    | some e :: es => okE e ∧ okOL es
  def okD : List DictItem → Prop
    | [] => True
    | .mk k v :: its => okO k ∧ okE v ∧ okD its
  def okK : List Keyword → Prop
    | [] => True
    | .mk a v :: ks => optNameClean a ∧ okE v ∧ okK ks
  def okG : List Comp → Prop
    | [] => True
    | .mk t i ifs _ :: gs => okE t ∧ okE i ∧ okL ifs ∧ okG gs
  def okA : Arguments → Prop
    | .mk po as va ko kd kw ds => namesClean po ∧ namesClean as ∧ optNameClean va ∧ namesClean ko ∧ okOL kd ∧
        optNameClean kw ∧ okL ds
end

/-! ### lambda parameter lists -/

theorem paramToks_clean (a : String) (d : Option (List Tok)) (ha : StrClean a)
    (hd : ∀ x, d = some x → Clean x) : Clean (paramToks a d) := by
  unfold paramToks
  cases d with
  | none => exact clean_single (tokClean_name _ ha)
  | some x =>
    exact clean_append (clean_cons (tokClean_name _ ha) (clean_single (op_clean "=" (by decide)))) (hd x rfl)

theorem alignDefaults_clean (names : List String) (ds : List (List Tok)) (hn : namesClean names)
    (hd : ∀ d ∈ ds, Clean d) : ∀ ts ∈ alignDefaults names ds, Clean ts := by
  intro ts hts
  simp only [alignDefaults, List.mem_append, List.mem_map] at hts
  rcases hts with ⟨a, ha, rfl⟩ | ⟨⟨a, d⟩, had, rfl⟩
  · exact paramToks_clean a none (hn a (List.mem_of_mem_take ha)) (fun x hx => by cases hx)
  · have h1 := List.of_mem_zip had
    exact paramToks_clean a (some d) (hn a (List.mem_of_mem_drop h1.1)) (fun x hx => by cases hx; exact hd _ h1.2)


theorem escape_clean (q : Quote) (cps : List Nat) (h : ∀ c ∈ cps, c < 0x110000) :
    cpsClean (escape q cps) = true :=
  (cpsClean_iff _).mpr (fun c hc => ⟨(C04.escape_one_line q cps h c hc).1, (C04.escape_one_line q cps h c hc).2.1⟩)

theorem strLit_clean (q : Quote) (cps : List Nat) (h : ∀ c ∈ cps, c < 0x110000) :
    TokClean (.lit (q.cp :: escape q cps ++ [q.cp])) := by
  have := (cpsClean_iff _).mp (escape_clean q cps h)
  refine (cpsClean_iff _).mpr ?_
  intro c hc
  simp only [Tok.text, List.mem_cons, List.mem_append, List.not_mem_nil, or_false] at hc
  rcases hc with (rfl | hc) | rfl
  · cases q <;> decide
  · exact this c hc
  · cases q <;> decide

theorem fstart_clean (q : Quote) : TokClean (.fstart q) := by cases q <;> decide
theorem fend_clean (q : Quote) : TokClean (.fend q) := by cases q <;> decide

theorem const_clean (q : Quote) (c : Const) (h : okC c) : Clean (unparseConst q c) := by
  cases c with
  | str cps => exact clean_single (strLit_clean q cps h)
  | none => exact clean_single (kw_clean _ (by decide))
  | true_ => exact clean_single (kw_clean _ (by decide))
  | false_ => exact clean_single (kw_clean _ (by decide))
  | ellipsis => exact clean_single (op_clean _ (by decide))
  | int n => exact h q
  | bytes r => exact h q
  | float r => exact h q
  | complex r => exact h q

syntax "cl" : tactic
macro_rules
  | `(tactic| cl) => `(tactic| repeat (first
      | exact clean_nil
      | exact clean_lpar | exact clean_rpar | exact clean_comma
      | exact op_clean _ (by decide) | exact kw_clean _ (by decide)
      | assumption
      | apply clean_wrap
      | apply clean_append
      | apply clean_cons))

theorem clean_ite {c : Prop} [Decidable c] {a b : List Tok} (ha : Clean a) (hb : Clean b) :
    Clean (if c then a else b) := by split <;> assumption

theorem mem_append_clean {a b : List (List Tok)} (ha : ∀ ts ∈ a, Clean ts) (hb : ∀ ts ∈ b, Clean ts) :
    ∀ ts ∈ a ++ b, Clean ts := by
  intro ts h
  rcases List.mem_append.mp h with h | h
  · exact ha ts h
  · exact hb ts h

mutual
  theorem clean_unparse (oq : Quote) : ∀ e, okE e → Clean (unparse oq e)
    | .name id, h => by simp only [unparse]; exact clean_single (tokClean_name _ h)
    | .const c, h => by simp only [unparse]; exact const_clean _ c h
    | .joinedStr vs, h => by
        simp only [unparse]
        have := clean_unparseJoined oq.flip vs h
        exact clean_append (clean_append (clean_single (fstart_clean _)) this) (clean_single (fend_clean _))
    | .formattedValue v conv spec, h => by
        simp only [unparse]
        have h1 := clean_unparse oq v h.1
        have h2 := clean_unparseSpec oq spec h.2.1
        have h3 := h.2.2
        cl
    | .list es, h => by
        simp only [unparse]
        have := clean_joinToks (clean_single clean_comma) (clean_unparseList .listElt oq es h)
        cl
    | .set es, h => by
        simp only [unparse]
        have := clean_joinToks (clean_single clean_comma) (clean_unparseList .setElt oq es h)
        cl
    | .tuple es, h => by
        simp only [unparse]
        have := clean_joinToks (clean_single clean_comma) (clean_unparseList .tupleElt oq es h)
        have h2 : Clean (if es.length = 1 then [comma] else []) := clean_ite (clean_single clean_comma) clean_nil
        cl
    | .dict items, h => by
        simp only [unparse]
        have := clean_joinToks (clean_single clean_comma) (clean_unparseDictItems oq items h)
        cl
    | .starred v, h => by
        simp only [unparse]
        have := clean_unparse oq v h
        cl
    | .attribute v a, h => by
        simp only [unparse]
        have h1 := clean_unparse oq v h.1
        have h2 : TokClean (.name a) := tokClean_name _ h.2
        apply clean_append
        · apply clean_ite <;> cl
        · exact clean_cons (op_clean _ (by decide)) (clean_single h2)
    | .subscript v s, h => by
        have h1 := clean_unparse oq v h.1
        have h2 := clean_unparse oq s h.2
        have key : (∀ es, s = .tuple es → False) → Clean (unparse oq (.subscript v s)) := by
          intro hs
          rw [unparse.eq_12 oq v s hs]
          split <;> cl
        cases s with
        | tuple es =>
          have h3 : okL es := h.2
          have := clean_joinToks (clean_single clean_comma) (clean_unparseList .subTupleElt oq es h3)
          have h4 : Clean (if es.length = 1 then [comma] else []) := clean_ite (clean_single clean_comma) clean_nil
          rw [unparse.eq_11]
          split <;> cl
        | _ => exact key (by intro es he; cases he)
    | .slice lo up st, h => by
        simp only [unparse]
        have h1 := clean_unparseOpt .sliceLower oq lo h.1
        have h2 := clean_unparseOpt .sliceUpper oq up h.2.1
        have h3 := clean_unparseOpt .sliceStep oq st h.2.2
        cl
    | .call f args kws, h => by
        simp only [unparse]
        have h1 := clean_unparse oq f h.1
        have h2 := clean_joinToks (clean_single clean_comma) (clean_unparseList .callOnlyArg oq args h.2.1)
        have h3 := clean_joinToks (clean_single clean_comma)
          (mem_append_clean (clean_unparseList .callArg oq args h.2.1) (clean_unparseKeywords oq kws h.2.2))
        split <;> cl
    | .binOp l op r, h => by
        simp only [unparse]
        have h1 := clean_unparse oq l h.1
        have h2 := clean_unparse oq r h.2
        have h3 := binOp_clean op
        cl
    | .boolOp op vs, h => by
        simp only [unparse]
        exact clean_joinToks (clean_single (boolOp_clean op)) (clean_unparseList (.boolVal op) oq vs h)
    | .unaryOp op v, h => by
        simp only [unparse]
        have h1 := clean_unparse oq v h
        have h3 := unaryOp_clean op
        cl
    | .compare l ops cs, h => by
        simp only [unparse]
        have h1 := clean_unparse oq l h.1
        have h2 := clean_unparseCmp oq ops cs h.2
        cl
    | .ifExp t b e, h => by
        simp only [unparse]
        have h1 := clean_unparse oq t h.1
        have h2 := clean_unparse oq b h.2.1
        have h3 := clean_unparse oq e h.2.2
        cl
    | .lambda as b, h => by
        simp only [unparse]
        have h1 := clean_unparseArgs oq as h.1
        have h2 := clean_unparse oq b h.2
        cl
    | .namedExpr t v, h => by
        simp only [unparse]
        have h1 : TokClean (.name t) := tokClean_name _ h.1
        have h2 := clean_unparse oq v h.2
        cl
    | .listComp e gs, h => by
        simp only [unparse]
        have h1 := clean_unparse oq e h.1
        have h2 := clean_unparseComps oq gs h.2
        cl
    | .setComp e gs, h => by
        simp only [unparse]
        have h1 := clean_unparse oq e h.1
        have h2 := clean_unparseComps oq gs h.2
        cl
    | .generatorExp e gs, h => by
        simp only [unparse]
        have h1 := clean_unparse oq e h.1
        have h2 := clean_unparseComps oq gs h.2
        cl
    | .dictComp k v gs, h => by
        simp only [unparse]
        have h1 := clean_unparse oq k h.1
        have h2 := clean_unparse oq v h.2.1
        have h3 := clean_unparseComps oq gs h.2.2
        cl
    | .yield_ none, h => by simp only [unparse]; cl
    | .yield_ (some v), h => by
        simp only [unparse]
        have h1 := clean_unparse oq v h
        cl
    | .yieldFrom v, h => by
        simp only [unparse]
        have h1 := clean_unparse oq v h
        cl
    | .await v, h => by
        simp only [unparse]
        have h1 := clean_unparse oq v h
        cl

  theorem clean_unparseList (s : Slot) (oq : Quote) : ∀ es, okL es → ∀ ts ∈ unparseList s oq es, Clean ts
    | [], _ => by intro ts hts; simp [unparseList] at hts
    | e :: es, h => by
        intro ts hts
        simp only [unparseList, List.mem_cons] at hts
        rcases hts with rfl | hts
        · exact clean_wrap _ _ (clean_unparse oq e h.1)
        · exact clean_unparseList s oq es h.2 ts hts

  theorem clean_unparseOpt (s : Slot) (oq : Quote) : ∀ o, okO o → Clean (unparseOpt s oq o)
    | none, _ => by simp only [unparseOpt]; exact clean_nil
    | some e, h => by simp only [unparseOpt]; exact clean_wrap _ _ (clean_unparse oq e h)

  theorem clean_unparseJoined (q : Quote) : ∀ vs, okL vs → Clean (unparseJoined q vs)
    | [], _ => by simp only [unparseJoined]; exact clean_nil
    | e :: vs, h => by
        have ih := clean_unparseJoined q vs h.2
        have he := clean_unparse q e h.1
        cases e with
        | const c =>
          cases c with
          | str cps =>
            simp only [unparseJoined]
            have hc : okC (.str cps) := h.1
            exact clean_cons (doubleBraces_clean (escape_clean q cps hc)) ih
          | _ => simpa only [unparseJoined] using ih
        | formattedValue v conv spec =>
          simp only [unparseJoined]
          exact clean_append (clean_wrap _ _ he) ih
        | _ => simpa only [unparseJoined] using ih

  theorem clean_unparseSpec (q : Quote) : ∀ o, okO o → Clean (unparseSpec q o)
    | none, _ => by simp only [unparseSpec]; exact clean_nil
    | some e, h => by
        cases e with
        | joinedStr vs =>
          simp only [unparseSpec]
          have h' : okL vs := h
          exact clean_cons (op_clean _ (by decide)) (clean_unparseJoined q vs h')
        | _ => simp only [unparseSpec]; exact clean_nil

  theorem clean_unparseDictItems (oq : Quote) : ∀ its, okD its → ∀ ts ∈ unparseDictItems oq its, Clean ts
    | [], _ => by intro ts hts; simp [unparseDictItems] at hts
    | .mk (some k) v :: its, h => by
        intro ts hts
        simp only [unparseDictItems, List.mem_cons] at hts
        have h1 := clean_unparse oq k h.1
        have h2 := clean_unparse oq v h.2.1
        rcases hts with rfl | hts
        · cl
        · exact clean_unparseDictItems oq its h.2.2 ts hts
    | .mk none v :: its, h => by
        intro ts hts
        simp only [unparseDictItems, List.mem_cons] at hts
        have h2 := clean_unparse oq v h.2.1
        rcases hts with rfl | hts
        · cl
        · exact clean_unparseDictItems oq its h.2.2 ts hts

  theorem clean_unparseKeywords (oq : Quote) : ∀ ks, okK ks → ∀ ts ∈ unparseKeywords oq ks, Clean ts
    | [], _ => by intro ts hts; simp [unparseKeywords] at hts
    | .mk (some a) v :: ks, h => by
        intro ts hts
        simp only [unparseKeywords, List.mem_cons] at hts
        have h1 : TokClean (.name a) := tokClean_name _ h.1
        have h2 := clean_unparse oq v h.2.1
        rcases hts with rfl | hts
        · cl
        · exact clean_unparseKeywords oq ks h.2.2 ts hts
    | .mk none v :: ks, h => by
        intro ts hts
        simp only [unparseKeywords, List.mem_cons] at hts
        have h2 := clean_unparse oq v h.2.1
        rcases hts with rfl | hts
        · cl
        · exact clean_unparseKeywords oq ks h.2.2 ts hts

  theorem clean_unparseCmp (oq : Quote) : ∀ ops cs, okL cs → Clean (unparseCmp oq ops cs)
    | [], _, _ => by simp only [unparseCmp]; exact clean_nil
    | _ :: _, [], _ => by simp only [unparseCmp]; exact clean_nil
    | op :: ops, c :: cs, h => by
        simp only [unparseCmp]
        have h1 := cmpOp_clean op
        have h2 := clean_unparse oq c h.1
        have h3 := clean_unparseCmp oq ops cs h.2
        cl

  theorem clean_unparseComps (oq : Quote) : ∀ gs, okG gs → Clean (unparseComps oq gs)
    | [], _ => by simp only [unparseComps]; exact clean_nil
    | .mk t i ifs a :: gs, h => by
        simp only [unparseComps]
        have h1 := clean_unparse oq t h.1
        have h2 := clean_unparse oq i h.2.1
        have h3 := clean_unparseIfs oq ifs h.2.2.1
        have h4 := clean_unparseComps oq gs h.2.2.2
        have h5 : Clean (if a = true then [Tok.kw "async"] else []) :=
          clean_ite (clean_single (kw_clean _ (by decide))) clean_nil
        cl

  theorem clean_unparseIfs (oq : Quote) : ∀ cs, okL cs → Clean (unparseIfs oq cs)
    | [], _ => by simp only [unparseIfs]; exact clean_nil
    | c :: cs, h => by
        simp only [unparseIfs]
        have h1 := clean_unparse oq c h.1
        have h2 := clean_unparseIfs oq cs h.2
        cl

  theorem clean_unparseOptList (s : Slot) (oq : Quote) :
      ∀ ds, okOL ds → ∀ x ∈ unparseOptList s oq ds, ∀ d, x = some d → Clean d
    | [], _ => by intro x hx; simp [unparseOptList] at hx
    | none :: ds, h => by
        intro x hx d hd
        simp only [unparseOptList, List.mem_cons] at hx
        rcases hx with rfl | hx
        · cases hd
        · exact clean_unparseOptList s oq ds h x hx d hd
    | some e :: ds, h => by
        intro x hx d hd
        simp only [unparseOptList, List.mem_cons] at hx
        rcases hx with rfl | hx
        · cases hd; exact clean_wrap _ _ (clean_unparse oq e h.1)
        · exact clean_unparseOptList s oq ds h.2 x hx d hd

  theorem clean_unparseArgs (oq : Quote) : ∀ as, okA as → Clean (unparseArgs oq as)
    | .mk posonly args vararg kwonly kwDefaults kwarg defaults, h => by
        obtain ⟨hpo, has, hva, hko, hkd, hkw, hds⟩ := h
        have hD := clean_unparseList .lambdaDefault oq defaults hds
        have hK := clean_unparseOptList .lambdaKwDefault oq kwDefaults hkd
        have hnames : namesClean (posonly ++ args) := by
          intro a ha
          rcases List.mem_append.mp ha with ha | ha
          · exact hpo a ha
          · exact has a ha
        have hpos := alignDefaults_clean (posonly ++ args) _ hnames hD
        simp only [unparseArgs]
        apply clean_joinToks (clean_single clean_comma)
        apply mem_append_clean
        apply mem_append_clean
        apply mem_append_clean
        · split
          · exact hpos
          · apply mem_append_clean
            apply mem_append_clean
            · intro ts hts; exact hpos ts (List.mem_of_mem_take hts)
            · intro ts hts
              simp only [List.mem_cons, List.not_mem_nil, or_false] at hts
              subst hts
              exact clean_single (op_clean _ (by decide))
            · intro ts hts; exact hpos ts (List.mem_of_mem_drop hts)
        · cases vararg with
          | some v =>
            intro ts hts
            simp only [List.mem_cons, List.not_mem_nil, or_false] at hts
            subst hts
            exact clean_cons (op_clean _ (by decide)) (clean_single (tokClean_name _ hva))
          | none =>
            simp only []
            split
            · intro ts hts; cases hts
            · intro ts hts
              simp only [List.mem_cons, List.not_mem_nil, or_false] at hts
              subst hts
              exact clean_single (op_clean _ (by decide))
        · intro ts hts
          simp only [List.mem_map] at hts
          obtain ⟨⟨a, d⟩, had, rfl⟩ := hts
          have h1 := List.of_mem_zip had
          apply paramToks_clean a d (hko a h1.1)
          intro x hx
          rcases List.mem_append.mp h1.2 with h2 | h2
          · exact hK d h2 x hx
          · rw [List.mem_replicate] at h2
            rw [h2.2] at hx; cases hx
        · cases kwarg with
          | some k =>
            intro ts hts
            simp only [List.mem_cons, List.not_mem_nil, or_false] at hts
            subst hts
            exact clean_cons (op_clean _ (by decide)) (clean_single (tokClean_name _ hkw))
          | none => intro ts hts; cases hts
end

/-- the whole output of the custom unparser -/
theorem clean_unparseTop (e : Expr) (h : okE e) : Clean (unparseTop e) :=
  clean_wrap _ _ (clean_unparse .dq e h)

end OlVerif
