/-
  Well-formed expression trees: the shapes `ast.parse` can produce (and the converter emits).
  `ast` itself allows more (a `Starred` anywhere, a `BoolOp` with one value, a negative
  `Constant`, …); for those "the same tree comes back" is not even meaningful.
-/
import OlVerif.Unparse.Model

namespace OlVerif

/-- constants the parser produces: no negative numbers (those are `UnaryOp`s), strings of valid
    code points, and for the literals whose text is CPython's `repr` a single token -/
def wfC : Const → Prop
  | .none | .true_ | .false_ | .ellipsis => True
  | .int n => 0 ≤ n
  | .str cps => ∀ c ∈ cps, c < 0x110000
  | .bytes r => True
  | .float r => ∃ t, lexRepr (replaceInf r) = [t]
  | .complex r => ∃ t, lexRepr (replaceInf r) = [t]

def isConstStrE : Expr → Bool
  | .const (.str _) => true
  | _ => false

/-- the literal text of a format spec holds no brace.  Inside a format spec CPython (3.12+) does not read
    `{{` / `}}` as escaped braces, so a spec whose literal text contains a brace (writable only through an
    escape, `f'{x:\x7b}'`) has no text of the doubled form: such trees are outside the well-formed class
    (known finding KF-D75: both unparsers double the braces there). -/
def specNoBrace : List Expr → Bool
  | [] => true
  | .const (.str cps) :: vs => cps.all (fun c => c != 123 && c != 125) && specNoBrace vs
  | _ :: vs => specNoBrace vs

/-- kinds that can be a comprehension target -/
def targetKind : Expr → Bool
  | .name _ | .tuple _ | .list _ | .attribute .. | .subscript .. => true
  | _ => false

mutual
  /-- a well-formed expression in an ordinary position -/
  def wfE : Expr → Prop
    | .name _ => True
    | .const c => wfC c
    | .joinedStr vs => wfParts vs
    | .formattedValue .. => False
    | .list es => wfElts es
    | .tuple es => wfElts es
    | .set es => es ≠ [] ∧ wfElts es
    | .dict items => wfItems items
    | .starred _ => False
    | .attribute v _ => wfE v
    | .subscript v s => wfE v ∧ wfSlice s
    | .slice .. => False
    | .call f as ks => wfE f ∧ wfElts as ∧ wfKws ks
    | .binOp a _ b => wfE a ∧ wfE b
    | .boolOp _ vs => 2 ≤ vs.length ∧ wfL vs
    | .unaryOp _ v => wfE v
    | .compare l ops cs => wfE l ∧ ops.length = cs.length ∧ ops ≠ [] ∧ wfL cs
    | .ifExp t b e => wfE t ∧ wfE b ∧ wfE e
    | .lambda as b => wfA as ∧ wfE b
    | .namedExpr _ v => wfE v
    | .listComp e gs => wfE e ∧ gs ≠ [] ∧ wfG gs
    | .setComp e gs => wfE e ∧ gs ≠ [] ∧ wfG gs
    | .generatorExp e gs => wfE e ∧ gs ≠ [] ∧ wfG gs
    | .dictComp k v gs => wfE k ∧ wfE v ∧ gs ≠ [] ∧ wfG gs
    | .yield_ v => wfO v
    | .yieldFrom v => wfE v
    | .await v => wfE v
  def wfL : List Expr → Prop
    | [] => True
    | e :: es => wfE e ∧ wfL es
  def wfO : Option Expr → Prop
    | none => True
    | some e => wfE e
  def wfOL : List (Option Expr) → Prop
    | [] => True
    | none :: es => wfOL es
    | some e :: es => wfE e ∧ wfOL es
  /-- elements that may be starred -/
  def wfElts : List Expr → Prop
    | [] => True
    | .starred v :: es => wfE v ∧ wfElts es
    | e :: es => wfE e ∧ wfElts es
  def wfItems : List DictItem → Prop
    | [] => True
    | .mk none v :: its => wfE v ∧ wfItems its
    | .mk (some k) v :: its => wfE k ∧ wfE v ∧ wfItems its
  def wfKws : List Keyword → Prop
    | [] => True
    | .mk _ v :: ks => wfE v ∧ wfKws ks
  def wfG : List Comp → Prop
    | [] => True
    | .mk t i ifs _ :: gs => targetKind t = true ∧ wfE t ∧ wfE i ∧ wfL ifs ∧ wfG gs
  /-- the index of a subscript: a slice, a tuple holding slices, or an ordinary expression -/
  def wfSlice : Expr → Prop
    | .slice a b c => wfO a ∧ wfO b ∧ wfO c
    | .tuple es => if es.any isSlice then wfSliceElts es else wfElts es
    | .starred _ => False
    | e => wfE e
  def wfSliceElts : List Expr → Prop
    | [] => True
    | .slice a b c :: es => wfO a ∧ wfO b ∧ wfO c ∧ wfSliceElts es
    | .starred v :: es => wfE v ∧ wfSliceElts es
    | e :: es => wfE e ∧ wfSliceElts es
  /-- the values of a `JoinedStr`: non-empty string constants, never two in a row, and
      replacement fields -/
  def wfParts : List Expr → Prop
    | [] => True
    | .const (.str cps) :: vs =>
        (∀ c ∈ cps, c < 0x110000) ∧ cps ≠ [] ∧ (vs.head?.map isConstStrE ≠ some true) ∧ wfParts vs
    | .formattedValue v conv spec :: vs =>
        wfE v ∧ conv ∈ [(-1 : Int), 114, 115, 97] ∧ wfSpec spec ∧ wfParts vs
    | _ :: _ => False
  def wfSpec : Option Expr → Prop
    | none => True
    | some (.joinedStr vs) => wfParts vs ∧ specNoBrace vs = true
    | some _ => False
  def wfA : Arguments → Prop
    | .mk po as _ ko kd _ ds => ds.length ≤ (po ++ as).length ∧ kd.length = ko.length ∧ wfL ds ∧ wfOL kd
end

end OlVerif
